------------------------------ MODULE LayoutPipe ------------------------------
(***************************************************************************)
(* C15.  End-to-end layout as a state machine over the operators of        *)
(* LayoutPipeOps: a font is assembled table by table from menus (the       *)
(* quantifier "for all fonts / kern tables / script lists"), then the API  *)
(* is called:                                                              *)
(*                                                                         *)
(*   Begin(lang, swg, swp)   Font.NewLayouter: chooses the         *)
(*                           language systems and selects the lookups      *)
(*   Type(c), TypeWord(w)    the caller's string                           *)
(*   StCmap, StGsub, StWidths, StGpos                                      *)
(*                           the four critical sections of Layouter.Layout *)
(*                           (layout.go:74-99), one action each            *)
(*   Find(lang, on)          gtab Info.FindLookups on the GSUB table    *)
(*                                                                         *)
(* The choice of a language system for a request tag is a function that is *)
(* extended on first use and never changed (chG, chP): "the same on every  *)
(* call".  TLC checks on the model that selection results are sorted,      *)
(* duplicate-free, in range and contain the required feature; that text is *)
(* conserved by every stage; that the staged pipeline equals the           *)
(* functional definition; that inert rule sets give the identity mapping;  *)
(* that equal calls give equal answers; and the defining cases of the kern *)
(* fold.  With Gen = TRUE every finished behaviour is printed as a case    *)
(* for the real code (inputs only: the recorded execution of the real code *)
(* is judged by LayoutPipeTrace.tla).                                      *)
(***************************************************************************)
EXTENDS LayoutPipeOps, TLC, Json

CONSTANTS
  Mode,        \* "layout" | "find" | "kern"
  Gen,         \* TRUE: emit cases
  CmapMenu,    \* sequence of cmap tables (sequences of subtables [p, e, ok, kind, m])
  WidthMenu,   \* sequence of width vectors (index = glyph id + 1)
  MarkMenu,    \* sequence of mark-glyph sequences (<<>> = no GDEF)
  PlanMenu,    \* sequence of [gl, gf, gs, pl, pf, ps, k]: sizes of the tables to build
  GsubMenu, GposMenu,     \* lookups
  FeatTagsG, FeatTagsP,   \* feature tags
  LkMenu,      \* lookup-index sequences of a feature
  ReqMenu,     \* required-feature indices
  OptMenu,     \* optional-feature index sequences
  TagPool,     \* language systems' tags [tag, script, lang], in a fixed order
  ReqPool,     \* request tags [tag, script, lang]
  SwMenuG, SwMenuP,       \* switch maps [nil, on]
  FlagMenu,    \* kern subtable flags [horiz, min, cross, over]
  PairsMenu,   \* kern subtable pair lists
  Chars,       \* characters of the strings
  Words,       \* sequence of character sequences that are typed at once (ligature candidates)
  MaxStr, MaxCalls

VARIABLES
  phase,   \* "build" | "api" | "done"
  sec,     \* build section 1..8
  plan,
  F,       \* the font file
  rd,      \* the reading of the points the property leaves open (see Readings)
  chG, chP,\* request tag -> chosen language system (grows, never changes)
  cur,     \* the layouter: [lang, swg, swp, lg, lp, n] or NoLay; its lookups are CurGl, CurPl
  stage,   \* "idle" | "cmap" | "gsub" | "widths" | "gpos"
  txt, buf,
  calls    \* history of finished calls

vars == <<phase, sec, plan, F, rd, chG, chP, cur, stage, txt, buf, calls>>

LigGlyphs == <<9, 10, 13, 14, 15>>      \* GDEF class ligature, in fonts that have a GDEF table

NoLay == [lang |-> "none", n |-> 1]

Init ==
  /\ phase = "build" /\ sec = 1
  /\ plan \in ToSet(PlanMenu)
  /\ \E c \in ToSet(CmapMenu), w \in ToSet(WidthMenu), m \in ToSet(MarkMenu) :
       F = [cm |-> c,
            widths |-> w, marks |-> m, ligs |-> IF m = <<>> THEN <<>> ELSE LigGlyphs, gsub |-> NoTable, gpos |-> NoTable, kern |-> NoKern,
            read |-> FALSE]
  /\ rd = <<"min", "req", "nolig">>
  /\ chG = <<>> /\ chP = <<>> /\ cur = NoLay /\ stage = "idle" /\ txt = <<>> /\ buf = <<>>
  /\ calls = <<>>

---------------------------------------------------------------------------
(* Building the font.  Sections 1-3 GSUB (lookups, features, language      *)
(* systems), 4-6 GPOS, 7 kern subtables, 8 seal.                           *)
Tab(k) == IF k <= 3 THEN F.gsub ELSE F.gpos
SetTab(k, T) == IF k <= 3 THEN [F EXCEPT !.gsub = T] ELSE [F EXCEPT !.gpos = T]

\* language systems are added in pool order, so that every set of tags has one build path
NextTags(T) ==
  LET used == {i \in 1..Len(TagPool) : \E j \in 1..Len(T.sl) : T.sl[j].tag = TagPool[i].tag}
      lo   == IF used = {} THEN 0 ELSE Max(used)
      need == (IF sec = 3 THEN plan.gs ELSE plan.ps) - Len(T.sl)      \* still to add, incl. this one
  IN  {i \in (lo + 1)..Len(TagPool) : Len(TagPool) - i >= need - 1}

Build ==
  /\ phase = "build" /\ sec <= 7
  /\ UNCHANGED <<phase, plan, rd, chG, chP, cur, stage, txt, buf, calls>>
  /\ LET want == CASE sec = 1 -> plan.gl [] sec = 2 -> plan.gf [] sec = 3 -> plan.gs
                   [] sec = 4 -> plan.pl [] sec = 5 -> plan.pf [] sec = 6 -> plan.ps
                   [] sec = 7 -> plan.k  [] OTHER -> 0
         have == CASE sec \in {1, 4} -> Len(Tab(sec).ll) [] sec \in {2, 5} -> Len(Tab(sec).fl)
                   [] sec \in {3, 6} -> Len(Tab(sec).sl) [] sec = 7 -> Len(F.kern.subs)
                   [] OTHER -> 0
     IN IF have >= want
          THEN sec' = sec + 1 /\ UNCHANGED F
          ELSE /\ sec' = sec
               /\ CASE sec \in {1, 4} ->
                         \E lk \in ToSet(IF sec = 1 THEN GsubMenu ELSE GposMenu) :
                           F' = SetTab(sec, [Tab(sec) EXCEPT !.ll = Append(@, lk)])
                    [] sec \in {2, 5} ->
                         \E tg \in ToSet(IF sec = 2 THEN FeatTagsG ELSE FeatTagsP), lk \in ToSet(LkMenu) :
                           F' = SetTab(sec, [Tab(sec) EXCEPT !.fl = Append(@, [tag |-> tg, lk |-> lk])])
                    [] sec \in {3, 6} ->
                         \E i \in NextTags(Tab(sec)), rq \in ToSet(ReqMenu), op \in ToSet(OptMenu) :
                           F' = SetTab(sec, [Tab(sec) EXCEPT
                                  !.present = TRUE,
                                  !.sl = Append(@, [tag |-> TagPool[i].tag, script |-> TagPool[i].script,
                                                    lang |-> TagPool[i].lang, req |-> rq, opt |-> op])])
                    [] sec = 7 ->
                         \E fl \in ToSet(FlagMenu), ps \in ToSet(PairsMenu) :
                           F' = [F EXCEPT !.kern = [present |-> TRUE,
                                   subs |-> Append(@.subs, [horiz |-> fl.horiz, min |-> fl.min, cross |-> fl.cross,
                                                            over |-> fl.over, pairs |-> ps])]]

\* a table without language systems is no table; a kern table exists only in a file
Seal ==
  /\ phase = "build" /\ sec = 8
  /\ \E r \in BOOLEAN :
       /\ F.kern.present => r
       /\ Mode = "find" => ~r               \* FindLookups is called on the table, no file involved
       /\ F' = [F EXCEPT !.read = r,
                         !.gsub = IF @.present THEN @ ELSE NoTable,
                         !.gpos = IF @.present THEN @ ELSE NoTable]
       \* the readings that make a difference for this file
       /\ rd' \in {x \in Readings :
                    /\ x[1] = "over" => \E k \in 1..Len(F.kern.subs) : F.kern.subs[k].min /\ F.kern.subs[k].over
                    /\ x[2] = "opt" => (r /\ ~F.gsub.present)
                    /\ x[3] = "lig" => (r /\ ~F.gsub.present /\ ~Proportional(F.widths))}
  /\ phase' = "api"
  /\ UNCHANGED <<sec, plan, chG, chP, cur, stage, txt, buf, calls>>

---------------------------------------------------------------------------
(* The API. *)
G == EffGsub(F, rd[2], rd[3])
P == EffGpos(F, rd[1])
CandT(T) == IF T.present THEN Cand(T.sl) ELSE {0}

Chosen(ch, T, tag) == IF tag \in DOMAIN ch THEN {ch[tag]} ELSE CandT(T)
Extend(ch, tag, i) == [t \in DOMAIN ch \cup {tag} |-> IF t = tag THEN i ELSE ch[t]]

\* the lookups NewLayouter selected (a function of the layouter's fields)
CurGl == Selected(G, "GSUB", cur.lg, cur.swg)
CurPl == Selected(P, "GPOS", cur.lp, cur.swp)

CanCall == phase = "api" /\ stage = "idle" /\ Len(calls) < MaxCalls

Begin(lang, swg, swp) ==
  /\ CanCall /\ Mode # "find" /\ txt = <<>>
  /\ cur.n > 0                         \* every layouter is used at least once
  /\ \E lg \in Chosen(chG, G, lang.tag), lp \in Chosen(chP, P, lang.tag) :
       /\ chG' = Extend(chG, lang.tag, lg) /\ chP' = Extend(chP, lang.tag, lp)
       /\ cur' = [lang |-> lang, swg |-> swg, swp |-> swp, lg |-> lg, lp |-> lp, n |-> 0]
  /\ UNCHANGED <<phase, sec, plan, F, rd, stage, txt, buf, calls>>

Type(c) ==
  /\ CanCall /\ cur # NoLay /\ Len(txt) < MaxStr
  /\ txt' = Append(txt, c)
  /\ UNCHANGED <<phase, sec, plan, F, rd, chG, chP, cur, stage, buf, calls>>

TypeWord(w) ==
  /\ CanCall /\ cur # NoLay /\ Len(txt) + Len(w) <= MaxStr
  /\ txt' = txt \o w
  /\ UNCHANGED <<phase, sec, plan, F, rd, chG, chP, cur, stage, buf, calls>>

StCmap ==
  /\ CanCall /\ cur # NoLay
  /\ buf' = StageCmap(F, txt) /\ stage' = "gsub"
  /\ UNCHANGED <<phase, sec, plan, F, rd, chG, chP, cur, txt, calls>>

StGsub ==
  /\ stage = "gsub"
  /\ buf' = StageGsub(F, G, CurGl, buf) /\ stage' = "widths"
  /\ UNCHANGED <<phase, sec, plan, F, rd, chG, chP, cur, txt, calls>>

StWidths ==
  /\ stage = "widths"
  /\ buf' = StageWidths(F, buf) /\ stage' = "gpos"
  /\ UNCHANGED <<phase, sec, plan, F, rd, chG, chP, cur, txt, calls>>

StGpos ==
  /\ stage = "gpos"
  /\ LET out == StageGpos(F, P, CurPl, buf) IN
       /\ buf' = out
       /\ calls' = Append(calls, [op |-> "layout", lang |-> cur.lang, swg |-> cur.swg, swp |-> cur.swp,
                                  s |-> txt, lg |-> cur.lg, lp |-> cur.lp, gl |-> CurGl, pl |-> CurPl,
                                  out |-> out])
  /\ stage' = "idle" /\ txt' = <<>> /\ cur' = [cur EXCEPT !.n = 1]
  /\ UNCHANGED <<phase, sec, plan, F, rd, chG, chP>>

Find(lang, on) ==
  /\ CanCall /\ Mode = "find" /\ F.gsub.present
  /\ \E lg \in Chosen(chG, F.gsub, lang.tag) :
       /\ chG' = Extend(chG, lang.tag, lg)
       /\ calls' = Append(calls, [op |-> "find", lang |-> lang, on |-> on, lg |-> lg])
  /\ UNCHANGED <<phase, sec, plan, F, rd, chP, cur, stage, txt, buf>>

Finish ==
  /\ phase = "api" /\ stage = "idle" /\ Len(calls) = MaxCalls
  /\ phase' = "done"
  /\ UNCHANGED <<sec, plan, F, rd, chG, chP, cur, stage, txt, buf, calls>>

Next ==
  \/ Build \/ Seal
  \/ \E lang \in ToSet(ReqPool), swg \in ToSet(SwMenuG), swp \in ToSet(SwMenuP) : Begin(lang, swg, swp)
  \/ \E c \in Chars : Type(c)
  \/ \E w \in ToSet(Words) : TypeWord(w)
  \/ StCmap \/ StGsub \/ StWidths \/ StGpos
  \/ \E lang \in ToSet(ReqPool), sw \in ToSet(SwMenuG) : ~sw.nil /\ Find(lang, sw.on)
  \/ Finish

Spec == Init /\ [][Next]_vars

---------------------------------------------------------------------------
(* What TLC checks on the model. *)

\* selection: ascending without duplicates, in range, the required feature's lookups
\* included, nothing included that no feature of the language system offers
SelOK(T, li, sel, on) ==
  /\ \A i \in 1..Len(sel) : sel[i] >= 0 /\ sel[i] < Len(T.ll)
  /\ \A i \in 1..(Len(sel) - 1) : sel[i] < sel[i + 1]
  /\ LET ls  == T.sl[li]
         inr(f) == {l \in ToSet(T.fl[f + 1].lk) : l < Len(T.ll)}
     IN  /\ ls.req < Len(T.fl) => inr(ls.req) \subseteq ToSet(sel)
         /\ \A l \in ToSet(sel) :
              \/ ls.req < Len(T.fl) /\ l \in inr(ls.req)
              \/ \E j \in 1..Len(ls.opt) : /\ ls.opt[j] < Len(T.fl) /\ l \in inr(ls.opt[j])
                                           /\ T.fl[ls.opt[j] + 1].tag \in on
         /\ \A j \in 1..Len(ls.opt) :
              (ls.opt[j] < Len(T.fl) /\ T.fl[ls.opt[j] + 1].tag \in on) => inr(ls.opt[j]) \subseteq ToSet(sel)

FindRes(c) == FindLookupsSpec(F.gsub, F.gsub.sl[c.lg], ToSet(c.on))

SelectionOK ==
  /\ cur # NoLay =>
       /\ G.present => SelOK(G, cur.lg, CurGl, OnSet("GSUB", cur.swg))
       /\ P.present => SelOK(P, cur.lp, CurPl, OnSet("GPOS", cur.swp))
       /\ ~G.present => CurGl = <<>>
       /\ ~P.present => CurPl = <<>>
  /\ \A i \in 1..Len(calls) :
       calls[i].op = "find" => SelOK(F.gsub, calls[i].lg, FindRes(calls[i]), ToSet(calls[i].on))

\* every stage conserves the text: the characters of the items, in order, are the string
\* every character of the text is carried by exactly one glyph (a bag: a ligature formed across a skipped mark
\* moves the mark behind the new glyph, so the order of the characters may change)
Conserved ==
  stage # "idle" => SortSeq(TextOf(buf), LAMBDA a, b : a < b) = SortSeq(txt, LAMBDA a, b : a < b)

\* between the width stage and GPOS: marks have no advance, every other glyph the font's
WidthsOK ==
  stage = "gpos" => \A i \in 1..Len(buf) :
                      /\ buf[i].a = IF buf[i].g \in ToSet(F.marks) THEN 0 ELSE F.widths[buf[i].g + 1]
                      /\ buf[i].x = 0 /\ buf[i].y = 0

\* the selected lookups leave the sequence as it is
Inert(kind, T, sel, seq) ==
  \A i \in 1..Len(sel) : ApplyLookup(kind, F, T.ll[sel[i] + 1], seq) = seq

LastCall == calls[Len(calls)]

\* the staged pipeline is the functional definition; inert rule sets give the identity
Composition ==
  (Len(calls) > 0 /\ LastCall.op = "layout") =>
    LET c == LastCall
        m == StageCmap(F, c.s)
    IN  /\ c.out = Layout(F, c.s, c.swg, c.swp, c.lg, c.lp, rd)
        /\ (Inert("GSUB", G, c.gl, m) /\ Inert("GPOS", P, c.pl, StageWidths(F, m))) => c.out = Identity(F, c.s)
        /\ SortSeq(TextOf(c.out), LAMBDA a, b : a < b) = SortSeq(c.s, LAMBDA a, b : a < b)     \* as a bag (see Conserved)

\* equal calls, equal answers
Stable ==
  \A i, j \in 1..Len(calls) :
    (calls[i].op = calls[j].op /\ calls[i].lang.tag = calls[j].lang.tag) =>
      /\ calls[i].lg = calls[j].lg
      /\ calls[i].op = "layout" =>
           /\ calls[i].lp = calls[j].lp
           /\ (calls[i].swg = calls[j].swg /\ calls[i].swp = calls[j].swp /\ calls[i].s = calls[j].s)
                => calls[i].out = calls[j].out
      /\ (calls[i].op = "find" /\ ToSet(calls[i].on) = ToSet(calls[j].on)) => FindRes(calls[i]) = FindRes(calls[j])

\* defining cases of the kern fold
KernOK ==
  (phase = "api" /\ F.kern.present /\ calls = <<>> /\ cur = NoLay) =>      \* (a property of the font alone)
    \A pr \in KernPairSet(F.kern.subs) :
      LET us == SelectSeq(F.kern.subs, LAMBDA st : KernUsable(st) /\ KernEntry(st, pr[1], pr[2]) # 0)
          val(st) == st.pairs[KernEntry(st, pr[1], pr[2])][3]
          v  == KernFold(F.kern.subs, pr[1], pr[2], rd[1])
      IN  /\ Len(us) >= 1
          /\ (\A k \in 1..Len(us) : ~us[k].min /\ ~us[k].over) =>
               v = FoldLeft(LAMBDA a, st : a + val(st), 0, us)
          /\ (us[Len(us)].over /\ ~us[Len(us)].min) => v = val(us[Len(us)])
          /\ (us[Len(us)].min /\ ~us[Len(us)].over) => v >= val(us[Len(us)])

\* a kern-only file kerns each pair by the folded value (two-glyph strings, no ligature)
KernExact ==
  (Len(calls) > 0 /\ LastCall.op = "layout" /\ F.kern.present /\ ~F.gpos.present /\ Len(LastCall.out) = 2
     /\ Len(LastCall.s) = 2 /\ LastCall.out[1].g \notin ToSet(F.marks)) =>
    LastCall.out[1].a = F.widths[LastCall.out[1].g + 1]
                        + KernFold(F.kern.subs, LastCall.out[1].g, LastCall.out[2].g, rd[1])

---------------------------------------------------------------------------
CallIn(c) ==
  IF c.op = "find"
    THEN LET it == SetToSortSeq(Intended(F.gsub.sl, c.lang), LAMBDA a, b : a < b)
         IN  [op |-> "find", lang |-> c.lang, on |-> c.on, intended |-> it,
              want |-> IF Len(it) = 1 THEN FindLookupsSpec(F.gsub, F.gsub.sl[it[1]], ToSet(c.on)) ELSE <<-1>>]
    ELSE [op |-> "layout", lang |-> c.lang, swg |-> c.swg, swp |-> c.swp, s |-> c.s]

Emit == (Gen /\ phase = "done") =>
          PrintT(<<"CASE", ToJson([kind |-> Mode, font |-> F,
                                   calls |-> [i \in 1..Len(calls) |-> CallIn(calls[i])]])>>)
=============================================================================
