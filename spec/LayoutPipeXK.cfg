CONSTANTS
  Mode = "kern"
  Gen = FALSE
  CmapMenu <- XKCmapMenu
  WidthMenu <- XLWidthMenu
  MarkMenu <- NoPairs
  PlanMenu <- XKPlanMenu
  GsubMenu <- XLGsubMenu
  GposMenu <- XLGposMenu
  FeatTagsG <- XLFeatTagsG
  FeatTagsP <- XLFeatTagsP
  LkMenu <- XLLkMenu
  ReqMenu <- XLReqMenu
  OptMenu <- XLOptMenu
  TagPool <- XLTagPool
  ReqPool <- XFReqPool
  SwMenuG <- GKSwMenuG
  SwMenuP <- GKSwMenuG
  FlagMenu <- XKFlagMenu
  PairsMenu <- XKPairsMenu
  Chars <- XKChars
  Words <- NoWords
  MaxStr = 2
  MaxCalls = 1
INIT Init
NEXT Next
INVARIANT SelectionOK
INVARIANT Conserved
INVARIANT WidthsOK
INVARIANT Composition
INVARIANT Stable
INVARIANT KernOK
INVARIANT KernExact
INVARIANT Emit
CHECK_DEADLOCK FALSE
