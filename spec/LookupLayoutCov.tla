--------------------------- MODULE LookupLayoutCov ---------------------------
(***************************************************************************)
(* C08, coverage tables and class definition tables (binding R).           *)
(* TLC enumerates run structures over the full 16-bit glyph range -- runs  *)
(* of 1..4 glyphs separated by gaps of 1, 2 or many glyphs (class          *)
(* definitions also gap 0 between different classes), starting at glyph 0, *)
(* 1 or 7, or shifted so that the last glyph is 0xFFFF -- and computes,    *)
(* from the OpenType formats, both encodings as sequences of 16-bit words, *)
(* their sizes and the set of formats of minimal size:                     *)
(*   Coverage  1: format, glyphCount, glyphs[]            4 + 2n bytes     *)
(*             2: format, rangeCount, (start, end, startCoverageIndex)[]   *)
(*                                                        4 + 6r bytes     *)
(*   ClassDef  1: format, startGlyph, glyphCount, classes[]  6 + 2(span)   *)
(*             2: format, rangeCount, (start, end, class)[]  4 + 6r        *)
(* Coverage indices are 0..n-1 in increasing glyph order by construction   *)
(* (the i-th glyph of the ascending list has index i-1).  The harness      *)
(* (c08 cov) demands: emitted words = one of the minimal encodings,        *)
(* EncodeLen/AppendLen = emitted length, decoding = the glyph list.        *)
(*                                                                         *)
(* Degenerate populations of the in-memory types (ride along with "cdef"): *)
(*  classdef.Table is a map glyph -> class; a glyph without an entry is in *)
(*  class 0, so an entry with class 0 carries no information.  NORMAL FORM *)
(*  NF(t) = the entries of t with class # 0.  DegCases: no entry (nil and  *)
(*  empty map), one entry, entries at glyph 0 and 65535, and explicit      *)
(*  class-0 entries: alone (all-zero tables), below the lowest, above the  *)
(*  highest non-zero glyph, adjacent to the first / last one, in a gap.    *)
(*  coverage.Set is a map glyph -> bool whose members are its KEYS (the    *)
(*  library tests membership by key); NF(s) = the key set.  SetCases: nil, *)
(*  empty, single, glyph 0 / 65535, with false values on some / all keys.  *)
(* Demand for these (any well-formed encoding is accepted, zeros may be    *)
(* kept or dropped): declared length = emitted length, the bytes are one   *)
(* complete table, decode(encode(x)) = NF(x), and no refusal.              *)
(***************************************************************************)
EXTENDS Integers, Sequences, FiniteSets, TLC, Json, SequencesExt

CONSTANTS Mode,      \* "cov" | "cdef" | "dense"
          MaxSegs,   \* 0..MaxSegs runs
          Gaps,      \* gaps between runs
          Runs,      \* run lengths
          Starts,    \* first glyph
          Classes    \* class values (cdef)

VARIABLE rec

SegRecs == [gap : Gaps, run : Runs, cls : Classes]
Shapes == UNION {[1..k -> SegRecs] : k \in 0..MaxSegs}

\* well-formed: runs are maximal (gap 0 only between different classes; coverage has no gap 0)
WF(s) == \A i \in 2..Len(s) : s[i].gap = 0 => (Mode = "cdef" /\ s[i].cls # s[i - 1].cls)

\* glyph and range counts at the 8-bit carry: 255, 256, 257 runs of 1 glyph (format 1 is smaller) or
\* 4 glyphs (format 2 is smaller; class definitions alternate two classes, gap 0 and 1)
ManyShapes == { [i \in 1..k |-> [gap |-> g, run |-> r, cls |-> 1 + (i % 2)]] : k \in {255, 256, 257}, r \in {1, 4}, g \in {0, 1} }
Cases == { [s |-> s, start |-> st, hi |-> h] : s \in {x \in Shapes \cup ManyShapes : WF(x)}, st \in Starts, h \in BOOLEAN }

\* Bounds(c)[i] = <<first glyph, last glyph, coverage index of the first glyph>> of run i,
\* before the shift that moves the last glyph to 0xFFFF
RawBounds(c) ==
  FoldLeft(LAMBDA acc, seg :
             LET f == IF acc = <<>> THEN c.start ELSE acc[Len(acc)][2] + 1 + seg.gap
                 i == IF acc = <<>> THEN 0 ELSE acc[Len(acc)][3] + (acc[Len(acc)][2] - acc[Len(acc)][1] + 1)
             IN Append(acc, <<f, f + seg.run - 1, i>>),
           <<>>, c.s)
Bounds(c) ==
  LET rb == RawBounds(c)
      sh == IF c.hi /\ rb # <<>> THEN 65535 - rb[Len(rb)][2] ELSE 0
  IN [i \in 1..Len(rb) |-> <<rb[i][1] + sh, rb[i][2] + sh, rb[i][3]>>]

GlyphsOf(c, b) == FlattenSeq([i \in 1..Len(b) |-> [k \in 1..c.s[i].run |-> b[i][1] + k - 1]])
CovEnc1(c, b) == LET g == GlyphsOf(c, b) IN <<1, Len(g)>> \o g
CovEnc2(c, b) == <<2, Len(b)>> \o FlattenSeq([i \in 1..Len(b) |-> b[i]])

SpanOf(b) == IF b = <<>> THEN 0 ELSE b[Len(b)][2] - b[1][1] + 1
\* format 1 of a class definition: the classes of the runs with zeros in the gaps
CDefEnc1(c, b) ==
  IF b = <<>> THEN <<1, 0, 0>>
  ELSE <<1, b[1][1], SpanOf(b)>> \o
       FlattenSeq([i \in 1..Len(b) |->
           [k \in 1..(IF i = 1 THEN 0 ELSE b[i][1] - b[i - 1][2] - 1) |-> 0] \o [k \in 1..c.s[i].run |-> c.s[i].cls]])
CDefEnc2(c, b) == <<2, Len(b)>> \o FlattenSeq([i \in 1..Len(b) |-> <<b[i][1], b[i][2], c.s[i].cls>>])
PairsOf(c, b) == FlattenSeq([i \in 1..Len(b) |-> [k \in 1..c.s[i].run |-> <<b[i][1] + k - 1, c.s[i].cls>>]])

Allowed(e1, e2) == (IF Len(e1) <= Len(e2) THEN {1} ELSE {}) \cup (IF Len(e2) <= Len(e1) THEN {2} ELSE {})

InRange(c) == LET b == Bounds(c) IN b = <<>> \/ (b[1][1] >= 0 /\ b[Len(b)][2] <= 65535)

Out(c) == LET b == Bounds(c) IN
          IF Mode = "cov"
            THEN LET e1 == CovEnc1(c, b)  e2 == CovEnc2(c, b)
                 IN [what |-> "cov", glyphs |-> GlyphsOf(c, b), pairs |-> <<>>,
                     allowed |-> Allowed(e1, e2), enc1 |-> e1, enc2 |-> e2]
            ELSE LET e1 == CDefEnc1(c, b)  e2 == CDefEnc2(c, b)
                 IN [what |-> "cdef", glyphs |-> <<>>, pairs |-> PairsOf(c, b),
                     allowed |-> Allowed(e1, e2), enc1 |-> e1, enc2 |-> e2]

\* Mode "dense": every glyph of a..b has a class, alternating 1, 2: b-a+1 one-glyph ranges.
\* Format 1 needs glyphCount = b-a+1 and format 2 needs classRangeCount = b-a+1 in a uint16:
\* with all 65536 glyphs neither format can hold the table and the encoder must refuse.
DenseCases == [a : {0, 1}, b : {65534, 65535}]
DenseOut(c) == LET span == c.b - c.a + 1 IN
  [what |-> "dense", a |-> c.a, b |-> c.b, span |-> span, representable |-> span <= 65535,
   size |-> IF 6 + 2 * span <= 4 + 6 * span THEN 6 + 2 * span ELSE 4 + 6 * span]

\* ---- degenerate populations
DegNZ == { <<>>, << <<100, 1>> >>, << <<100, 1>>, <<101, 1>>, <<105, 2>> >>, << <<0, 1>> >>, << <<65535, 2>> >>,
           << <<0, 1>>, <<65535, 1>> >> }
ZeroCand == {0, 50, 99, 102, 106, 300, 65535}
PairGlyphs(p) == {p[i][1] : i \in 1..Len(p)}
DegCases == UNION { { [nz |-> p, zs |-> z, isnil |-> FALSE] :
                        z \in {x \in SUBSET ZeroCand : Cardinality(x) <= 2 /\ x \cap PairGlyphs(p) = {}} } : p \in DegNZ }
            \cup {[nz |-> <<>>, zs |-> {}, isnil |-> TRUE]}
DegOut(c) == [what |-> "cdefdeg", isnil |-> c.isnil, nf |-> c.nz,
              pairs |-> SetToSortSeq({c.nz[i] : i \in 1..Len(c.nz)} \cup {<<g, 0>> : g \in c.zs}, LAMBDA a, b : a[1] < b[1])]
SetKeys == { <<>>, <<5>>, <<0>>, <<65535>>, <<0, 65535>>, <<5, 6, 7>> }
SetCases == UNION { { [keys |-> k, falses |-> f, isnil |-> FALSE] : f \in SUBSET {k[i] : i \in 1..Len(k)} } : k \in SetKeys }
            \cup {[keys |-> <<>>, falses |-> {}, isnil |-> TRUE]}
SetOut(c) == [what |-> "setdeg", isnil |-> c.isnil, keys |-> c.keys, falses |-> c.falses]
IsDeg(c) == "nz" \in DOMAIN c
IsSet(c) == "keys" \in DOMAIN c

IsDense(c) == "a" \in DOMAIN c
\* the dense cases ride along with the class definition run
Init == rec \in IF Mode = "dense" THEN DenseCases
               ELSE {c \in Cases : InRange(c)} \cup (IF Mode = "cdef" THEN DenseCases \cup DegCases \cup SetCases ELSE {})
Next == UNCHANGED rec

\* properties of the two encodings that TLC checks on every case (the spec's own sanity):
\* declared sizes, ascending glyphs, format-2 start indices consistent with format 1
SizesOK == IsDense(rec) \/ IsDeg(rec) \/ IsSet(rec) \/ LET c == rec  b == Bounds(c)  g == GlyphsOf(c, b) IN
  IF Mode = "cov" THEN /\ 2 * Len(CovEnc1(c, b)) = 4 + 2 * Len(g)
                       /\ 2 * Len(CovEnc2(c, b)) = 4 + 6 * Len(b)
                       /\ \A i \in 1..Len(b) : g[b[i][3] + 1] = b[i][1]
                       /\ \A k \in 2..Len(g) : g[k] > g[k - 1]
                  ELSE /\ 2 * Len(CDefEnc1(c, b)) = 6 + 2 * SpanOf(b)
                       /\ 2 * Len(CDefEnc2(c, b)) = 4 + 6 * Len(b)
Emit == PrintT(<<"CASE", ToJson(IF IsDense(rec) THEN DenseOut(rec) ELSE IF IsDeg(rec) THEN DegOut(rec)
                                ELSE IF IsSet(rec) THEN SetOut(rec) ELSE Out(rec))>>)
=============================================================================
