--------------------------- MODULE LookupLayoutCov ---------------------------
(***************************************************************************)
(* C08, coverage tables and class definition tables (binding R).           *)
(* TLC enumerates run structures over the full 16-bit glyph range -- runs  *)
(* of 1..4 glyphs separated by gaps of 1, 2 or many glyphs (class          *)
(* definitions also gap 0 between different classes), starting at glyph 0, *)
(* 1 or 7, or shifted so that the last glyph is 0xFFFF -- and computes,    *)
(* from the OpenType formats, both encodings as sequences of 16-bit words, *)
(* their sizes and the set of formats of minimal size:                     *)
(*   Coverage  1: format, glyphCount, glyphs[]            4 + 2n bytes     *)
(*             2: format, rangeCount, (start, end, startCoverageIndex)[]   *)
(*                                                        4 + 6r bytes     *)
(*   ClassDef  1: format, startGlyph, glyphCount, classes[]  6 + 2(span)   *)
(*             2: format, rangeCount, (start, end, class)[]  4 + 6r        *)
(* Coverage indices are 0..n-1 in increasing glyph order by construction   *)
(* (the i-th glyph of the ascending list has index i-1).  The harness      *)
(* (c08 cov) demands: emitted words = one of the minimal encodings,        *)
(* EncodeLen/AppendLen = emitted length, decoding = the glyph list.        *)
(***************************************************************************)
EXTENDS Integers, Sequences, TLC, Json, SequencesExt

CONSTANTS Mode,      \* "cov" | "cdef" | "dense"
          MaxSegs,   \* 0..MaxSegs runs
          Gaps,      \* gaps between runs
          Runs,      \* run lengths
          Starts,    \* first glyph
          Classes    \* class values (cdef)

VARIABLE rec

SegRecs == [gap : Gaps, run : Runs, cls : Classes]
Shapes == UNION {[1..k -> SegRecs] : k \in 0..MaxSegs}

\* well-formed: runs are maximal (gap 0 only between different classes; coverage has no gap 0)
WF(s) == \A i \in 2..Len(s) : s[i].gap = 0 => (Mode = "cdef" /\ s[i].cls # s[i - 1].cls)

\* glyph and range counts at the 8-bit carry: 255, 256, 257 runs of 1 glyph (format 1 is smaller) or
\* 4 glyphs (format 2 is smaller; class definitions alternate two classes, gap 0 and 1)
ManyShapes == { [i \in 1..k |-> [gap |-> g, run |-> r, cls |-> 1 + (i % 2)]] : k \in {255, 256, 257}, r \in {1, 4}, g \in {0, 1} }
Cases == { [s |-> s, start |-> st, hi |-> h] : s \in {x \in Shapes \cup ManyShapes : WF(x)}, st \in Starts, h \in BOOLEAN }

\* Bounds(c)[i] = <<first glyph, last glyph, coverage index of the first glyph>> of run i,
\* before the shift that moves the last glyph to 0xFFFF
RawBounds(c) ==
  FoldLeft(LAMBDA acc, seg :
             LET f == IF acc = <<>> THEN c.start ELSE acc[Len(acc)][2] + 1 + seg.gap
                 i == IF acc = <<>> THEN 0 ELSE acc[Len(acc)][3] + (acc[Len(acc)][2] - acc[Len(acc)][1] + 1)
             IN Append(acc, <<f, f + seg.run - 1, i>>),
           <<>>, c.s)
Bounds(c) ==
  LET rb == RawBounds(c)
      sh == IF c.hi /\ rb # <<>> THEN 65535 - rb[Len(rb)][2] ELSE 0
  IN [i \in 1..Len(rb) |-> <<rb[i][1] + sh, rb[i][2] + sh, rb[i][3]>>]

GlyphsOf(c, b) == FlattenSeq([i \in 1..Len(b) |-> [k \in 1..c.s[i].run |-> b[i][1] + k - 1]])
CovEnc1(c, b) == LET g == GlyphsOf(c, b) IN <<1, Len(g)>> \o g
CovEnc2(c, b) == <<2, Len(b)>> \o FlattenSeq([i \in 1..Len(b) |-> b[i]])

SpanOf(b) == IF b = <<>> THEN 0 ELSE b[Len(b)][2] - b[1][1] + 1
\* format 1 of a class definition: the classes of the runs with zeros in the gaps
CDefEnc1(c, b) ==
  IF b = <<>> THEN <<1, 0, 0>>
  ELSE <<1, b[1][1], SpanOf(b)>> \o
       FlattenSeq([i \in 1..Len(b) |->
           [k \in 1..(IF i = 1 THEN 0 ELSE b[i][1] - b[i - 1][2] - 1) |-> 0] \o [k \in 1..c.s[i].run |-> c.s[i].cls]])
CDefEnc2(c, b) == <<2, Len(b)>> \o FlattenSeq([i \in 1..Len(b) |-> <<b[i][1], b[i][2], c.s[i].cls>>])
PairsOf(c, b) == FlattenSeq([i \in 1..Len(b) |-> [k \in 1..c.s[i].run |-> <<b[i][1] + k - 1, c.s[i].cls>>]])

Allowed(e1, e2) == (IF Len(e1) <= Len(e2) THEN {1} ELSE {}) \cup (IF Len(e2) <= Len(e1) THEN {2} ELSE {})

InRange(c) == LET b == Bounds(c) IN b = <<>> \/ (b[1][1] >= 0 /\ b[Len(b)][2] <= 65535)

Out(c) == LET b == Bounds(c) IN
          IF Mode = "cov"
            THEN LET e1 == CovEnc1(c, b)  e2 == CovEnc2(c, b)
                 IN [what |-> "cov", glyphs |-> GlyphsOf(c, b), pairs |-> <<>>,
                     allowed |-> Allowed(e1, e2), enc1 |-> e1, enc2 |-> e2]
            ELSE LET e1 == CDefEnc1(c, b)  e2 == CDefEnc2(c, b)
                 IN [what |-> "cdef", glyphs |-> <<>>, pairs |-> PairsOf(c, b),
                     allowed |-> Allowed(e1, e2), enc1 |-> e1, enc2 |-> e2]

\* Mode "dense": every glyph of a..b has a class, alternating 1, 2: b-a+1 one-glyph ranges.
\* Format 1 needs glyphCount = b-a+1 and format 2 needs classRangeCount = b-a+1 in a uint16:
\* with all 65536 glyphs neither format can hold the table and the encoder must refuse.
DenseCases == [a : {0, 1}, b : {65534, 65535}]
DenseOut(c) == LET span == c.b - c.a + 1 IN
  [what |-> "dense", a |-> c.a, b |-> c.b, span |-> span, representable |-> span <= 65535,
   size |-> IF 6 + 2 * span <= 4 + 6 * span THEN 6 + 2 * span ELSE 4 + 6 * span]

IsDense(c) == "a" \in DOMAIN c
\* the dense cases ride along with the class definition run
Init == rec \in IF Mode = "dense" THEN DenseCases
               ELSE {c \in Cases : InRange(c)} \cup (IF Mode = "cdef" THEN DenseCases ELSE {})
Next == UNCHANGED rec

\* properties of the two encodings that TLC checks on every case (the spec's own sanity):
\* declared sizes, ascending glyphs, format-2 start indices consistent with format 1
SizesOK == IsDense(rec) \/ LET c == rec  b == Bounds(c)  g == GlyphsOf(c, b) IN
  IF Mode = "cov" THEN /\ 2 * Len(CovEnc1(c, b)) = 4 + 2 * Len(g)
                       /\ 2 * Len(CovEnc2(c, b)) = 4 + 6 * Len(b)
                       /\ \A i \in 1..Len(b) : g[b[i][3] + 1] = b[i][1]
                       /\ \A k \in 2..Len(g) : g[k] > g[k - 1]
                  ELSE /\ 2 * Len(CDefEnc1(c, b)) = 6 + 2 * SpanOf(b)
                       /\ 2 * Len(CDefEnc2(c, b)) = 4 + 6 * Len(b)
Emit == PrintT(<<"CASE", ToJson(IF IsDense(rec) THEN DenseOut(rec) ELSE Out(rec))>>)
=============================================================================
