---------------------------- MODULE FontCycleGen ----------------------------
(***************************************************************************)
(* C01, configuration cover (R binding).  A font configuration is chosen   *)
(* field by field (one action per field, so that TLC -simulate draws a     *)
(* random configuration per behaviour); the style flags come last and are  *)
(* chosen jointly: half of the behaviours restrict them to the             *)
(* representable domain InDom of FontCycleOps (flags that are a fixed      *)
(* point of the model's normal form), the other half take any combination. *)
(* The terminal state emits the configuration with the model's verdict     *)
(* "dom"; the harness (harness/cmd/c01) instantiates it with seeded        *)
(* contents and runs the write/read cycle on it.                           *)
(***************************************************************************)
EXTENDS FontCycleOps

CONSTANTS GlyphCounts,   \* set of glyph counts to draw from (Focus = "random")
          Span,          \* class definition tables are enumerated over this many consecutive glyphs
          IdxLens,       \* CFF INDEX data lengths to hit exactly (around the offset-size switches 255/256, 65535/65536)
          Dense,         \* TRUE: the version sweep visits every three-decimal rounding boundary, FALSE: every 25th
          Focus          \* "random": every field from its full domain (for -simulate)
                         \* "cover":  exhaustive; the first field "group" selects which fields are varied, all others
                         \*           stay at their defaults:
                         \*   layout     outline kind x GSUB kind x GPOS kind x GDEF, rich script lists
                         \*   shapes     glyf table sizes x raw-table layouts (TrueType), multi-subtable cmap
                         \*   glyphs     composite nesting x instructions of composites nil / empty / even / odd length
                         \*   index      CFF / CID-keyed CFF: Name, String, CharStrings INDEX with data of exactly IdxLens bytes
                         \*   hints      CFF stem hint counts around the operand-stack limits x masks x width operand
                         \*   classes    every class definition table over Span glyphs with classes 0..2, in all its uses
                         \*   coverage   every non-empty coverage table over the glyphs 0..7, in all its uses
                         \*   pairs      scalars related by an order or a consistency rule, through both orders and equality:
                         \*              created/modified, ascent/descent/line gap, underline position/thickness,
                         \*              cap/x height, italic angle/IsItalic/IsOblique, code page halves
                         \*   big        tables larger than the 1024-byte window of parser.Parser: GDEF class definitions,
                         \*              script / feature / lookup lists of GSUB and GPOS, name
                         \*   onefactor  one scalar field at a time through its domain (extremes included) x outline kind
                         \*   sweep      every scalar with a rounding or threshold rule through its whole small domain:
                         \*              weight 0..1000 x {regular, bold, neither}, width 0..9, italic angle and underline
                         \*              metrics in sub-unit steps, versions at the three-decimal boundaries, unitsPerEm

VARIABLES step, cfg
vars == <<step, cfg>>


\* the abstract font of FontCycleOps that a configuration denotes
Abs(c, fl) == [ fam |-> c.fam, width |-> c.width, weight |-> c.weight,
                reg |-> fl[1], bold |-> fl[2], ital |-> fl[3], obl |-> fl[4], serif |-> fl[5], script |-> fl[6],
                angle |-> c.angle, ver |-> 65602,
                created |-> IF c.times = "m" THEN "zero" ELSE IF c.frac THEN "t+ns" ELSE "t",
                modified |-> IF c.times = "c" THEN "zero" ELSE IF c.frac THEN "t+ns" ELSE "t",
                ul |-> c.ulp,
                kind |-> IF c.kind = "ttf" THEN "glyf" ELSE "cff" ]

FlagSets == [1..6 -> BOOLEAN]

\* 16.16 versions <<integer part, fraction>>: 0, around the three-decimal rounding, an exact tie, a carry, the largest
\* value whose three decimals fit
Versions == { <<0, 0>>, <<1, 0>>, <<1, 32768>>, <<2, 66>>, <<1, 4096>>, <<0, 65535>>, <<7, 64880>>, <<65534, 65503>>,
              <<300, 12345>>, <<65535, 65503>> }
\* instants <<hi, lo>>, Unix seconds = hi * 2^24 + lo: 1850, one second after the 1904 epoch of the head table,
\* Unix 0, 2001, 2^31 - 1, 2^31, 2^32 - 1, year 9999
Instants == { <<-226, 4825216>>, <<-125, 14307201>>, <<0, 0>>, <<59, 10144256>>, <<127, 16777215>>, <<128, 0>>,
              <<255, 16777215>>, <<15103, 16007551>> }

FieldNames == << "group", "vary", "wantdom", "kind", "fds", "cmap", "comp", "cinstr", "names", "n", "glyfsize", "rawtabs", "cffidx", "idxlen", "hcnt", "ocnt", "hdir", "hmask", "hwidth", "big", "ctab", "cov", "gsub", "gpos", "gdef", "tags", "scripts", "weight", "width", "angle", "fam", "times", "tinst", "trel", "frac", "ver", "strs", "upm", "asc", "desc", "gap", "cap", "xh", "ulp", "ult", "perm", "cpr", "flags", "fin" >>
Field(i) == FieldNames[i]
NSteps == Len(FieldNames) + 1

\* scalar fields of the font that "onefactor" takes through their domains
Scalars == {"weight", "width", "angle", "fam", "times", "tinst", "ver", "strs", "upm", "asc", "desc", "gap", "cap",
            "xh", "ulp", "ult", "perm", "cmap"}

Groups == {"layout", "shapes", "glyphs", "index", "hints", "big", "classes", "coverage", "pairs", "onefactor", "sweep"}
\* groups of scalars with an ordering or consistency relation between them ("pairs")
PairVars == {"times", "vmetrics", "underline", "heights", "slant", "cpr"}
PairFields(v) == CASE v = "times"     -> {"times", "tinst", "trel", "frac"}
                   [] v = "vmetrics"  -> {"asc", "desc", "gap"}
                   [] v = "underline" -> {"ulp", "ult"}
                   [] v = "heights"   -> {"cap", "xh"}
                   [] v = "slant"     -> {"angle", "flags"}
                   [] v = "cpr"       -> {"cpr"}
                   [] OTHER           -> {}
SweepVars == {"weight", "width", "angle", "ulp", "ult", "ver", "upm"}
G(c, g) == Focus = "cover" /\ c.group = g

\* 16.16 fractions next to the boundaries between consecutive three-decimal values
VerSweep == LET ks == IF Dense THEN 0..999 ELSE {k \in 0..999 : k % 25 = 7}
            IN UNION {{((2 * k + 1) * 32768) \div 1000 + d : d \in {-1, 0, 1}} : k \in ks}
Sweep(f) == CASE f = "weight" -> 0..1000
              [] f = "width"  -> 0..9
              [] f = "angle"  -> -40..40                    \* 2^-20 degree: 16.16 ties at +-8, +-24, +-40
              [] f = "ulp"    -> -410..-390                 \* quarter units
              [] f = "ult"    -> -10..10
              [] f = "ver"    -> {<<1, lo>> : lo \in VerSweep}
              [] f = "upm"    -> {16, 17, 255, 256, 257, 999, 1000, 1001, 4095, 4096, 4097, 16383, 16384}
Regular == [k \in 1..6 |-> k = 1]
BoldOnly == [k \in 1..6 |-> k = 2]
NoFlag == [k \in 1..6 |-> FALSE]

\* full domain of field f, given the fields chosen so far
Domain(f, c) ==
  CASE f = "group" -> IF Focus = "cover" THEN Groups ELSE {"random"}
    [] f = "vary"  -> IF G(c, "onefactor") THEN Scalars ELSE IF G(c, "sweep") THEN SweepVars
                      ELSE IF G(c, "pairs") THEN PairVars ELSE {"-"}
    [] f = "wantdom"  -> BOOLEAN
    [] f = "kind"  -> IF Focus = "random" \/ G(c, "big") THEN {"ttf", "cff", "cid"}
                      ELSE IF G(c, "index") \/ G(c, "hints") THEN {"cff", "cid"} ELSE {"ttf", "cff"}
    [] f = "fds"  -> IF c.kind = "cid" THEN {1, 3} ELSE {1}
    [] f = "cmap"  -> {"4", "12", "none", "multi"}
    [] f = "comp"  -> IF c.kind = "ttf" THEN {0, 1, 3} ELSE {0}
    \* instructions of composite glyphs (one composite is inserted before the last glyphs so that glyphs follow it):
    \* absent, present with length 0, even length, odd length
    [] f = "cinstr" -> IF c.kind = "ttf" THEN {"off", "nil", "empty", "some", "odd"} ELSE {"off"}
    [] f = "names"  -> IF c.kind = "ttf" THEN BOOLEAN ELSE {FALSE}
    [] f = "n"  -> GlyphCounts
    \* exact glyf table sizes around the loca format switch (offsets / 2 in 16 bits) and around 128k
    [] f = "glyfsize" -> IF c.kind = "ttf" /\ c.n >= 30 /\ c.n <= 257
                           THEN {0, 65534, 65536, 131070, 131072, 131074} ELSE {0}
    \* raw cvt/fpgm/gasp/prep tables of lengths 2, 1, 0, 3 mod 4: separate slices or sub-slices of one buffer
    [] f = "rawtabs"  -> IF c.kind = "ttf" THEN {"none", "sep", "shared"} ELSE {"none"}
    \* CFF: the INDEX whose data length is tuned to exactly idxlen bytes
    [] f = "cffidx"   -> IF c.kind = "ttf" THEN {"off"} ELSE IF G(c, "index") THEN {"name", "string", "charstrings"}
                         ELSE {"off", "name", "string", "charstrings"}
    [] f = "idxlen"   -> IF c.cffidx = "off" THEN {0}
                         \* (the strings of the String INDEX also live in the name table, whose storage is limited
                         \* to 64 kB: only the CharStrings INDEX is taken to the 65535/65536 switch)
                         ELSE IF c.cffidx # "charstrings" \/ Focus = "random" THEN {l \in IdxLens : l < 1000} ELSE IdxLens
    \* CFF stem hints of one glyph: hcnt pairs in direction hdir, ocnt pairs in the other direction (one hstem/vstem
    \* operator takes 24 pairs, 23 next to a width; Type 2 allows 96 in all), with or without hintmask operators,
    \* with a width operand (the glyph's width differs from the default width) or without
    [] f = "hcnt"     -> IF c.kind # "ttf" /\ (G(c, "hints") \/ Focus = "random") THEN {0, 1, 23, 24, 25, 48, 49, 96} ELSE {0}
    [] f = "ocnt"     -> IF c.hcnt = 0 \/ c.hcnt = 96 THEN {0} ELSE {0, 1, 24}
    [] f = "hdir"     -> IF c.hcnt = 0 THEN {"h"} ELSE {"h", "v"}
    [] f = "hmask"    -> IF c.hcnt = 0 THEN {FALSE} ELSE BOOLEAN
    [] f = "hwidth"   -> IF c.hcnt = 0 THEN {FALSE} ELSE BOOLEAN
    \* a table that is larger than the parser's 1024-byte window
    [] f = "big"      -> IF G(c, "big") THEN {"gdef", "scripts", "features", "lookups", "name"}
                         ELSE {"off", "gdef", "scripts", "features", "lookups", "name"}
    \* a class definition table over the glyphs 10 .. 10+Span-1 (class 0 = not in the table), used as GDEF glyph
    \* classes and mark attachment classes, in class-based (chained) context lookups and in a class-based pair lookup;
    \* ALL such tables with classes 0..2 are enumerated
    [] f = "ctab"     -> IF G(c, "classes") THEN [1..Span -> 0..2] \ {[i \in 1..Span |-> 0]} ELSE {<<>>}
    \* a coverage table: ALL non-empty subsets of the glyphs 0..7, used in single substitutions, a coverage-based
    \* context lookup, a single adjustment and a mark glyph set
    [] f = "cov"      -> IF G(c, "coverage") THEN (SUBSET (0..7)) \ {{}} ELSE {{}}
    [] f = "gsub"  -> IF G(c, "layout") THEN {"liga", "multi"} ELSE {"none", "liga", "multi"}
    [] f = "gpos" -> {"none", "pair", "multi"}
    [] f = "gdef" -> BOOLEAN
    [] f = "tags" -> IF c.gsub = "none" /\ c.gpos = "none" THEN {"x"}
                 ELSE IF c.wantdom THEN {"x"} ELSE {"x", "noext", "ambig"}
    [] f = "scripts" -> IF c.tags = "x" THEN {"simple", "multi"} ELSE {"simple"}
    [] f = "weight" -> IF G(c, "sweep") THEN Sweep("weight") ELSE {0, 1, 250, 400, 600, 650, 700, 800, 1000}
    [] f = "width" -> IF G(c, "sweep") THEN Sweep("width") ELSE {0, 1, 3, 5, 9}
    [] f = "angle" -> IF G(c, "sweep") THEN Sweep("angle") ELSE {0, -12582912, 5, 1605, 9437184}
    [] f = "fam" -> {"plain", "bold", "italic", "semibold"}
    [] f = "times" -> {"c", "m", "both"}
    [] f = "tinst" -> Instants
    \* the modification time relative to the creation time (both set): a day later, the same instant, a day earlier
    [] f = "trel" -> {"after", "equal", "before"}
    [] f = "frac" -> BOOLEAN
    [] f = "ver" -> IF G(c, "sweep") THEN Sweep("ver") ELSE Versions
    [] f = "strs" -> {"ascii", "latin1", "bmp", "astral", "empty"}
    [] f = "upm" -> IF G(c, "sweep") THEN Sweep("upm") ELSE {16, 1000, 2048, 16383, 16384}
    [] f = "asc" -> {-32768, 0, 800, 32767}
    [] f = "desc" -> {-32768, -200, 0, 32767}
    [] f = "gap" -> {-32768, 0, 90, 32767}
    [] f = "cap" -> {1, 700, 32767}
    [] f = "xh" -> {1, 500, 32767}
    [] f = "ulp" -> IF G(c, "sweep") THEN Sweep("ulp") ELSE {-131072, -400, -261, 0, 131068}      \* quarter units: -32768, -100, -65.25, 0, 32767
    [] f = "ult" -> IF G(c, "sweep") THEN Sweep("ult") ELSE {-200, 0, 200, 203, 131068}           \* quarter units: -50, 0, 50, 50.75, 32767
    [] f = "perm" -> 0..3
    \* code page ranges: none, a low bit, a bit of the upper 32, both halves
    [] f = "cpr"  -> {"none", "low", "high", "both"}
    [] f = "flags" -> IF G(c, "sweep") THEN {Regular, BoldOnly, NoFlag}
                      ELSE IF G(c, "pairs") THEN {[k \in 1..6 |-> (k = 3 /\ i) \/ (k = 4 /\ o)] : i \in BOOLEAN, o \in BOOLEAN}
                      ELSE {fl \in FlagSets : c.wantdom => InDom(Abs(c, fl))}
    [] f = "fin" -> {0}     \* one successor only: the terminal state (and its Emit) is reached once per behaviour

Default(f, c) ==
  CASE f = "group" -> "random"  [] f = "vary"  -> "-"      [] f = "wantdom"  -> FALSE   [] f = "kind"  -> "ttf"   [] f = "fds"  -> 1
    [] f = "cmap"  -> IF G(c, "shapes") THEN "multi" ELSE "4"
    [] f = "comp"  -> 0       [] f = "cinstr" -> "off"   [] f = "names"  -> c.kind = "ttf" /\ ~G(c, "sweep")
    [] f = "n" -> IF G(c, "big") THEN 700 ELSE IF G(c, "sweep") THEN 2 ELSE IF G(c, "index") THEN 3 ELSE 30
    [] f = "cffidx" -> "off"  [] f = "idxlen" -> 0  [] f = "big" -> "off"
    [] f = "hcnt" -> 0  [] f = "ocnt" -> 0  [] f = "hdir" -> "h"  [] f = "hmask" -> FALSE  [] f = "hwidth" -> FALSE
    [] f = "ctab" -> <<>>  [] f = "cov" -> {}  [] f = "trel" -> "after"  [] f = "cpr" -> "low"
    [] f = "glyfsize" -> 0  [] f = "rawtabs" -> "none"
    [] f = "gsub"  -> IF G(c, "sweep") THEN "none" ELSE "liga"
    [] f = "gpos" -> IF G(c, "sweep") THEN "none" ELSE "pair"
    [] f = "gdef" -> ~G(c, "sweep")    [] f = "tags" -> "x"
    [] f = "scripts" -> IF G(c, "layout") THEN "multi" ELSE "simple"
    [] f = "weight" -> 400      [] f = "width" -> 5       [] f = "angle" -> 0       [] f = "fam" -> "plain"
    [] f = "times" -> "both"   [] f = "tinst" -> <<59, 10144256>>             [] f = "frac" -> FALSE
    [] f = "ver" -> <<1, 32768>>  [] f = "strs" -> "ascii" [] f = "upm" -> 1000 [] f = "asc" -> 800
    [] f = "desc" -> -200     [] f = "gap" -> 90      [] f = "cap" -> 700     [] f = "xh" -> 500
    [] f = "ulp" -> -400     [] f = "ult" -> 200     [] f = "perm" -> 0
    [] f = "flags" -> Regular
    [] f = "fin" -> 0

Varied(i, c) ==
  LET f == Field(i) IN
  \/ Focus = "random"
  \/ f = "group"
  \/ G(c, "layout") /\ f \in {"kind", "gsub", "gpos", "gdef"}
  \/ G(c, "shapes") /\ f \in {"kind", "glyfsize", "rawtabs"}
  \/ G(c, "glyphs") /\ f \in {"comp", "cinstr"}
  \/ G(c, "index") /\ f \in {"kind", "cffidx", "idxlen"}
  \/ G(c, "big") /\ f \in {"kind", "big"}
  \/ G(c, "onefactor") /\ (f \in {"vary", "kind"} \/ f = c.vary)
  \/ G(c, "sweep") /\ (f = "vary" \/ f = c.vary \/ (f = "flags" /\ c.vary = "weight"))
  \/ G(c, "hints") /\ f \in {"kind", "hcnt", "ocnt", "hdir", "hmask", "hwidth"}
  \/ G(c, "classes") /\ f = "ctab"
  \/ G(c, "coverage") /\ f = "cov"
  \/ G(c, "pairs") /\ (f \in {"vary", "kind"} \/ f \in PairFields(c.vary))

Choices(i, c) == IF Varied(i, c) THEN Domain(Field(i), c) ELSE {Default(Field(i), c)}

Init == step = 1 /\ cfg = <<>>

Pick == /\ step < NSteps
        /\ \E v \in Choices(step, cfg) : cfg' = cfg @@ (Field(step) :> v)
        /\ step' = step + 1
Next == Pick
Spec == Init /\ [][Next]_vars

Done == step = NSteps
Out(c) == [ kind |-> c.kind, fds |-> c.fds, cmap |-> c.cmap, comp |-> c.comp, names |-> c.names, n |-> c.n,
            cinstr |-> c.cinstr, glyfsize |-> c.glyfsize, rawtabs |-> c.rawtabs,
            cffidx |-> c.cffidx, idxlen |-> c.idxlen, big |-> c.big,
            hcnt |-> c.hcnt, ocnt |-> c.ocnt, hdir |-> c.hdir, hmask |-> c.hmask, hwidth |-> c.hwidth,
            ctab |-> c.ctab, cov |-> c.cov, trel |-> c.trel, cpr |-> c.cpr, group |-> c.group, gsub |-> c.gsub, gpos |-> c.gpos, gdef |-> c.gdef, tags |-> c.tags, scripts |-> c.scripts,
            reg |-> c.flags[1], bold |-> c.flags[2], ital |-> c.flags[3], obl |-> c.flags[4],
            serif |-> c.flags[5], script |-> c.flags[6],
            weight |-> c.weight, width |-> c.width, angle |-> c.angle, fam |-> c.fam, times |-> c.times,
            t_hi |-> c.tinst[1], t_lo |-> c.tinst[2],
            frac |-> c.frac, ver_hi |-> c.ver[1], ver_lo |-> c.ver[2], strs |-> c.strs, upm |-> c.upm,
            asc |-> c.asc, desc |-> c.desc, gap |-> c.gap, cap |-> c.cap, xh |-> c.xh, ulp |-> c.ulp, ult |-> c.ult,
            perm |-> c.perm, vary |-> c.vary,
            dom |-> InDom(Abs(c, c.flags)) ]
Emit == Done => PrintT(<<"CASE", ToJson(Out(cfg))>>)

\* the flag choice is never empty: every (weight, width, family, angle, kind) has consistent flags
FlagsExist == (step < NSteps /\ Field(step) = "flags") => Choices(step, cfg) # {}
=============================================================================
