---------------------------- MODULE FontCycleGen ----------------------------
(***************************************************************************)
(* C01, configuration cover (R binding).  A font configuration is chosen   *)
(* field by field (one action per field, so that TLC -simulate draws a     *)
(* random configuration per behaviour); the style flags come last and are  *)
(* chosen jointly: half of the behaviours restrict them to the             *)
(* representable domain InDom of FontCycleOps (flags that are a fixed      *)
(* point of the model's normal form), the other half take any combination. *)
(* The terminal state emits the configuration with the model's verdict     *)
(* "dom"; the harness (harness/cmd/c01) instantiates it with seeded        *)
(* contents and runs the write/read cycle on it.                           *)
(***************************************************************************)
EXTENDS FontCycleOps

CONSTANTS GlyphCounts,   \* set of glyph counts to draw from
          Focus          \* "random":    every field from its full domain (for -simulate)
                         \* "layout":    exhaustive over outline kind x GSUB kind x GPOS kind x GDEF with rich script lists,
                         \*              everything else at its default
                         \* "onefactor": exhaustive, one scalar field at a time through its full domain (extremes
                         \*              included) x outline kind, everything else at its default

VARIABLES step, cfg
vars == <<step, cfg>>

NSteps == 34

\* the abstract font of FontCycleOps that a configuration denotes
Abs(c, fl) == [ fam |-> c.fam, width |-> c.width, weight |-> c.weight,
                reg |-> fl[1], bold |-> fl[2], ital |-> fl[3], obl |-> fl[4], serif |-> fl[5], script |-> fl[6],
                angle |-> c.angle, ver |-> 65602,
                created |-> IF c.times = "m" THEN "zero" ELSE IF c.frac THEN "t+ns" ELSE "t",
                modified |-> IF c.times = "c" THEN "zero" ELSE IF c.frac THEN "t+ns" ELSE "t",
                ul |-> c.ulp,
                kind |-> IF c.kind = "ttf" THEN "glyf" ELSE "cff" ]

FlagSets == [1..6 -> BOOLEAN]

\* 16.16 versions <<integer part, fraction>>: 0, around the three-decimal rounding, an exact tie, a carry, the largest
\* value whose three decimals fit
Versions == { <<0, 0>>, <<1, 0>>, <<1, 32768>>, <<2, 66>>, <<1, 4096>>, <<0, 65535>>, <<7, 64880>>, <<65534, 65503>>,
              <<300, 12345>>, <<65535, 65503>> }
\* instants <<hi, lo>>, Unix seconds = hi * 2^24 + lo: 1850, one second after the 1904 epoch of the head table,
\* Unix 0, 2001, 2^31 - 1, 2^31, 2^32 - 1, year 9999
Instants == { <<-226, 4825216>>, <<-125, 14307201>>, <<0, 0>>, <<59, 10144256>>, <<127, 16777215>>, <<128, 0>>,
              <<255, 16777215>>, <<15103, 16007551>> }

Field(i) == CASE i = 1  -> "vary"    [] i = 2  -> "wantdom" [] i = 3  -> "kind"   [] i = 4  -> "fds"
              [] i = 5  -> "cmap"    [] i = 6  -> "comp"    [] i = 7  -> "names"  [] i = 8  -> "n"
              [] i = 9  -> "gsub"    [] i = 10 -> "gpos"    [] i = 11 -> "gdef"   [] i = 12 -> "tags"
              [] i = 13 -> "scripts" [] i = 14 -> "weight"  [] i = 15 -> "width"  [] i = 16 -> "angle"
              [] i = 17 -> "fam"     [] i = 18 -> "times"   [] i = 19 -> "tinst"  [] i = 20 -> "frac"
              [] i = 21 -> "ver"     [] i = 22 -> "strs"    [] i = 23 -> "upm"    [] i = 24 -> "asc"
              [] i = 25 -> "desc"    [] i = 26 -> "gap"     [] i = 27 -> "cap"    [] i = 28 -> "xh"
              [] i = 29 -> "ulp"     [] i = 30 -> "ult"     [] i = 31 -> "perm"   [] i = 32 -> "flags"
              [] i = 33 -> "fin"

\* scalar fields of the font that "onefactor" takes through their domains
Scalars == {"weight", "width", "angle", "fam", "times", "tinst", "ver", "strs", "upm", "asc", "desc", "gap", "cap",
            "xh", "ulp", "ult", "perm", "cmap"}

\* full domain of field number i, given the fields chosen so far
Domain(i, c) ==
  CASE i = 1  -> IF Focus = "onefactor" THEN Scalars ELSE {"-"}
    [] i = 2  -> BOOLEAN
    [] i = 3  -> IF Focus = "random" THEN {"ttf", "cff", "cid"} ELSE {"ttf", "cff"}
    [] i = 4  -> IF c.kind = "cid" THEN {1, 3} ELSE {1}
    [] i = 5  -> {"4", "12", "none"}
    [] i = 6  -> IF c.kind = "ttf" THEN {0, 1, 3} ELSE {0}
    [] i = 7  -> IF c.kind = "ttf" THEN BOOLEAN ELSE {FALSE}
    [] i = 8  -> GlyphCounts
    [] i = 9  -> IF Focus = "layout" THEN {"liga", "multi"} ELSE {"none", "liga", "multi"}
    [] i = 10 -> {"none", "pair", "multi"}
    [] i = 11 -> BOOLEAN
    [] i = 12 -> IF c.gsub = "none" /\ c.gpos = "none" THEN {"x"}
                 ELSE IF c.wantdom THEN {"x"} ELSE {"x", "noext", "ambig"}
    [] i = 13 -> IF c.tags = "x" THEN {"simple", "multi"} ELSE {"simple"}
    [] i = 14 -> {0, 1, 250, 400, 600, 650, 700, 800, 1000}
    [] i = 15 -> {0, 1, 3, 5, 9}
    [] i = 16 -> {0, -12582912, 5, 1605, 9437184}
    [] i = 17 -> {"plain", "bold", "italic", "semibold"}
    [] i = 18 -> {"c", "m", "both"}
    [] i = 19 -> Instants
    [] i = 20 -> BOOLEAN
    [] i = 21 -> Versions
    [] i = 22 -> {"ascii", "latin1", "bmp", "astral", "empty"}
    [] i = 23 -> {16, 1000, 2048, 16383, 16384}
    [] i = 24 -> {-32768, 0, 800, 32767}
    [] i = 25 -> {-32768, -200, 0, 32767}
    [] i = 26 -> {-32768, 0, 90, 32767}
    [] i = 27 -> {1, 700, 32767}
    [] i = 28 -> {1, 500, 32767}
    [] i = 29 -> {-131072, -400, -261, 0, 131068}      \* quarter units: -32768, -100, -65.25, 0, 32767
    [] i = 30 -> {-200, 0, 200, 203, 131068}           \* quarter units: -50, 0, 50, 50.75, 32767
    [] i = 31 -> 0..3
    [] i = 32 -> {fl \in FlagSets : c.wantdom => InDom(Abs(c, fl))}
    [] i = 33 -> {0}     \* one successor only: the terminal state (and its Emit) is reached once per behaviour

Default(i, c) ==
  CASE i = 1  -> "-"      [] i = 2  -> FALSE   [] i = 3  -> "ttf"   [] i = 4  -> 1
    [] i = 5  -> "4"      [] i = 6  -> 0       [] i = 7  -> c.kind = "ttf"  [] i = 8 -> 30
    [] i = 9  -> "liga"   [] i = 10 -> "pair"  [] i = 11 -> TRUE    [] i = 12 -> "x"
    [] i = 13 -> IF Focus = "layout" THEN "multi" ELSE "simple"
    [] i = 14 -> 400      [] i = 15 -> 5       [] i = 16 -> 0       [] i = 17 -> "plain"
    [] i = 18 -> "both"   [] i = 19 -> <<59, 10144256>>             [] i = 20 -> FALSE
    [] i = 21 -> <<1, 32768>>  [] i = 22 -> "ascii" [] i = 23 -> 1000 [] i = 24 -> 800
    [] i = 25 -> -200     [] i = 26 -> 90      [] i = 27 -> 700     [] i = 28 -> 500
    [] i = 29 -> -400     [] i = 30 -> 200     [] i = 31 -> 0
    [] i = 32 -> [k \in 1..6 |-> k = 1]      \* regular
    [] i = 33 -> 0

Varied(i, c) ==
  \/ Focus = "random"
  \/ Focus = "layout" /\ Field(i) \in {"kind", "gsub", "gpos", "gdef"}
  \/ Focus = "onefactor" /\ (Field(i) \in {"vary", "kind"} \/ Field(i) = c.vary)

Choices(i, c) == IF Varied(i, c) THEN Domain(i, c) ELSE {Default(i, c)}

Init == step = 1 /\ cfg = <<>>

Pick == /\ step < NSteps
        /\ \E v \in Choices(step, cfg) : cfg' = cfg @@ (Field(step) :> v)
        /\ step' = step + 1
Next == Pick
Spec == Init /\ [][Next]_vars

Done == step = NSteps
Out(c) == [ kind |-> c.kind, fds |-> c.fds, cmap |-> c.cmap, comp |-> c.comp, names |-> c.names, n |-> c.n,
            gsub |-> c.gsub, gpos |-> c.gpos, gdef |-> c.gdef, tags |-> c.tags, scripts |-> c.scripts,
            reg |-> c.flags[1], bold |-> c.flags[2], ital |-> c.flags[3], obl |-> c.flags[4],
            serif |-> c.flags[5], script |-> c.flags[6],
            weight |-> c.weight, width |-> c.width, angle |-> c.angle, fam |-> c.fam, times |-> c.times,
            t_hi |-> c.tinst[1], t_lo |-> c.tinst[2],
            frac |-> c.frac, ver_hi |-> c.ver[1], ver_lo |-> c.ver[2], strs |-> c.strs, upm |-> c.upm,
            asc |-> c.asc, desc |-> c.desc, gap |-> c.gap, cap |-> c.cap, xh |-> c.xh, ulp |-> c.ulp, ult |-> c.ult,
            perm |-> c.perm, vary |-> c.vary,
            dom |-> InDom(Abs(c, c.flags)) ]
Emit == Done => PrintT(<<"CASE", ToJson(Out(cfg))>>)

\* the flag choice is never empty: every (weight, width, family, angle, kind) has consistent flags
FlagsExist == step = 32 => Choices(32, cfg) # {}
=============================================================================
