---------------------------- MODULE FontCycleGen ----------------------------
(***************************************************************************)
(* C01, configuration cover (R binding).  A font configuration is chosen   *)
(* field by field (one action per field, so that TLC -simulate draws a     *)
(* random configuration per behaviour); the style flags come last and are  *)
(* chosen jointly: half of the behaviours restrict them to the             *)
(* representable domain InDom of FontCycleOps (flags that are a fixed      *)
(* point of the model's normal form), the other half take any combination. *)
(* The terminal state emits the configuration with the model's verdict     *)
(* "dom"; the harness (harness/cmd/c01) instantiates it with seeded        *)
(* contents and runs the write/read cycle on it.                           *)
(***************************************************************************)
EXTENDS FontCycleOps

CONSTANTS GlyphCounts    \* set of glyph counts to draw from

VARIABLES step, cfg
vars == <<step, cfg>>

NSteps == 25
Empty == [wantdom |-> TRUE]

\* the abstract font of FontCycleOps that a configuration denotes
Abs(c, fl) == [ fam |-> c.fam, width |-> c.width, weight |-> c.weight,
                reg |-> fl[1], bold |-> fl[2], ital |-> fl[3], obl |-> fl[4], serif |-> fl[5], script |-> fl[6],
                angle |-> c.angle, ver |-> 65602,
                created |-> IF c.times = "m" THEN "zero" ELSE IF c.frac THEN "t+ns" ELSE "t",
                modified |-> IF c.times = "c" THEN "zero" ELSE IF c.frac THEN "t+ns" ELSE "t",
                ul |-> IF c.frac THEN -263 ELSE -264,
                kind |-> IF c.kind = "ttf" THEN "glyf" ELSE "cff" ]

FlagSets == [1..6 -> BOOLEAN]

Versions == { <<1, 0>>, <<1, 32768>>, <<2, 66>>, <<1, 4096>>, <<0, 65535>>, <<7, 64880>>, <<65534, 65503>>, <<300, 12345>> }

\* domain of field number i, given the fields chosen so far
Field(i) == CASE i = 1  -> "wantdom" [] i = 2  -> "kind"   [] i = 3  -> "fds"    [] i = 4  -> "cmap"
              [] i = 5  -> "comp"    [] i = 6  -> "names"  [] i = 7  -> "n"      [] i = 8  -> "gsub"
              [] i = 9  -> "gpos"    [] i = 10 -> "gdef"   [] i = 11 -> "tags"   [] i = 12 -> "weight"
              [] i = 13 -> "width"   [] i = 14 -> "angle"  [] i = 15 -> "fam"    [] i = 16 -> "times"
              [] i = 17 -> "frac"    [] i = 18 -> "ver"    [] i = 19 -> "strs"   [] i = 20 -> "upm"
              [] i = 21 -> "metric"  [] i = 22 -> "perm"   [] i = 23 -> "flags"  [] i = 24 -> "fin"
Domain(i, c) ==
  CASE i = 1  -> BOOLEAN
    [] i = 2  -> {"ttf", "cff", "cid"}
    [] i = 3  -> IF c.kind = "cid" THEN {1, 3} ELSE {1}
    [] i = 4  -> {"4", "12", "none"}
    [] i = 5  -> IF c.kind = "ttf" THEN {0, 1, 3} ELSE {0}
    [] i = 6  -> IF c.kind = "ttf" THEN BOOLEAN ELSE {FALSE}
    [] i = 7  -> GlyphCounts
    [] i = 8  -> {"none", "liga", "multi"}
    [] i = 9  -> {"none", "pair", "multi"}
    [] i = 10 -> BOOLEAN
    [] i = 11 -> IF c.gsub = "none" /\ c.gpos = "none" THEN {"x"}
                 ELSE IF c.wantdom THEN {"x"} ELSE {"x", "noext", "ambig"}
    [] i = 12 -> {0, 250, 400, 600, 650, 700, 800}
    [] i = 13 -> {0, 3, 5, 9}
    [] i = 14 -> {0, -12582912, 5, 1605, 9437184}
    [] i = 15 -> {"plain", "bold", "italic", "semibold"}
    [] i = 16 -> {"c", "m", "both"}
    [] i = 17 -> BOOLEAN
    [] i = 18 -> Versions
    [] i = 19 -> {"ascii", "latin1", "bmp", "astral", "empty"}
    [] i = 20 -> {1000, 2048}
    [] i = 21 -> {"normal", "extreme"}
    [] i = 22 -> 0..3
    [] i = 23 -> {fl \in FlagSets : c.wantdom => InDom(Abs(c, fl))}
    [] i = 24 -> {0}     \* one successor only: the terminal state (and its Emit) is reached once per behaviour

Init == step = 1 /\ cfg = <<>>

Pick == /\ step < NSteps
        /\ \E v \in Domain(step, cfg) : cfg' = cfg @@ (Field(step) :> v)
        /\ step' = step + 1
Next == Pick
Spec == Init /\ [][Next]_vars

Done == step = NSteps
Out(c) == [ kind |-> c.kind, fds |-> c.fds, cmap |-> c.cmap, comp |-> c.comp, names |-> c.names, n |-> c.n,
            gsub |-> c.gsub, gpos |-> c.gpos, gdef |-> c.gdef, tags |-> c.tags,
            reg |-> c.flags[1], bold |-> c.flags[2], ital |-> c.flags[3], obl |-> c.flags[4],
            serif |-> c.flags[5], script |-> c.flags[6],
            weight |-> c.weight, width |-> c.width, angle |-> c.angle, fam |-> c.fam, times |-> c.times,
            frac |-> c.frac, ver_hi |-> c.ver[1], ver_lo |-> c.ver[2], strs |-> c.strs, upm |-> c.upm,
            metric |-> c.metric, perm |-> c.perm,
            dom |-> InDom(Abs(c, c.flags)) ]
Emit == Done => PrintT(<<"CASE", ToJson(Out(cfg))>>)

\* the flag choice is never empty: every (weight, width, family, angle, kind) has consistent flags
FlagsExist == step = 23 => Domain(23, cfg) # {}
=============================================================================
