\* C04 GlyphGen, width sweep: enumerated (not simulated); fonts of 1..3 glyphs without outlines,
\* all assignments of boundary widths (0, negative, negative fractional, fractional), with the
\* width operand landing on endchar or on hstem
CONSTANTS
  GUnit = 262144
  MaxG = 524288000
  D <- FineD
  SD <- WidthSD
  WPats <- WidthSweepW
  StemPlans <- WidthPlans
  MaxGlyphs = 3
  MaxSteps = 0
  LineRuns <- NoRuns
  CurveRuns <- NoRuns
  FarJumps = FALSE
  SweepOnly = FALSE
  SweepA <- FineSweepAs
  SweepB <- FineSweepBs
  SweepKinds <- AllSweeps
  ValuePos <- AllPos
  Sim = FALSE
INIT Init
NEXT Next
INVARIANT CoordsOK
INVARIANT MasksOK
INVARIANT MoveFirst
INVARIANT StemsOK
INVARIANT Emit
CHECK_DEADLOCK FALSE
