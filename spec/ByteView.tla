------------------------------ MODULE ByteView ------------------------------
(***************************************************************************)
(* C17.  parser.Parser (parser/parser.go) as a window cache over a         *)
(* ReadSeekSizer, and its refinement to a plain random-access byte view.   *)
(*                                                                         *)
(* One action per critical section of the Go code:                         *)
(*   SeekPos(p)      parser.go:63-78  (in-window test / underlying Seek)   *)
(*   Discard(n)      parser.go:81-86  (= SeekPos(Pos()+n))                 *)
(*   RBCall(n)       entry of ReadBytes, also used by ReadUint8/16/32      *)
(*   RBIter          one iteration of the fill loop 166-189: compact the   *)
(*                   window, one underlying Read that returns ANY legal    *)
(*                   number of bytes (short reads) or EOF                  *)
(*   RBReturn        191-193                                               *)
(*   ReadCall(m) / ReadChunk / ReadDone   the chunk loop of Read, 92-108   *)
(*                                                                         *)
(* The file content is position coded (File[i] = i % 251), so a returned   *)
(* slice identifies the offset it was taken from.                          *)
(***************************************************************************)
EXTENDS Integers, Sequences, FiniteSets, TLC, Json

CONSTANTS B,        \* buffer size (1024 in the code, 4 in the exhaustive model)
          MaxFile,  \* file lengths 0..MaxFile
          HistLen   \* > 0: generation mode, emit the history when it has this many entries

VARIABLES L,                    \* file length
          from, pos, used, win, \* Parser fields; win = buf[0..used)
          rpos,                 \* offset of the underlying reader
          cur,                  \* ghost: cursor of the plain view
          reply,                \* last reply of an exported method
          pend,                 \* call in progress
          hist                  \* generation mode only: calls and underlying read sizes

vars == <<L, from, pos, used, win, rpos, cur, reply, pend, hist>>
view == <<L, from, pos, used, win, rpos, cur, reply, pend>>

Min2(a, b) == IF a < b THEN a ELSE b
Max2(a, b) == IF a > b THEN a ELSE b
Slice(a, n) == [i \in 1..n |-> (a + i) % 251]        \* File[a+1 .. a+n]
Idle == [op |-> "idle"]

Init == /\ L \in 0..MaxFile
        /\ from = 0 /\ pos = 0 /\ used = 0 /\ win = <<>> /\ rpos = 0 /\ cur = 0
        /\ reply = [op |-> "new"] /\ pend = Idle /\ hist = <<>>

CanCall == pend = Idle /\ (HistLen = 0 \/ Len(hist) < HistLen)
Log(e) == hist' = IF HistLen > 0 /\ Len(hist) < HistLen THEN Append(hist, e) ELSE hist

---------------------------------------------------------------------------
(* SeekPos / Discard *)
DoSeek(p, name, arg) ==
  /\ CanCall
  /\ IF p >= from /\ p <= from + used
       THEN /\ pos' = p - from /\ UNCHANGED <<from, used, win, rpos>>
       ELSE /\ rpos' = p /\ from' = p /\ pos' = 0 /\ used' = 0 /\ win' = <<>>
  /\ cur' = p
  /\ reply' = [op |-> name, ok |-> TRUE, at |-> p]
  /\ Log([op |-> name, a |-> arg])
  /\ UNCHANGED <<L, pend>>

SeekPos(p) == DoSeek(p, "seek", p)
Discard(n) == from + pos + n <= MaxFile + 2 /\ DoSeek(from + pos + n, "discard", n)   \* bound only

---------------------------------------------------------------------------
(* ReadBytes(n) and the fixed-size reads built on it *)
RBCall(n, name) ==
  /\ CanCall
  /\ pend' = [op |-> "rb", n |-> n, name |-> name, outer |-> FALSE, left |-> 0, total |-> 0]
  /\ Log([op |-> name, a |-> n])
  /\ UNCHANGED <<L, from, pos, used, win, rpos, cur, reply>>

\* after a failed or completed inner ReadBytes: back to the caller
Finish(ok, data) ==
  IF pend.outer
    THEN IF ok
           THEN /\ pend' = [pend EXCEPT !.op = "read", !.left = pend.left - pend.n,
                                        !.total = pend.total + pend.n]
                /\ reply' = reply
           ELSE /\ pend' = Idle
                /\ reply' = [op |-> "read", ok |-> FALSE, at |-> cur - pend.total,
                             n |-> pend.total + pend.left, total |-> pend.total]
    ELSE /\ pend' = Idle
         /\ reply' = [op |-> pend.name, ok |-> ok, at |-> cur, n |-> pend.n, data |-> data]

RBIter ==
  /\ pend.op = "rb" /\ pos + pend.n > used
  /\ LET k     == used - pos
         w1    == SubSeq(win, pos + 1, used)          \* compaction: copy(buf, buf[pos:used])
         avail == Max2(0, L - rpos)
     IN IF avail = 0
          THEN \* underlying Read returns (0, EOF) -> io.ErrUnexpectedEOF, no data
               /\ win' = w1 /\ from' = from + pos /\ pos' = 0 /\ used' = k
               /\ UNCHANGED <<rpos, cur>>
               /\ Finish(FALSE, <<>>)
               /\ Log([op |-> "fill", a |-> 0])
          ELSE \E l \in 1..Min2(B - k, avail) :      \* any short read
               /\ win' = w1 \o Slice(rpos, l)
               /\ from' = from + pos /\ pos' = 0 /\ used' = k + l /\ rpos' = rpos + l
               /\ UNCHANGED <<cur, reply, pend>>
               /\ Log([op |-> "fill", a |-> l])
  /\ UNCHANGED L

RBReturn ==
  /\ pend.op = "rb" /\ pos + pend.n <= used
  /\ pos' = pos + pend.n
  /\ cur' = cur + pend.n
  /\ Finish(TRUE, SubSeq(win, pos + 1, pos + pend.n))
  /\ UNCHANGED <<L, from, used, win, rpos, hist>>

---------------------------------------------------------------------------
(* Read(buf) with len(buf) = m: chunks of at most B bytes *)
ReadCall(m) ==
  /\ CanCall
  /\ pend' = [op |-> "read", n |-> 0, name |-> "read", outer |-> TRUE, left |-> m, total |-> 0]
  /\ Log([op |-> "read", a |-> m])
  /\ UNCHANGED <<L, from, pos, used, win, rpos, cur, reply>>

ReadChunk ==
  /\ pend.op = "read" /\ pend.left > 0
  /\ pend' = [pend EXCEPT !.op = "rb", !.n = Min2(pend.left, B)]
  /\ UNCHANGED <<L, from, pos, used, win, rpos, cur, reply, hist>>

ReadDone ==
  /\ pend.op = "read" /\ pend.left = 0
  /\ pend' = Idle
  /\ reply' = [op |-> "read", ok |-> TRUE, at |-> cur - pend.total, n |-> pend.total,
               total |-> pend.total]
  /\ UNCHANGED <<L, from, pos, used, win, rpos, cur, hist>>

---------------------------------------------------------------------------
Next == \/ \E p \in 0..(MaxFile + 2) : SeekPos(p)
        \/ \E n \in 0..B : Discard(n)
        \/ \E n \in 0..B : RBCall(n, "readbytes")
        \/ RBCall(1, "u8") \/ (B >= 2 /\ RBCall(2, "u16")) \/ (B >= 4 /\ RBCall(4, "u32"))   \* n <= B (1024 in the code)
        \/ RBIter \/ RBReturn
        \/ \E m \in 0..(2 * B + 1) : ReadCall(m)
        \/ ReadChunk \/ ReadDone

Spec == Init /\ [][Next]_vars

---------------------------------------------------------------------------
(* Representation invariants (the ones the property text names) *)
WindowIsFileSlice == win = Slice(from, used)
ReaderPositioned  == rpos = from + used
CursorAgrees      == pend = Idle => from + pos = cur
Bounds            == 0 <= pos /\ pos <= used /\ used <= B /\ Len(win) = used

(* Refinement to the plain view: every reply is what a slice-backed reader gives *)
IsRead(r) == r.op \in {"readbytes", "u8", "u16", "u32"}
ReplyOK ==
  /\ IsRead(reply) =>
       /\ reply.n > 0 => (reply.ok <=> reply.at + reply.n <= L)
       /\ reply.n = 0 => reply.ok
       /\ reply.ok => reply.data = Slice(reply.at, reply.n) /\ (pend = Idle => cur = reply.at + reply.n)
       /\ ~reply.ok => reply.data = <<>> /\ (pend = Idle => cur = reply.at)
  /\ reply.op = "read" =>
       /\ reply.ok <=> (reply.n = 0 \/ reply.at + reply.n <= L)
       /\ reply.ok => reply.total = reply.n
       /\ ~reply.ok => reply.total < reply.n /\ reply.at + reply.total <= Max2(L, reply.at)
       /\ pend = Idle => cur = reply.at + reply.total
  /\ reply.op \in {"seek", "discard"} => (pend = Idle => cur = reply.at)

(* every call terminates: the fill loop makes progress (used grows) or fails *)
Progress == pend.op = "rb" => pend.n <= B

Emit == (HistLen > 0 /\ Len(hist) = HistLen /\ pend = Idle) =>
           PrintT(<<"CASE", ToJson([len |-> L, ops |-> hist])>>)
=============================================================================
