\* C04 GlyphGen, width-selection sweep: enumerated; every width sequence of 1..4 outline-less glyphs
\* over {-1000, -107, 0, 107, 500}; TLC labels each with the special values the selection rule of the
\* encoder lands on (cls), so that every class is known to be covered
CONSTANTS
  GUnit = 1
  MaxG = 32000
  D <- CoarseD
  SD <- TinySD
  WPats <- WidthSelW
  StemPlans <- NoStems
  MaxGlyphs = 4
  MaxSteps = 0
  LineRuns <- NoRuns
  CurveRuns <- NoRuns
  FarJumps = FALSE
  SweepOnly = FALSE
  SweepA <- SweepAs
  SweepB <- SweepBs
  SweepKinds <- AllSweeps
  ValuePos <- AllPos
  Sim = FALSE
INIT WidthSelInit
NEXT Next
INVARIANT CoordsOK
INVARIANT MasksOK
INVARIANT MoveFirst
INVARIANT StemsOK
INVARIANT Emit
CHECK_DEADLOCK FALSE
