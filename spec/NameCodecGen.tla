----------------------------- MODULE NameCodecGen -----------------------------
(***************************************************************************)
(* C14, R binding: TLC enumerates the abstract inputs that the harness     *)
(* (harness/cmd/c14) makes concrete with the seed and pushes through the   *)
(* real code.  One line <<"CASE", json>> per behaviour.                    *)
(*                                                                         *)
(* Parts is the set of families generated in one run; the family of a      *)
(* behaviour (variable part) is chosen in Init.                            *)
(*  part = "names"  name.Info shapes: a sequence of entries (platform,     *)
(*                  language class, name-id class, string class)           *)
(*  part = "units"  every sequence of at most MaxUnits boundary UTF-16     *)
(*                  code units (the harness stores them big-endian in a    *)
(*                  Windows record it writes itself)                       *)
(*  part = "post"   glyph-name lists: a mode (plain, after the 258 / 257   *)
(*                  standard names, nil) and a sequence of glyph classes   *)
(*                                                                         *)
(*  part = "equal"  name.Info values with EQUAL strings in different slots: *)
(*                  a set eq of name ids (out of 1, 2, 4, 6, 16, 17, 21,    *)
(*                  22) that carry the same string, all other ids distinct  *)
(*                  strings; every pair, the two fallback triples, all,     *)
(*                  none; on the Macintosh platform, on Windows, or on both *)
(*                  and in two Windows languages at once (same strings)     *)
(*  part = "scripts" ScriptLists by structure: one or two scripts, each     *)
(*                  with its default language system absent / present and   *)
(*                  empty (no required feature, no features) / present with *)
(*                  features, and 0..2 named language systems, each empty   *)
(*                  or not; laid out plainly, with the Script table shared  *)
(*                  by both script tags, with equal LangSys tables shared,  *)
(*                  or with the tables in the reverse order of the records  *)
(*                                                                         *)
(* Classes (made concrete in harness/cmd/c14/names.go, post.go):           *)
(*  languages  m0 (Macintosh id 0), mhi (id >= 128), mr1/mr2 (random),     *)
(*             w409 (Windows 0x0409), wdup (a tag with two ids), wr1/wr2   *)
(*  name ids   0, 6, 15 (reserved), 25, 26, 255, 256, 65535, std (1..25),  *)
(*             rand (257..65534)                                           *)
(*  strings    empty, a1 (one ASCII character), ascii, mac (Mac Roman with *)
(*             high bytes), bmp, astral, mixed, long (fills the 16-bit     *)
(*             length), same / prefix / suffix (of the previous string),   *)
(*             xshare (same bytes on both platforms)                       *)
(***************************************************************************)
EXTENDS Integers, Sequences, FiniteSets, TLC, Json

CONSTANTS Parts, MaxE, MaxUnits, MaxGlyphs

VARIABLES part, want, entries, units, mode, glyphs, scripts, eq, done
vars == <<part, want, entries, units, mode, glyphs, scripts, eq, done>>

MacLangs == {"m0", "mhi", "mr1", "mr2"}
WinLangs == {"w409", "wdup", "wr1", "wr2"}
IdClasses == {"id0", "id6", "id15", "id25", "id26", "id255", "id256", "id65535", "std", "rand"}
MacStrClasses == {"empty", "a1", "ascii", "mac", "long", "same", "prefix", "suffix", "xshare"}
WinStrClasses == MacStrClasses \cup {"bmp", "astral", "mixed"}
EntrySet == {[plat |-> 1, lang |-> l, idc |-> i, strc |-> s] : l \in MacLangs, i \in IdClasses, s \in MacStrClasses}
       \cup {[plat |-> 3, lang |-> l, idc |-> i, strc |-> s] : l \in WinLangs, i \in IdClasses, s \in WinStrClasses}

BoundaryUnits == {0, 65, 55295, 55296, 56319, 56320, 57343, 57344, 65533, 65535}
GlyphClasses == {"own", "other", "custom", "dup", "empty", "max", "one"}
Modes == {"plain", "after258", "after257"}

EqIds == {1, 2, 4, 6, 16, 17, 21, 22}
EqSets == {{a, b} : a, b \in EqIds} \cup {EqIds, {1, 16, 21}, {2, 17, 22}}      \* {a} = nothing equal
EqCfgs == {"mac", "win", "both"}

LangSysKinds == {"empty", "feat"}
ScriptShapes == {[def |-> d, langs |-> l] : d \in {"none", "empty", "feat"},
                                            l \in UNION {[1..n -> LangSysKinds] : n \in 0..2}}
                \ {[def |-> "none", langs |-> <<>>]}          \* a Script table without any language system
Layouts == {"plain", "sharescript", "sharelangsys", "reversed"}

Init ==
  /\ done = FALSE /\ entries = <<>> /\ units = <<>> /\ glyphs = <<>>
  /\ part \in Parts
  /\ CASE part = "names" -> want \in 1..MaxE /\ mode = "-" /\ scripts = <<>> /\ eq = {}
       [] part = "units" -> want \in 0..MaxUnits /\ mode = "-" /\ scripts = <<>> /\ eq = {}
       [] part = "post"  -> want \in 0..MaxGlyphs /\ mode \in Modes \cup {"nil"} /\ (mode = "nil" => want = 0)
                            /\ (mode \in {"after258", "after257"} => want <= 2) /\ scripts = <<>> /\ eq = {}
       [] part = "equal" -> want = 0 /\ mode \in EqCfgs /\ eq \in EqSets /\ scripts = <<>>
       [] part = "scripts" -> /\ want = 0 /\ eq = {} /\ mode \in Layouts
                              /\ scripts \in UNION {[1..n -> ScriptShapes] : n \in 1..2}
                              /\ (mode = "sharescript" => Len(scripts) = 2 /\ scripts[1] = scripts[2])

AddEntry == part = "names" /\ ~done /\ Len(entries) < want
            /\ \E e \in EntrySet : entries' = Append(entries, e)
            /\ UNCHANGED <<part, want, units, mode, glyphs, scripts, eq, done>>
AddUnit  == part = "units" /\ ~done /\ Len(units) < want
            /\ \E u \in BoundaryUnits : units' = Append(units, u)
            /\ UNCHANGED <<part, want, entries, mode, glyphs, scripts, eq, done>>
AddGlyph == part = "post" /\ ~done /\ Len(glyphs) < want
            /\ \E g \in GlyphClasses : glyphs' = Append(glyphs, g)
            /\ UNCHANGED <<part, want, entries, units, mode, scripts, eq, done>>
Finish   == /\ ~done
            /\ Len(entries) + Len(units) + Len(glyphs) = want
            /\ done' = TRUE
            /\ UNCHANGED <<part, want, entries, units, mode, glyphs, scripts, eq>>

Next == AddEntry \/ AddUnit \/ AddGlyph \/ Finish
Spec == Init /\ [][Next]_vars

Emit == done => PrintT(<<"CASE", ToJson([part |-> part, entries |-> entries, units |-> units,
                                          mode |-> mode, glyphs |-> glyphs, scripts |-> scripts, eq |-> eq])>>)
=============================================================================
