----------------------------- MODULE NameCodecGen -----------------------------
(***************************************************************************)
(* C14, R binding: TLC enumerates the abstract inputs that the harness     *)
(* (harness/cmd/c14) makes concrete with the seed and pushes through the   *)
(* real code.  One line <<"CASE", json>> per behaviour.                    *)
(*                                                                         *)
(*  Part = "names"  name.Info shapes: a sequence of entries (platform,     *)
(*                  language class, name-id class, string class)           *)
(*  Part = "units"  every sequence of at most MaxUnits boundary UTF-16     *)
(*                  code units (the harness stores them big-endian in a    *)
(*                  Windows record it writes itself)                       *)
(*  Part = "post"   glyph-name lists: a mode (plain, after the 258 / 257   *)
(*                  standard names, nil) and a sequence of glyph classes   *)
(*                                                                         *)
(* Classes (made concrete in harness/cmd/c14/names.go, post.go):           *)
(*  languages  m0 (Macintosh id 0), mhi (id >= 128), mr1/mr2 (random),     *)
(*             w409 (Windows 0x0409), wdup (a tag with two ids), wr1/wr2   *)
(*  name ids   0, 6, 15 (reserved), 25, 26, 255, 256, 65535, std (1..25),  *)
(*             rand (257..65534)                                           *)
(*  strings    empty, a1 (one ASCII character), ascii, mac (Mac Roman with *)
(*             high bytes), bmp, astral, mixed, long (fills the 16-bit     *)
(*             length), same / prefix / suffix (of the previous string),   *)
(*             xshare (same bytes on both platforms)                       *)
(***************************************************************************)
EXTENDS Integers, Sequences, TLC, Json

CONSTANTS Part, MaxE, MaxUnits, MaxGlyphs

VARIABLES want, entries, units, mode, glyphs, done
vars == <<want, entries, units, mode, glyphs, done>>

MacLangs == {"m0", "mhi", "mr1", "mr2"}
WinLangs == {"w409", "wdup", "wr1", "wr2"}
IdClasses == {"id0", "id6", "id15", "id25", "id26", "id255", "id256", "id65535", "std", "rand"}
MacStrClasses == {"empty", "a1", "ascii", "mac", "long", "same", "prefix", "suffix", "xshare"}
WinStrClasses == MacStrClasses \cup {"bmp", "astral", "mixed"}
EntrySet == {[plat |-> 1, lang |-> l, idc |-> i, strc |-> s] : l \in MacLangs, i \in IdClasses, s \in MacStrClasses}
       \cup {[plat |-> 3, lang |-> l, idc |-> i, strc |-> s] : l \in WinLangs, i \in IdClasses, s \in WinStrClasses}

BoundaryUnits == {0, 65, 55295, 55296, 56319, 56320, 57343, 57344, 65533, 65535}
GlyphClasses == {"own", "other", "custom", "dup", "empty", "max", "one"}
Modes == {"plain", "after258", "after257"}

Init ==
  /\ done = FALSE /\ entries = <<>> /\ units = <<>> /\ glyphs = <<>>
  /\ CASE Part = "names" -> want \in 1..MaxE /\ mode = "-"
       [] Part = "units" -> want \in 0..MaxUnits /\ mode = "-"
       [] Part = "post"  -> want \in 0..MaxGlyphs /\ mode \in Modes \cup {"nil"} /\ (mode = "nil" => want = 0)
                            /\ (mode \in {"after258", "after257"} => want <= 2)

AddEntry == Part = "names" /\ ~done /\ Len(entries) < want
            /\ \E e \in EntrySet : entries' = Append(entries, e)
            /\ UNCHANGED <<want, units, mode, glyphs, done>>
AddUnit  == Part = "units" /\ ~done /\ Len(units) < want
            /\ \E u \in BoundaryUnits : units' = Append(units, u)
            /\ UNCHANGED <<want, entries, mode, glyphs, done>>
AddGlyph == Part = "post" /\ ~done /\ Len(glyphs) < want
            /\ \E g \in GlyphClasses : glyphs' = Append(glyphs, g)
            /\ UNCHANGED <<want, entries, units, mode, done>>
Finish   == /\ ~done
            /\ Len(entries) + Len(units) + Len(glyphs) = want
            /\ done' = TRUE
            /\ UNCHANGED <<want, entries, units, mode, glyphs>>

Next == AddEntry \/ AddUnit \/ AddGlyph \/ Finish
Spec == Init /\ [][Next]_vars

Emit == done => PrintT(<<"CASE", ToJson([part |-> Part, entries |-> entries, units |-> units,
                                          mode |-> mode, glyphs |-> glyphs])>>)
=============================================================================
