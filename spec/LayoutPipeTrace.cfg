SPECIFICATION Spec
CONSTANT Strict = TRUE
POSTCONDITION Accepted
CHECK_DEADLOCK FALSE
