CONSTANTS
  MaxCode = 65535
  N12 = 7
  G12 = 2
  NegAll = FALSE
  GA = 0
INIT InitBytes
NEXT NextBytes
INVARIANT Fmt0OK
CHECK_DEADLOCK FALSE
