CONSTANTS
  Part = "units"
  MaxE = 0
  MaxUnits = 3
  MaxGlyphs = 0
INIT Init
NEXT Next
INVARIANT Emit
CHECK_DEADLOCK FALSE
