-------------------------------- MODULE Dsl --------------------------------
(***************************************************************************)
(* C19, part (b): what the lookup description language covers.             *)
(*                                                                         *)
(* 1. Shapes.  The set of lookup-list shapes the language has syntax for   *)
(*    (GSUB 1-6, GPOS 1-4; the flag subsets of {marks, ligs, base}; one    *)
(*    subtable for GSUB 1-4, one to MaxSub (and 13, 20) subtables          *)
(*    separated by "||" for GSUB 5/6 and GPOS 1-4; 13 to 40 entries under  *)
(*    one key; glyph / class / coverage-set forms; backtrack and           *)
(*    lookahead of length 0-2; 0-2 nested actions; value records over  *)
(*    x, y, dx).  TLC enumerates the set (one behaviour per shape, Emit);  *)
(*    the harness instantiates each shape with glyphs and numbers over a   *)
(*    font variant, runs Explain -> Parse and records both lookup lists;   *)
(*    DslTrace.tla demands that the instance conforms to its shape         *)
(*    (Conforms, below) and that the two lists are structurally equal.     *)
(*    NOT in the set, because the parser has no syntax for them: the flags *)
(*    RightToLeft / UseMarkFilteringSet / mark attachment types, several   *)
(*    subtables for GSUB 1-4, unsorted alternate sets, vertical advance    *)
(*    (dy), device tables, non-contiguous class numbers, empty sequences   *)
(*    in GSUB 2.                                                           *)
(*                                                                         *)
(* Parameters of a shape (meaning by form):                                *)
(*   run       a consecutive glyphs with constant delta (GSUB 1)           *)
(*   map       a glyphs without constant delta (GSUB 1)                    *)
(*   rund      a glyphs, format 1 with the b-th of the deltas -1, -255,    *)
(*             -256, -257, 255, 256, -500, 1 (fonts with 600 glyphs)       *)
(*   mult      a glyphs, replacement length b                              *)
(*   alt       a glyphs, b sorted alternates each                          *)
(*   lig       a first glyphs, b ligatures each, c components              *)
(*   ligrun    a consecutive one-component ligatures, constant delta       *)
(*   ctx1/2/3  a rules, input length b, c actions, d classes (ctx2)        *)
(*   cc1/2/3   a rules, input b, c actions, backtrack d, lookahead e       *)
(*   pos1set   a glyphs, one value record with field mask b (0 = none)     *)
(*   pos1each  a glyphs, a value record with mask b each                   *)
(*   pair      a pairs, masks b (first) and c (second, 0 = absent)         *)
(*   pairclass a first classes, d second classes, masks b and c            *)
(*   curs      a glyphs with entry and exit anchors                        *)
(*   markbase  a marks in b classes (b <= a), c base glyphs                *)
(***************************************************************************)
EXTENDS Integers, Sequences, FiniteSets, TLC, Json, DslLang

CONSTANTS Fonts,    \* font variants (names x character map), see harness/internal/dsl/fonts.go
          MaxSub,   \* subtables per lookup
          Full      \* TRUE: the large parameter grid

VARIABLES shape, done

AllFlags == SUBSET {"marks", "ligs", "base"}
SeqsOf(A, n) == UNION {[1..k -> A] : k \in 1..n}
Has(forms, f) == \E i \in 1..Len(forms) : forms[i] = f
Hi(q, t) == IF Full THEN t ELSE q
Masks == IF Full THEN {0, 1, 2, 4, 7} ELSE {0, 1, 6}

Sh(tab, typ, forms, a, b, c, d, e) ==
  [tab |-> tab, typ |-> typ, forms |-> forms, a |-> a, b |-> b, c |-> c, d |-> d, e |-> e]

(* the parameter grid, per lookup type *)
Grid ==
  {Sh("GSUB", 1, <<"run">>, a, 0, 0, 0, 0) : a \in 1..4}
  \cup {Sh("GSUB", 1, <<"map">>, a, 0, 0, 0, 0) : a \in 2..3}
  \cup {Sh("GSUB", 2, <<"mult">>, a, b, 0, 0, 0) : a \in 1..2, b \in 1..3}
  \cup {Sh("GSUB", 3, <<"alt">>, a, b, 0, 0, 0) : a \in 1..2, b \in 0..3}
  \cup {Sh("GSUB", 4, <<"lig">>, a, b, c, 0, 0) : a \in 1..2, b \in 1..2, c \in 1..3}
  \cup {Sh("GSUB", 4, <<"ligrun">>, a, 0, 0, 0, 0) : a \in 3..4}
  \cup {Sh("GSUB", 5, f, a, b, c, d, 0) :
          f \in SeqsOf({"ctx1", "ctx2", "ctx3"}, MaxSub), a \in 1..2, b \in 1..Hi(2, 3), c \in 0..Hi(1, 2),
          d \in 0..2}
  \cup {Sh("GSUB", 6, f, a, b, c, d, e) :
          f \in SeqsOf({"cc1", "cc2", "cc3"}, MaxSub), a \in 1..2, b \in 1..2, c \in 0..Hi(1, 2),
          d \in 0..Hi(1, 2), e \in 0..Hi(1, 2)}
  \cup {Sh("GPOS", 1, f, a, b, 0, 0, 0) :
          f \in SeqsOf({"pos1set", "pos1each"}, MaxSub), a \in 1..Hi(2, 3), b \in IF Full THEN 0..7 ELSE Masks}
  \cup {Sh("GPOS", 2, f, a, b, c, d, 0) :
          f \in SeqsOf({"pair", "pairclass"}, MaxSub), a \in 1..2, b \in Masks, c \in Masks, d \in 0..Hi(1, 2)}
  \cup {Sh("GPOS", 3, f, a, 0, 0, 0, 0) : f \in SeqsOf({"curs"}, MaxSub), a \in 1..3}
  \cup {Sh("GPOS", 4, f, a, b, c, 0, 0) :
          f \in SeqsOf({"markbase"}, MaxSub), a \in 1..3, b \in 1..2, c \in 0..2}

WellFormed(s) ==
  /\ Has(s.forms, "markbase") => s.b <= s.a
  /\ (s.typ = 5 /\ ~Has(s.forms, "ctx2")) => s.d = 0      \* d is the class count of ctx2 only

(* one representative per form, for the flag and list-position families *)
Basic == {Sh("GSUB", 1, <<"run">>, 2, 0, 0, 0, 0), Sh("GSUB", 1, <<"run">>, 3, 0, 0, 0, 0),
          Sh("GSUB", 1, <<"map">>, 2, 0, 0, 0, 0), Sh("GSUB", 2, <<"mult">>, 2, 2, 0, 0, 0),
          Sh("GSUB", 3, <<"alt">>, 2, 2, 0, 0, 0), Sh("GSUB", 4, <<"lig">>, 2, 1, 2, 0, 0),
          Sh("GSUB", 4, <<"ligrun">>, 3, 0, 0, 0, 0),
          Sh("GSUB", 5, <<"ctx1">>, 2, 2, 1, 0, 0), Sh("GSUB", 5, <<"ctx2">>, 2, 2, 1, 1, 0),
          Sh("GSUB", 5, <<"ctx3">>, 1, 2, 1, 0, 0),
          Sh("GSUB", 6, <<"cc1">>, 2, 2, 1, 1, 1), Sh("GSUB", 6, <<"cc2">>, 2, 2, 1, 1, 1),
          Sh("GSUB", 6, <<"cc3">>, 1, 2, 1, 1, 1),
          Sh("GPOS", 1, <<"pos1set">>, 2, 1, 0, 0, 0), Sh("GPOS", 1, <<"pos1each">>, 2, 6, 0, 0, 0),
          Sh("GPOS", 2, <<"pair">>, 2, 1, 6, 0, 0), Sh("GPOS", 2, <<"pairclass">>, 1, 6, 1, 1, 0),
          Sh("GPOS", 3, <<"curs">>, 2, 0, 0, 0, 0), Sh("GPOS", 4, <<"markbase">>, 2, 2, 1, 0, 0)}

(* Size as a dimension.  The order of the ligatures of a first glyph, of the rules of a rule   *)
(* set and of the subtables of a lookup is meaningful (the first match wins), so a description *)
(* must preserve it for any number of entries -- also beyond the sizes at which sorting and     *)
(* map-iteration shortcuts of an implementation happen to keep the order (e.g. 12).            *)
Rep(n, pat) == [i \in 1..n |-> pat[((i - 1) % Len(pat)) + 1]]
Big ==
  {Sh("GSUB", 1, <<"run">>, a, 0, 0, 0, 0) : a \in {13, 40}}
  \cup {Sh("GSUB", 1, <<"map">>, a, 0, 0, 0, 0) : a \in {13, 20}}
  \cup {Sh("GSUB", 2, <<"mult">>, 13, 2, 0, 0, 0), Sh("GSUB", 2, <<"mult">>, 2, 13, 0, 0, 0)}
  \cup {Sh("GSUB", 3, <<"alt">>, 13, 2, 0, 0, 0), Sh("GSUB", 3, <<"alt">>, 2, 13, 0, 0, 0),
        Sh("GSUB", 3, <<"alt">>, 1, 20, 0, 0, 0)}
  \cup {Sh("GSUB", 4, <<"lig">>, a, b, c, 0, 0) : a \in 1..3, b \in {13, 20, 40}, c \in 2..3}
  \cup {Sh("GSUB", 4, <<"ligrun">>, 13, 0, 0, 0, 0)}
  \cup {Sh("GSUB", 5, <<f>>, a, 2, 1, d, 0) : f \in {"ctx1", "ctx2"}, a \in {13, 20, 40}, d \in {0, 2}}
  \cup {Sh("GSUB", 5, Rep(n, p), 2, 2, 1, 1, 0) :
          n \in {13, 20}, p \in {<<"ctx1">>, <<"ctx2">>, <<"ctx3">>, <<"ctx1", "ctx2", "ctx3">>}}
  \cup {Sh("GSUB", 6, <<f>>, a, 2, 1, 1, 1) : f \in {"cc1", "cc2"}, a \in {13, 20, 40}}
  \cup {Sh("GSUB", 6, Rep(n, p), 2, 2, 1, 1, 1) :
          n \in {13, 20}, p \in {<<"cc1">>, <<"cc2">>, <<"cc3">>, <<"cc3", "cc2", "cc1">>}}
  \cup {Sh("GPOS", 1, <<f>>, a, 5, 0, 0, 0) : f \in {"pos1set", "pos1each"}, a \in {13, 20}}
  \cup {Sh("GPOS", 1, Rep(13, p), 2, 3, 0, 0, 0) : p \in {<<"pos1set">>, <<"pos1each">>, <<"pos1set", "pos1each">>}}
  \cup {Sh("GPOS", 2, <<"pair">>, a, 1, 6, 0, 0) : a \in {13, 40}}
  \cup {Sh("GPOS", 2, <<"pairclass">>, 13, 1, 6, 13, 0)}
  \cup {Sh("GPOS", 2, Rep(13, p), 2, 1, 6, 1, 0) : p \in {<<"pair">>, <<"pairclass">>, <<"pair", "pairclass">>}}
  \cup {Sh("GPOS", 3, <<"curs">>, a, 0, 0, 0, 0) : a \in {13, 20}}
  \cup {Sh("GPOS", 3, Rep(13, <<"curs">>), 2, 0, 0, 0, 0)}
  \cup {Sh("GPOS", 4, <<"markbase">>, 13, 2, 13, 0, 0), Sh("GPOS", 4, Rep(13, <<"markbase">>), 2, 2, 1, 0, 0)}
BigFonts == Fonts \cap {"nc", "x"}
(* GSUB 1 format 1 with glyph id differences -1, -255, -256, -257, 255, 256, -500, 1 (parameter b = 0..7; *)
(* negative differences are stored modulo 65536), over the fonts with 600 glyphs                           *)
Deltas == {Sh("GSUB", 1, <<"rund">>, a, b, 0, 0, 0) : a \in {1, 2, 3, 13}, b \in 0..7}
LargeFonts == {"L", "Lx"}

With(s, fl, lst, font) ==
  [tab |-> s.tab, typ |-> s.typ, forms |-> s.forms, a |-> s.a, b |-> s.b, c |-> s.c, d |-> s.d, e |-> s.e,
   flags |-> fl, lst |-> lst, font |-> font]

Shapes ==
  {With(s, {}, "single", f) : s \in {g \in Grid : WellFormed(g)}, f \in Fonts}
  \cup {With(s, fl, lst, f) : s \in {g \in Basic : WellFormed(g)}, fl \in AllFlags, lst \in {"single", "middle"},
                              f \in Fonts}
  \cup {With(s, {}, "single", f) : s \in {g \in Big : WellFormed(g)}, f \in BigFonts}
  \cup {With(s, fl, "single", f) : s \in Deltas, fl \in {{}, {"marks"}}, f \in LargeFonts}

(* The same enumeration run also renders the hand-specified descriptions of DslLang.tla   *)
(* (one behaviour per description: the record [mid, font, text]) and checks that the       *)
(* meaning written next to each is a well-formed canonical lookup list.                    *)
MeaningCases == {[mid |-> i, font |-> MeaningFont, text |-> Render(Descs[i])] : i \in 1..Len(Descs)}
IsMeaning(x) == "mid" \in DOMAIN x
(* ... and the number cases (every place of a number x every boundary literal) and the error-line *)
(* cases (every erroneous lookup x what stands before it x what stands after it) of DslLang.tla.   *)
NumCases == {[nk |-> k, nl |-> l, font |-> MeaningFont, text |-> NumText(k, l)] : k \in NumKinds, l \in 1..Len(Lits)}
ErrCases == {[et |-> t, ep |-> p, ex |-> x, font |-> MeaningFont, text |-> ErrText(t, p, x)] :
               t \in ErrTemplates, p \in 1..Len(ErrPrefixes), x \in 1..Len(ErrSuffixes)}
IsOther(x) == "nk" \in DOMAIN x \/ "et" \in DOMAIN x

Init == shape \in Shapes \cup MeaningCases \cup NumCases \cup ErrCases /\ done = FALSE
Next == ~done /\ done' = TRUE /\ UNCHANGED shape
Emit == done => PrintT(<<"CASE", ToJson(shape)>>)

Kinds == {"single", "multiple", "alternate", "ligature", "ctx1", "ctx2", "ctx3", "cc1", "cc2", "cc3",
          "pos1set", "pos1each", "pair", "pairclass", "cursive", "markbase"}
MeaningOK(i) == LET m == Meaning(Descs[i]) IN
  /\ Len(m) >= 1
  /\ \A j \in 1..Len(m) : /\ m[j].typ \in 1..6 /\ m[j].flags \in 0..14 /\ Len(m[j].subs) >= 1
                           /\ \A k \in 1..Len(m[j].subs) : m[j].subs[k].k \in Kinds

TypeOK == IF IsOther(shape) THEN ("et" \in DOMAIN shape => ErrExpect(shape.et, shape.ep, shape.ex) # {})
          ELSE IF IsMeaning(shape) THEN MeaningOK(shape.mid)
          ELSE /\ shape.typ \in 1..6 /\ shape.tab \in {"GSUB", "GPOS"}
               /\ Len(shape.forms) \in (1..MaxSub) \cup {13, 20}
               /\ (shape.tab = "GSUB" /\ shape.typ <= 4) => Len(shape.forms) = 1   \* no "||" syntax for GSUB 1-4
               /\ shape.tab = "GPOS" => shape.typ <= 4
               /\ \A i \in 1..Len(shape.forms) : KindOf(shape.forms[i]) \in Kinds

=============================================================================
