CONSTANTS
  Sizes = {100}
  MaxLookups = 1
  MaxSubs = 1
  MfsChoices = {FALSE}
  ScriptSizes = {20, 30000, 66000}
  FeatSizes = {14, 40000, 66000}
  EmitCases = FALSE
  Types = {0}
  ExtType = 7
  Recognised = {0}
  Fix28 = FALSE
INIT Init
NEXT Next
INVARIANT DemandHeader
CHECK_DEADLOCK FALSE
