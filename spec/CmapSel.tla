------------------------------- MODULE CmapSel -------------------------------
(***************************************************************************)
(* C09, directory selection with ties.  A cmap table may hold several      *)
(* subtables for one (platform, encoding) pair that differ in language     *)
(* (Macintosh platform).  The selection calls of the package:               *)
(*                                                                         *)
(*   Get(key)               the subtable stored under exactly this key      *)
(*   GetNoLang(p, e)        a subtable for (p, e), any language             *)
(*   GetBest()              a language-independent subtable of the best     *)
(*                          class present (Cmap!BestClass)                  *)
(*                                                                         *)
(* What the oracle demands (what the repository promises: cmap.go says      *)
(* "sort the keys to make the output deterministic"; nothing documents      *)
(* WHICH language wins): the answer is a function of the table's CONTENT -- *)
(* the same subtable in every call, for every insertion order, in every     *)
(* process, before and after Encode/Decode -- and it is one of the          *)
(* candidates.  DirFirst, the first matching record in directory order      *)
(* (platform, encoding, language ascending = the order of the encoding      *)
(* records in a file, hence the lowest language) is what the code computes  *)
(* today; a different answer is reported as a note only.                    *)
(*                                                                         *)
(* TLC enumerates every sequence of 2..MaxKeys distinct keys of the pool    *)
(* (= every subset in every insertion order), checks that DirFirst is the   *)
(* first matching record of the spec-encoded directory whatever the         *)
(* insertion order, and prints each sequence as a CASE; key i carries a     *)
(* subtable that maps the probe code 0x41 to glyph i.                       *)
(***************************************************************************)
EXTENDS Cmap, Json

CONSTANT MaxKeys
VARIABLES seq, done
vars == <<seq, done>>

Pool == << <<1, 0, 0>>, <<1, 0, 2>>, <<1, 0, 7>>, <<1, 1, 0>>, <<1, 1, 4>>, <<3, 1, 0>>, <<3, 10, 0>> >>
Pairs == {<<1, 0>>, <<1, 1>>, <<3, 1>>, <<3, 10>>, <<0, 3>>}

SubOf(i) ==
  LET k == Pool[i]
      m == << <<65, i>>, <<66, i + 10>> >>
  IN IF <<k[1], k[2]>> \in FullKeys THEN Enc12(m, k[3]) ELSE Build4(RefSegs(m), k[3])

\* candidates of (p, e) among a set of pool indices, and the first one in directory order
Cands(ks, p, e) == {i \in ks : Pool[i][1] = p /\ Pool[i][2] = e}
DirFirst(ks, p, e) == LET c == Cands(ks, p, e)
                      IN IF c = {} THEN 0 ELSE CHOOSE i \in c : \A j \in c : Pool[i][3] <= Pool[j][3]

Init == seq = <<>> /\ done = FALSE
Add == /\ ~done /\ Len(seq) < MaxKeys
       /\ \E i \in 1..Len(Pool) : (\A j \in 1..Len(seq) : seq[j] # i) /\ seq' = Append(seq, i)
       /\ UNCHANGED done
Finish == ~done /\ Len(seq) >= 2 /\ done' = TRUE /\ UNCHANGED seq
Next == Add \/ Finish
Spec == Init /\ [][Next]_vars

KeySet == {seq[j] : j \in 1..Len(seq)}
Sorted == SortSeq(seq, LAMBDA a, b : a < b)       \* the pool is listed in directory order

\* the rule is a function of the set of keys, and it is "first matching encoding record" of the encoded table
SelOK == done =>
  LET recs == [j \in 1..Len(Sorted) |-> <<Pool[Sorted[j]][1], Pool[Sorted[j]][2], WordsToBytes(SubOf(Sorted[j]))>>]
      b    == TableEnc(recs, [j \in 1..Len(recs) |-> recs[j][3]])
      t    == TableDec(b)
  IN /\ WFTable(b)
     /\ \A pe \in Pairs :
          LET hits == {j \in 1..Len(t) : t[j][1] = pe[1] /\ t[j][2] = pe[2]}
              d    == DirFirst(KeySet, pe[1], pe[2])
          IN IF hits = {} THEN d = 0
             ELSE LET j == CHOOSE x \in hits : \A y \in hits : x <= y
                  IN d # 0 /\ t[j][4] = WordsToBytes(SubOf(d)) /\ t[j][3] = Pool[d][3]

Emit == done => PrintT(<<"CASE", ToJson([kind |-> "sel",
                  keys |-> [j \in 1..Len(seq) |-> <<Pool[seq[j]][1], Pool[seq[j]][2], Pool[seq[j]][3], seq[j]>>],
                  subs |-> [j \in 1..Len(seq) |-> SubOf(seq[j])]])>>)
=============================================================================
