---------------------------- MODULE ContainerOps ----------------------------
(***************************************************************************)
(* C03.  The sfnt container format as pure operators over byte sequences,  *)
(* written from the OpenType specification ("Organization of an OpenType   *)
(* font": offset table, table records, "Calculating checksums").           *)
(*                                                                         *)
(*   WellFormed(f)   the property of C03 as a predicate on the bytes of a  *)
(*                   file (nothing else is demanded from a writer)         *)
(*   TablesOf(f)     what a reader must return: {<<tag, bytes>>}           *)
(*   Build(...)      a layout *function* (the design that Container.tla    *)
(*                   model-checks against WellFormed)                      *)
(*                                                                         *)
(* 32-bit words are pairs <<hi, lo>> of 16-bit halves: TLC integers are    *)
(* 32-bit signed, so wrap-around arithmetic is done on the halves.         *)
(* Offsets into f are zero-based as in the format; sequences are 1-based.  *)
(***************************************************************************)
EXTENDS Integers, Sequences, FiniteSets, SequencesExt

Add32(a, b) == LET lo == a[2] + b[2]
                   hi == a[1] + b[1] + (lo \div 65536)
               IN  <<hi % 65536, lo % 65536>>
Neg32(a)    == LET borrow == IF a[2] = 0 THEN 0 ELSE 1
               IN  <<(65536 - a[1] - borrow) % 65536, (65536 - a[2]) % 65536>>
Sub32(a, b) == Add32(a, Neg32(b))
Magic       == <<45488, 44986>>                       \* 0xB1B0AFBA
Int32(w)    == w[1] * 65536 + w[2]                    \* only used when w[1] < 16384
Small(w)    == w[1] < 16384
Word(n)     == <<n \div 65536, n % 65536>>

Bytes16(n)  == <<n \div 256, n % 256>>
Bytes32(w)  == Bytes16(w[1]) \o Bytes16(w[2])

Pow2(e)  == 2 ^ e
Log2(n)  == CHOOSE e \in 0..16 : Pow2(e) <= n /\ n < Pow2(e + 1)      \* n in 1..65535
Pad4(n)  == 4 * ((n + 3) \div 4)
ZeroPad(s) == s \o [i \in 1..(Pad4(Len(s)) - Len(s)) |-> 0]

(* "Calculating checksums": the sum of the big-endian uint32 words of the  *)
(* table, the table being padded with zero bytes to a multiple of four,    *)
(* modulo 2^32.                                                            *)
Checksum(s) ==
  LET p  == ZeroPad(s)
      nw == Len(p) \div 4
  IN  FoldLeft(LAMBDA acc, i : Add32(acc, <<p[4 * i - 3] * 256 + p[4 * i - 2],
                                            p[4 * i - 1] * 256 + p[4 * i]>>),
               <<0, 0>>, [i \in 1..nw |-> i])

---------------------------------------------------------------------------
(* Reading the directory of a byte sequence f *)
U16(f, o) == f[o + 1] * 256 + f[o + 2]
U32(f, o) == <<U16(f, o), U16(f, o + 2)>>
Scaler(f)        == U32(f, 0)
NumTables(f)     == U16(f, 4)
SearchRange(f)   == U16(f, 6)
EntrySelector(f) == U16(f, 8)
RangeShift(f)    == U16(f, 10)
DirEnd(f)        == 12 + 16 * NumTables(f)
RecAt(f, i) == LET b == 12 + 16 * (i - 1) IN
  [tag |-> SubSeq(f, b + 1, b + 4), sum |-> U32(f, b + 4), off |-> U32(f, b + 8), len |-> U32(f, b + 12)]
Dir(f) == [i \in 1..NumTables(f) |-> RecAt(f, i)]

HEAD == <<104, 101, 97, 100>>
TagLess(a, b) == \E i \in 1..4 : (\A j \in 1..(i - 1) : a[j] = b[j]) /\ a[i] < b[i]
Printable(t)  == Len(t) = 4 /\ \A i \in 1..4 : t[i] >= 32 /\ t[i] <= 126
ZeroAdj(s)    == [i \in 1..Len(s) |-> IF i \in 9..12 THEN 0 ELSE s[i]]   \* head.checkSumAdjustment := 0

TableBytes(f, r) == SubSeq(f, Int32(r.off) + 1, Int32(r.off) + Int32(r.len))

---------------------------------------------------------------------------
(* The property, clause by clause (each clause presupposes the earlier ones) *)

\* the offset table and the whole directory are inside the file; at least one table
HeaderOK(f) == Len(f) >= 12 /\ NumTables(f) >= 1 /\ Len(f) >= DirEnd(f)

\* searchRange = 16 * 2^floor(log2 n), entrySelector = floor(log2 n), rangeShift = 16 n - searchRange
SearchFieldsOK(f) ==
  LET n == NumTables(f)
      e == Log2(n)
  IN  SearchRange(f) = 16 * Pow2(e) /\ EntrySelector(f) = e /\ RangeShift(f) = 16 * n - 16 * Pow2(e)

\* records sorted by tag (strictly: no tag twice), tags are four printable characters
SortedOK(f) ==
  LET d == Dir(f) IN
  /\ \A i \in 1..Len(d) : Printable(d[i].tag)
  /\ \A i \in 1..(Len(d) - 1) : TagLess(d[i].tag, d[i + 1].tag)

\* every table starts on a 4-byte boundary behind the directory and ends inside the file
ExtentOK(f) ==
  \A i \in 1..NumTables(f) : LET r == RecAt(f, i) IN
    /\ Small(r.off) /\ Small(r.len)
    /\ Int32(r.off) % 4 = 0
    /\ Int32(r.off) >= DirEnd(f)
    /\ Int32(r.off) + Int32(r.len) <= Len(f)

\* no two tables share a byte
NoOverlap(f) ==
  LET d == Dir(f) IN
  \A i, j \in 1..Len(d) : i < j =>
    \/ Int32(d[i].len) = 0 \/ Int32(d[j].len) = 0
    \/ Int32(d[i].off) + Int32(d[i].len) <= Int32(d[j].off)
    \/ Int32(d[j].off) + Int32(d[j].len) <= Int32(d[i].off)

\* the directory checksum of a table is the checksum of the zero-padded table; for head the
\* OpenType specification computes it with checkSumAdjustment = 0 (the literal reading of the
\* property text, with the adjustment in place, is accepted as well)
RecSumOK(f, r) ==
  LET b == TableBytes(f, r) IN
  \/ r.sum = Checksum(b)
  \/ r.tag = HEAD /\ Len(b) >= 12 /\ r.sum = Checksum(ZeroAdj(b))
ChecksumsOK(f) == \A i \in 1..NumTables(f) : RecSumOK(f, RecAt(f, i))

\* with a head table the sum of all words of the file is 0xB1B0AFBA
HasHead(f)   == \E i \in 1..NumTables(f) : RecAt(f, i).tag = HEAD /\ Int32(RecAt(f, i).len) >= 12
FileSum(f)   == Checksum(f)
FileSumOK(f) == HasHead(f) => FileSum(f) = Magic

WellFormed(f) ==
  /\ HeaderOK(f) /\ SearchFieldsOK(f) /\ SortedOK(f) /\ ExtentOK(f)
  /\ NoOverlap(f) /\ ChecksumsOK(f) /\ FileSumOK(f)

\* name of the first clause that fails ("" if none): used for diagnostics only
WhyNot(f) ==
  IF ~HeaderOK(f) THEN "header" ELSE
  IF ~SearchFieldsOK(f) THEN "searchfields" ELSE
  IF ~SortedOK(f) THEN "sorted" ELSE
  IF ~ExtentOK(f) THEN "extent" ELSE
  IF ~NoOverlap(f) THEN "overlap" ELSE
  IF ~ChecksumsOK(f) THEN "checksum" ELSE
  IF ~FileSumOK(f) THEN "filesum" ELSE ""

\* what reading a well-formed container returns
TablesOf(f) == {<<RecAt(f, i).tag, TableBytes(f, RecAt(f, i))>> : i \in 1..NumTables(f)}

---------------------------------------------------------------------------
(* Whole fonts.  Tables every OpenType font must contain ("Font tables",   *)
(* required tables), plus the outline tables of its kind.  cmap is only    *)
(* demanded of fonts that have a character map at all (Font.Write of the   *)
(* unchanged tree writes none for CMapTable = nil).                        *)
TagOf(name) == CASE name = "head" -> HEAD
                 [] name = "hhea" -> <<104, 104, 101, 97>>
                 [] name = "hmtx" -> <<104, 109, 116, 120>>
                 [] name = "maxp" -> <<109, 97, 120, 112>>
                 [] name = "name" -> <<110, 97, 109, 101>>
                 [] name = "OS/2" -> <<79, 83, 47, 50>>
                 [] name = "post" -> <<112, 111, 115, 116>>
                 [] name = "cmap" -> <<99, 109, 97, 112>>
                 [] name = "glyf" -> <<103, 108, 121, 102>>
                 [] name = "loca" -> <<108, 111, 99, 97>>
                 [] name = "CFF " -> <<67, 70, 70, 32>>
RequiredNames(okind, hasCmap) ==
  {"head", "hhea", "hmtx", "maxp", "name", "OS/2", "post"}
    \cup (IF hasCmap THEN {"cmap"} ELSE {})
    \cup (IF okind = "ttf" THEN {"glyf", "loca"} ELSE {"CFF "})
RequiredTables(okind, hasCmap) == {TagOf(nm) : nm \in RequiredNames(okind, hasCmap)}
TagsIn(f) == {RecAt(f, i).tag : i \in 1..NumTables(f)}

---------------------------------------------------------------------------
(* Inputs of the writer: a sequence of entries [tag, nil, data] with       *)
(* pairwise different tags (a Go map).  Entries with nil = TRUE are not    *)
(* written.  The writer stores checkSumAdjustment into the head data, so   *)
(* head is compared with that field masked.                                *)
Present(inp) == {i \in 1..Len(inp) : ~inp[i].nil}
Mask(tag, b) == IF tag = HEAD /\ Len(b) >= 12 THEN ZeroAdj(b) ELSE b
Masked(T)    == {<<x[1], Mask(x[1], x[2])>> : x \in T}
Expected(inp) == {<<inp[i].tag, Mask(inp[i].tag, inp[i].data)>> : i \in Present(inp)}

(* The layout function.  phys is the physical order of the tables: a       *)
(* sequence without repetitions enumerating Present(inp); the format does  *)
(* not prescribe it (there is only a recommendation).                      *)
Build(scaler, inp, phys) ==
  LET n     == Len(phys)
      e     == Log2(n)
      D(j)  == Mask(inp[phys[j]].tag, inp[phys[j]].data)     \* head with adjustment 0
      off   == [j \in 1..n |-> 12 + 16 * n
                  + FoldLeft(LAMBDA a, m : a + Pad4(Len(inp[phys[m]].data)), 0, [m \in 1..(j - 1) |-> m])]
      byTag == SortSeq([j \in 1..n |-> j], LAMBDA a, b : TagLess(inp[phys[a]].tag, inp[phys[b]].tag))
      rec(j) == inp[phys[j]].tag \o Bytes32(Checksum(D(j))) \o Bytes32(Word(off[j]))
                  \o Bytes32(Word(Len(inp[phys[j]].data)))
      hdr   == Bytes32(scaler) \o Bytes16(n) \o Bytes16(16 * Pow2(e)) \o Bytes16(e)
                  \o Bytes16(16 * n - 16 * Pow2(e))
                  \o FlattenSeq([q \in 1..n |-> rec(byTag[q])])
      body0 == FlattenSeq([j \in 1..n |-> ZeroPad(D(j))])
      adj   == Bytes32(Sub32(Magic, Checksum(hdr \o body0)))
      patch(j) == IF inp[phys[j]].tag = HEAD /\ Len(D(j)) >= 12
                    THEN [i \in 1..Len(D(j)) |-> IF i \in 9..12 THEN adj[i - 8] ELSE D(j)[i]]
                    ELSE D(j)
  IN  hdr \o FlattenSeq([j \in 1..n |-> ZeroPad(patch(j))])
=============================================================================
