------------------------------ MODULE Metrics ------------------------------
(***************************************************************************)
(* C12.  Metrics / header tables: a reference encoder and decoder for      *)
(* hhea+hmtx, head, maxp, OS/2 and post built on the definitions of        *)
(* MetricsDefs.tla, as a small state machine                               *)
(*                                                                         *)
(*    build --(AddGlyph | AddWidth | AddRun)*--> build                     *)
(*          --Encode-->  encoded    (hmtx.Info.Encode, head.Info.Encode,   *)
(*                                   maxp/os2/post Info.Encode)            *)
(*          --Decode-->  decoded    (hmtx.Decode, head.Read, ...)          *)
(*                                                                         *)
(* TLC checks on every reachable state (all glyph vectors up to MaxG over  *)
(* GlyphChoices, all width vectors up to MaxW over WAlpha, all run-length  *)
(* descriptors up to MaxRuns, all flag subsets of head / OS/2, all listed  *)
(* times, angles and maxima):                                              *)
(*   RoundTrip     decode(encode(x)) = x                                   *)
(*   JudgeAccepts  the judge used on the real library's output accepts     *)
(*                 the reference encoder's output (the judge is            *)
(*                 satisfiable; the definitions are mutually consistent)   *)
(*   NumLongLaw    NumLong is the least k whose decoding restores the      *)
(*                 widths; every k from NumLong to n also does; none below *)
(*   RunLaw        the run-length forms agree with the expanded vectors    *)
(*   BitsInjective different flag records never share an encoding          *)
(*   TimeLaw       1904 epoch: FromMacTime(ToMacTime(t)) = t, zero <-> 0   *)
(* With Gen = TRUE every decoded state is printed as a case for replay     *)
(* into the real library (binding R).                                      *)
(***************************************************************************)
EXTENDS MetricsDefs, TLC, Json

CONSTANTS Gen,       \* TRUE: print the cases (MetricsGen.cfg)
          MaxG,      \* glyph vectors (width, lsb, box) up to this length
          MaxW,      \* width vectors up to this length
          MaxRuns,   \* run-length descriptors up to this many runs
          BigRuns,   \* TRUE: run counts reach 65535 glyphs (generation); FALSE: small, expanded and checked
          CaretR     \* caret slopes: all (rise, run) with |rise|, |run| <= CaretR, plus extremes

VARIABLES kind, inp, raw, out, pc
vars == <<kind, inp, raw, out, pc>>

E0 == <<0, 0, 0, 0>>
\* <<advance width, left side bearing, <<xMin, yMin, xMax, yMax>>>>
GlyphChoices == {
  <<0, 0, E0>>,                                   \* empty, zero width
  <<500, 7, E0>>,                                 \* empty; its bearing must be ignored
  <<500, 10, <<10, -20, 400, 700>>>>,             \* lsb = xMin
  <<500, 15, <<10, -20, 400, 700>>>>,             \* lsb # xMin (allowed in TrueType)
  <<32767, -100, <<-100, -300, 32767, 900>>>>,    \* extremes
  <<0, -32768, <<-32768, 0, -32000, 10>>>>,       \* zero-width mark far left
  <<600, 50, <<50, 0, 700, 10>>>>,                \* negative right side bearing
  <<499, -3, <<-3, -32768, 2, 32767>>>> }
WAlpha == {0, 500, 32767}
RunVals == {0, 500, 501}
RunCounts == IF BigRuns THEN {1, 2, 255, 256, 257, 32767, 32768, 65533} ELSE {1, 2, 3}
MaxGlyphs == IF BigRuns THEN 65535 ELSE 7

Pick(s, k) == s[(k % Len(s)) + 1]
Ext16 == <<0, 1, -1, 800, -200, 32767, -32768, 255, 256, -256>>
CaretPairs == <<<<1, 0>>, <<1000, 176>>, <<32767, 1>>, <<1, 32767>>, <<3, -2>>, <<-1, 0>>, <<-5, 3>>,
                <<2048, -364>>, <<32767, -32767>>, <<7, 32765>>, <<100, -1>>, <<-32767, 32766>>>>
\* unix seconds as 64-bit two's-complement limbs (least significant first)
Times == << <<0, 0, 0, 0>>,                       \* 1970-01-01
            <<23973, 24077, 0, 0>>,               \* 2020-01-02T03:04:05Z = 1577934245
            <<20353, 33754, 65535, 65535>>,       \* one second after the 1904 epoch: -2082844799
            <<20351, 33754, 65535, 65535>>,       \* one second before it: -2082844801
            <<65535, 32767, 0, 0>>,               \* 2^31 - 1
            <<0, 32768, 0, 0>>,                   \* 2^31
            <<7, 0, 1, 0>>,                       \* 2^32 + 7
            <<65535, 65535, 65535, 65535>>,       \* -1
            <<16767, 65524, 58, 0>> >>            \* 9999-12-31T23:59:59Z = 253402300799
Upms == <<1000, 2048, 16, 16384, 65535, 1>>
Boxes == << <<0, 0, 0, 0>>, <<-100, -250, 1200, 950>>, <<-32768, -32768, 32767, 32767>>, <<5, 6, 7, 8>> >>
HeadFlags == {"ybase", "xbase", "nonlin", "bold", "italic", "shadow", "cond", "ext"}
StyleFlags == {"bold", "italic", "regular", "oblique", "nosub", "bmp"}
Perms == <<"install", "restricted", "view", "edit">>
CodePageSets == [i \in 1..64 |-> {i - 1}] \o
                << {}, 0..63, {i \in 0..63 : i % 2 = 0}, {0, 15, 16, 31, 32, 47, 48, 63}, {1, 29, 30, 62} >>
\* italic angles as 16.16: <<integer part (two's complement word), fraction>>
Angles == << <<0, 0>>, <<65524, 0>>, <<65523, 32768>>, <<12, 1>>, <<65535, 65535>>, <<32767, 65535>>,
             <<32768, 0>>, <<0, 1>>, <<65526, 49152>> >>
MaxpNs == <<1, 2, 255, 256, 257, 65535>>
MaxpTs == << [i \in 1..13 |-> 0], [i \in 1..13 |-> 65535], [i \in 1..13 |-> i], [i \in 1..13 |-> 256 * i + 14 - i] >>

CaretExtremes == {<<32767, 1>>, <<1, 32767>>, <<32767, 32767>>, <<32767, -32767>>, <<-32767, 32766>>, <<32766, 32767>>,
                  <<32749, 32719>>, <<1000, 176>>, <<2048, -364>>, <<-1, 32767>>, <<17, -32765>>, <<30000, 29999>>}
CaretDomain == {p \in (-CaretR..CaretR) \X (-CaretR..CaretR) : p # <<0, 0>>} \cup CaretExtremes

Kinds == {"hmtx", "wvec", "runs", "caret", "head", "os2", "post", "maxp"}

---------------------------------------------------------------------------
Init ==
  /\ pc = "build" /\ raw = <<>> /\ out = <<>>
  /\ kind \in Kinds
  /\ CASE kind = "hmtx" -> \E mode \in {"given", "derived", "nobox"} : inp = [mode |-> mode, g |-> <<>>]
       [] kind = "wvec" -> inp = [w |-> <<>>]
       [] kind = "runs" -> inp = [wr |-> <<>>]
       [] kind = "caret" -> \E p \in CaretDomain : inp = [rise |-> p[1], run |-> p[2]]
       [] kind = "head" -> \E fl \in [HeadFlags -> BOOLEAN], tsel \in 0..2 : inp = [fl |-> fl, tsel |-> tsel]
       [] kind = "os2"  -> \E fl \in [StyleFlags -> BOOLEAN], p \in 1..4 : inp = [fl |-> fl, p |-> p]
       [] kind = "post" -> \E a \in 1..Len(Angles), u \in 1..4, fx \in BOOLEAN : inp = [a |-> a, u |-> u, fixed |-> fx]
       [] kind = "maxp" -> \E n \in 1..Len(MaxpNs), t \in 0..Len(MaxpTs) : inp = [n |-> n, t |-> t]

AddGlyph == /\ pc = "build" /\ kind = "hmtx" /\ Len(inp.g) < MaxG
            /\ \E g \in GlyphChoices : inp' = [inp EXCEPT !.g = Append(@, g)]
            /\ UNCHANGED <<kind, raw, out, pc>>
AddWidth == /\ pc = "build" /\ kind = "wvec" /\ Len(inp.w) < MaxW
            /\ \E w \in WAlpha : inp' = [inp EXCEPT !.w = Append(@, w)]
            /\ UNCHANGED <<kind, raw, out, pc>>
AddRun   == /\ pc = "build" /\ kind = "runs" /\ Len(inp.wr) < MaxRuns
            /\ \E v \in RunVals, c \in RunCounts :
                 /\ Len(inp.wr) > 0 => inp.wr[Len(inp.wr)][1] # v        \* canonical
                 /\ RunsLen(inp.wr) + c <= MaxGlyphs
                 /\ inp' = [inp EXCEPT !.wr = Append(@, <<v, c>>)]
            /\ UNCHANGED <<kind, raw, out, pc>>

---------------------------------------------------------------------------
(* the complete input record of a case (what the Info value of the library  *)
(* is built from); scalars that are not enumerated are picked by index      *)
FlagIndex(fl, names) == SeqSum([i \in 1..Len(names) |-> BitVal(fl[names[i]], i - 1)])
HeadNames == <<"ybase", "xbase", "nonlin", "bold", "italic", "shadow", "cond", "ext">>
StyleNames == <<"bold", "italic", "regular", "oblique", "nosub", "bmp">>

Seed(ws) == SeqSum(ws) + 3 * Len(ws)
HmtxScalars(k) ==
  [asc |-> Pick(Ext16, k), desc |-> Pick(Ext16, k + 3), gap |-> Pick(Ext16, k + 5), coff |-> Pick(Ext16, k + 7),
   rise |-> Pick(CaretPairs, k)[1], run |-> Pick(CaretPairs, k)[2]]

\* non-minimal but legal numbers of long records ("however trailing equal widths are compressed"):
\* the reference encoding with these k is handed to the library's decoder
AltK(w) == LET a == NumLong(w)
               n == Len(w)
           IN IF a = n THEN <<>> ELSE IF a + 1 = n THEN <<n>> ELSE <<(a + n) \div 2, n>>
Alt(w, lsb) == [j \in 1..Len(AltK(w)) |-> [k |-> AltK(w)[j], hm |-> HmtxWords(w, lsb, AltK(w)[j])]]
WithAlt(c) == [kind |-> c.kind, mode |-> c.mode, w |-> c.w, lsb |-> c.lsb, box |-> c.box, s |-> c.s,
               alt |-> Alt(c.w, c.lsb)]

Case ==
  CASE kind = "hmtx" ->
         LET n == Len(inp.g) IN
         [kind |-> "hmtx", mode |-> inp.mode,
          w   |-> [i \in 1..n |-> inp.g[i][1]],
          lsb |-> [i \in 1..n |-> IF inp.mode = "derived" THEN inp.g[i][3][1] ELSE inp.g[i][2]],
          box |-> [i \in 1..n |-> inp.g[i][3]],
          s   |-> HmtxScalars(Seed([i \in 1..n |-> inp.g[i][1] + (inp.g[i][2] % 7)]))]
    [] kind = "wvec" ->
         LET n == Len(inp.w) IN
         [kind |-> "hmtx", mode |-> "nobox", w |-> inp.w,
          lsb |-> [i \in 1..n |-> Pick(Ext16, i + Seed(inp.w))],
          box |-> [i \in 1..n |-> E0],
          s   |-> HmtxScalars(Seed(inp.w))]
    [] kind = "caret" ->
         [kind |-> "hmtx", mode |-> "derived", w |-> <<600>>, lsb |-> <<50>>, box |-> << <<50, 0, 700, 10>> >>,
          s |-> [HmtxScalars(Abs(inp.rise) + Abs(inp.run)) EXCEPT !.rise = inp.rise, !.run = inp.run]]
    [] kind = "runs" ->
         [kind |-> "runs", wr |-> inp.wr,
          lr |-> [i \in 1..Len(inp.wr) |-> <<Pick(Ext16, i + RunsLen(inp.wr)), inp.wr[i][2]>>]]
    [] kind = "head" ->
         LET k == FlagIndex(inp.fl, HeadNames) + 256 * inp.tsel IN
         [kind |-> "head", ybase |-> inp.fl["ybase"], xbase |-> inp.fl["xbase"], nonlin |-> inp.fl["nonlin"],
          bold |-> inp.fl["bold"], italic |-> inp.fl["italic"], shadow |-> inp.fl["shadow"],
          cond |-> inp.fl["cond"], ext |-> inp.fl["ext"],
          rev |-> <<Pick(<<1, 0, 65535, 2>>, k), Pick(<<0, 32768, 65535, 4096>>, k + 1)>>,
          upm |-> Pick(Upms, k),
          czero |-> (k % 11 = 3), c |-> Pick(Times, k),
          mzero |-> (k % 13 = 5), m |-> Pick(Times, k \div 2 + 4),
          bbox |-> Pick(Boxes, k), ppem |-> Pick(<<7, 0, 65535, 300>>, k \div 3),
          loca |-> k % 2]
    [] kind = "os2" ->
         LET k == FlagIndex(inp.fl, StyleNames) + 64 * (inp.p - 1) IN
         [kind |-> "os2", bold |-> inp.fl["bold"], italic |-> inp.fl["italic"], regular |-> inp.fl["regular"],
          oblique |-> inp.fl["oblique"], nosub |-> inp.fl["nosub"], bmp |-> inp.fl["bmp"],
          perm |-> Perms[inp.p], cp |-> Pick(CodePageSets, k),
          avg |-> Pick(Ext16, k), first |-> Pick(<<0, 32, 65535, 13>>, k), last |-> Pick(<<65535, 255, 0, 64000>>, k \div 4),
          asc |-> Pick(Ext16, k + 2), desc |-> Pick(Ext16, k + 4), gap |-> Pick(Ext16, k + 6)]
    [] kind = "post" ->
         [kind |-> "post", ahi |-> Angles[inp.a][1], alo |-> Angles[inp.a][2],
          upos |-> Pick(<<-100, 0, -32768, 32767>>, inp.u), uthick |-> Pick(<<50, 32767, 0, -32768>>, inp.u + inp.a),
          fixed |-> inp.fixed]
    [] kind = "maxp" ->
         [kind |-> "maxp", n |-> MaxpNs[inp.n], ttf |-> inp.t > 0,
          t |-> [i \in 1..13 |-> IF inp.t > 0 THEN MaxpTs[inp.t][i] ELSE 0]]

Ready == CASE kind = "hmtx" -> Len(inp.g) >= 1
           [] kind = "wvec" -> Len(inp.w) >= 1
           [] kind = "runs" -> Len(inp.wr) >= 1
           [] OTHER -> TRUE

---------------------------------------------------------------------------
(* reference encoder: one legal encoding of each table *)
AggOrZero(c) ==
  LET ne == NonEmptyIdx(c.box) IN
  IF c.mode = "nobox" \/ ne = {} \/ ~Representable(c.w, c.lsb, c.box)
    THEN <<IF c.mode # "nobox" /\ ne # {} THEN U16(MinLsbDef(c.lsb, c.box)) ELSE 0, 0, 0>>
    ELSE <<U16(MinLsbDef(c.lsb, c.box)), U16(MinRsbDef(c.w, c.lsb, c.box)), U16(MaxExtDef(c.lsb, c.box))>>

EncHmtx(c) ==
  LET k == NumLong(c.w)
      a == AggOrZero(c)
  IN [hhea |-> <<1, 0, U16(c.s.asc), U16(c.s.desc), U16(c.s.gap), AdvMaxDef(c.w), a[1], a[2], a[3],
                 U16(c.s.rise), U16(c.s.run), U16(c.s.coff), 0, 0, 0, 0, 0, k>>,
      hm |-> HmtxWords(c.w, c.lsb, k)]
DecHmtx(n, r) ==
  LET d == HmtxOfWords(n, W(r.hhea, 17), r.hm)
  IN [w |-> d.w, lsb |-> d.lsb, asc |-> SW(r.hhea, 2), desc |-> SW(r.hhea, 3), gap |-> SW(r.hhea, 4),
      coff |-> SW(r.hhea, 11), rise |-> SW(r.hhea, 9), run |-> SW(r.hhea, 10)]

\* run-length form: the long records are the vector truncated after the first element of its last run
EncRuns(c) ==
  LET k == NumLongRL(c.wr) IN [k |-> k, rw |-> TruncRuns(Canon(c.wr), k), rl |-> Canon(c.lr)]
DecRuns(c, r) ==
  LET n    == RunsLen(c.wr)
      last == r.rw[Len(r.rw)]
  IN [wr |-> Canon(Append(r.rw, <<last[1], n - r.k>>)), lr |-> r.rl]

TimeWords(zero, unix) ==
  LET l == IF zero THEN Zero64 ELSE ToMacTime(unix) IN <<l[4], l[3], l[2], l[1]>>
EncHead(c) ==
  <<1, 0, c.rev[1], c.rev[2], 0, 0, 24335, 15605,
    BitVal(c.ybase, 0) + BitVal(c.xbase, 1) + BitVal(c.nonlin, 2) + BitVal(c.nonlin, 4), c.upm>>
  \o TimeWords(c.czero, c.c) \o TimeWords(c.mzero, c.m)
  \o <<U16(c.bbox[1]), U16(c.bbox[2]), U16(c.bbox[3]), U16(c.bbox[4]), MacStyleOf(c), c.ppem, 2, U16(c.loca), 0>>
DecTime(t, k) == IF Limbs4(t, k) = Zero64 THEN [zero |-> TRUE, unix |-> Zero64]
                 ELSE [zero |-> FALSE, unix |-> FromMacTime(Limbs4(t, k))]
DecHead(t) ==
  [ybase |-> Bit(W(t, 8), 0), xbase |-> Bit(W(t, 8), 1), nonlin |-> Bit(W(t, 8), 2) \/ Bit(W(t, 8), 4),
   bold |-> Bit(W(t, 22), 0), italic |-> Bit(W(t, 22), 1), shadow |-> Bit(W(t, 22), 4),
   cond |-> Bit(W(t, 22), 5), ext |-> Bit(W(t, 22), 6),
   rev |-> <<W(t, 2), W(t, 3)>>, upm |-> W(t, 9),
   czero |-> DecTime(t, 10).zero, c |-> DecTime(t, 10).unix,
   mzero |-> DecTime(t, 14).zero, m |-> DecTime(t, 14).unix,
   bbox |-> <<SW(t, 18), SW(t, 19), SW(t, 20), SW(t, 21)>>, ppem |-> W(t, 23), loca |-> SW(t, 25)]

EncMaxp(c) == IF c.ttf THEN <<1, 0, c.n>> \o c.t ELSE <<0, 20480, c.n>>
DecMaxp(t) == [n |-> W(t, 2), ttf |-> W(t, 0) = 1,
               t |-> [i \in 1..13 |-> IF W(t, 0) = 1 THEN W(t, 2 + i) ELSE 0]]

CpWord(S, lo) == SeqSum([i \in 1..16 |-> BitVal((lo + i - 1) \in S, i - 1)])
EncOS2(c) ==
  LET sel == IF c.regular THEN 64 + BitVal(c.oblique, 9)
             ELSE BitVal(c.italic, 0) + BitVal(c.bold, 5) + BitVal(c.oblique, 9)
      ty  == UsageOf(c.perm) + BitVal(c.nosub, 8) + BitVal(c.bmp, 9)
  IN <<4, U16(c.avg), 400, 5, ty>> \o [i \in 1..26 |-> 0]
     \o <<sel, c.first, c.last, U16(c.asc), U16(c.desc), U16(c.gap), 0, 0,
          CpWord(c.cp, 16), CpWord(c.cp, 0), CpWord(c.cp, 48), CpWord(c.cp, 32), 0, 0, 0, 0, 0>>
DecOS2(t) ==
  [bold |-> Bit(W(t, 31), 5), italic |-> Bit(W(t, 31), 0), regular |-> Bit(W(t, 31), 6), oblique |-> Bit(W(t, 31), 9),
   nosub |-> Bit(W(t, 4), 8), bmp |-> Bit(W(t, 4), 9),
   perm |-> (CHOOSE p \in {"install", "restricted", "view", "edit"} : UsageOf(p) = W(t, 4) % 16),
   cp |-> CodePagesOf(t), avg |-> SW(t, 1), first |-> W(t, 32), last |-> W(t, 33),
   asc |-> SW(t, 34), desc |-> SW(t, 35), gap |-> SW(t, 36)]

EncPost(c) == <<3, 0, c.ahi, c.alo, U16(c.upos), U16(c.uthick), 0, BitVal(c.fixed, 0)>> \o [i \in 1..8 |-> 0]
DecPost(t) == [ahi |-> W(t, 2), alo |-> W(t, 3), upos |-> SW(t, 4), uthick |-> SW(t, 5),
               fixed |-> (W(t, 6) # 0 \/ W(t, 7) # 0)]

Encode ==
  /\ pc = "build" /\ Ready
  /\ LET c == Case IN
     raw' = CASE c.kind = "hmtx" -> EncHmtx(c)
              [] c.kind = "runs" -> EncRuns(c)
              [] c.kind = "head" -> EncHead(c)
              [] c.kind = "maxp" -> EncMaxp(c)
              [] c.kind = "os2"  -> EncOS2(c)
              [] c.kind = "post" -> EncPost(c)
  /\ pc' = "encoded"
  /\ UNCHANGED <<kind, inp, out>>

Decode ==
  /\ pc = "encoded"
  /\ LET c == Case IN
     out' = CASE c.kind = "hmtx" -> DecHmtx(Len(c.w), raw)
              [] c.kind = "runs" -> DecRuns(c, raw)
              [] c.kind = "head" -> DecHead(raw)
              [] c.kind = "maxp" -> DecMaxp(raw)
              [] c.kind = "os2"  -> DecOS2(raw)
              [] c.kind = "post" -> DecPost(raw)
  /\ pc' = "decoded"
  /\ UNCHANGED <<kind, inp, raw>>

Next == AddGlyph \/ AddWidth \/ AddRun \/ Encode \/ Decode
Spec == Init /\ [][Next]_vars

---------------------------------------------------------------------------
(* properties *)
SameOn(r1, r2, names) == \A f \in names : r1[f] = r2[f]

RoundTrip ==
  pc = "decoded" =>
    LET c == Case IN
    CASE c.kind = "hmtx" -> /\ out.w = c.w /\ out.lsb = c.lsb
                            /\ out.asc = c.s.asc /\ out.desc = c.s.desc /\ out.gap = c.s.gap /\ out.coff = c.s.coff
                            /\ SlopeSame(c.s.rise, c.s.run, out.rise, out.run)
      [] c.kind = "runs" -> out.wr = Canon(c.wr) /\ out.lr = Canon(c.lr)
      [] c.kind = "head" -> SameOn(out, c, HeadFlags \cup {"rev", "upm", "czero", "mzero", "bbox", "ppem", "loca"})
                            /\ (~c.czero => out.c = c.c) /\ (~c.mzero => out.m = c.m)
      [] c.kind = "maxp" -> SameOn(out, c, {"n", "ttf", "t"})
      [] c.kind = "os2"  -> /\ SameOn(out, c, {"oblique", "nosub", "bmp", "perm", "cp", "avg", "first", "last", "asc", "desc", "gap"})
                            /\ StyleConsistent(c) => SameOn(out, c, {"bold", "italic", "regular"})
      [] c.kind = "post" -> SameOn(out, c, {"ahi", "alo", "upos", "uthick", "fixed"})

\* maxp with the TrueType maxima keyed by field name, as the harness logs them
MaxpByName(c) == [n |-> c.n, ttf |-> c.ttf,
                  t |-> [nm \in {MaxpNames[i] : i \in 1..13} |-> c.t[CHOOSE i \in 1..13 : MaxpNames[i] = nm]]]

JudgeAccepts ==
  pc # "build" =>
    LET c == Case IN
    CASE c.kind = "hmtx" -> /\ JudgeHmtx(c.w, c.lsb, W(raw.hhea, 17), raw.hm)
                            /\ c.mode # "nobox" => JudgeAgg(c.w, c.lsb, c.box, raw.hhea)
                            /\ c.mode = "nobox" => W(raw.hhea, 5) = AdvMaxDef(c.w)
      [] c.kind = "runs" -> /\ raw.k >= NumLongRL(c.wr) /\ raw.k <= RunsLen(c.wr)
                            /\ raw.rw = TruncRuns(Canon(c.wr), raw.k)
      [] c.kind = "head" -> JudgeHead(c, raw)
      [] c.kind = "maxp" -> JudgeMaxp(MaxpByName(c), raw)
      [] c.kind = "os2"  -> JudgeOS2(c, raw)
      [] c.kind = "post" -> JudgePost(c, raw)

\* NumLong is the least number of long records that works; everything from there to n works
NumLongLaw ==
  (kind \in {"hmtx", "wvec", "caret"} /\ pc = "build" /\ Ready) =>
    LET c == Case
        n == Len(c.w)
    IN \A k \in 1..n : JudgeHmtx(c.w, c.lsb, k, HmtxWords(c.w, c.lsb, k)) <=> k >= NumLong(c.w)

RunLaw ==
  (kind = "runs" /\ pc = "build" /\ Ready /\ ~BigRuns) =>
    LET c == Case
        w == Expand(c.wr)
    IN /\ Len(w) = RunsLen(c.wr)
       /\ NumLongRL(c.wr) = NumLong(w)
       /\ IsCanon(c.wr) /\ Canon(c.wr) = c.wr
       /\ \A k \in 1..Len(w) : Expand(TruncRuns(c.wr, k)) = SubSeq(w, 1, k)
       /\ Canon(c.wr \o <<<<c.wr[Len(c.wr)][1], 1>>>>) = [c.wr EXCEPT ![Len(c.wr)] = <<@[1], @[2] + 1>>]

\* bit layouts are injective: the words determine the flags
BitsInjective ==
  /\ \A f1, f2 \in [HeadFlags -> BOOLEAN] :
       LET r(f) == [bold |-> f["bold"], italic |-> f["italic"], shadow |-> f["shadow"], cond |-> f["cond"], ext |-> f["ext"]]
       IN MacStyleOf(r(f1)) = MacStyleOf(r(f2)) =>
            \A nm \in {"bold", "italic", "shadow", "cond", "ext"} : f1[nm] = f2[nm]
  /\ \A i, j \in 0..63 : (CodePageWord(i) = CodePageWord(j) /\ i % 16 = j % 16) => i = j
  /\ \A p, q \in {"install", "restricted", "view", "edit"} : UsageOf(p) = UsageOf(q) => p = q

TimeLaw ==
  /\ \A i \in 1..Len(Times) : /\ FromMacTime(ToMacTime(Times[i])) = Times[i]
                              /\ ToMacTime(Times[i]) # Zero64
  /\ ToMacTime(<<20352, 33754, 65535, 65535>>) = Zero64     \* -2082844800 is the epoch itself
  /\ EpochLimbs = <<45184, 31781, 0, 0>>
  /\ ToMacTime(Times[1]) = EpochLimbs

ASSUME BitsInjective
ASSUME TimeLaw

TypeOK == /\ pc \in {"build", "encoded", "decoded"} /\ kind \in Kinds
          /\ (pc # "build" /\ kind \in {"head", "maxp", "os2", "post"}) => AllWords(raw)

Emit == (Gen /\ pc = "decoded") =>
          PrintT(<<"CASE", ToJson(IF Case.kind = "hmtx" THEN WithAlt(Case) ELSE Case)>>)
=============================================================================
