CONSTANTS
  MaxCode = 4
  N12 = 7
  G12 = 2
  NegAll = FALSE
  GA = 0
INIT InitMaps
NEXT NextMaps
INVARIANT Ref4OK
INVARIANT Arr4OK
INVARIANT Wide4OK
INVARIANT Fmt6OK
CHECK_DEADLOCK FALSE
