------------------------------- MODULE Guards -------------------------------
(***************************************************************************)
(* C02, guard models.  For the validators the property names, the          *)
(* acceptance tests of the decoder AND the accesses / allocations it       *)
(* performs while and after testing are transcribed with Go's integer      *)
(* semantics -- uintN arithmetic wraps (Wrap), int arithmetic does not --   *)
(* at a reduced word size, so that TLC can enumerate EVERY assignment of   *)
(* the fields.  For each guard                                             *)
(*     Accept(x)  = the decoder does not reject x for a reason in this     *)
(*                  guard (transcribed from the pinned code),              *)
(*     Trouble(x) = on the path the decoder takes for x, an index or slice *)
(*                  bound lies outside its buffer, a make() gets a         *)
(*                  negative length, or an allocation exceeds the bound    *)
(*                  the format allows (file size, or the 2^W-entry         *)
(*                  constant of a glyph-indexed table).                    *)
(* Trouble is what the property forbids ("never panics ... never allocates *)
(* out of proportion"); it is stated from the format, not from the code.   *)
(* A state with Trouble is a HOLE of the guard.  TLC enumerates all states *)
(* and prints every hole and a sample of the other states as CASE lines;   *)
(* the harness builds the corresponding real input (harness/cmd/c02/       *)
(* guards.go) and runs the real decoder.  Only the real outcome is a       *)
(* verdict (spec/DecoderTrace.tla, event "guard"); a hole that the real    *)
(* code survives is reported as a model-level observation.                 *)
(*                                                                         *)
(* Guards (file:line of the pinned tree):                                  *)
(*   dir      header/tables.go:92-160   table directory, uint32 End wraps  *)
(*   cmap     cmap/cmap.go:50-142       subtable offset/length, uint32     *)
(*   cmap4    cmap/format4.go:37-58     segment arrays of a format 4 table *)
(*   cmap4seg cmap/format4.go:72-90     idRangeOffset into glyphIdArray    *)
(*   cmap12   cmap/format12.go:43-75    segment checks and the size cap    *)
(*   index    cff/index.go:40-88        CFF INDEX offsets                  *)
(*   cffpriv  cff/dict.go:541-553       Private DICT (size, offset)        *)
(*   loca     glyf/loca.go:25-49, glyf.go:118, composite.go:110            *)
(*   simple   glyf/simple.go:47-160, 169-230  simple glyph decode          *)
(*   cover    coverage.go:108-136, set.go:75-104  coverage format 2        *)
(*   classdef classdef.go:75-97         class definition format 1          *)
(*   gpos5    gtab/gpos5.go:72-120      mark-to-ligature arrays            *)
(*   t2store  cff/t2decode.go:557-581   put/get into the transient array   *)
(*   t2stack  cff/t2decode.go:525-549   index / roll on the operand stack  *)
(*   sum32    a + b > limit guards formed in 32-bit arithmetic (overflow)   *)
(*   fixedtab counts / indices against tables of fixed size in the decoder *)
(*   prodcap  product of two counts as an array capacity (GPOS 2.2/4/5/6)   *)
(*   t2fan    steps executed by nested subroutine calls (fan^depth)          *)
(*   cdrev    class definition ranges re-opened by a reversed range          *)
(*   t2op     generator: every Type 2 operator with operands at extremes   *)
(*   sum      aggregate limits: k records, each within its own limit       *)
(*            (cmap 12 groups, coverage ranges, name records, kern         *)
(*            subtables), whose total must stay within the table's limit   *)
(***************************************************************************)
EXTENDS Integers, Sequences, FiniteSets, TLC, Json

CONSTANTS W,        \* word size in bits of the wrap-around guards (dir)
          Sample    \* every Sample-th non-hole state is emitted for replay (0 = none)

M == 2 ^ W
Wrap(v) == v % M                      \* Go unsigned arithmetic at word size W
InB(S, n) == \A i \in S : 0 <= i /\ i < n     \* index set S inside a buffer of n bytes
SliceOK(a, b, cap) == 0 <= a /\ a <= b /\ b <= cap   \* Go s[a:b] on capacity cap

VARIABLES g, x
vars == <<g, x>>

---------------------------------------------------------------------------
(* dir: two directory records (offset, length) in a file of F units; the   *)
(* header occupies DirHdr units.  coverage[i].End = offset + length in     *)
(* uint32.                                                                 *)
DirHdr == 1
DirDom == [o1 : 0..M-1, l1 : 0..M-1, o2 : 0..M-1, l2 : 0..M-1, F : {2, M \div 2, M - 1}]
DirEnd(o, l) == Wrap(o + l)
DirSorted(r) ==
  LET a == <<r.o1, DirEnd(r.o1, r.l1)>>
      b == <<r.o2, DirEnd(r.o2, r.l2)>>
  IN IF a[1] < b[1] \/ (a[1] = b[1] /\ a[2] <= b[2]) THEN <<a, b>> ELSE <<b, a>>
DirAccept(r) ==
  LET c == DirSorted(r) IN
  /\ c[1][1] >= DirHdr                       \* tables.go:138
  /\ c[1][2] <= c[2][1]                      \* :145 no overlap
  /\ c[2][2] - 1 >= 0 /\ c[2][2] - 1 < r.F   \* :152 last byte of the last table is readable
\* what the format demands of an accepted directory: every table inside the file
DirTrouble(r) == DirAccept(r) /\ ~(r.o1 + r.l1 <= r.F /\ r.o2 + r.l2 <= r.F)

---------------------------------------------------------------------------
(* cmap: header + one encoding record; real constants (header 4, record 8, *)
(* minLength 10, 32-bit formats need 12), word size 5 bits (M5 = 32).      *)
M5 == 32
W5(v) == v % M5
CmapDom == [L : 4..M5-1, nt : {0, 1}, o : 0..M5-1, f : {"s", "l", "v"}, len : 0..M5-1]
CmapP0(r) == r.L >= 4 + 8 * r.nt                                   \* cmap.go:58
CmapP1(r) == ~(r.o < 4 + 8 * r.nt \/ r.o > W5(r.L - 10))           \* :84
CmapP2(r) == r.f = "l" => ~(r.o > W5(r.L - 12))                    \* :98
CmapP3(r) == LET cl == IF r.f = "l" THEN 12 ELSE 10 IN
             ~(r.len < cl \/ r.len > W5(r.L - r.o))                \* :114
CmapAccept(r) == CmapP0(r) /\ (r.nt = 1 => CmapP1(r) /\ CmapP2(r) /\ CmapP3(r))
CmapTrouble(r) ==
  /\ r.nt = 1 /\ CmapP0(r) /\ CmapP1(r)
  /\ \/ ~InB({r.o, W5(r.o + 1)}, r.L)                                         \* :90 format
     \/ r.f = "s" /\ ~InB({W5(r.o + k) : k \in 2..5}, r.L)                  \* :94-95
     \/ r.f = "v" /\ ~InB({W5(r.o + k) : k \in 2..5}, r.L)                  \* :108
     \/ r.f = "l" /\ CmapP2(r) /\ ~InB({W5(r.o + k) : k \in {4, 5, 6, 7, 10, 11}}, r.L)
     \/ CmapP2(r) /\ CmapP3(r) /\ ~SliceOK(r.o, W5(r.o + r.len), r.L)       \* :141 data[o:o+length]

---------------------------------------------------------------------------
(* cmap4: a format-4 subtable of Lin bytes with segCountX2 = sx2.          *)
C4Dom == [Lin : 0..64, sx2 : 0..31]
C4Accept(r) == ~(r.Lin % 2 # 0 \/ r.Lin < 16) /\ ~(r.sx2 % 2 # 0 \/ 4 * r.sx2 + 16 > r.Lin)
C4Trouble(r) ==
  LET sc == r.sx2 \div 2
      nw == (r.Lin - 14) \div 2          \* len(words)
  IN C4Accept(r) /\
     ~(/\ InB({6, 7}, r.Lin)
       /\ SliceOK(0, sc, nw) /\ SliceOK(sc + 1, 2 * sc + 1, nw) /\ SliceOK(2 * sc + 1, 3 * sc + 1, nw)
       /\ SliceOK(3 * sc + 1, 4 * sc + 1, nw) /\ SliceOK(4 * sc + 1, nw, nw))

(* cmap4seg: segment k of sc with idRangeOffset r, cnt codes, glyphIdArray *)
(* of glen words.                                                          *)
C4SDom == [sc : 1..3, k : 0..2, r : 0..15, cnt : 1..6, glen : 0..6]
C4SAccept(q) == q.k < q.sc /\ (q.r # 0 => LET d == q.r \div 2 - (q.sc - q.k) IN ~(d < 0 \/ d + q.cnt > q.glen))
C4STrouble(q) == q.k < q.sc /\ q.r # 0 /\ C4SAccept(q) /\
                 LET d == q.r \div 2 - (q.sc - q.k) IN ~InB({d + j : j \in 0..q.cnt-1}, q.glen)

---------------------------------------------------------------------------
(* cmap12: two segments (start, end, startGlyph) in uint32 arithmetic at   *)
(* 3 bits; the 65536-entry cap is Cap12, the 0x10FFFF glyph limit Gid12.   *)
M3 == 8
W3(v) == v % M3
Cap12 == 3
Gid12 == 5
C12Dom == [n : {1, 2}, s1 : 0..M3-1, e1 : 0..M3-1, g1 : 0..M3-1, s2 : 0..M3-1, e2 : 0..M3-1, g2 : 0..M3-1]
C12SegOK(i, s, e, gid, prevEnd) ==
  ~(\/ i > 0 /\ s <= prevEnd
    \/ e < s
    \/ e = M3 - 1
    \/ gid > Gid12
    \/ W3(gid + W3(e - s)) > Gid12)                                 \* format12.go:57-61
\* number of map entries inserted before the decoder returns (accepting or rejecting)
C12Inserted(r) ==
  IF ~C12SegOK(0, r.s1, r.e1, r.g1, 0) THEN 0
  ELSE LET z1 == W3(W3(r.e1 - r.s1) + 1) IN
       IF z1 > Cap12 THEN 0
       ELSE LET n1 == r.e1 - r.s1 + 1 IN
            IF r.n = 1 \/ ~C12SegOK(1, r.s2, r.e2, r.g2, r.e1) THEN n1
            ELSE LET z2 == W3(z1 + W3(W3(r.e2 - r.s2) + 1)) IN
                 IF z2 > Cap12 THEN n1 ELSE n1 + (r.e2 - r.s2 + 1)
C12Accept(r) ==
  /\ C12SegOK(0, r.s1, r.e1, r.g1, 0) /\ W3(W3(r.e1 - r.s1) + 1) <= Cap12
  /\ r.n = 2 => /\ C12SegOK(1, r.s2, r.e2, r.g2, r.e1)
                /\ W3(W3(W3(r.e1 - r.s1) + 1) + W3(W3(r.e2 - r.s2) + 1)) <= Cap12
C12Trouble(r) == C12Inserted(r) > Cap12       \* more entries than the cap promises

---------------------------------------------------------------------------
(* index: a CFF INDEX with two objects: offsets a0 <= a1 <= a2 (1-based),  *)
(* file size S.                                                            *)
IdxDom == [a0 : 0..15, a1 : 0..15, a2 : 0..15, S : 0..15]
IdxAccept(r) == ~(r.a0 < 1 \/ r.a0 >= r.S) /\ ~(r.a1 < r.a0 \/ r.a1 >= r.S) /\ ~(r.a2 < r.a1 \/ r.a2 >= r.S)
IdxTrouble(r) == IdxAccept(r) /\
  ~(/\ r.a2 - 1 <= r.S                                       \* make([]byte, offsets[count]) within the file size
    /\ SliceOK(r.a0 - 1, r.a1 - 1, r.a2 - 1) /\ SliceOK(r.a1 - 1, r.a2 - 1, r.a2 - 1))

(* cffpriv: the (size, offset) operands of the Private entry are int32;    *)
(* model as 4-bit signed.  S = file size.  The reader checks               *)
(* int64(offs) + int64(size) > Size (no wrap) before make([]byte, size).   *)
PrivDom == [size : -8..7, offs : -8..7, S : 0..7]
PrivAccept(r) == ~(r.offs < 1 \/ r.size < 0) /\ ~(r.offs + r.size > r.S)   \* dict.go:542-547 (4 scaled to 1)
PrivTrouble(r) == PrivAccept(r) /\ r.size > r.S              \* make([]byte, pdSize) before any read

(* sum32: the overflow pattern of every guard of the form a + b > limit    *)
(* whose operands are 32-bit values taken from the file.  SW4 is int32     *)
(* addition at 4 bits (wraps from 7 to -8).  Accept is the guard as it     *)
(* would behave if the sum were formed in the NARROW type; Trouble is what *)
(* the format forbids.  The holes of this model are therefore exactly the  *)
(* inputs on which an implementation with narrow arithmetic differs from   *)
(* one with wide arithmetic: both operands valid on their own, their sum   *)
(* beyond the top of the word range.  They are replayed on the real        *)
(* decoder (operands scaled by 2^28, 7 -> 2^31-1, so that model sums wrap  *)
(* exactly when the real int32 sums do); the real code must survive them.  *)
(*   priv : Private (size, offset) against the file size, allocation size  *)
(*   subrs: offset of the Private DICT + Subrs offset, used as a position  *)
SW4(v) == ((v + 8) % 16) - 8
Sum32Dom == [kind : {"priv", "subrs"}, a : -8..7, b : -8..7, S : {0, 3, 7}]
Sum32Accept(r) ==
  IF r.kind = "priv" THEN ~(r.a < 1 \/ r.b < 0) /\ ~(SW4(r.a + r.b) > r.S)    \* a = offset, b = size
  ELSE r.a >= 1 /\ r.b > 0 /\ ~(SW4(r.a + r.b) < 1)                          \* a = Private offset, b = Subrs
Sum32Trouble(r) ==
  Sum32Accept(r) /\ (IF r.kind = "priv" THEN r.b > r.S ELSE r.a + r.b # SW4(r.a + r.b))

(* fixedtab: a count or index taken from the file is used to index a table *)
(* of FIXED size that is compiled into the decoder.  n sweeps the boundary *)
(* of each table (one below, at, one above).                               *)
(*   charset0/1/2: predefined ISOAdobe / Expert / ExpertSubset charset of  *)
(*            229 / 166 / 87 names, indexed by glyph number (read.go:225)  *)
(*   enc0/1 : predefined encodings, glyph counts around 256                *)
(*   sid    : 391 standard strings; a SID beyond them needs a custom string*)
(*   stack  : 48 operands on the charstring stack (t2decode.go:116)        *)
(*   postmac: 258 Macintosh glyph names of a format 2 "post" table         *)
(*   nest   : subroutine calls nested 10 deep (t2decode.go:646)            *)
FixLen(t) == CASE t = "charset0" -> 229 [] t = "charset1" -> 166 [] t = "charset2" -> 87
               [] t = "enc0" -> 256 [] t = "enc1" -> 256 [] t = "sid" -> 391 [] t = "stack" -> 48 [] t = "postmac" -> 258
               [] t = "nest" -> 10
FixDom == [tab : {"charset0", "charset1", "charset2", "enc0", "enc1", "sid", "stack", "postmac", "nest"}, d : -2..2,
           enc : {0, 1}]
FixN(r) == FixLen(r.tab) + r.d
\* counts (charset*, enc*, stack) are accepted up to the table length; indices (sid, postmac) below it
FixAccept(r) == IF r.tab \in {"sid", "postmac"} THEN FixN(r) < FixLen(r.tab)
                ELSE IF r.tab \in {"enc0", "enc1"} THEN TRUE ELSE FixN(r) <= FixLen(r.tab)
FixTrouble(r) == FixAccept(r) /\ r.tab \notin {"enc0", "enc1"} /\
                 ~InB({IF r.tab \in {"sid", "postmac"} THEN FixN(r) ELSE FixN(r) - 1}, FixLen(r.tab))

---------------------------------------------------------------------------
(* loca (short format): three entries x0,x1,x2 (pos = 2x), glyf length G.  *)
LocaDom == [x0 : 0..7, x1 : 0..7, x2 : 0..7, G : 0..15]
LocaAccept(r) == ~(2 * r.x0 < 0 \/ 2 * r.x0 > r.G) /\ ~(2 * r.x1 < 2 * r.x0 \/ 2 * r.x1 > r.G)
                 /\ ~(2 * r.x2 < 2 * r.x1 \/ 2 * r.x2 > r.G)
LocaTrouble(r) == LocaAccept(r) /\
  ~(/\ SliceOK(2 * r.x0, 2 * r.x1, r.G) /\ SliceOK(2 * r.x1, 2 * r.x2, r.G)
    \* glyph header: a glyph of 1..9 bytes is rejected before data[0..9] is read
    /\ \A n \in {2 * r.x1 - 2 * r.x0, 2 * r.x2 - 2 * r.x1} : (n # 0 /\ ~(n < 10)) => InB(0..9, n))

(* simple: a simple glyph with nc contours, end points e1 (, e2), no       *)
(* instructions and nf one-byte flags that need no coordinate bytes.       *)
(* removePadding (glyf/simple.go:169) is the guard, Decode (:47) the lazy  *)
(* decoder that runs on what the guard accepted.                           *)
SimDom == [nc : 0..2, e1 : 0..4, e2 : 0..4, nf : 0..6]
SimNP(r) == IF r.nc = 0 THEN 0 ELSE (IF r.nc = 1 THEN r.e1 ELSE r.e2) + 1
SimAccept(r) == r.nf >= SimNP(r)            \* every flag is present (removePadding :188-223)
SimTrouble(r) ==
  /\ SimAccept(r)
  /\ \/ r.nc = 0                                          \* :59 endPtsOfContours[numContours-1]
     \/ r.nc >= 1 /\ ~(r.e1 + 1 >= 0 /\ r.e1 + 1 <= SimNP(r))            \* :152 make, :154 xx[j]
     \/ r.nc = 2 /\ ~(r.e2 + 1 - (r.e1 + 1) >= 0 /\ r.e2 + 1 <= SimNP(r))

---------------------------------------------------------------------------
(* cover: coverage format 2 with two ranges at 3 bits; strict = Read,      *)
(* ~strict = ReadSet.  The table may hold at most M3 glyphs.               *)
CovDom == [strict : BOOLEAN, s1 : 0..M3-1, e1 : 0..M3-1, i1 : 0..M3-1, s2 : 0..M3-1, e2 : 0..M3-1, i2 : 0..M3+1]
CovR1(r) == ~(r.i1 # 0 \/ (IF r.strict THEN r.s1 <= -1 ELSE r.s1 < -1) \/ r.e1 < r.s1)
CovR2(r) == ~(r.i2 # r.e1 - r.s1 + 1 \/ (IF r.strict THEN r.s2 <= r.e1 ELSE r.s2 < r.e1) \/ r.e2 < r.s2)
CovAccept(r) == CovR1(r) /\ CovR2(r)
CovLoops(r) == IF ~CovR1(r) THEN 0 ELSE (r.e1 - r.s1 + 1) + (IF CovR2(r) THEN r.e2 - r.s2 + 1 ELSE 0)
CovTrouble(r) == CovLoops(r) > M3 + 1       \* work/allocation beyond the glyph-count constant

ClsDom == [start : 0..M3-1, count : 0..M3-1]
ClsAccept(r) == ~(r.start + r.count - 1 > M3 - 1)             \* classdef.go:80
ClsTrouble(r) == ClsAccept(r) /\ ~(r.count <= M3 /\ \A i \in 0..r.count-1 : r.start + i <= M3 - 1)

(* gpos5: ligCount offsets, markClassCount columns, componentCount rows.   *)
G5Dom == [lig : 0..3, mcc : 0..3, comp : 0..3]
G5Accept(r) == TRUE                                           \* the counts are not related by any test
G5Trouble(r) == \E i \in 0..r.lig-1 : r.comp >= 1 /\
                  (\/ \E j \in 0..r.mcc-1 : ~InB({j}, r.lig)        \* gpos5.go:109 offsets[j]
                   \/ ~InB({i}, r.comp))                            \* :117 ligAttach[i]

---------------------------------------------------------------------------
(* t2store: the transient array of a charstring has 32 entries and exists  *)
(* only after the first put (it is allocated on demand).  prior = a put    *)
(* was executed earlier in the same charstring.                            *)
T2SDom == [o : {"put", "get"}, prior : BOOLEAN, m : -2..34]
T2SLen(r) == IF r.prior THEN 32 ELSE 0                 \* len(storage) when the operator starts
T2SAccept(r) == IF r.o = "put" THEN ~(r.m < 0 \/ r.m >= 32)          \* t2decode.go:562
                ELSE ~(r.m < 0 \/ r.m >= T2SLen(r))                  \* :576
\* the index must lie inside the array that exists when it is used (put allocates first)
T2STrouble(r) == T2SAccept(r) /\ ~InB({r.m}, IF r.o = "put" THEN 32 ELSE T2SLen(r))

(* t2stack: depth operands lie below the arguments of index (n) or roll    *)
(* (n j).                                                                  *)
T2KDom == [o : {"index", "roll"}, depth : 0..4, n : -2..6, j : -9..9]
T2KAccept(r) ==
  IF r.o = "index"
    THEN LET idx == IF r.n < 0 THEN 0 ELSE r.n IN ~(r.depth - idx - 1 < 0)        \* :530-535
    ELSE ~(r.n <= 0 \/ r.n > r.depth)                                           \* :545
T2KTrouble(r) ==
  T2KAccept(r) /\
  IF r.o = "index"
    THEN LET idx == IF r.n < 0 THEN 0 ELSE r.n IN ~InB({r.depth - idx - 1, r.depth}, r.depth + 1)
    ELSE ~SliceOK(r.depth - r.n, r.depth, r.depth + 2)

(* sum: k records, each of size pct (percent of the table's limit, so each *)
(* passes a per-record test); the decoders keep a running total (cmap 12:  *)
(* size += ...; coverage: ranges must be disjoint and increasing) or the   *)
(* records share their data (name strings, kern pairs).  The number of     *)
(* entries created before the decoder returns must not exceed the limit    *)
(* (cmap12, cover) resp. 64 times the input (name, kern).                  *)
SumDom == [kind : {"cmap12", "cover", "name", "kern"}, k : {1, 2, 3, 17}, pct : {50, 80, 100}]
SumDone(r) == IF r.kind \in {"cmap12", "cover"}
                THEN (IF r.k * r.pct <= 100 THEN r.k ELSE 100 \div r.pct)   \* records accepted before the total fails
                ELSE r.k
SumAccept(r) == SumDone(r) = r.k
SumTrouble(r) == IF r.kind \in {"cmap12", "cover"} THEN SumDone(r) * r.pct > 100
                 ELSE r.k * r.pct > 64 * (r.pct + r.k)     \* shared data: input = one record's data + k headers

(* prodcap: two counts c1, c2 from the file whose PRODUCT sizes an array  *)
(* (anchor matrices of GPOS 4/5/6, class matrices of GPOS 2.2), at 3 bits; *)
(* avail = entries actually present in the (short) table.                  *)
(*   grow : the array grows by one entry per entry read (gpos5.go:107-114) *)
(*   cap  : the product is refused above a fixed bound before make()       *)
(*          (gpos4.go:83, gpos6.go, gpos.go:513: Cap scaled to 12)         *)
(* Trouble: more entries allocated than are present resp. than the bound.  *)
ProdDom == [kind : {"grow", "cap"}, c1 : 0..M3-1, c2 : 0..M3-1, avail : 0..12]
ProdCap == 12
ProdAlloc(r) == IF r.kind = "grow" THEN (IF r.c1 * r.c2 <= r.avail THEN r.c1 * r.c2 ELSE r.avail)
                ELSE (IF r.c1 * r.c2 > ProdCap THEN 0 ELSE r.c1 * r.c2)
ProdAccept(r) == IF r.kind = "grow" THEN r.c1 * r.c2 <= r.avail ELSE r.c1 * r.c2 <= ProdCap /\ r.c1 * r.c2 <= r.avail
ProdTrouble(r) == IF r.kind = "grow" THEN ProdAlloc(r) > r.avail ELSE ProdAlloc(r) > ProdCap

(* t2op: charstring CONTENT as untrusted bytes.  This "guard" is a pure     *)
(* generator: every operator of the Type 2 decoder, preceded by d filler   *)
(* operands and two operands a b taken from the extremes of every operand  *)
(* domain (roll/index counts, put/get indices, subroutine numbers around   *)
(* the bias -107, stack depth around 48).  Nothing is predicted; the real  *)
(* decoder must return a value or an error within the allocation bound.    *)
T2Ops == {1, 3, 4, 5, 6, 7, 8, 10, 11, 14, 18, 19, 20, 21, 22, 23, 24, 25, 26, 27, 29, 30, 31,
          1200, 1203, 1204, 1205, 1209, 1210, 1211, 1212, 1214, 1215, 1218, 1220, 1221, 1222, 1223, 1224, 1226,
          1227, 1228, 1229, 1230, 1234, 1235, 1236, 1237}
T2Ext == {-1131, -108, -107, -106, -105, -4, -1, 0, 1, 2, 3, 31, 32, 48, 1131}
T2StackOps == {10, 29, 19, 20, 1218, 1220, 1221, 1227, 1228, 1229, 1230}   \* always replayed completely
T2ODom == [op : T2Ops, d : {0, 2, 4, 47}, a : T2Ext, b : T2Ext]

(* t2fan: the number of STEPS a charstring may execute.  Subroutines call   *)
(* subroutines, at most ten levels deep (TN5177): that bounds the stack of  *)
(* the interpreter, not its running time.  A subroutine that calls the next *)
(* one `fan` times at every level executes fan^depth calls out of about     *)
(* 3 * fan * depth bytes.  The pinned decoder (t2decode.go) checks the      *)
(* depth only.  Trouble: more steps than a budget proportional to the input *)
(* (64 steps per byte + 2^20) -- at fan 8, depth 10 a 240-byte file keeps   *)
(* cff.Read busy for 10^9 calls.  depth 11 must be refused.                 *)
FanDom == [depth : 1..11, fan : {1, 2, 3, 8, 30}]
FanCap == 1073741824                      \* 2^30: "too many" (TLC integers are 32-bit)
RECURSIVE FanPow(_, _)
FanPow(f, d) == IF d = 0 THEN 1 ELSE LET r == FanPow(f, d - 1) IN IF r >= FanCap \div f THEN FanCap ELSE r * f
FanBytes(r) == 3 * r.fan * r.depth + 60
FanAccept(r) == r.depth <= 10
FanTrouble(r) == FanAccept(r) /\ FanPow(r.fan, r.depth) > 64 * FanBytes(r) + 1048576

(* cdrev: a class definition table in format 2 whose ranges are kept apart  *)
(* by the test "start > end of the previous range" only.  A range with      *)
(* end < start assigns nothing but resets that memory, so the next range    *)
(* may cover the whole glyph space again: k pairs (full range, reversed     *)
(* range) cost k * 65535 assignments for 12 k bytes.  Trouble: more work    *)
(* than a budget proportional to the input (64 steps per byte + 2^20).      *)
RevDom == [pairs : {1, 2, 16, 1000, 32767}]       \* 32767 pairs: the largest range count, 393 kB
RevWork(r) == IF r.pairs >= 16384 THEN FanCap ELSE r.pairs * 65535
RevAccept(r) == TRUE                                \* the pinned reader accepts every such table
RevTrouble(r) == RevWork(r) > 64 * (12 * r.pairs + 4) + 1048576

---------------------------------------------------------------------------
Names == {"dir", "cmap", "cmap4", "cmap4seg", "cmap12", "index", "cffpriv", "loca", "simple", "cover", "classdef", "gpos5",
          "t2store", "t2stack", "sum", "sum32", "fixedtab", "prodcap", "t2op", "t2fan", "cdrev"}
Dom(n) == CASE n = "dir" -> DirDom [] n = "cmap" -> CmapDom [] n = "cmap4" -> C4Dom [] n = "cmap4seg" -> C4SDom
            [] n = "cmap12" -> C12Dom [] n = "index" -> IdxDom [] n = "cffpriv" -> PrivDom [] n = "loca" -> LocaDom
            [] n = "simple" -> SimDom [] n = "cover" -> CovDom [] n = "classdef" -> ClsDom [] n = "gpos5" -> G5Dom
            [] n = "t2store" -> T2SDom [] n = "t2stack" -> T2KDom [] n = "sum" -> SumDom
            [] n = "sum32" -> Sum32Dom [] n = "fixedtab" -> FixDom [] n = "prodcap" -> ProdDom [] n = "t2op" -> T2ODom
            [] n = "t2fan" -> FanDom [] n = "cdrev" -> RevDom
Accept == CASE g = "dir" -> DirAccept(x) [] g = "cmap" -> CmapAccept(x) [] g = "cmap4" -> C4Accept(x)
            [] g = "cmap4seg" -> C4SAccept(x) [] g = "cmap12" -> C12Accept(x) [] g = "index" -> IdxAccept(x)
            [] g = "cffpriv" -> PrivAccept(x) [] g = "loca" -> LocaAccept(x) [] g = "simple" -> SimAccept(x)
            [] g = "cover" -> CovAccept(x) [] g = "classdef" -> ClsAccept(x) [] g = "gpos5" -> G5Accept(x)
            [] g = "t2store" -> T2SAccept(x) [] g = "t2stack" -> T2KAccept(x) [] g = "sum" -> SumAccept(x)
            [] g = "sum32" -> Sum32Accept(x) [] g = "fixedtab" -> FixAccept(x) [] g = "prodcap" -> ProdAccept(x)
            [] g = "t2op" -> TRUE [] g = "t2fan" -> FanAccept(x) [] g = "cdrev" -> RevAccept(x)
Trouble == CASE g = "dir" -> DirTrouble(x) [] g = "cmap" -> CmapTrouble(x) [] g = "cmap4" -> C4Trouble(x)
            [] g = "cmap4seg" -> C4STrouble(x) [] g = "cmap12" -> C12Trouble(x) [] g = "index" -> IdxTrouble(x)
            [] g = "cffpriv" -> PrivTrouble(x) [] g = "loca" -> LocaTrouble(x) [] g = "simple" -> SimTrouble(x)
            [] g = "cover" -> CovTrouble(x) [] g = "classdef" -> ClsTrouble(x) [] g = "gpos5" -> G5Trouble(x)
            [] g = "t2store" -> T2STrouble(x) [] g = "t2stack" -> T2KTrouble(x) [] g = "sum" -> SumTrouble(x)
            [] g = "sum32" -> Sum32Trouble(x) [] g = "fixedtab" -> FixTrouble(x) [] g = "prodcap" -> ProdTrouble(x)
            [] g = "t2op" -> FALSE [] g = "t2fan" -> FanTrouble(x) [] g = "cdrev" -> RevTrouble(x)

Init == g \in Names /\ x \in Dom(g)
Next == UNCHANGED vars
Spec == Init /\ [][Next]_vars

\* deterministic sampling of the non-hole states
Key == CASE g = "dir" -> x.o1 + 3 * x.l1 + 5 * x.o2 + 7 * x.l2 + x.F
         [] g = "cmap" -> x.L + 3 * x.o + 7 * x.len + x.nt
         [] g = "cmap4" -> x.Lin + 3 * x.sx2
         [] g = "cmap4seg" -> x.sc + 3 * x.k + 5 * x.r + 7 * x.cnt + 11 * x.glen
         [] g = "cmap12" -> x.s1 + 3 * x.e1 + 5 * x.g1 + 7 * x.s2 + 11 * x.e2 + 13 * x.g2 + x.n
         [] g = "index" -> x.a0 + 3 * x.a1 + 5 * x.a2 + 7 * x.S
         [] g = "cffpriv" -> x.size + 3 * x.offs + 5 * x.S + 64
         [] g = "loca" -> x.x0 + 3 * x.x1 + 5 * x.x2 + 7 * x.G
         [] g = "simple" -> x.nc + 3 * x.e1 + 5 * x.e2 + 7 * x.nf
         [] g = "cover" -> x.s1 + 3 * x.e1 + 5 * x.i1 + 7 * x.s2 + 11 * x.e2 + 13 * x.i2
         [] g = "classdef" -> x.start + 3 * x.count
         [] g = "gpos5" -> x.lig + 3 * x.mcc + 5 * x.comp
         [] OTHER -> 0
\* small guards are replayed completely
Sampled == Sample > 0 /\ (g \in {"simple", "gpos5", "classdef", "t2store", "t2stack", "sum", "fixedtab", "cffpriv", "t2fan", "cdrev"}
                          \/ (g = "sum32" /\ (x.a \in {-8, -1, 1, 6, 7} \/ x.b \in {-8, -1, 6, 7}))
                          \/ (g = "prodcap" /\ (x.c1 \in {0, 1, 6, 7} /\ x.c2 \in {0, 1, 6, 7}) /\ x.avail \in {0, 2, 12})
                          \/ (g = "t2op" /\ (x.op \in T2StackOps \/ (x.a + 2 * x.b + x.d + x.op) % 4 = 0))
                          \/ (g \notin {"sum32", "prodcap", "t2op"} /\ Key % Sample = 0))

\* every hole is printed; the (very many) holes of "dir" are all of one kind -- the uint32 sum
\* offset + length wraps -- so only every 23rd is replayed and the others are just counted
Emit == IF Trouble
          THEN IF g = "dir" /\ Key % 23 # 0
                 THEN PrintT(<<"HOLE", g>>)
                 ELSE PrintT(<<"CASE", ToJson([guard |-> g, x |-> x, accept |-> Accept, hole |-> TRUE])>>)
          ELSE Sampled => PrintT(<<"CASE", ToJson([guard |-> g, x |-> x, accept |-> Accept, hole |-> FALSE])>>)

\* The guards that TLC is expected to prove hole-free at this word size (checked as an
\* invariant in GuardsProved.cfg; the others are known or suspected holes and are only emitted).
Proved == {"cmap", "cmap4", "cmap4seg", "cmap12", "index", "loca", "cover", "classdef", "t2store", "t2stack", "sum",
           "cffpriv", "fixedtab", "prodcap", "t2op"}
NoHole == g \in Proved => ~Trouble
=============================================================================
