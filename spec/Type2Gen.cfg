\* C05: "mix" programs (all operators), integer numbers, simulation
CONSTANTS
  Unit = 1
  MaxV = 32000
  MaxPos = 1000000
  Vals <- CoarseVals
  SVals <- CoarseSVals
  Sizes <- AllSizes
  DWs <- CoarseDWs
  NWs <- CoarseNWs
  MaskBytes <- SomeBytes
  GenOps <- AllGenOps
  MaxOps = 14
  MaxArgs = 48
  MaxArith = 2
  MaxCalls = 4
  Sim = TRUE
  Feats <- MixOnly
  Excluded <- NoExcl
  Faults <- NoFaults
  NGs <- FontNGs
INIT Init
NEXT Next
INVARIANT StackOK
INVARIANT StatusOK
INVARIANT Emit
CHECK_DEADLOCK FALSE
