CONSTANTS
  Source = "built"
  Scale = "small"
  Reader = "repaired"
INIT Init
NEXT Next
INVARIANT G2IsG1
INVARIANT B3IsB2
INVARIANT Idempotent
INVARIANT WriteStable
INVARIANT DomClosed
INVARIANT OnlyPrecision
INVARIANT PrecIdempotent
CHECK_DEADLOCK FALSE
