CONSTANTS
  B = 4
  MaxFile = 10
  HistLen = 14
INIT Init
NEXT Next
INVARIANT WindowIsFileSlice
INVARIANT ReaderPositioned
INVARIANT CursorAgrees
INVARIANT Bounds
INVARIANT ReplyOK
INVARIANT Emit
CHECK_DEADLOCK FALSE
