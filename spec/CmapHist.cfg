CONSTANTS
  MaxCode = 65535
  MaxOps = 2
  AllowScratchReuse = FALSE
INIT Init
NEXT Next
INVARIANT ResultsStable
INVARIANT EmitFixed
INVARIANT Emit
CHECK_DEADLOCK FALSE
