CONSTANTS
  Mode = "find"
  Gen = TRUE
  CmapMenu <- XKCmapMenu
  WidthMenu <- XLWidthMenu
  MarkMenu <- NoPairs
  PlanMenu <- GFPlanMenu
  GsubMenu <- GFGsubMenu
  GposMenu <- GLGposMenu
  FeatTagsG <- GFFeatTags
  FeatTagsP <- GLFeatTagsP
  LkMenu <- GFLkMenu
  ReqMenu <- GFReqMenu
  OptMenu <- GFOptMenu
  TagPool <- Pool
  ReqPool <- GFReqPool
  SwMenuG <- GFSwMenu
  SwMenuP <- GLSwMenuP
  FlagMenu <- NoFlags
  PairsMenu <- NoPairs
  Chars <- GLChars
  Words <- NoWords
  MaxStr = 0
  MaxCalls = 4
INIT Init
NEXT Next
INVARIANT SelectionOK
INVARIANT Conserved
INVARIANT WidthsOK
INVARIANT Composition
INVARIANT Stable
INVARIANT KernOK
INVARIANT KernExact
INVARIANT Emit
CHECK_DEADLOCK FALSE
