CONSTANTS
  Sizes = {100, 40000}
  MaxLookups = 1
  MaxSubs = 3
  MfsChoices = {FALSE}
  ScriptSizes = {20}
  FeatSizes = {14}
  EmitCases = FALSE
  Types = {0}
  ExtType = 7
  Recognised = {0}
  Fix28 = FALSE
INIT Init
NEXT Next
INVARIANT DemandSubOffsets
CHECK_DEADLOCK FALSE
