----------------------------- MODULE Type2Core -----------------------------
(***************************************************************************)
(* The Type 2 charstring abstract machine of Adobe Technical Note #5177     *)
(* (and the subroutine bias rule of TN #5176 section 16), written from the *)
(* format specification: operand stack (48 entries), transient array (32   *)
(* cells), hint-stage automaton, one-shot width detection, current point,  *)
(* and for every operator its stack contract (enabling condition) and its  *)
(* effect on the abstract glyph (path, stems, masks, width).               *)
(*                                                                         *)
(* The machine is a pure function RunTok(m, token) on a state record, so   *)
(* that it can be used as a generator (Type2.tla, property C05) and as a   *)
(* trace specification (Type2Trace.tla, property C04).                     *)
(*                                                                         *)
(* Numbers are integers in units of 1/Unit (Unit = 1: integer programs;    *)
(* Unit = 65536: 16.16 fixed point with |v| <= 2000, so that every sum     *)
(* fits TLC's 32-bit integers).  div, mul, sqrt are modelled only where    *)
(* the result is exact (status "unmodelled" otherwise), random only as     *)
(* "some value in (0,1]".                                                  *)
(***************************************************************************)
EXTENDS Integers, Sequences, FiniteSets, TLC, SequencesExt

CONSTANTS Unit,      \* 1 or 65536
          MaxV,      \* bound on every number on the operand stack, in units
          MaxPos     \* bound on accumulated values (pen position, stem edges), in units; the pen may
                     \* leave the operand range: positions are sums of operands, not operands

MaxStack == 48
MaxDepth == 10

Abs(v) == IF v < 0 THEN -v ELSE v
Sgn(v) == IF v < 0 THEN -1 ELSE 1
IsWhole(v) == v % Unit = 0
\* n / d (d > 0) rounded to the nearest integer, halves away from zero: the rounding of 16.16
\* arithmetic (FreeType's FT_MulFix / FT_DivFix round the same way); no intermediate exceeds |n|
RoundHA(n, d) == LET q == Abs(n) \div d  r == Abs(n) % d IN Sgn(n) * (q + (IF 2 * r >= d THEN 1 ELSE 0))

\* ------------------------------------------------------------------ tokens
Num(n)       == [op |-> "num", v |-> n, mask |-> <<>>]
Op(o)        == [op |-> o,     v |-> 0, mask |-> <<>>]
MaskTok(o,b) == [op |-> o,     v |-> 0, mask |-> b]

MoveOps  == {"rmoveto", "hmoveto", "vmoveto"}
DrawOps  == {"rlineto", "hlineto", "vlineto", "rrcurveto", "rcurveline", "rlinecurve",
             "hhcurveto", "vvcurveto", "hvcurveto", "vhcurveto", "flex", "hflex", "hflex1", "flex1"}
StemOps  == {"hstem", "vstem", "hstemhm", "vstemhm"}
MaskOps  == {"hintmask", "cntrmask"}
ArithOps == {"abs", "add", "sub", "div", "neg", "mul", "sqrt", "drop", "exch", "index", "roll",
             "dup", "put", "get", "and", "or", "not", "eq", "ifelse", "random"}
ClearOps == MoveOps \cup DrawOps \cup StemOps \cup MaskOps \cup {"endchar"}

\* ------------------------------------------------------- the machine state
M0 == [stack |-> <<>>, path |-> <<>>, hs |-> <<>>, vs |-> <<>>,
       stage |-> 0,          \* 0 start, 1 stems declared, 2 after the first mask
       wset |-> FALSE,       \* the width decision has been taken
       w |-> <<>>,           \* <<>>: default width, <<v>>: nominal + v
       x |-> 0, y |-> 0, moved |-> FALSE,
       tdef |-> {}, trans |-> [i \in 0..31 |-> 0],
       indet |-> FALSE,      \* a transient cell was read before this charstring wrote it
       inex |-> FALSE,       \* the stack holds a quotient that is not a 16.16 number (see div)
       st |-> "run"]         \* run | done | error | unmodelled

Err(m)  == [m EXCEPT !.st = "error"]
Unm(m)  == [m EXCEPT !.st = "unmodelled"]

\* ------------------------------------------------- TN5177 section 4.1 paths
\* A segment is <<"l", dx, dy>> or <<"c", dxa, dya, dxb, dyb, dxc, dyc>> (relative).
Segs(op, a) ==
  LET n == Len(a) IN
  CASE op = "rlineto"   -> [i \in 1..(n \div 2) |-> <<"l", a[2*i-1], a[2*i]>>]
    [] op = "hlineto"   -> [i \in 1..n |-> IF i % 2 = 1 THEN <<"l", a[i], 0>> ELSE <<"l", 0, a[i]>>]
    [] op = "vlineto"   -> [i \in 1..n |-> IF i % 2 = 1 THEN <<"l", 0, a[i]>> ELSE <<"l", a[i], 0>>]
    [] op = "rrcurveto" -> [i \in 1..(n \div 6) |->
                             <<"c", a[6*i-5], a[6*i-4], a[6*i-3], a[6*i-2], a[6*i-1], a[6*i]>>]
    [] op = "rcurveline" -> [i \in 1..((n-2) \div 6) |->
                             <<"c", a[6*i-5], a[6*i-4], a[6*i-3], a[6*i-2], a[6*i-1], a[6*i]>>]
                            \o << <<"l", a[n-1], a[n]>> >>
    [] op = "rlinecurve" -> [i \in 1..((n-6) \div 2) |-> <<"l", a[2*i-1], a[2*i]>>]
                            \o << <<"c", a[n-5], a[n-4], a[n-3], a[n-2], a[n-1], a[n]>> >>
    [] op = "hhcurveto" -> LET o == n % 4  k == n \div 4 IN     \* dy1? {dxa dxb dyb dxc}+
         [i \in 1..k |-> LET b == o + 4*(i-1) IN
            <<"c", a[b+1], IF i = 1 /\ o = 1 THEN a[1] ELSE 0, a[b+2], a[b+3], a[b+4], 0>>]
    [] op = "vvcurveto" -> LET o == n % 4  k == n \div 4 IN     \* dx1? {dya dxb dyb dyc}+
         [i \in 1..k |-> LET b == o + 4*(i-1) IN
            <<"c", IF i = 1 /\ o = 1 THEN a[1] ELSE 0, a[b+1], a[b+2], a[b+3], 0, a[b+4]>>]
    [] op \in {"hvcurveto", "vhcurveto"} -> LET k == n \div 4  ex == n % 4 IN
         [i \in 1..k |-> LET b == 4*(i-1)
                             hstart == ((i % 2 = 1) = (op = "hvcurveto"))
                             e == IF i = k /\ ex = 1 THEN a[n] ELSE 0
                         IN IF hstart THEN <<"c", a[b+1], 0, a[b+2], a[b+3], e, a[b+4]>>
                                      ELSE <<"c", 0, a[b+1], a[b+2], a[b+3], a[b+4], e>>]
    [] op = "flex"   -> << <<"c", a[1], a[2], a[3], a[4], a[5], a[6]>>,
                           <<"c", a[7], a[8], a[9], a[10], a[11], a[12]>> >>
    [] op = "hflex"  -> << <<"c", a[1], 0, a[2], a[3], a[4], 0>>,
                           <<"c", a[5], 0, a[6], -a[3], a[7], 0>> >>
    [] op = "hflex1" -> << <<"c", a[1], a[2], a[3], a[4], a[5], 0>>,
                           <<"c", a[6], 0, a[7], a[8], a[9], -(a[2] + a[4] + a[8])>> >>
    [] op = "flex1"  -> LET sx == a[1] + a[3] + a[5] + a[7] + a[9]
                            sy == a[2] + a[4] + a[6] + a[8] + a[10] IN
         << <<"c", a[1], a[2], a[3], a[4], a[5], a[6]>>,
            IF Abs(sx) > Abs(sy) THEN <<"c", a[7], a[8], a[9], a[10], a[11], -sy>>
                                 ELSE <<"c", a[7], a[8], a[9], a[10], -sx, a[11]>> >>

\* legal operand counts (Appendix D of DESIGN.md, from TN5177 section 4.1)
Arity(op, n) ==
  CASE op = "rlineto"    -> n >= 2 /\ n % 2 = 0
    [] op \in {"hlineto", "vlineto"} -> n >= 1
    [] op = "rrcurveto"  -> n >= 6 /\ n % 6 = 0
    [] op = "rcurveline" -> n >= 8 /\ (n - 2) % 6 = 0
    [] op = "rlinecurve" -> n >= 8 /\ (n - 6) % 2 = 0
    [] op \in {"hhcurveto", "vvcurveto"} -> n >= 4 /\ n % 4 \in {0, 1}
    [] op \in {"hvcurveto", "vhcurveto"} -> n >= 4 /\ n % 8 \in {0, 1, 4, 5}
    [] op = "flex"   -> n = 13
    [] op = "hflex"  -> n = 7
    [] op = "hflex1" -> n = 9
    [] op = "flex1"  -> n = 11

\* absolute path commands from relative segments; ok = every coordinate stayed within MaxPos
ApplySegs(x0, y0, segs) ==
  LET In(v) == Abs(v) <= MaxPos
      step(acc, s) ==
        IF ~acc.ok THEN acc
        ELSE IF s[1] = "l"
        THEN LET nx == acc.px + s[2]  ny == acc.py + s[3] IN
             [px |-> nx, py |-> ny, ok |-> In(nx) /\ In(ny), out |-> Append(acc.out, <<"l", nx, ny>>)]
        ELSE LET ax == acc.px + s[2]  ay == acc.py + s[3]
                 bx == ax + s[4]      by == ay + s[5]
                 cx == bx + s[6]      cy == by + s[7]
             IN [px |-> cx, py |-> cy,
                 ok |-> In(ax) /\ In(ay) /\ In(bx) /\ In(by) /\ In(cx) /\ In(cy),
                 out |-> Append(acc.out, <<"c", ax, ay, bx, by, cx, cy>>)]
  IN FoldLeft(step, [px |-> x0, py |-> y0, ok |-> TRUE, out |-> <<>>], segs)

\* stem edges: within one operator each operand is relative to the previous edge
PrefixSums(a) ==
  FoldLeft(LAMBDA acc, v :
             IF ~acc.ok THEN acc
             ELSE LET e == acc.last + v IN
                  [last |-> e, ok |-> Abs(e) <= MaxPos, out |-> Append(acc.out, e)],
           [last |-> 0, ok |-> TRUE, out |-> <<>>], a)

\* ------------------------------------- arithmetic, stack, storage, conditional
Need(op) == CASE op \in {"abs", "neg", "sqrt", "drop", "dup", "not", "get", "index"} -> 1
              [] op \in {"add", "sub", "mul", "div", "exch", "eq", "and", "or", "put", "roll"} -> 2
              [] op = "ifelse" -> 4
              [] op = "random" -> 0

DoArith(m, op) ==
  LET s == m.stack  n == Len(s) IN
  IF n < Need(op) THEN Err(m) ELSE
  LET a  == IF n >= 1 THEN s[n] ELSE 0        \* top
      b  == IF n >= 2 THEN s[n-1] ELSE 0      \* second
      r1 == SubSeq(s, 1, n-1)
      r2 == SubSeq(s, 1, n-2)
      Bool(c) == IF c THEN Unit ELSE 0
      S(ns) == [m EXCEPT !.stack = ns]
  IN CASE op = "abs"  -> S(Append(r1, Abs(a)))
       [] op = "neg"  -> S(Append(r1, -a))
       [] op = "add"  -> S(Append(r2, b + a))
       [] op = "sub"  -> S(Append(r2, b - a))
       \* mul: the product of two 16.16 numbers, rounded to 16.16 (halves away from zero).  Modelled
       \* where the 32-bit integers of TLC can hold a * b, or one factor is whole (exact).
       [] op = "mul"  -> IF a = 0 \/ b = 0 THEN S(Append(r2, 0))
                         ELSE IF Abs(b) <= 2147483647 \div Abs(a) THEN S(Append(r2, RoundHA(a * b, Unit)))
                         ELSE IF IsWhole(a) THEN S(Append(r2, (a \div Unit) * b))
                         ELSE IF IsWhole(b) THEN S(Append(r2, (b \div Unit) * a))
                         ELSE Unm(m)
       \* div: exact quotients are numbers like any other.  A quotient that is not a 16.16 number is
       \* modelled for what it is used for here -- an operand of a path operator, where it counts
       \* rounded to 16.16, halves away from zero -- and only for |b| < 1/2 (32-bit integers of TLC):
       \* the rounded value is pushed and the stack marked inexact; until a path operator has taken
       \* the operands nothing else may touch them (status unmodelled).
       [] op = "div"  -> IF a = 0 THEN Unm(m)
                         ELSE IF IsWhole(a) /\ b % Abs(a \div Unit) = 0
                           THEN S(Append(r2, Sgn(a) * (b \div Abs(a \div Unit))))
                         ELSE IF Unit > 1 /\ Abs(b) <= 32767
                           THEN [m EXCEPT !.stack = Append(r2, RoundHA(Sgn(a) * b * Unit, Abs(a))), !.inex = TRUE]
                         ELSE Unm(m)
       [] op = "sqrt" -> IF a < 0 \/ ~IsWhole(a) THEN Unm(m)
                         ELSE LET q == a \div Unit
                                  R == {r \in 0..200 : r * r = q} IN
                              IF R = {} THEN Unm(m) ELSE S(Append(r1, (CHOOSE r \in R : TRUE) * Unit))
       [] op = "drop" -> S(r1)
       [] op = "exch" -> S(r2 \o <<a, b>>)
       [] op = "dup"  -> IF n >= MaxStack THEN Err(m) ELSE S(Append(s, a))
       [] op = "index" -> IF ~IsWhole(a) THEN Unm(m)
                          ELSE LET i == IF a < 0 THEN 0 ELSE a \div Unit IN
                               IF n - 1 < i + 1 THEN Err(m) ELSE S(Append(r1, r1[n - 1 - i]))
       [] op = "roll" -> IF ~IsWhole(a) \/ ~IsWhole(b) THEN Unm(m)
                         ELSE LET N == b \div Unit  J == a \div Unit IN
                              IF N = 0 THEN Unm(m)
                              ELSE IF N < 0 \/ N > n - 2 THEN Err(m)
                              ELSE LET base == n - 2 - N IN   \* positive J rolls towards the top
                                   S([i \in 1..(n-2) |->
                                        IF i <= base THEN r2[i]
                                        ELSE r2[base + ((i - base - 1 - J) % N) + 1]])
       [] op = "put"  -> IF ~IsWhole(a) THEN Unm(m)
                         ELSE LET i == a \div Unit IN
                              IF i < 0 \/ i > 31 THEN Err(m)
                              ELSE [m EXCEPT !.stack = r2, !.trans[i] = b, !.tdef = @ \cup {i}]
       [] op = "get"  -> IF ~IsWhole(a) THEN Unm(m)
                         ELSE LET i == a \div Unit IN
                              IF i < 0 \/ i > 31 THEN Err(m)
                              \* TN5177: the transient array lives for ONE charstring; a cell
                              \* not yet written by this charstring has no defined value.  The
                              \* machine goes on with a placeholder and marks the result
                              \* indeterminate: no value is specified for such a glyph, only that
                              \* it is a function of the charstring alone (Type2.tla, NextGlyph).
                              ELSE IF i \notin m.tdef
                                THEN [m EXCEPT !.stack = Append(r1, 0), !.indet = TRUE]
                              ELSE S(Append(r1, m.trans[i]))
       [] op = "and"  -> S(Append(r2, Bool(b # 0 /\ a # 0)))
       [] op = "or"   -> S(Append(r2, Bool(b # 0 \/ a # 0)))
       [] op = "not"  -> S(Append(r1, Bool(a = 0)))
       [] op = "eq"   -> S(Append(r2, Bool(b = a)))
       [] op = "ifelse" -> S(Append(SubSeq(s, 1, n-4), IF b <= a THEN s[n-3] ELSE s[n-2]))
       \* random: some value in (0,1]; the generator only uses it where the value is irrelevant
       [] op = "random" -> IF n >= MaxStack THEN Err(m) ELSE S(Append(s, Unit))

\* ------------------------------------------------------------ one token
Push(m, v) == IF Len(m.stack) >= MaxStack THEN Err(m) ELSE [m EXCEPT !.stack = Append(@, v)]

DoOp(m, t) ==
  LET s == m.stack  n == Len(s)  op == t.op IN
  \* an inexact quotient may only become a path operand (not a width, a stem, an arithmetic operand)
  IF m.inex /\ (op \notin MoveOps \cup DrawOps
                \/ (op \in MoveOps /\ ~m.wset /\ n = (IF op = "rmoveto" THEN 3 ELSE 2))) THEN Unm(m) ELSE
  CASE op \in MoveOps ->
         LET need == IF op = "rmoveto" THEN 2 ELSE 1
             hasW == ~m.wset /\ n = need + 1
             a    == IF hasW THEN Tail(s) ELSE s
         IN IF ~(n = need \/ hasW) THEN Err(m)
            ELSE LET dx == IF op = "vmoveto" THEN 0 ELSE a[1]
                     dy == IF op = "rmoveto" THEN a[2] ELSE IF op = "vmoveto" THEN a[1] ELSE 0
                 IN IF Abs(m.x + dx) > MaxPos \/ Abs(m.y + dy) > MaxPos THEN Unm(m)
                    ELSE [m EXCEPT !.stack = <<>>, !.wset = TRUE, !.w = IF hasW THEN <<s[1]>> ELSE @,
                                   !.x = @ + dx, !.y = @ + dy, !.moved = TRUE, !.inex = FALSE,
                                   !.path = Append(@, <<"m", m.x + dx, m.y + dy>>)]
    [] op \in DrawOps ->
         IF ~m.moved \/ ~Arity(op, n) THEN Err(m)
         ELSE LET r == ApplySegs(m.x, m.y, Segs(op, s)) IN
              IF ~r.ok THEN Unm(m)
              ELSE [m EXCEPT !.stack = <<>>, !.x = r.px, !.y = r.py, !.path = @ \o r.out, !.inex = FALSE]
    [] op \in StemOps ->
         LET hasW == ~m.wset /\ n % 2 = 1
             a    == IF hasW THEN Tail(s) ELSE s
             e    == PrefixSums(a)
         IN IF n < 2 \/ (n % 2 = 1 /\ m.wset) \/ m.stage > 1 THEN Err(m)
            ELSE IF ~e.ok THEN Unm(m)
            ELSE [m EXCEPT !.stack = <<>>, !.wset = TRUE, !.w = IF hasW THEN <<s[1]>> ELSE @,
                           !.stage = 1,
                           !.hs = IF op \in {"hstem", "hstemhm"} THEN @ \o e.out ELSE @,
                           !.vs = IF op \in {"vstem", "vstemhm"} THEN @ \o e.out ELSE @]
    [] op \in MaskOps ->
         \* operands in front of a mask are vertical stems whose operator was omitted
         LET hasW == ~m.wset /\ n % 2 = 1
             a    == IF hasW THEN Tail(s) ELSE s
             e    == PrefixSums(a)
             vs2  == m.vs \o e.out
             nst  == (Len(m.hs) + Len(vs2)) \div 2
         IN IF (n % 2 = 1 /\ m.wset) \/ (Len(a) >= 2 /\ m.stage > 1) \/ nst = 0
               \/ Len(t.mask) # (nst + 7) \div 8 THEN Err(m)
            ELSE IF ~e.ok THEN Unm(m)
            ELSE [m EXCEPT !.stack = <<>>, !.wset = TRUE, !.w = IF hasW THEN <<s[1]>> ELSE @,
                           !.stage = 2, !.vs = vs2,
                           !.path = Append(@, <<IF op = "hintmask" THEN "hm" ELSE "cm">> \o t.mask)]
    \* endchar takes no operand -- or the four operands adx ady bchar achar of the deprecated
    \* accented-character form (TN5177 appendix C).  The width, if any, comes first: 1 or 5 operands.
    \* The composition of the two named glyphs is outside this model: the glyph's own outline stands.
    [] op = "endchar" ->
         LET hasW == ~m.wset /\ n \in {1, 5} IN
         IF ~(n \in {0, 4} \/ hasW) THEN Err(m)
         ELSE [m EXCEPT !.stack = <<>>, !.wset = TRUE, !.w = IF hasW THEN <<s[1]>> ELSE @, !.st = "done"]
    [] op \in ArithOps -> DoArith(m, op)
    [] OTHER -> Err(m)       \* reserved operators; callsubr/return are resolved by the caller

\* one token of a flat (subroutine-free) charstring; nothing may follow endchar
RunTok(m, t) == IF m.st \in {"error", "unmodelled"} THEN m
                ELSE IF m.st = "done" THEN Err(m)
                ELSE IF t.op = "num" THEN Push(m, t.v)
                ELSE DoOp(m, t)
RunToks(m, toks) == FoldLeft(RunTok, m, toks)

Bounded(m) == \A i \in 1..Len(m.stack) : Abs(m.stack[i]) <= MaxV

\* subroutine bias, TN5176 section 16
Bias(size) == IF size < 1240 THEN 107 ELSE IF size < 33900 THEN 1131 ELSE 32768

\* the meaning of a finished program
Meaning(m, dw, nw) ==
  [path |-> m.path, hs |-> m.hs, vs |-> m.vs,
   width |-> IF m.w = <<>> THEN dw ELSE nw + m.w[1]]

=============================================================================
