------------------------------ MODULE DslLang ------------------------------
(***************************************************************************)
(* C19, part (b): the lookup description language itself -- no variables.  *)
(*                                                                         *)
(* 1. Canonical lookup lists (the projection harness/internal/dsl/canon.go *)
(*    makes of a gtab.LookupList; JSON objects arrive as records, arrays   *)
(*    as tuples) and what it means for one to conform to a shape of        *)
(*    Dsl.tla.  The projection keeps every sequence whose order matters in *)
(*    order -- the ligatures of a first glyph, the rules of a rule set,    *)
(*    the subtables of a lookup, the lookups of a list (first match wins)  *)
(*    -- so the equality of two projections demanded by DslTrace.tla is    *)
(*    order-sensitive exactly there; coverage and class maps are sorted.   *)
(* 2. The meaning of the notation, written from the documented syntax      *)
(*    (the examples of the package: glyph names, quoted strings looked up  *)
(*    through the character map, glyph numbers, ranges a-b, [sets],        *)
(*    :classes:, nested actions lookup@position, flags, value records,     *)
(*    anchors), and a list of hand-specified descriptions with the lookup  *)
(*    list each of them denotes.  TLC renders the text of every            *)
(*    description (Dsl.tla), the harness parses it with the real    *)
(*    builder.Parse, and DslTrace.tla compares the result with Meaning.    *)
(***************************************************************************)
EXTENDS Integers, Sequences, FiniteSets, TLC, SequencesExt

---------------------------------------------------------------------------
(* 1. conformance of a canonical lookup list to a shape *)

Elems(s) == {s[i] : i \in 1..Len(s)}
FlagBits(S) == (IF "marks" \in S THEN 8 ELSE 0) + (IF "ligs" \in S THEN 4 ELSE 0) + (IF "base" \in S THEN 2 ELSE 0)

KindOf(f) == CASE f \in {"run", "map", "rund"} -> "single"
               [] f = "mult" -> "multiple"
               [] f = "alt" -> "alternate"
               [] f \in {"lig", "ligrun"} -> "ligature"
               [] f = "curs" -> "cursive"
               [] OTHER -> f

AllOf(seq, P(_)) == \A i \in 1..Len(seq) : P(seq[i])
SumLen(seq) == IF seq = <<>> THEN 0 ELSE LET S[i \in 0..Len(seq)] == IF i = 0 THEN 0 ELSE S[i - 1] + Len(seq[i][2])
                                          IN S[Len(seq)]

SubConforms(s, f, st) ==
  /\ st.k = KindOf(f)
  /\ CASE f \in {"run", "map", "rund"} -> Len(st.map) = s.a
       [] f = "mult"   -> Len(st.map) = s.a /\ AllOf(st.map, LAMBDA m : Len(m[2]) = s.b)
       [] f = "alt"    -> Len(st.map) = s.a /\ AllOf(st.map, LAMBDA m : Len(m[2]) = s.b)
       [] f = "lig"    -> Len(st.map) = s.a
                          /\ AllOf(st.map, LAMBDA m : (s.c > 1 => Len(m[2]) = s.b) /\ AllOf(m[2], LAMBDA l : Len(l[1]) = s.c - 1))
       [] f = "ligrun" -> Len(st.map) = s.a /\ AllOf(st.map, LAMBDA m : Len(m[2]) = 1 /\ m[2][1][1] = <<>>)
       [] f = "ctx1"   -> SumLen(st.map) = s.a
                          /\ AllOf(st.map, LAMBDA m : AllOf(m[2], LAMBDA r : Len(r.in) = s.b - 1 /\ Len(r.act) = s.c))
       [] f = "ctx2"   -> Len(st.rules) = s.d + 1
                          /\ AllOf(st.rules, LAMBDA rr : AllOf(rr, LAMBDA r : Len(r.in) = s.b - 1 /\ Len(r.act) = s.c))
       [] f = "ctx3"   -> Len(st.in) = s.b /\ Len(st.act) = s.c
       [] f = "cc1"    -> SumLen(st.map) = s.a
                          /\ AllOf(st.map, LAMBDA m : AllOf(m[2], LAMBDA r :
                                 Len(r.back) = s.d /\ Len(r.in) = s.b - 1 /\ Len(r.ahead) = s.e /\ Len(r.act) = s.c))
       [] f = "cc2"    -> AllOf(st.rules, LAMBDA rr : AllOf(rr, LAMBDA r :
                                 Len(r.back) = s.d /\ Len(r.in) = s.b - 1 /\ Len(r.ahead) = s.e /\ Len(r.act) = s.c))
       [] f = "cc3"    -> Len(st.back) = s.d /\ Len(st.in) = s.b /\ Len(st.ahead) = s.e /\ Len(st.act) = s.c
       [] f = "pos1set"  -> Len(st.cov) = s.a /\ (s.b = 0 <=> st.adj = <<0, 0, 0, 0>>)
       [] f = "pos1each" -> Len(st.map) = s.a
       [] f = "pair"     -> Len(st.map) = s.a
       [] f = "pairclass" -> Len(st.adj) = s.a + 1 /\ AllOf(st.adj, LAMBDA row : Len(row) = s.d + 1)
       [] f = "curs"     -> Len(st.map) = s.a
       [] f = "markbase" -> Len(st.marks) = s.a /\ Len(st.bases) = s.c
                            /\ AllOf(st.bases, LAMBDA x : Len(x[2]) = s.b)

(* Subtable alternatives.  Every pair of alternative formats is a distinct kind of the projection *)
(* (pos1set/pos1each, pair/pairclass, ctx1/2/3, cc1/2/3) and is therefore preserved by equality,  *)
(* except GSUB 1: the notation lists glyph -> glyph mappings, and the parser stores them as        *)
(* format 1 exactly when the difference of the glyph ids is constant (modulo 65536).  So a format 1 *)
(* subtable must come back as format 1 and a format 2 subtable without constant difference as      *)
(* format 2; a format 2 subtable WITH constant difference cannot be told from format 1 in the       *)
(* notation (no demand).  Coverage and class-definition formats do not exist in the data model.     *)
ConstDelta(map) == \A i \in 1..Len(map) : (map[i][2] - map[i][1]) % 65536 = (map[1][2] - map[1][1]) % 65536
FormatsKept(before, bfmt, afmt) ==
  /\ Len(bfmt) = Len(before) /\ Len(afmt) = Len(before)
  /\ \A i \in 1..Len(before) :
       /\ Len(bfmt[i]) = Len(before[i].subs) /\ Len(afmt[i]) = Len(before[i].subs)
       /\ \A j \in 1..Len(before[i].subs) :
            LET st == before[i].subs[j] IN
            IF st.k = "single"
              THEN /\ bfmt[i][j] \in {1, 2} /\ afmt[i][j] \in {1, 2}
                   /\ bfmt[i][j] = 1 => (ConstDelta(st.map) /\ afmt[i][j] = 1)
                   /\ (bfmt[i][j] = 2 /\ ~ConstDelta(st.map)) => afmt[i][j] = 2
              ELSE bfmt[i][j] = 0 /\ afmt[i][j] = 0

Conforms(s, ll) ==
  /\ Len(ll) = IF s.lst = "single" THEN 1 ELSE 3
  /\ LET lk == ll[IF s.lst = "single" THEN 1 ELSE 2] IN
       /\ lk.typ = s.typ
       /\ lk.flags = FlagBits(Elems(s.flags))
       /\ lk.mfs = 0
       /\ Len(lk.subs) = Len(s.forms)
       /\ \A i \in 1..Len(s.forms) : SubConforms(s, s.forms[i], lk.subs[i])

---------------------------------------------------------------------------
(* 2. meaning *)

(* The font of the hand-specified descriptions: variant "nc" of the harness *)
(* (glyph 0 = .notdef; every glyph has a name and a character).            *)
MeaningFont == "nc"
GlyphNames == <<"A", "B", "C", "D", "E", "F", "G", "H", "I", "J", "K", "L", "M", "N", "O", "P", "Q", "R", "S", "T",
                "U", "V", "W", "X", "Y", "Z", "a", "b", "c", "d", "e", "f", "g", "h", "i", "j", "k", "l", "m", "n",
                "zero", "one", "two", "three", "four.alt", "five_x", "six">>
GlyphChars == <<"A", "B", "C", "D", "E", "F", "G", "H", "I", "J", "K", "L", "M", "N", "O", "P", "Q", "R", "S", "T",
                "U", "V", "W", "X", "Y", "Z", "a", "b", "c", "d", "e", "f", "g", "h", "i", "j", "k", "l", "m", "n",
                "0", "1", "2", "3", "4", "5", "6">>
GidOfName(n) == CHOOSE i \in 1..Len(GlyphNames) : GlyphNames[i] = n
GidOfChar(c) == CHOOSE i \in 1..Len(GlyphChars) : GlyphChars[i] = c

(* glyph lists: a sequence of elements *)
N(v) == [t |-> "name", v |-> v]     \* a glyph name
G(v) == [t |-> "gid", v |-> v]      \* a glyph number
S(v) == [t |-> "str", v |-> v]      \* a quoted string, v = its characters
To   == [t |-> "to", v |-> 0]       \* the range operator between its neighbours

ElGids(e) == CASE e.t = "name" -> <<GidOfName(e.v)>>
               [] e.t = "gid"  -> <<e.v>>
               [] e.t = "str"  -> [i \in 1..Len(e.v) |-> GidOfChar(e.v[i])]
               [] OTHER        -> <<>>

\* a-b : the glyphs from a to b in glyph order, upwards or downwards, both ends included
Between(a, b) == IF b > a THEN [i \in 1..(b - a) |-> a + i]
                 ELSE IF b < a THEN [i \in 1..(a - b) |-> a - i] ELSE <<>>

Ev(gl) ==
  LET step(st, e) ==
        IF e.t = "to" THEN [res |-> st.res, hy |-> TRUE]
        ELSE FoldLeft(LAMBDA s2, g : IF s2.hy THEN [res |-> s2.res \o Between(s2.res[Len(s2.res)], g), hy |-> FALSE]
                                     ELSE [res |-> Append(s2.res, g), hy |-> FALSE],
                      st, ElGids(e))
  IN FoldLeft(step, [res |-> <<>>, hy |-> FALSE], gl).res

\* [ ... ] : a set of glyphs, listed in increasing order without repetitions
SetOf(gl) == LET s == {Ev(gl)[i] : i \in 1..Len(Ev(gl))} IN SetToSortSeq(s, <)

Cat(ss) == FoldLeft(LAMBDA a, b : a \o b, "", ss)
RenderEl(e) == CASE e.t = "name" -> e.v
                 [] e.t = "gid"  -> ToString(e.v)
                 [] e.t = "str"  -> "\"" \o Cat(e.v) \o "\""
                 [] OTHER        -> "-"
\* ranges between names are written tight (A-C); everything else is separated by blanks
RenderGL(gl) ==
  LET tight(i) == /\ i > 1 /\ i < Len(gl) /\ gl[i].t = "to" /\ gl[i - 1].t # "gid" /\ gl[i + 1].t # "gid"
      sep(i) == IF i = 1 \/ tight(i) \/ tight(i - 1) THEN "" ELSE " "
      R[i \in 0..Len(gl)] == IF i = 0 THEN "" ELSE R[i - 1] \o sep(i) \o RenderEl(gl[i])
  IN R[Len(gl)]

(* a description: text parts (literal tokens and glyph lists) and, separately, what it means *)
T(s)  == [p |-> "tok", s |-> s]
L(gl) == [p |-> "gl", s |-> RenderGL(gl)]
NL    == T("\n")
Render(d) == LET R[i \in 0..Len(d.parts)] == IF i = 0 THEN "" ELSE R[i - 1] \o (IF i = 1 THEN "" ELSE " ") \o d.parts[i].s
             IN R[Len(d.parts)]
Meaning(d) == d.mean

(* canonical values *)
Lk(typ, flags, subs) == [typ |-> typ, flags |-> FlagBits(flags), mfs |-> 0, subs |-> subs]
ByFirst(pairs) == SortSeq(pairs, LAMBDA x, y : x[1] < y[1])
Pairs(a, b) == [i \in 1..Len(a) |-> <<a[i], b[i]>>]
Single(from, to) == [k |-> "single", map |-> ByFirst(Pairs(Ev(from), Ev(to)))]
Act(l, p) == <<l, p>>                          \* lookup l at input position p
NoVR == <<0, 0, 0, 0>>
VR(x, y, dx) == <<x, y, dx, 0>>
Rev(s) == [i \in 1..Len(s) |-> s[Len(s) + 1 - i]]

D1 == LET f1 == <<N("A")>> t1 == <<N("B")>> f2 == <<N("M")>> t2 == <<N("N")>> IN
  [parts |-> <<T("GSUB1:"), L(f1), T("->"), L(t1), T(","), L(f2), T("->"), L(t2)>>,
   mean  |-> <<Lk(1, {}, <<Single(f1 \o f2, t1 \o t2)>>)>>]

\* ranges, all three flags
D2 == LET f == <<N("A"), To, N("C")>> t == <<N("X"), To, N("Z")>> IN
  [parts |-> <<T("GSUB1:"), T("-marks"), T("-ligs"), T("-base"), L(f), T("->"), L(t)>>,
   mean  |-> <<[typ |-> 1, flags |-> 14, mfs |-> 0,
                subs |-> <<[k |-> "single", map |-> <<<<1, 24>>, <<2, 25>>, <<3, 26>>>>]>>]>>]

\* quoted strings through the character map; names that are not the character
D3 == LET f == <<S(<<"A", "B">>), N("zero")>> t == <<S(<<"X", "1">>), S(<<"a">>)>> IN
  [parts |-> <<T("GSUB1:"), L(f), T("->"), L(t)>>,
   mean  |-> <<Lk(1, {}, <<[k |-> "single", map |-> <<<<1, 24>>, <<2, 42>>, <<41, 27>>>>]>>)>>]

\* glyph numbers, a descending range against an ascending one
D4 == LET f == <<G(5), To, G(3)>> t == <<G(10), To, G(12)>> IN
  [parts |-> <<T("GSUB1:"), L(f), T("->"), L(t)>>,
   mean  |-> <<Lk(1, {}, <<[k |-> "single", map |-> <<<<3, 12>>, <<4, 11>>, <<5, 10>>>>]>>)>>]

\* a range that starts at the last glyph of a string and ends at a name; several lookups in a list
D5 == LET f == <<S(<<"A", "B">>), To, N("D")>> t == <<N("a"), To, N("d")>> f2 == <<N("Z")>> t2 == <<G(1)>> IN
  [parts |-> <<T("GSUB1:"), L(f), T("->"), L(t), NL, T("GSUB1:"), T("-base"), L(f2), T("->"), L(t2), NL>>,
   mean  |-> <<Lk(1, {}, <<Single(f, t)>>), Lk(1, {"base"}, <<Single(f2, t2)>>)>>]

D6 == LET r1 == <<S(<<"A", "A">>)>> r2 == <<N("A"), N("B"), N("C")>> IN
  [parts |-> <<T("GSUB2:"), T("A"), T("->"), L(r1), T(","), T("B"), T("->"), L(r2)>>,
   mean  |-> <<Lk(2, {}, <<[k |-> "multiple", map |-> <<<<1, <<1, 1>>>>, <<2, <<1, 2, 3>>>>>>]>>)>>]

\* an alternate set is a set
D7 == LET a == <<N("C"), N("B"), N("B"), S(<<"A">>)>> IN
  [parts |-> <<T("GSUB3:"), T("A"), T("->"), T("["), L(a), T("]"), T(","), T("B"), T("->"), T("["), T("]")>>,
   mean  |-> <<Lk(3, {}, <<[k |-> "alternate", map |-> <<<<1, SetOf(a)>>, <<2, <<>>>>>>]>>)>>]

\* ligatures keep the order in which they are listed
D8 == [parts |-> <<T("GSUB4:"), T("-marks"), T("A A A"), T("->"), T("B"), T(","), T("A"), T("->"), T("D"), T(","),
                   T("A A"), T("->"), T("C"), T(","), T("\"BC\""), T("->"), T("zero")>>,
       mean  |-> <<Lk(4, {"marks"}, <<[k |-> "ligature",
                     map |-> <<<<1, <<<<<<1, 1>>, 2>>, <<<<>>, 4>>, <<<<1>>, 3>>>>>>, <<2, <<<<<<3>>, 41>>>>>>>>]>>)>>]

\* contextual lookups: glyph, class and coverage forms, nested actions lookup@position
D9 == LET c1 == <<N("A"), To, N("C")>> c2 == <<S(<<"X", "Y">>)>> IN
  [parts |-> <<T("GSUB5:"), NL, T("\"AAA\" -> 1@0 2@1 1@0 , A B -> 3@1 ||"), NL,
               T("class :x: = ["), L(c1), T("]"), NL, T("class :y: = ["), L(c2), T("]"), NL,
               T("/A B/ :x: :y: -> 2@1 , :x: :: :y: -> 2@2 ||"), NL,
               T("[A B C] [A C] [D] -> 3@0"), NL>>,
   mean  |-> <<Lk(5, {}, <<
      [k |-> "ctx1", map |-> <<<<1, <<[in |-> <<1, 1>>, act |-> <<Act(1, 0), Act(2, 1), Act(1, 0)>>],
                                      [in |-> <<2>>, act |-> <<Act(3, 1)>>]>>>>>>],
      [k |-> "ctx2", cov |-> <<1, 2>>,
       cls |-> [i \in 1..Len(Ev(c1)) |-> <<Ev(c1)[i], 1>>] \o [i \in 1..Len(Ev(c2)) |-> <<Ev(c2)[i], 2>>],
       rules |-> << <<>>,
                    <<[in |-> <<2>>, act |-> <<Act(2, 1)>>], [in |-> <<0, 2>>, act |-> <<Act(2, 2)>>]>>,
                    <<>> >>],
      [k |-> "ctx3", in |-> <<<<1, 2, 3>>, <<1, 3>>, <<4>>>>, act |-> <<Act(3, 0)>>]>>)>>]

\* chaining context: backtrack is written in reading order and stored nearest glyph first
D10 == [parts |-> <<T("GSUB6:"), T("A B | C D | E F -> 1@0 2@1 ||"), NL,
                    T("backtrackclass :b: = [A]"), NL, T("inputclass :i: = [B C]"), NL,
                    T("lookaheadclass :l: = [D]"), NL,
                    T("/B/ :b: :: | :i: :i: | :l: -> 1@1 ||"), NL,
                    T("[A] [B C] | [D] | [E] [F] -> 1@0"), NL>>,
        mean  |-> <<Lk(6, {}, <<
          [k |-> "cc1", map |-> <<<<3, <<[back |-> Rev(<<1, 2>>), in |-> <<4>>, ahead |-> <<5, 6>>,
                                          act |-> <<Act(1, 0), Act(2, 1)>>]>>>>>>],
          [k |-> "cc2", cov |-> <<2>>, bcls |-> <<<<1, 1>>>>, cls |-> <<<<2, 1>>, <<3, 1>>>>, acls |-> <<<<4, 1>>>>,
           rules |-> << <<>>, <<[back |-> Rev(<<1, 0>>), in |-> <<1>>, ahead |-> <<1>>, act |-> <<Act(1, 1)>>]>> >>],
          [k |-> "cc3", back |-> Rev(<< <<1>>, <<2, 3>> >>), in |-> << <<4>> >>, ahead |-> << <<5>>, <<6>> >>,
           act |-> <<Act(1, 0)>>]>>)>>]

\* single adjustment: x = placement, y = placement, dx = advance; _ = no adjustment
D11 == LET c == <<N("A"), To, N("C")>> IN
  [parts |-> <<T("GPOS1:"), T("["), L(c), T("]"), T("-> y+10 ||"), NL,
               T("D -> dx-1 , E -> x+1 y-2 , F -> _"), NL>>,
   mean  |-> <<Lk(1, {}, <<[k |-> "pos1set", cov |-> SetOf(c), adj |-> VR(0, 10, 0)],
                           [k |-> "pos1each", map |-> <<<<4, VR(0, 0, -1)>>, <<5, VR(1, -2, 0)>>, <<6, NoVR>>>>]>>)>>]

\* pair adjustment by glyph pairs (first & second glyph) and by classes
D12 == [parts |-> <<T("GPOS2:"), T("A V -> dx-100 , \"AW\" -> x+1 & y-100 ||"), NL,
                    T("/A B/"), NL, T("first A , B ;"), NL, T("second C ;"), NL,
                    T("_ , dx+1 ,"), NL, T("_ , _ ,"), NL, T("dx-5 & y+2 , _"), NL>>,
        mean  |-> <<Lk(2, {}, <<
          [k |-> "pair", map |-> <<<<1, 22, <<VR(0, 0, -100), NoVR>>>>, <<1, 23, <<VR(1, 0, 0), VR(0, -100, 0)>>>>>>],
          [k |-> "pairclass", cov |-> <<1, 2>>, c1 |-> <<<<1, 1>>, <<2, 2>>>>, c2 |-> <<<<3, 1>>>>,
           adj |-> << <<<<NoVR, NoVR>>, <<VR(0, 0, 1), NoVR>>>>,
                      <<<<NoVR, NoVR>>, <<NoVR, NoVR>>>>,
                      <<<<VR(0, 0, -5), VR(0, 2, 0)>>, <<NoVR, NoVR>>>> >>]>>)>>]

D13 == [parts |-> <<T("GPOS3:"), NL, T("A: 1,2 to 3,4 ; B: -1,-2 to 0,0 ||"), NL, T("C: 5,6 to 7,8"), NL>>,
        mean  |-> <<Lk(3, {}, <<[k |-> "cursive", map |-> <<<<1, <<1, 2>>, <<3, 4>>>>, <<2, <<-1, -2>>, <<0, 0>>>>>>],
                                [k |-> "cursive", map |-> <<<<3, <<5, 6>>, <<7, 8>>>>>>]>>)>>]

D14 == [parts |-> <<T("GPOS4:"), T("-ligs"), NL, T("mark M: 0@100,100 ;"), NL, T("mark N: 1@200,-100 ;"), NL,
                    T("base A: @400,1000 @500,1000 ;"), NL, T("base \"B\": @1,2 @3,4 ;"), NL>>,
        mean  |-> <<Lk(4, {"ligs"}, <<[k |-> "markbase",
                     marks |-> <<<<13, 0, <<100, 100>>>>, <<14, 1, <<200, -100>>>>>>,
                     bases |-> <<<<1, <<<<400, 1000>>, <<500, 1000>>>>>>, <<2, <<<<1, 2>>, <<3, 4>>>>>>>>]>>)>>]

(* Redundant but legal notation.  Wherever the notation takes a SET of glyphs -- the /coverage/ list of a class  *)
(* based subtable, a class definition, a [glyph set] of a coverage based subtable (input, backtrack, lookahead),  *)
(* the set of a GPOS1 subtable, an alternate set -- duplicates, overlapping ranges, reversed ranges and a range    *)
(* that contains a glyph listed before do not change the set: the result is the sorted set, and a coverage table  *)
(* numbers it 0..n-1 without gaps (Dense).  Where the notation is ORDERED -- the replacement of a multiple        *)
(* substitution, the components of a ligature, the input of a glyph-based rule -- a repeated glyph is repeated.   *)
D15 == LET cx == <<N("C"), To, N("A"), N("B")>> cov == <<N("A"), To, N("C"), N("B"), To, N("D")>> IN
  [parts |-> <<T("GSUB5:"), T("class :x: = ["), L(cx), T("]"), NL, T("/"), L(cov), T("/"), T(":x: :: -> 1@0"), NL>>,
   mean  |-> <<Lk(5, {}, <<[k |-> "ctx2", cov |-> SetOf(cov), cls |-> [i \in 1..3 |-> <<SetOf(cx)[i], 1>>],
                            rules |-> << <<>>, <<[in |-> <<0>>, act |-> <<Act(1, 0)>>]>> >>]>>)>>]
D16 == LET ci == <<N("B"), N("B"), N("A")>> cov == <<N("B"), N("A"), N("B"), S(<<"A">>)>> IN
  [parts |-> <<T("GSUB6:"), T("inputclass :i: = ["), L(ci), T("]"), NL, T("/"), L(cov), T("/"), T("| :i: | -> 2@0"), NL>>,
   mean  |-> <<Lk(6, {}, <<[k |-> "cc2", cov |-> SetOf(cov), bcls |-> <<>>, cls |-> <<<<1, 1>>, <<2, 1>>>>, acls |-> <<>>,
                            rules |-> << <<>>, <<[back |-> <<>>, in |-> <<>>, ahead |-> <<>>, act |-> <<Act(2, 0)>>]>> >>]>>)>>]
D17 == LET a == <<N("A"), N("B"), N("A")>> b == <<N("C"), To, N("A"), N("B")>>
           c == <<N("B"), N("A"), N("A")>> d == <<N("D"), To, N("B"), N("C")>> e == <<N("A"), To, N("B"), N("A"), To, N("B")>> IN
  [parts |-> <<T("GSUB5:"), T("["), L(a), T("] ["), L(b), T("] -> 1@1"), NL,
               T("GSUB6:"), T("["), L(c), T("] | ["), L(d), T("] | ["), L(e), T("] -> 1@0"), NL>>,
   mean  |-> <<Lk(5, {}, <<[k |-> "ctx3", in |-> <<SetOf(a), SetOf(b)>>, act |-> <<Act(1, 1)>>]>>),
               Lk(6, {}, <<[k |-> "cc3", back |-> <<SetOf(c)>>, in |-> <<SetOf(d)>>, ahead |-> <<SetOf(e)>>,
                            act |-> <<Act(1, 0)>>]>>)>>]
D18 == LET g == <<N("A"), To, N("C"), N("B"), N("C"), To, N("B")>> IN
  [parts |-> <<T("GPOS1:"), T("["), L(g), T("]"), T("-> x+1"), NL>>,
   mean  |-> <<Lk(1, {}, <<[k |-> "pos1set", cov |-> SetOf(g), adj |-> VR(1, 0, 0)]>>)>>]
D19 == LET cov == <<N("B"), N("A"), N("B"), N("A"), To, N("B")>> IN
  [parts |-> <<T("GPOS2:"), NL, T("/"), L(cov), T("/"), NL, T("first A ;"), NL, T("second B ;"), NL,
               T("_ , _ ,"), NL, T("_ , dx+1"), NL>>,
   mean  |-> <<Lk(2, {}, <<[k |-> "pairclass", cov |-> SetOf(cov), c1 |-> <<<<1, 1>>>>, c2 |-> <<<<2, 1>>>>,
                            adj |-> << <<<<NoVR, NoVR>>, <<NoVR, NoVR>>>>, <<<<NoVR, NoVR>>, <<VR(0, 0, 1), NoVR>>>> >>]>>)>>]
\* ordered lists keep repeated glyphs
D20 == LET r == <<N("B"), N("B"), N("A"), To, N("B")>> IN
  [parts |-> <<T("GSUB2:"), T("A"), T("->"), L(r), NL, T("GSUB4:"), T("A A A -> A"), NL, T("GSUB5:"), T("A A -> 1@0"), NL>>,
   mean  |-> <<Lk(2, {}, <<[k |-> "multiple", map |-> <<<<1, Ev(r)>>>>]>>),
               Lk(4, {}, <<[k |-> "ligature", map |-> <<<<1, <<<<<<1, 1>>, 1>>>>>>>>]>>),
               Lk(5, {}, <<[k |-> "ctx1", map |-> <<<<1, <<[in |-> <<1>>, act |-> <<Act(1, 0)>>]>>>>>>]>>)>>]
\* the same glyph put into the same class twice, the same class defined twice with the same set: nothing is
\* contradictory, the parser may refuse the repetition -- but if it accepts, the meaning is the set (mayfail)
D21 == [parts |-> <<T("GPOS2:"), NL, T("/A/"), NL, T("first A A ;"), NL, T("second B ;"), NL, T("_ , _ ,"), NL, T("_ , dx+1"), NL>>,
        mayfail |-> TRUE,
        mean  |-> <<Lk(2, {}, <<[k |-> "pairclass", cov |-> <<1>>, c1 |-> <<<<1, 1>>>>, c2 |-> <<<<2, 1>>>>,
                     adj |-> << <<<<NoVR, NoVR>>, <<NoVR, NoVR>>>>, <<<<NoVR, NoVR>>, <<VR(0, 0, 1), NoVR>>>> >>]>>)>>]
D22 == [parts |-> <<T("GSUB5:"), T("class :x: = [A]"), NL, T("class :x: = [A]"), NL, T("/A/ :x: -> 1@0"), NL>>,
        mayfail |-> TRUE,
        mean  |-> <<Lk(5, {}, <<[k |-> "ctx2", cov |-> <<1>>, cls |-> <<<<1, 1>>>>,
                     rules |-> << <<>>, <<[in |-> <<>>, act |-> <<Act(1, 0)>>]>> >>]>>)>>]

\* the same quoted string in several places (backtrack, lookahead, a second rule, a later lookup): every occurrence
\* means the same glyphs, in reading order; the backtrack is STORED nearest glyph first
D23 == [parts |-> <<T("GSUB6:"), T("\"AB\" | C | \"AB\" -> 1@0 , \"AB\" | D | E -> 1@0"), NL,
                    T("GSUB4:"), T("\"AB\" -> X"), NL,
                    T("GSUB6:"), T("\"ABC\" | D | \"ABC\" -> 2@0"), NL>>,
        mean  |-> <<Lk(6, {}, <<[k |-> "cc1", map |-> <<
                       <<3, <<[back |-> Rev(<<1, 2>>), in |-> <<>>, ahead |-> <<1, 2>>, act |-> <<Act(1, 0)>>]>>>>,
                       <<4, <<[back |-> Rev(<<1, 2>>), in |-> <<>>, ahead |-> <<5>>, act |-> <<Act(1, 0)>>]>>>> >>]>>),
                    Lk(4, {}, <<[k |-> "ligature", map |-> <<<<1, <<<<<<2>>, 24>>>>>>>>]>>),
                    Lk(6, {}, <<[k |-> "cc1", map |-> <<
                       <<4, <<[back |-> Rev(<<1, 2, 3>>), in |-> <<>>, ahead |-> <<1, 2, 3>>, act |-> <<Act(2, 0)>>]>>>> >>]>>)>>]

Descs == <<D23, D1, D2, D3, D4, D5, D6, D7, D8, D9, D10, D11, D12, D13, D14, D15, D16, D17, D18, D19, D20, D21, D22>>
MayFail(d) == "mayfail" \in DOMAIN d

\* coverage tables number their glyphs 0, 1, 2, ... in increasing glyph order, without gaps
\* (ci: per lookup, per subtable, per coverage table the indices in glyph order)
Dense(ci) == \A i \in 1..Len(ci) : \A j \in 1..Len(ci[i]) : \A t \in 1..Len(ci[i][j]) :
               \A q \in 1..Len(ci[i][j][t]) : ci[i][j][t][q] = q - 1

---------------------------------------------------------------------------
(* 3. numbers.  Wherever the grammar takes a number -- the lookup index L and the sequence    *)
(* position P of a nested action L@P, a glyph number, the mark class, the components x, y, dx *)
(* of a value record, the coordinates of an anchor -- the number written is either            *)
(* represented EXACTLY in the parsed lookup list or Parse returns an error; it is never        *)
(* wrapped or truncated to the width of the field.  NumRange is the set of values the field    *)
(* can hold (glyph numbers: the glyphs of the font, 48 in font "nc").                          *)
Li(s, v) == [lit |-> s, val |-> v, big |-> FALSE]
Huge(s)  == [lit |-> s, val |-> 0, big |-> TRUE]       \* beyond TLC's integers and beyond every field
Lits == <<Li("0", 0), Li("1", 1), Li("47", 47), Li("48", 48), Li("255", 255), Li("256", 256), Li("32767", 32767),
          Li("32768", 32768), Li("65535", 65535), Li("65536", 65536), Li("65537", 65537), Li("70000", 70000),
          Huge("2147483648"), Huge("4294967296"), Huge("4294967297"), Huge("1234567890123456789012345"),
          Li("-1", -1), Li("-32768", -32768), Li("-32769", -32769), Li("-65535", -65535), Li("-65536", -65536),
          Huge("-4294967296"), Li("+5", 5), Li("+65536", 65536)>>

NumKinds == 1..10
NumRange(k) == CASE k \in {1, 2} -> 0..65535           \* L and P of a nested action
                 [] k = 3 -> 0..47                      \* glyph number
                 [] k = 4 -> {0}                        \* class of the only mark: classes are numbered from 0 without gaps
                 [] OTHER -> -32768..32767              \* value record components, anchor coordinates
NumParts(k, lit) ==
  CASE k = 1  -> <<T("GSUB5:"), T("A"), T("->"), T(lit \o "@0")>>
    [] k = 2  -> <<T("GSUB5:"), T("A"), T("->"), T("1@" \o lit)>>
    [] k = 3  -> <<T("GSUB1:"), T(lit), T("->"), T("A")>>
    [] k = 4  -> <<T("GPOS4:"), T("mark M:"), T(lit \o "@1,2"), T(";")>>
    [] k = 5  -> <<T("GPOS1:"), T("A"), T("->"), T("x"), T(lit)>>
    [] k = 6  -> <<T("GPOS1:"), T("A"), T("->"), T("y"), T(lit)>>
    [] k = 7  -> <<T("GPOS1:"), T("A"), T("->"), T("dx"), T(lit)>>
    [] k = 8  -> <<T("GPOS3:"), T("A:"), T(lit \o ",2"), T("to"), T("3,4")>>
    [] k = 9  -> <<T("GPOS4:"), T("mark M:"), T("0@1,2"), T(";"), T("base A:"), T("@7," \o lit), T(";")>>
    [] k = 10 -> <<T("GPOS2:"), T("A B"), T("->"), T("x"), T("1"), T("&"), T("dx"), T(lit)>>
NumMean(k, v) ==
  CASE k = 1  -> <<Lk(5, {}, <<[k |-> "ctx1", map |-> <<<<1, <<[in |-> <<>>, act |-> <<Act(v, 0)>>]>>>>>>]>>)>>
    [] k = 2  -> <<Lk(5, {}, <<[k |-> "ctx1", map |-> <<<<1, <<[in |-> <<>>, act |-> <<Act(1, v)>>]>>>>>>]>>)>>
    [] k = 3  -> <<Lk(1, {}, <<[k |-> "single", map |-> <<<<v, 1>>>>]>>)>>
    [] k = 4  -> <<Lk(4, {}, <<[k |-> "markbase", marks |-> <<<<13, v, <<1, 2>>>>>>, bases |-> <<>>]>>)>>
    [] k = 5  -> <<Lk(1, {}, <<[k |-> "pos1each", map |-> <<<<1, VR(v, 0, 0)>>>>]>>)>>
    [] k = 6  -> <<Lk(1, {}, <<[k |-> "pos1each", map |-> <<<<1, VR(0, v, 0)>>>>]>>)>>
    [] k = 7  -> <<Lk(1, {}, <<[k |-> "pos1each", map |-> <<<<1, VR(0, 0, v)>>>>]>>)>>
    [] k = 8  -> <<Lk(3, {}, <<[k |-> "cursive", map |-> <<<<1, <<v, 2>>, <<3, 4>>>>>>]>>)>>
    [] k = 9  -> <<Lk(4, {}, <<[k |-> "markbase", marks |-> <<<<13, 0, <<1, 2>>>>>>, bases |-> <<<<1, <<<<7, v>>>>>>>>]>>)>>
    [] k = 10 -> <<Lk(2, {}, <<[k |-> "pair", map |-> <<<<1, 2, <<VR(1, 0, 0), VR(0, 0, v)>>>>>>]>>)>>
NumText(k, l) == Render([parts |-> NumParts(k, Lits[l].lit)])
NumFits(k, l) == ~Lits[l].big /\ Lits[l].val \in NumRange(k)
\* the law: got is the canonical lookup list parsed ("" error = accepted), perr the error text
NumLaw(k, l, perr, got) == IF NumFits(k, l) THEN perr = "" /\ got = NumMean(k, Lits[l].val) ELSE perr # ""

---------------------------------------------------------------------------
(* 4. the line of an error.  Lines are numbered from 1; a line break ends a line and the         *)
(* end-of-line token belongs to the line it ENDS; the end of the input lies on the line after     *)
(* the last line break.  A parse error reports the line of the token at which it is detected:    *)
(* the first token the parser has not accepted (the message names that token), or -- when the    *)
(* offending token had to be read to see the error -- the token after it.  A text is a sequence  *)
(* of pieces: tokens, line breaks ("\n" or "\r\n"), and things that are no tokens (comments).    *)
Tk(s)   == [s |-> s, it |-> s, k |-> "tok"]
Eol     == [s |-> "\n", it |-> "\n", k |-> "eol"]
CrLf    == [s |-> "\r\n", it |-> "\n", k |-> "eol"]
Skip(s) == [s |-> s, it |-> "", k |-> "skip"]
Bad(s)  == [s |-> s, it |-> "*", k |-> "tok"]          \* an illegal character: the message quotes the lexer, any item text
Toks(ss) == [i \in 1..Len(ss) |-> Tk(ss[i])]
GoodLine == Toks(<<"GSUB1", ":", "A", "->", "B">>)

\* erroneous lookups (without their final line break) and where the error is detected, as offsets into
\* the lookup followed by the rest of the text: n+1 is the first piece after the lookup
ErrCore(t) ==
  CASE t = 1  -> Toks(<<"GSUB1", ":", "A", "->">>)                              \* right-hand side missing
    [] t = 2  -> Toks(<<"GSUB1", ":", "A", "B", "->", "C">>)                    \* 2 glyphs -> 1 glyph
    [] t = 3  -> Toks(<<"GSUB2", ":", "A", "->">>)
    [] t = 4  -> Toks(<<"GSUB1", ":", "-", "foo", "A", "->", "B">>)             \* unknown flag
    [] t = 5  -> Toks(<<"]", "A">>)                                             \* no lookup starts like this
    [] t = 6  -> Toks(<<"GSUB5", ":", "A", "->", "1", "@">>)                    \* position missing
    [] t = 7  -> Toks(<<"GSUB4", ":", "A", "B", "->", "C", "D">>)               \* a ligature is one glyph
    [] t = 8  -> Toks(<<"GSUB1", ":", "A", "->", "B", ",", ",", "C", "->", "D">>)
    [] t = 9  -> Toks(<<"GSUB1", ":", "A", "->">>) \o <<Bad("!")>>               \* illegal character
    [] t = 10 -> Toks(<<"GPOS4", ":">>) \o <<Eol>> \o Toks(<<"mark", "M", ":", "0", "@", "1", ",", "2", ";">>) \o <<Eol>>
                 \o Toks(<<"base", "A", ":", "@", "1", ";">>)                   \* y coordinate missing, third line
    [] t = 11 -> Toks(<<"GPOS1", ":", "A", "->", "x">>)                         \* number missing
    [] t = 12 -> Toks(<<"GSUB3", ":", "A", "->", "[", "B">>)                    \* set not closed
ErrDet(t) == LET n == Len(ErrCore(t)) IN
  CASE t = 4 -> {4, 5} [] t = 5 -> {1, 2} [] t = 8 -> {7, 8} [] t = 9 -> {5} [] t = 10 -> {n, n + 1}
    [] OTHER -> {n + 1, n + 2}
ErrTemplates == 1..12
ErrPrefixes == << <<>>, <<Eol>>, <<Eol, Eol>>, <<Skip("# c"), Eol>>, GoodLine \o <<Eol>>, GoodLine \o <<CrLf>>,
                  <<Skip("# c"), Eol, Eol>> \o GoodLine \o <<Skip("# d"), Eol>> >>
ErrSuffixes == << <<>>, <<Eol>>, <<CrLf>>, <<Eol, Eol>>, <<Eol>> \o GoodLine \o <<Eol>>, <<Skip("# c"), Eol>> \o GoodLine,
                  <<Skip("#")>> >>
EofPiece  == [s |-> "", it |-> "EOF", k |-> "eof"]
PastPiece == [s |-> "", it |-> "", k |-> "eof"]          \* reading on after the end of the input
ErrSeq(t, p, x) == ErrPrefixes[p] \o ErrCore(t) \o ErrSuffixes[x] \o <<EofPiece, PastPiece>>
\* comments are no tokens: the offsets count tokens, line breaks and the end only
Real(seq) == SelectSeq(seq, LAMBDA e : e.k # "skip")
LineIn(seq, j) == 1 + Cardinality({i \in 1..(j - 1) : seq[i].k = "eol"})
ErrExpect(t, p, x) ==
  LET seq == Real(ErrSeq(t, p, x))
      off == Len(Real(ErrPrefixes[p]))
  IN {<<LineIn(seq, off + d), seq[off + d].it>> : d \in {e \in ErrDet(t) : off + e <= Len(seq)}}
ErrText(t, p, x) == LET seq == ErrSeq(t, p, x)
                        R[i \in 0..Len(seq)] == IF i = 0 THEN "" ELSE R[i - 1] \o (IF i = 1 \/ seq[i].k = "eof" THEN "" ELSE " ") \o seq[i].s
                    IN R[Len(seq)]
\* the law: an error is returned and its (line, token) is one of the expected ones ("*": any token text)
ErrLaw(t, p, x, isErr, line, item) ==
  /\ isErr
  /\ \E e \in ErrExpect(t, p, x) : e[1] = line /\ (e[2] = item \/ e[2] = "*")
=============================================================================
