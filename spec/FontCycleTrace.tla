--------------------------- MODULE FontCycleTrace ---------------------------
(***************************************************************************)
(* C01, observable specification.  A recorded execution of the real        *)
(* sfnt.Read and Font.Write (harness/cmd/c01) must be a behaviour of    *)
(* this module.  It states the property and nothing else:                  *)
(*                                                                         *)
(*   (1) constructed fonts g0:  g1 = Read(Write(g0)) equals g0 field by    *)
(*       field up to the precision of the file format (Prec); the style    *)
(*       flags are compared only when g0 lies in the representable domain  *)
(*       InDom of FontCycleOps (flags consistent = fixed point of the      *)
(*       model's normal form); GSUB/GPOS only when the script-list tags    *)
(*       are in normal form; a missing GSUB may be replaced by the         *)
(*       synthetic ligature table; unset cap/x-height may be derived;      *)
(*   (2) every accepted file (constructed or given):  g2 = g1 exactly,     *)
(*       b3 = b2 byte for byte;                                            *)
(*   (3) every repeated Write of the same font (same process or a fresh    *)
(*       process) yields the same bytes; and Write does not change its     *)
(*       argument (event "after": the projection of the written font,     *)
(*       taken again after the writes, equals the one taken before).      *)
(*                                                                         *)
(* Events: reset, gen(i, projection), file(i, how, sha, len), fail.  A     *)
(* "fail" event (Write, or Read of a written file, failed) is never        *)
(* allowed.  Many cases are concatenated; a case with a line that the      *)
(* property does not allow is printed as BADCASE and skipped; acceptance =  *)
(* all lines consumed, last case complete, no bad case (POSTCONDITION      *)
(* Accepted, -workers 1).                                                  *)
(***************************************************************************)
EXTENDS FontCycleOps, SequencesExt, FiniteSetsExt

Trace == ndJsonDeserialize("trace.ndjson")

VARIABLES l,      \* next line of the trace
          ph,     \* progress within the case: none reset g0 b1 g1 b2 g2 b3
          src,    \* "built" | "bytes" | "tables"
          cfg,    \* configuration of a constructed font
          g0, g1, \* projections
          bs      \* bs[i] = <<sha, len>> of bytes number i
vars == <<l, ph, src, cfg, g0, g1, bs>>

Nil == [nil |-> TRUE]
E == Trace[l]
Init == l = 1 /\ ph = "none" /\ src = "" /\ cfg = Nil /\ g0 = Nil /\ g1 = Nil
        /\ bs = <<Nil, Nil, Nil>> /\ TLCSet(1, 0) /\ TLCSet(2, 1) /\ TLCSet(3, 0) /\ TLCSet(4, 0)
\* registers: 1 lines consumed; 2 = 1 iff the current case is complete; 3 number of bad cases; 4 first bad line
Consume(done) == l' = l + 1 /\ TLCSet(1, l) /\ TLCSet(2, IF done THEN 1 ELSE 0)
Is(ev) == l <= Len(Trace) /\ E.ev = ev

---------------------------------------------------------------------------
(* abstraction of a projected font to the abstract font of FontCycleOps *)

FamKey(p) == CASE p.family = "Verif Sans"      -> "plain"
               [] p.family = "Verif Bold"      -> "bold"
               [] p.family = "Verif Italic"    -> "italic"
               [] p.family = "Verif Semi Bold" -> "semibold"
               [] OTHER                        -> "unknown"
AbsTime(t) == IF t.zero THEN "zero" ELSE IF t.ns = 0 THEN "t" ELSE "t+ns"
AbsOf(p) == [ fam |-> FamKey(p), width |-> p.width, weight |-> p.weight,
              reg |-> p.is_regular, bold |-> p.is_bold, ital |-> p.is_italic, obl |-> p.is_oblique,
              serif |-> p.is_serif, script |-> p.is_script,
              angle |-> IF p.italic_angle.ok THEN p.italic_angle.v ELSE 1605,
              ver |-> 65602, created |-> AbsTime(p.created), modified |-> AbsTime(p.modified),
              ul |-> 0, kind |-> IF p.kind = "glyf" THEN "glyf" ELSE "cff" ]
\* the model's Subfamily is defined for weights with a named nearest class and these families
InDomP(p) == /\ FamKey(p) # "unknown" /\ p.weight \in ModelWeights /\ p.width \in 0..9
             /\ InDom(AbsOf(p))

---------------------------------------------------------------------------
(* per-field precision *)

\* version: unchanged, or any 16.16 value that prints the same three decimals (on an exact tie
\* either neighbour).  KS = the thousandths a 16.16 value may print as.
KS(maj, min) == LET x == min * 1000  k0 == x \div 65536  r == x % 65536
                IN {maj * 1000 + k : k \in (IF r < 32768 THEN {k0} ELSE IF r > 32768 THEN {k0 + 1} ELSE {k0, k0 + 1})}
VerOK(p, q) == KS(p.ver_major, p.ver_minor) \cap KS(q.ver_major, q.ver_minor) # {}

\* a number logged in units of 1/m comes back as a multiple of m within rounding distance
RoundedOK(x, y, m) ==
  IF ~x.ok THEN TRUE       \* not a multiple of the logging unit: outside the generated domain
  ELSE /\ y.ok
       /\ \/ y.v = x.v       \* kept exactly
          \/ /\ y.v % m = 0   \* or rounded to the unit of the table field
             /\ 2 * (IF y.v >= x.v THEN y.v - x.v ELSE x.v - y.v) <= m

\* time stamps: whole seconds (floor, or the next second when there was a fraction)
\* (Unix seconds are logged as three 24-bit parts hi, mid, lo)
SecEq(a, b) == a.hi = b.hi /\ a.mid = b.mid /\ a.lo = b.lo
SecNext(a, b) == IF a.lo < 16777215 THEN b.hi = a.hi /\ b.mid = a.mid /\ b.lo = a.lo + 1
                 ELSE IF a.mid < 16777215 THEN b.hi = a.hi /\ b.mid = a.mid + 1 /\ b.lo = 0
                 ELSE b.hi = a.hi + 1 /\ b.mid = 0 /\ b.lo = 0
TimeOK(a, b) == IF a.zero THEN b.zero
                ELSE /\ ~b.zero
                     /\ \/ (SecEq(a, b) /\ b.ns = a.ns)
                        \/ (b.ns = 0 /\ (SecEq(a, b) \/ (a.ns > 0 /\ SecNext(a, b))))

\* advance widths in quarter units: integers within one unit
WidthOK(a, b) == b = a \/ (b % 4 = 0 /\ b - a < 4 /\ a - b < 4)
WidthsOK(p, q) ==
  /\ q.num_glyphs = p.num_glyphs
  /\ IF p.widths_exact /\ Len(p.width_list) = p.num_glyphs
       THEN /\ q.widths_exact /\ Len(q.width_list) = Len(p.width_list)
            /\ \A i \in 1..Len(p.width_list) : WidthOK(p.width_list[i], q.width_list[i])
       ELSE p.widths_int => q.widths = p.widths

MatrixOK(p, q) ==
  IF p.kind = "glyf" THEN (p.fm_std => q.fm_std)
  ELSE /\ Len(q.font_matrix) = Len(p.font_matrix)
       /\ \A i \in 1..Len(p.font_matrix) :       \* exact, or nine significant digits (either neighbour)
            LET a == p.font_matrix[i]  b == q.font_matrix[i]
            IN b.s = a.s \/ (b.e = a.e /\ b.m - a.m \in {-1, 0, 1})

Fields == { "family", "width", "weight", "flags", "code_pages", "version", "created", "modified",
            "description", "sample_text", "copyright", "trademark", "license", "license_url", "perm_use",
            "upm", "font_matrix", "ascent", "descent", "line_gap", "cap_height", "x_height",
            "italic_angle", "underline_position", "underline_thickness",
            "kind", "num_glyphs", "glyphs", "widths", "glyph_names", "outline_aux",
            "cmap", "gdef", "gsub", "gpos" }

\* Is field n of q = Read(Write(p)) what the property promises?  c = configuration of p.
FieldOK(n, p, q, c) ==
  CASE n = "family"      -> q.family = p.family
    [] n = "width"       -> q.width = p.width
    [] n = "weight"      -> q.weight = p.weight
    [] n = "flags"       -> InDomP(p) =>
                              /\ q.is_regular = p.is_regular /\ q.is_bold = p.is_bold
                              /\ q.is_italic = p.is_italic /\ q.is_oblique = p.is_oblique
                              /\ q.is_serif = p.is_serif /\ q.is_script = p.is_script
    [] n = "code_pages"  -> q.code_pages = p.code_pages
    [] n = "version"     -> VerOK(p, q)
    [] n = "created"     -> TimeOK(p.created, q.created)
    [] n = "modified"    -> TimeOK(p.modified, q.modified)
    [] n = "description" -> q.description = p.description
    [] n = "sample_text" -> q.sample_text = p.sample_text
    [] n = "copyright"   -> q.copyright = p.copyright
    [] n = "trademark"   -> q.trademark = p.trademark
    [] n = "license"     -> q.license = p.license
    [] n = "license_url" -> q.license_url = p.license_url
    [] n = "perm_use"    -> q.perm_use = p.perm_use
    [] n = "upm"         -> q.upm = p.upm
    [] n = "font_matrix" -> MatrixOK(p, q)
    [] n = "ascent"      -> q.ascent = p.ascent
    [] n = "descent"     -> q.descent = p.descent
    [] n = "line_gap"    -> q.line_gap = p.line_gap
    [] n = "cap_height"  -> p.cap_height > 0 => q.cap_height = p.cap_height
    [] n = "x_height"    -> p.x_height > 0 => q.x_height = p.x_height
    [] n = "italic_angle"        -> RoundedOK(p.italic_angle, q.italic_angle, 16)
    [] n = "underline_position"  -> RoundedOK(p.underline_position, q.underline_position, 4)
    [] n = "underline_thickness" -> RoundedOK(p.underline_thickness, q.underline_thickness, 4)
    [] n = "kind"        -> q.kind = p.kind
    [] n = "num_glyphs"  -> q.num_glyphs = p.num_glyphs
    [] n = "glyphs"      -> q.glyphs = p.glyphs /\ q.glyph_list = p.glyph_list
    [] n = "widths"      -> WidthsOK(p, q)
    [] n = "glyph_names" -> q.glyph_names = p.glyph_names
    [] n = "outline_aux" -> q.outline_aux = p.outline_aux
    [] n = "cmap"        -> q.cmap = p.cmap
    [] n = "gdef"        -> q.gdef = p.gdef
    [] n = "gsub"        -> IF p.gsub_nil THEN p.cmap_nil => q.gsub_nil
                            ELSE c.tags = "x" => q.gsub = p.gsub
    [] n = "gpos"        -> c.tags = "x" => q.gpos = p.gpos

Bad(p, q, c) == {n \in Fields : ~FieldOK(n, p, q, c)}
\* fields of the projection that differ between two generations (for the fixed-point clause)
Differ(p, q) == {n \in DOMAIN p : p[n] # q[n]}

---------------------------------------------------------------------------
(* Events.  Every event kind has a guard (a state predicate over the       *)
(* current line: is this event what the property allows here?) and an      *)
(* update.  A line whose guard is false is not explained by the property:  *)
(* the case is marked bad (printed with the reason) and skipped up to the  *)
(* next reset, so that one bad case does not hide the others.              *)

Before(i) == CASE i = 1 -> IF src = "built" THEN "g0" ELSE "reset" [] i = 2 -> "g1" [] i = 3 -> "g2"
PhaseB(i) == CASE i = 1 -> "b1" [] i = 2 -> "b2" [] i = 3 -> "b3"

IsGen(i)   == Is("gen") /\ E.i = i
IsFirst    == Is("file") /\ E.i \in 1..3 /\ E.how \in {"first", "input"}
IsAgain    == Is("file") /\ E.i \in 1..2 /\ E.how \in {"again", "fresh"}
IsAfter    == Is("after") /\ E.i \in 0..1     \* generation i projected again, after it has been written

\* why the current line is not allowed (empty set = allowed)
Why ==
  IF Is("reset") THEN (IF ph \in {"none", "b3", "skip"} /\ E.src \in {"built", "bytes", "tables"}
                         THEN {} ELSE {"previous case incomplete"})
  ELSE IF IsGen(0) THEN (IF ph = "reset" /\ src = "built" THEN {} ELSE {"out of order"})
  ELSE IF IsGen(1) THEN (IF ph # "b1" THEN {"out of order"}
                         ELSE IF src = "built" THEN Bad(g0, E.f, cfg) ELSE {})
  ELSE IF IsGen(2) THEN (IF ph # "b2" THEN {"out of order"} ELSE Differ(g1, E.f))
  ELSE IF IsFirst  THEN (IF ph # Before(E.i) \/ E.how # (IF E.i = 1 /\ src # "built" THEN "input" ELSE "first")
                           THEN {"out of order"}
                         ELSE IF E.len <= 0 THEN {"empty file"}
                         ELSE IF E.i = 3 /\ bs[2] # <<E.sha, E.len>> THEN {"b3 differs from b2"}
                         ELSE {})
  ELSE IF IsAgain  THEN (IF ph # PhaseB(E.i) THEN {"out of order"}
                         ELSE IF bs[E.i] # <<E.sha, E.len>> THEN {"rewrite differs: " \o E.how}
                         ELSE {})
  ELSE IF IsAfter  THEN (IF ph # PhaseB(E.i + 1) \/ (E.i = 0 /\ src # "built") THEN {"out of order"}
                         ELSE Differ(IF E.i = 0 THEN g0 ELSE g1, E.f))     \* Write does not change its argument
  ELSE IF Is("fail") THEN {E.step \o " failed"}
  ELSE {"unknown event"}

Clause == IF IsGen(1) THEN "roundtrip" ELSE IF IsGen(2) THEN "fixedpoint"
          ELSE IF IsFirst THEN "bytes" ELSE IF IsAgain THEN "rewrite" ELSE IF IsAfter THEN "mutated"
          ELSE IF Is("fail") THEN "fail" ELSE "protocol"

\* one string per bad case (TLC wraps long tuples over several lines, but not a string)
JoinSet(S) == FoldSet(LAMBDA x, acc : IF acc = "" THEN x ELSE acc \o "," \o x, "", S)

Live == l <= Len(Trace) /\ ph # "skip"
Good == Live /\ Why = {}

Reset == /\ Is("reset") /\ Why = {}        \* also leaves "skip"
         /\ src' = E.src /\ cfg' = E.cfg /\ ph' = "reset"
         /\ g0' = Nil /\ g1' = Nil /\ bs' = <<Nil, Nil, Nil>>
         /\ Consume(FALSE)

Gen0 == /\ Good /\ IsGen(0)
        /\ g0' = E.f /\ ph' = "g0"
        /\ UNCHANGED <<src, cfg, g1, bs>> /\ Consume(FALSE)

Gen1 == /\ Good /\ IsGen(1)
        /\ g1' = E.f /\ ph' = "g1"
        /\ UNCHANGED <<src, cfg, g0, bs>> /\ Consume(FALSE)

Gen2 == /\ Good /\ IsGen(2)
        /\ ph' = "g2"
        /\ UNCHANGED <<src, cfg, g0, g1, bs>> /\ Consume(FALSE)

\* the first writing of bytes number i (or the given input, for byte sources)
FileFirst ==
  /\ Good /\ IsFirst
  /\ bs' = [bs EXCEPT ![E.i] = <<E.sha, E.len>>]
  /\ ph' = PhaseB(E.i)
  /\ UNCHANGED <<src, cfg, g0, g1>> /\ Consume(E.i = 3)

\* writing the same font again, in this or in a fresh process
FileAgain ==
  /\ Good /\ IsAgain
  /\ UNCHANGED <<ph, src, cfg, g0, g1, bs>> /\ Consume(FALSE)

\* the font that was written is still the same font
After ==
  /\ Good /\ IsAfter
  /\ UNCHANGED <<ph, src, cfg, g0, g1, bs>> /\ Consume(FALSE)

\* a line the property does not allow: report, then skip the rest of the case
MarkBad ==
  /\ l <= Len(Trace) /\ ph # "skip" /\ Why # {}
  /\ PrintT(<<"BADCASE|" \o ToString(E.case) \o "|" \o ToString(l) \o "|" \o Clause \o "|" \o JoinSet(Why)>>)
  /\ TLCSet(3, TLCGet(3) + 1)
  /\ (TLCGet(4) = 0 => TLCSet(4, l))
  /\ ph' = "skip"
  /\ UNCHANGED <<src, cfg, g0, g1, bs>> /\ Consume(TRUE)

SkipLine ==
  /\ l <= Len(Trace) /\ ph = "skip" /\ ~Is("reset")
  /\ UNCHANGED <<ph, src, cfg, g0, g1, bs>> /\ Consume(TRUE)

Next == Reset \/ Gen0 \/ Gen1 \/ Gen2 \/ FileFirst \/ FileAgain \/ After \/ MarkBad \/ SkipLine
Spec == Init /\ [][Next]_vars

\* accepted: every line consumed, the last case complete, no case marked bad
Accepted == IF TLCGet(1) = Len(Trace) /\ TLCGet(2) = 1 /\ TLCGet(3) = 0 THEN TRUE
            ELSE PrintT(<<"REJECTED_AT_LINE", IF TLCGet(4) > 0 THEN TLCGet(4) ELSE TLCGet(1) + 1>>) /\ FALSE
=============================================================================
