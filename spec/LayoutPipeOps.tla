--------------------------- MODULE LayoutPipeOps ---------------------------
(***************************************************************************)
(* C15.  The meaning of end-to-end layout, as constant operators.          *)
(*                                                                         *)
(*   Layout(F, s, lang, switches) = Gpos(SetAdvances(Gsub(Cmap(s))))       *)
(*                                                                         *)
(* Written from the OpenType specification (cmap, script/feature/lookup    *)
(* lists, GSUB 1 and 4, GPOS 2, GDEF glyph classes, the version-0 `kern'   *)
(* table) and from the statement of property C15 - not from layout.go.     *)
(* Only "simple" lookups occur (no lookup flags, no contextual lookups):   *)
(* C15 is about the composition, the lookup engine itself is C06/C07.      *)
(*                                                                         *)
(* Data (all JSON-shaped, so that cases and recorded traces can carry it): *)
(*   glyph item  [g |-> glyph id, t |-> <<characters>>, a |-> advance,     *)
(*                x |-> x offset, y |-> y offset]                          *)
(*   cmap        sequence of <<character, glyph id>> (distinct characters) *)
(*   lang. sys.  [tag, script, lang, req, opt]   req = 65535: no required  *)
(*               feature; opt = sequence of 0-based feature indices        *)
(*   feature     [tag, lk]      lk = sequence of 0-based lookup indices    *)
(*   lookup      [ty, flags, rules, cls, bases]   rules in priority order  *)
(*               (first match wins, i.e. subtables / ligature sets         *)
(*               flattened in their order); flags: lookup flags; cls:      *)
(*               class-based pair subtables; bases: base anchors           *)
(*       GSUB 1  single            rule <<from, to>>                       *)
(*       GSUB 2  multiple          rule <<from, to1, to2, ...>>            *)
(*       GSUB 4  ligature          rule <<out, first, second, ...>>        *)
(*       GPOS 1  single adjustment rule <<glyph, dAdv, dPlace>>            *)
(*       GPOS 2  pair              rule <<left, right, dAdv1, dPlace1,     *)
(*                                        two, dAdv2>>  (two = 1: a value  *)
(*                                        record for the second glyph)     *)
(*   table       [present, sl, fl, ll]                                     *)
(*   kern        [present, subs], subtable [horiz, min, cross, over,       *)
(*               pairs], pair <<left, right, value>>                       *)
(*   font file   [cm, widths, marks, ligs, gsub, gpos, kern, read]          *)
(*               cm = cmap subtables (below), read = the font went through *)
(*               Write/Read                                                *)
(***************************************************************************)
EXTENDS Integers, Sequences, FiniteSets, SequencesExt, FiniteSetsExt

NoFeature == 65535
Max2(a, b) == IF a > b THEN a ELSE b

NoTable == [present |-> FALSE, sl |-> <<>>, fl |-> <<>>, ll |-> <<>>]
NoKern  == [present |-> FALSE, subs |-> <<>>]
Lk(ty, flags, rules) == [ty |-> ty, flags |-> flags, rules |-> rules, cls |-> <<>>, bases |-> <<>>]

---------------------------------------------------------------------------
(* cmap: each character through the best subtable; unmapped -> glyph 0.    *)
(* The cmap table of the file is F.cm, a sequence of subtables             *)
(*   [p, e, ok, kind, m]   platform id, encoding id, whether the subtable  *)
(*   can be decoded at all (a supported format - 0, 4, 6, 12 - and well    *)
(*   formed), how it is stored, and the mapping it means (ok only).        *)
(* "Best": the first DECODABLE subtable in the order full Unicode          *)
(* (3,10), (0,4) before BMP (3,1), (0,3).  A subtable that is present but  *)
(* unusable (format 2/8/10/13/14, or malformed) does not hide a usable one *)
(* of lower rank.  (The cases give the subtables of one class one mapping, *)
(* so the order inside a class is never put to the test.)                  *)
CmapLookup(m, c) ==
  LET S == {i \in 1..Len(m) : m[i][1] = c}
  IN  IF S = {} THEN 0 ELSE m[Min(S)][2]

\* ... before the legacy Macintosh subtable (1,0), whose character codes are Mac OS Roman (the mapping m of such
\* a subtable is written in Unicode: the harness stores it under the Mac codes of its characters)
CmapPriority == << <<3, 10>>, <<0, 4>>, <<3, 1>>, <<0, 3>>, <<1, 0>> >>

Usable(cm, k) == {i \in 1..Len(cm) : cm[i].p = CmapPriority[k][1] /\ cm[i].e = CmapPriority[k][2] /\ cm[i].ok}

HasCmap(F) == \E k \in 1..Len(CmapPriority) : Usable(F.cm, k) # {}

BestCmap(F) ==
  LET K == {k \in 1..Len(CmapPriority) : Usable(F.cm, k) # {}}
  IN  IF K = {} THEN <<>> ELSE F.cm[Min(Usable(F.cm, Min(K)))].m

Item(g, t) == [g |-> g, t |-> t, a |-> 0, x |-> 0, y |-> 0]
MapString(m, s) == [i \in 1..Len(s) |-> Item(CmapLookup(m, s[i]), <<s[i]>>)]

---------------------------------------------------------------------------
(* Feature selection.                                                      *)
DefaultOn(kind) == IF kind = "GSUB" THEN {"calt", "ccmp", "clig", "liga", "locl"}
                                    ELSE {"kern", "mark", "mkmk"}
\* a switch map: [nil |-> BOOLEAN, on |-> sequence of tags switched on]
OnSet(kind, sw) == IF sw.nil THEN DefaultOn(kind) ELSE ToSet(sw.on)

\* the features of language system ls that are in force: the required one always,
\* an optional one iff its tag is switched on (indices beyond the list mean nothing)
FeatureIdx(T, ls, on) ==
  (IF ls.req < Len(T.fl) THEN {ls.req} ELSE {}) \cup
  {ls.opt[k] : k \in {j \in 1..Len(ls.opt) : ls.opt[j] < Len(T.fl) /\ T.fl[ls.opt[j] + 1].tag \in on}}

FindLookupsSet(T, ls, on) ==
  {l \in UNION {ToSet(T.fl[i + 1].lk) : i \in FeatureIdx(T, ls, on)} : l < Len(T.ll)}

\* in range, ascending, no duplicates
FindLookupsSpec(T, ls, on) == SetToSortSeq(FindLookupsSet(T, ls, on), LAMBDA a, b : a < b)

\* Which language system?  The property only says "the chosen language system ... the
\* same on every call": any language system of the list may be THE choice for a request
\* tag, but it is one choice (the trace specification narrows Cand down call by call).
Cand(sl) == 1..Len(sl)

\* The rule OpenType intends (script/langsys tags): the exact language system, else the
\* default language system of the script, else that of script DFLT.  Diagnostic only.
Intended(sl, r) ==
  LET E == {i \in 1..Len(sl) : sl[i].tag = r.tag \/ (r.lang # "" /\ sl[i].script = r.script /\ sl[i].lang = r.lang)}
      S == {i \in 1..Len(sl) : sl[i].script = r.script /\ sl[i].lang = ""}
      D == {i \in 1..Len(sl) : sl[i].script = "DFLT" /\ sl[i].lang = ""}
  IN  IF E # {} THEN E
      ELSE IF r.script # "" /\ S # {} THEN S
      ELSE IF D # {} THEN D ELSE 1..Len(sl)

---------------------------------------------------------------------------
(* Lookup application: scan from the left; at each position the first     *)
(* matching subtable / rule applies; continue after the consumed glyphs.   *)
(* (OpenType chapter 2, GSUB, GPOS; DESIGN.md appendix A.2-A.4.)           *)
(*                                                                         *)
(* GDEF: present iff the font has mark glyphs; class mark = F.marks, class *)
(* ligature = F.ligs, class base = every other glyph id >= 2.  A lookup    *)
(* with flags ("base", "lig", "mark" = IgnoreBaseGlyphs, IgnoreLigatures,  *)
(* IgnoreMarks) is applied as if the glyphs of these classes were absent:  *)
(* it does not act on them and its input sequences skip them.  The filter  *)
(* is the lookup's own: no flags, nothing ignored - whatever was applied   *)
(* before.                                                                 *)
FirstRule(rules, P(_)) ==
  LET M == {k \in 1..Len(rules) : P(rules[k])} IN IF M = {} THEN 0 ELSE Min(M)

ClassOf(F, g) ==
  IF F.marks = <<>> THEN "none"
  ELSE IF g \in ToSet(F.marks) THEN "mark"
  ELSE IF g \in ToSet(F.ligs) THEN "lig"
  ELSE IF g >= 2 THEN "base" ELSE "none"

Keep(F, lk, g) == lk.flags = <<>> \/ ClassOf(F, g) \notin ToSet(lk.flags)

\* the first kept glyph at or after p (Len(seq) + 1: none)
RECURSIVE NextKept(_, _, _, _)
NextKept(F, lk, seq, p) ==
  IF p > Len(seq) THEN Len(seq) + 1 ELSE IF Keep(F, lk, seq[p].g) THEN p ELSE NextKept(F, lk, seq, p + 1)

TextOf(seq) == FoldLeft(LAMBDA acc, e : acc \o e.t, <<>>, seq)

ApplySingle(F, lk, seq) ==
  [i \in 1..Len(seq) |->
     LET k == IF Keep(F, lk, seq[i].g) THEN FirstRule(lk.rules, LAMBDA r : r[1] = seq[i].g) ELSE 0
     IN  IF k = 0 THEN seq[i] ELSE [seq[i] EXCEPT !.g = lk.rules[k][2]]]

\* the positions of the components of ligature rule r from p on (<<>>: no match)
RECURSIVE LigPos(_, _, _, _, _, _)
LigPos(F, lk, r, seq, acc, j) ==
  IF j > Len(r) THEN acc
  ELSE LET q == NextKept(F, lk, seq, acc[Len(acc)] + 1)
       IN  IF q > Len(seq) \/ seq[q].g # r[j] THEN <<>> ELSE LigPos(F, lk, r, seq, Append(acc, q), j + 1)

LigMatch(F, lk, r, seq, p) ==
  IF Len(r) < 2 \/ seq[p].g # r[2] THEN <<>> ELSE LigPos(F, lk, r, seq, <<p>>, 3)

\* the ligature takes the text of its components; the ignored glyphs inside the span are
\* moved, in order, directly behind it and are not looked at again by this lookup
RECURSIVE ScanLig(_, _, _, _)
ScanLig(F, lk, seq, p) ==
  IF p > Len(seq) THEN seq
  ELSE IF ~Keep(F, lk, seq[p].g) THEN ScanLig(F, lk, seq, p + 1)
  ELSE LET k == FirstRule(lk.rules, LAMBDA r : LigMatch(F, lk, r, seq, p) # <<>>)
       IN  IF k = 0 THEN ScanLig(F, lk, seq, p + 1)
           ELSE LET m    == LigMatch(F, lk, lk.rules[k], seq, p)
                    last == m[Len(m)]
                    comp == [j \in 1..Len(m) |-> seq[m[j]]]
                    skip == SelectSeq([j \in 1..(last - p + 1) |-> p + j - 1], LAMBDA q : q \notin ToSet(m))
                    lig  == [seq[p] EXCEPT !.g = lk.rules[k][1], !.t = TextOf(comp)]
                IN  ScanLig(F, lk, SubSeq(seq, 1, p - 1) \o <<lig>> \o [j \in 1..Len(skip) |-> seq[skip[j]]]
                                   \o SubSeq(seq, last + 1, Len(seq)), p + 1 + Len(skip))

\* multiple substitution: the first replacement glyph keeps the text, the inserted glyphs
\* carry none (DESIGN.md appendix A); the scan continues after the inserted glyphs
RECURSIVE ScanMulti(_, _, _, _)
ScanMulti(F, lk, seq, p) ==
  IF p > Len(seq) THEN seq
  ELSE LET k == IF Keep(F, lk, seq[p].g)
                  THEN FirstRule(lk.rules, LAMBDA r : r[1] = seq[p].g /\ Len(r) >= 2) ELSE 0
       IN  IF k = 0 THEN ScanMulti(F, lk, seq, p + 1)
           ELSE LET r   == lk.rules[k]
                    n   == Len(r) - 1
                    new == [j \in 1..n |-> IF j = 1 THEN [seq[p] EXCEPT !.g = r[2]] ELSE Item(r[j + 1], <<>>)]
                IN  ScanMulti(F, lk, SubSeq(seq, 1, p - 1) \o new \o SubSeq(seq, p + 1, Len(seq)), p + n)

\* single adjustment: every covered glyph the lookup does not ignore, whatever the length
ApplyAdjust(F, lk, seq) ==
  [i \in 1..Len(seq) |->
     LET k == IF Keep(F, lk, seq[i].g) THEN FirstRule(lk.rules, LAMBDA r : r[1] = seq[i].g) ELSE 0
     IN  IF k = 0 THEN seq[i] ELSE [seq[i] EXCEPT !.a = @ + lk.rules[k][2], !.x = @ + lk.rules[k][3]]]

\* Pair adjustment.  The partner is the next glyph the lookup does not ignore.  Subtables in
\* order: the class-based ones (lk.cls), then the glyph pairs (lk.rules).
\* A class-based subtable [cov, c1, c2, two, m] applies iff the first glyph is covered and the
\* classes index into the matrix; a glyph that the class definition does not list has class 0,
\* and row / column 0 are rows / columns like any other; m[c1 + 1][c2 + 1] = <<dAdv1, dPlace1,
\* dAdv2>>, two = 1: the subtable has value records for the second glyph.
ClassIn(cd, g) == LET k == FirstRule(cd, LAMBDA e : e[1] = g) IN IF k = 0 THEN 0 ELSE cd[k][2]

PairHit(lk, g1, g2) ==       \* <<dAdv1, dPlace1, two, dAdv2>> of the first subtable that applies, or <<>>
  LET kc == FirstRule(lk.cls, LAMBDA st : /\ g1 \in ToSet(st.cov)
                                           /\ ClassIn(st.c1, g1) < Len(st.m)
                                           /\ ClassIn(st.c2, g2) < Len(st.m[ClassIn(st.c1, g1) + 1]))
  IN  IF kc # 0
        THEN LET st == lk.cls[kc]
                 e  == st.m[ClassIn(st.c1, g1) + 1][ClassIn(st.c2, g2) + 1]
             IN  <<e[1], e[2], st.two, e[3]>>
        ELSE LET k == FirstRule(lk.rules, LAMBDA r : r[1] = g1 /\ r[2] = g2)
             IN  IF k = 0 THEN <<>> ELSE <<lk.rules[k][3], lk.rules[k][4], lk.rules[k][5], lk.rules[k][6]>>

RECURSIVE ScanPair(_, _, _, _)
ScanPair(F, lk, seq, p) ==
  IF p >= Len(seq) THEN seq
  ELSE IF ~Keep(F, lk, seq[p].g) THEN ScanPair(F, lk, seq, p + 1)
  ELSE LET q == NextKept(F, lk, seq, p + 1)
           h == IF q > Len(seq) THEN <<>> ELSE PairHit(lk, seq[p].g, seq[q].g)
       IN  IF h = <<>> THEN ScanPair(F, lk, seq, p + 1)
           ELSE LET s1 == [seq EXCEPT ![p].a = @ + h[1], ![p].x = @ + h[2]]
                IN  IF h[3] = 1
                      THEN ScanPair(F, lk, [s1 EXCEPT ![q].a = @ + h[4]], q + 1)
                      ELSE ScanPair(F, lk, s1, q)

\* Mark-to-base attachment: lk.rules = marks <<glyph, class, x, y>>, lk.bases = <<glyph, x0, y0,
\* x1, y1, ...>> (one anchor per mark class).  The mark is attached to the nearest preceding
\* glyph of the base coverage: its offset becomes the distance of the two anchors, less the
\* advances from the base up to the mark (the pen has moved on by then).
SumAdv(seq, b, p) == FoldLeft(LAMBDA acc, e : acc + e.a, 0, SubSeq(seq, b, p - 1))

ApplyAttach(F, lk, seq) ==
  FoldLeft(LAMBDA s, p :
             LET k == IF Keep(F, lk, s[p].g) THEN FirstRule(lk.rules, LAMBDA r : r[1] = s[p].g) ELSE 0
                 B == {j \in 1..(p - 1) : FirstRule(lk.bases, LAMBDA r : r[1] = s[j].g) # 0}
             IN  IF k = 0 \/ B = {} THEN s
                 ELSE LET b  == Max(B)
                          mr == lk.rules[k]
                          br == lk.bases[FirstRule(lk.bases, LAMBDA r : r[1] = s[b].g)]
                      IN  IF 2 * mr[2] + 3 > Len(br) THEN s
                          ELSE [s EXCEPT ![p].x = @ + br[2 * mr[2] + 2] - mr[3] - SumAdv(s, b, p),
                                         ![p].y = @ + br[2 * mr[2] + 3] - mr[4]],
           seq, [i \in 1..Len(seq) |-> i])

\* lookup types are numbered per table: GSUB 1 single, 2 multiple, 4 ligature; GPOS 1 single
\* adjustment, 2 pair adjustment, 4 mark-to-base attachment
ApplyLookup(kind, F, lk, seq) ==
  CASE kind = "GSUB" /\ lk.ty = 1 -> ApplySingle(F, lk, seq)
    [] kind = "GSUB" /\ lk.ty = 2 -> ScanMulti(F, lk, seq, 1)
    [] kind = "GSUB" /\ lk.ty = 4 -> ScanLig(F, lk, seq, 1)
    [] kind = "GPOS" /\ lk.ty = 1 -> ApplyAdjust(F, lk, seq)
    [] kind = "GPOS" /\ lk.ty = 2 -> ScanPair(F, lk, seq, 1)
    [] kind = "GPOS" /\ lk.ty = 4 -> ApplyAttach(F, lk, seq)

\* the selected lookups, in lookup-list order
ApplyLookups(kind, F, ll, idxs, seq) == FoldLeft(LAMBDA s, i : ApplyLookup(kind, F, ll[i + 1], s), seq, idxs)

\* every glyph that is not a mark (GDEF glyph class 3) gets the font's advance width
SetAdvances(widths, marks, seq) ==
  [i \in 1..Len(seq) |-> IF seq[i].g \in marks THEN seq[i] ELSE [seq[i] EXCEPT !.a = widths[seq[i].g + 1]]]

---------------------------------------------------------------------------
(* Tables the reader derives when the file has none.                       *)

\* standard f-ligatures: ligature character, then the characters it replaces;
\* longer sequences first, so that the longest match is found
LigSpecs == << <<64259, 102, 102, 105>>, <<64260, 102, 102, 108>>,
               <<64256, 102, 102>>, <<64257, 102, 105>>, <<64258, 102, 108>> >>

StdLigRules(m) ==
  SelectSeq([k \in 1..Len(LigSpecs) |-> [j \in 1..Len(LigSpecs[k]) |-> CmapLookup(m, LigSpecs[k][j])]],
            LAMBDA r : \A j \in 1..Len(r) : r[j] # 0)

\* The property says such a font "gets" these ligatures and that switches are honoured; it
\* does not say whether the synthetic feature `liga' can be switched off.  Both readings are
\* admitted: lr = "req" (always applied), lr = "opt" (applied iff liga is on; on by default).
StdLig(m, lr) ==
  IF StdLigRules(m) = <<>> THEN NoTable
  ELSE [present |-> TRUE,
        sl |-> << [tag |-> "und-Latn-x-latn", script |-> "latn", lang |-> "",
                   req |-> IF lr = "req" THEN 0 ELSE NoFeature, opt |-> <<0>>] >>,
        fl |-> << [tag |-> "liga", lk |-> <<0>>] >>,
        ll |-> << Lk(4, <<>>, StdLigRules(m)) >>]

\* The reader gives standard ligatures to fonts that are not fixed pitch.  Documented rule
\* (font.go): "IsFixedPitch returns true if all glyphs in the font have the same width" - all
\* glyphs, .notdef and the last one included; the code leaves glyphs of width 0 out of the
\* comparison.  Two different non-zero widths anywhere make a font proportional under either
\* wording: then the ligatures are due.  Otherwise (all non-zero widths equal) the property is
\* silent: fp = "lig" / "nolig", one answer per file.
Proportional(widths) ==
  \E i, j \in 1..Len(widths) : widths[i] # 0 /\ widths[j] # 0 /\ widths[i] # widths[j]

\* `kern' version 0, format-0 subtables, folded in file order.  Subtables that are not
\* horizontal or that are cross-stream do not take part in horizontal kerning.  A kerning
\* subtable adds its value, an override subtable replaces the accumulated value, a minimum
\* subtable bounds it from below.  minimum+override together: both readings are admitted
\* (rd = "min": treated as minimum, rd = "over": treated as override).
KernUsable(st) == st.horiz /\ ~st.cross

KernEntry(st, l, r) ==
  LET M == {k \in 1..Len(st.pairs) : st.pairs[k][1] = l /\ st.pairs[k][2] = r}
  IN  IF M = {} THEN 0 ELSE Min(M)

KernFold(subs, l, r, rd) ==
  FoldLeft(LAMBDA acc, st :
             LET k == IF KernUsable(st) THEN KernEntry(st, l, r) ELSE 0
             IN  IF k = 0 THEN acc
                 ELSE LET v == st.pairs[k][3]
                      IN  IF st.min /\ st.over THEN (IF rd = "min" THEN Max2(acc, v) ELSE v)
                          ELSE IF st.min THEN Max2(acc, v)
                          ELSE IF st.over THEN v
                          ELSE acc + v,
           0, subs)

KernPairSet(subs) ==
  UNION {{<<st.pairs[k][1], st.pairs[k][2]>> : k \in 1..Len(st.pairs)} : st \in {s \in ToSet(subs) : KernUsable(s)}}

KernRules(subs, rd) ==
  LET ps == SetToSortSeq(KernPairSet(subs), LAMBDA p, q : p[1] < q[1] \/ (p[1] = q[1] /\ p[2] < q[2]))
  IN  [i \in 1..Len(ps) |-> <<ps[i][1], ps[i][2], KernFold(subs, ps[i][1], ps[i][2], rd), 0, 0, 0>>]

KernTable(kern, rd) ==
  [present |-> TRUE,
   sl |-> << [tag |-> "und-Zzzz", script |-> "DFLT", lang |-> "", req |-> 0, opt |-> <<>>] >>,
   fl |-> << [tag |-> "kern", lk |-> <<0>>] >>,
   ll |-> << Lk(2, <<>>, KernRules(kern.subs, rd)) >>]

\* the tables in force after reading the file (or for a font that never was a file)
EffGsub(F, lr, fp) ==
  IF F.gsub.present THEN F.gsub
  ELSE IF F.read /\ (Proportional(F.widths) \/ fp = "lig") THEN StdLig(BestCmap(F), lr)
  ELSE NoTable

EffGpos(F, rd) ==
  IF F.gpos.present THEN F.gpos
  ELSE IF F.read /\ F.kern.present THEN KernTable(F.kern, rd)
  ELSE NoTable

---------------------------------------------------------------------------
(* The pipeline.  gl, pl: the selected GSUB / GPOS lookup indices.         *)
StageCmap(F, s)        == MapString(BestCmap(F), s)
StageGsub(F, G, gl, seq) == IF G.present THEN ApplyLookups("GSUB", F, G.ll, gl, seq) ELSE seq
StageWidths(F, seq)    == SetAdvances(F.widths, ToSet(F.marks), seq)
StageGpos(F, P, pl, seq) == IF P.present THEN ApplyLookups("GPOS", F, P.ll, pl, seq) ELSE seq

LayoutWith(F, G, P, gl, pl, s) ==
  StageGpos(F, P, pl, StageWidths(F, StageGsub(F, G, gl, StageCmap(F, s))))

Selected(T, kind, li, sw) ==
  IF T.present THEN FindLookupsSpec(T, T.sl[li], OnSet(kind, sw)) ELSE <<>>

\* the readings the property text admits: <<kern reading, ligature reading, fixed-pitch reading>>
Readings == {"min", "over"} \X {"req", "opt"} \X {"nolig", "lig"}

\* the layout, given the choice of language systems (lg, lp) and the reading rd
Layout(F, s, swg, swp, lg, lp, rd) ==
  LET G == EffGsub(F, rd[2], rd[3])
      P == EffGpos(F, rd[1])
  IN  LayoutWith(F, G, P, Selected(G, "GSUB", lg, swg), Selected(P, "GPOS", lp, swp), s)

\* no applicable rule: one glyph per character, carrying it, with the font's advance
Identity(F, s) ==
  [i \in 1..Len(s) |->
     LET g == CmapLookup(BestCmap(F), s[i])
     IN  [g |-> g, t |-> <<s[i]>>, a |-> IF g \in ToSet(F.marks) THEN 0 ELSE F.widths[g + 1], x |-> 0, y |-> 0]]
=============================================================================
