CONSTANTS
  Mode = "layout"
  Gen = FALSE
  CmapMenu <- XLCmapMenu
  WidthMenu <- XLWidthMenu
  MarkMenu <- XLMarkMenu
  PlanMenu <- XLPlanMenu
  GsubMenu <- XLGsubMenu
  GposMenu <- XLGposMenu
  FeatTagsG <- XLFeatTagsG
  FeatTagsP <- XLFeatTagsP
  LkMenu <- XLLkMenu
  ReqMenu <- XLReqMenu
  OptMenu <- XLOptMenu
  TagPool <- XLTagPool
  ReqPool <- XLReqPool
  SwMenuG <- XLSwMenuG
  SwMenuP <- XLSwMenuP
  FlagMenu <- NoFlags
  PairsMenu <- NoPairs
  Chars <- XLChars
  Words <- NoWords
  MaxStr = 2
  MaxCalls = 1
INIT Init
NEXT Next
INVARIANT SelectionOK
INVARIANT Conserved
INVARIANT WidthsOK
INVARIANT Composition
INVARIANT Stable
INVARIANT KernOK
INVARIANT KernExact
INVARIANT Emit
CHECK_DEADLOCK FALSE
