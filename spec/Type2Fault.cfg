\* C05: single-fault programs (meaning: error), simulation
CONSTANTS
  Unit = 1
  MaxV = 32000
  MaxPos = 1000000
  Vals <- CoarseVals
  SVals <- CoarseSVals
  Sizes <- AllSizes
  DWs <- CoarseDWs
  NWs <- CoarseNWs
  MaskBytes <- SomeBytes
  GenOps <- AllGenOps
  MaxOps = 6
  MaxArgs = 48
  MaxArith = 2
  MaxCalls = 2
  Sim = TRUE
  Feats <- MixOnly
  Excluded <- NoExcl
  Faults <- AllFaults
  NGs <- FaultNGs
INIT Init
NEXT Next
INVARIANT StackOK
INVARIANT StatusOK
INVARIANT Emit
CHECK_DEADLOCK FALSE
