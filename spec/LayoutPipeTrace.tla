--------------------------- MODULE LayoutPipeTrace ---------------------------
(***************************************************************************)
(* C15, trace specification.  A recorded execution of the real library     *)
(* (harness/cmd/c15: one event per API call) must be a behaviour of the    *)
(* layout pipeline of LayoutPipeOps:                                       *)
(*                                                                         *)
(*   reset   the font file of the case (as assembled by the harness)       *)
(*   find    gtab Info.FindLookups(lang, switches) on the GSUB/GPOS table, *)
(*           called n times in this process and once in each of several    *)
(*           fresh processes: E.results = the distinct answers             *)
(*   layout  NewLayouter(lang, swg, swp) n times, each laying out s;       *)
(*           E.outs = the distinct glyph sequences                         *)
(*                                                                         *)
(* The property leaves open WHICH language system a request tag selects    *)
(* (and how a minimum+override kern subtable is read) but demands one      *)
(* choice: cg/cp map a request tag to the language systems that explain    *)
(* every answer seen so far for that tag, rds the readings (of the whole   *)
(* trace: one implementation, one reading).  An event                      *)
(* is accepted iff some choice still explains all its answers (Strict).    *)
(* With Strict = FALSE each answer may be explained by its own choice:     *)
(* used only to classify a rejected case (unstable choice / wrong result). *)
(*                                                                         *)
(* Acceptance: TLCGet(1) (lines consumed) = Len(Trace), as in              *)
(* PlainViewTrace.                                                         *)
(***************************************************************************)
EXTENDS LayoutPipeOps, TLC, Json

CONSTANT Strict

Trace == ndJsonDeserialize("trace.ndjson")

VARIABLES l, F, cg, cp, rds, fps
vars == <<l, F, cg, cp, rds, fps>>

E == Trace[l]
Is(ev) == l <= Len(Trace) /\ E.ev = ev
Consume == l' = l + 1 /\ TLCSet(1, l)

NoFont == [read |-> FALSE]
KLReadings == {"min", "over"} \X {"req", "opt"}
FPReadings == {"nolig", "lig"}
Init == l = 1 /\ F = NoFont /\ cg = <<>> /\ cp = <<>> /\ rds = KLReadings /\ fps = FPReadings /\ TLCSet(1, 0)

CandT(T) == IF T.present THEN Cand(T.sl) ELSE {0}
CandOf(c, T, tag) == IF tag \in DOMAIN c THEN c[tag] ELSE CandT(T)
Narrow(c, tag, S) == [t \in DOMAIN c \cup {tag} |-> IF t = tag THEN S ELSE c[t]]

Reset ==
  /\ Is("reset")
  /\ F' = E.font /\ cg' = <<>> /\ cp' = <<>>
  /\ rds' = rds            \* a reading is a trait of the implementation, not of a file: never reset
  /\ fps' = FPReadings     \* (whether a font of equal non-zero widths gets ligatures: one answer per file)
  /\ Consume

\* feature selection: in range, ascending, no duplicates, required feature, switches -
\* all of that is FindLookupsSpec for the chosen language system
Find ==
  /\ Is("find")
  /\ LET T    == IF E.tab = "GSUB" THEN F.gsub ELSE F.gpos
         c    == IF E.tab = "GSUB" THEN cg ELSE cp
         C    == CandOf(c, T, E.lang.tag)
         Ex(li, r) == r = FindLookupsSpec(T, T.sl[li], ToSet(E.on))
         S    == {li \in C : \A k \in 1..Len(E.results) : Ex(li, E.results[k])}
     IN  /\ T.present /\ Len(E.results) >= 1
         /\ E.argmut = 0          \* the switch map is the caller's (and nil stands for the package's default set): not written to
         /\ IF Strict
              THEN /\ S # {}
                   /\ IF E.tab = "GSUB" THEN cg' = Narrow(cg, E.lang.tag, S) /\ cp' = cp
                                        ELSE cp' = Narrow(cp, E.lang.tag, S) /\ cg' = cg
              ELSE /\ \A k \in 1..Len(E.results) : \E li \in C : Ex(li, E.results[k])
                   /\ UNCHANGED <<cg, cp>>
  /\ UNCHANGED <<F, rds, fps>> /\ Consume

\* only the readings that can make a difference for this file are tried
RelK == F.read /\ ~F.gpos.present /\ F.kern.present
          /\ \E k \in 1..Len(F.kern.subs) : F.kern.subs[k].min /\ F.kern.subs[k].over
RelL == F.read /\ ~F.gsub.present
RelF == F.read /\ ~F.gsub.present /\ ~Proportional(F.widths)
Canon(r) == <<IF RelK THEN r[1] ELSE "min", IF RelL THEN r[2] ELSE "req">>

Layouts ==
  /\ Is("layout")
  /\ LET tag == E.lang.tag
         CG  == CandOf(cg, EffGsub(F, "req", "lig"), tag)   \* (the language systems do not depend on the reading)
         CP  == CandOf(cp, EffGpos(F, "min"), tag)
         RR  == {Canon(r) : r \in rds}
         FP  == IF RelF THEN fps ELSE {"nolig"}
         Ex(c, o) == o = Layout(F, E.s, E.swg, E.swp, c[1], c[2], <<c[3][1], c[3][2], c[4]>>)
         All == CG \X CP \X RR \X FP
         S   == {c \in All : \A k \in 1..Len(E.outs) : Ex(c, E.outs[k])}
     IN  /\ HasCmap(F) /\ Len(E.outs) >= 1 /\ E.err = "" /\ E.argmut = 0
         /\ IF Strict
              THEN /\ S # {}
                   /\ cg' = Narrow(cg, tag, {c[1] : c \in S})
                   /\ cp' = Narrow(cp, tag, {c[2] : c \in S})
                   /\ rds' = {r \in rds : Canon(r) \in {c[3] : c \in S}}
                   /\ fps' = IF RelF THEN {c[4] : c \in S} ELSE fps
              ELSE /\ \A k \in 1..Len(E.outs) : \E c \in All : Ex(c, E.outs[k])
                   /\ UNCHANGED <<cg, cp, rds, fps>>
  /\ UNCHANGED F /\ Consume

\* apparatus check, never a verdict about go-sfnt: the independent implementation
\* (golang.org/x/image) reads the hand-built kern table of a single plain subtable
XKern ==
  /\ Is("xkern")
  /\ F.kern.present /\ E.v = KernFold(F.kern.subs, E.l, E.r, "min")
  /\ UNCHANGED <<F, cg, cp, rds, fps>> /\ Consume

Next == Reset \/ Find \/ Layouts \/ XKern
Spec == Init /\ [][Next]_vars

Accepted == IF TLCGet(1) = Len(Trace) THEN TRUE
            ELSE PrintT(<<"REJECTED_AT_LINE", TLCGet(1) + 1>>) /\ FALSE
=============================================================================
