CONSTANTS
  MaxCode = 65535
  MaxKeys = 3
INIT Init
NEXT Next
INVARIANT SelOK
INVARIANT Emit
CHECK_DEADLOCK FALSE
