\* C04 GlyphGen, integer coordinates up to 32000, simulation
CONSTANTS
  GUnit = 1
  MaxG = 32000
  D <- CoarseD
  SD <- CoarseSD
  WPats <- CoarseW
  StemPlans <- Plans
  MaxGlyphs = 8
  MaxSteps = 12
  LineRuns <- LRuns
  CurveRuns <- CRuns
  FarJumps = FALSE
  SweepOnly = FALSE
  SweepA <- SweepAs
  SweepB <- SweepBs
  SweepKinds <- AllSweeps
  ValuePos <- AllPos
  Sim = TRUE
INIT Init
NEXT Next
INVARIANT CoordsOK
INVARIANT MasksOK
INVARIANT MoveFirst
INVARIANT StemsOK
INVARIANT Emit
CHECK_DEADLOCK FALSE
