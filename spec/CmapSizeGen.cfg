CONSTANTS
  MaxCode = 65535
  SmallN = 3
  Steps = {0}
INIT Init
NEXT Next
INVARIANT TightOK
INVARIANT SizeOK
INVARIANT Emit
CHECK_DEADLOCK FALSE
