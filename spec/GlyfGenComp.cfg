\* generation (R binding): composite glyphs: 1..3 components, every argument/transform size combination
CONSTANTS
  Kind = "comp"
  Salt = 1
  MaxRuns = 0
  MaxComps = 3
  MaxGlyphs = 0
  MaxSteps = 0
  FinishFull = TRUE
  With256 = FALSE
  Targets = {}
  SharedBuf = FALSE
INIT Init
NEXT Next
INVARIANT EncodeDecode
INVARIANT PointsMeaning
INVARIANT LocaInv
INVARIANT Emit
CHECK_DEADLOCK FALSE
