CONSTANTS
  MaxTok = 3
  MaxStr = 2
  MaxRunes = 3
  MaxPeek = 2
  RuneKinds = {"p"}
  DecMode = "buffered"
  LineMode = "tracked"
  WithComments = FALSE
  CommentMode = "eofsafe"
  Pres = {"ok", "nocmap"}
  SpawnMode = "afterchecks"
SPECIFICATION Spec
INVARIANT TypeOK
INVARIANT SinkGood
INVARIANT NoOrphan
INVARIANT BufferSuffices
INVARIANT ResultOK
INVARIANT LineLaw
INVARIANT Emit
CHECK_DEADLOCK TRUE
