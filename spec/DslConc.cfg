CONSTANTS
  MaxTok = 3
  MaxStr = 2
  MaxRunes = 3
  MaxPeek = 2
  DecMode = "buffered"
  LineMode = "tracked"
SPECIFICATION Spec
INVARIANT TypeOK
INVARIANT SinkGood
INVARIANT NoOrphan
INVARIANT ResultOK
INVARIANT Emit
CHECK_DEADLOCK TRUE
