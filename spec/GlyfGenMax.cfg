\* generation (R binding): the count maxima of the format
CONSTANTS
  Kind = "max"
  Salt = 1
  MaxRuns = 0
  MaxComps = 0
  MaxGlyphs = 0
  MaxSteps = 0
  FinishFull = TRUE
  With256 = FALSE
  Targets = {65535, 65536, 1, 2}
  SharedBuf = FALSE
INIT Init
NEXT Next
INVARIANT EncodeDecode
INVARIANT LocaInv
INVARIANT Emit
CHECK_DEADLOCK FALSE
