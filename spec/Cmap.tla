------------------------------- MODULE Cmap -------------------------------
(***************************************************************************)
(* C09.  The OpenType 'cmap' chapter as TLA+ operators.                    *)
(*                                                                         *)
(* A subtable is a sequence of 16-bit words (w), a whole cmap table a      *)
(* sequence of bytes (b).  Everything here is written from the format      *)
(* text, not from cmap/*.go:                                               *)
(*                                                                         *)
(*   Dec4(w, c)   format 4: "search for the first endCode >= c; if the     *)
(*                corresponding startCode <= c use idDelta/idRangeOffset,  *)
(*                otherwise missingGlyph"; idRangeOffset = 0: (c+idDelta)  *)
(*                mod 65536; otherwise the word at                         *)
(*                   &idRangeOffset[i] + idRangeOffset[i]/2 + (c-start[i]) *)
(*                and, when that word is not 0, idDelta[i] is added to it  *)
(*                modulo 65536.                                            *)
(*   WF4          header fields (length, language, segCountX2, searchRange *)
(*                = 2*2^floor(log2 segCount), entrySelector, rangeShift),  *)
(*                reservedPad, segments sorted by endCode and disjoint,    *)
(*                last endCode = 0xFFFF, glyph-array accesses in bounds.   *)
(*   Dec12/WF12   sequential map groups (32-bit fields = two words).       *)
(*   Dec6/WF6     trimmed table.       Dec0/WF0   byte encoding table.     *)
(*   WFTable/TableDec/TableEnc   the encoding-record directory, subtables  *)
(*                shared by offset.    BestClass  full Unicode > BMP >     *)
(*                legacy.                                                  *)
(*                                                                         *)
(* Agree4/Agree12 decide "the table decodes to this map on the WHOLE code  *)
(* space" in O(segment span + map size); CmapMC.tla has TLC check that     *)
(* they coincide with the pointwise definition (Dec4 at every code) on     *)
(* every small table body.  Reference encoders (Build4, RefSegs, ArrSegs,  *)
(* WideSegs, Enc12, Enc6, Enc0) exist to model-check the decode operators  *)
(* (Dec(Enc(m)) = m) and to produce spec-encoded tables that are fed to    *)
(* the library decoder.                                                    *)
(*                                                                         *)
(* MaxCode is the largest 16-bit value (65535); the model configurations   *)
(* scale it down (codes, glyph ids and the idDelta arithmetic live in      *)
(* 0..MaxCode; header words are plain integers).                           *)
(***************************************************************************)
EXTENDS Integers, Sequences, FiniteSets, SequencesExt, TLC

CONSTANT MaxCode
Mod == MaxCode + 1

W(w, i) == w[i + 1]                                   \* word at 0-based index i
RangeSeq(lo, hi) == [k \in 1..(hi - lo + 1) |-> lo + k - 1]
FoldRange(op(_, _), base, lo, hi) == FoldLeft(op, base, RangeSeq(lo, hi))
Log2Floor(n) == CHOOSE k \in 0..30 : 2^k <= n /\ n < 2^(k + 1)
ZipP(a, b) == [i \in 1..Len(a) |-> <<a[i], b[i]>>]

\* A map is a sequence of pairs <<code, glyph>>, codes strictly increasing.
\* Pairs with glyph 0 are allowed in an INPUT map (they mean "unmapped").
IsMap(p, maxcode) ==
  /\ \A i \in 1..Len(p) : p[i][1] \in 0..maxcode /\ p[i][2] \in 0..MaxCode
  /\ \A i \in 2..Len(p) : p[i - 1][1] < p[i][1]
NonZero(p) == SelectSeq(p, LAMBDA x : x[2] # 0)
LookupP(p, c) == LET k == SelectInSeq(p, LAMBDA x : x[1] = c)
                 IN IF k = 0 THEN 0 ELSE p[k][2]
PairsOfFn(m) == NonZero([k \in 1..Cardinality(DOMAIN m) |-> <<k - 1, m[k - 1]>>])   \* m : 0..n -> glyph

---------------------------------------------------------------------------
(* Format 4: segment mapping to delta values                              *)
(*   words: 0 format, 1 length, 2 language, 3 segCountX2, 4 searchRange,   *)
(*   5 entrySelector, 6 rangeShift, endCode[sc], reservedPad,              *)
(*   startCode[sc], idDelta[sc], idRangeOffset[sc], glyphIdArray[]         *)

SegCount4(w) == W(w, 3) \div 2
End4(w, i)   == W(w, 7 + i)
Start4(w, i) == W(w, 8 + SegCount4(w) + i)
Delta4(w, i) == W(w, 8 + 2 * SegCount4(w) + i)
ROPos4(w, i) == 8 + 3 * SegCount4(w) + i          \* word index of idRangeOffset[i]
RO4(w, i)    == W(w, ROPos4(w, i))
GIdx4(w, i, c) == ROPos4(w, i) + RO4(w, i) \div 2 + (c - Start4(w, i))

WF4Head(w, lang) ==
  /\ W(w, 0) = 4
  /\ W(w, 1) = 2 * Len(w)
  /\ W(w, 2) = lang
  /\ W(w, 3) % 2 = 0
  /\ LET sc == SegCount4(w) IN
     /\ sc >= 1
     /\ Len(w) >= 8 + 4 * sc
     /\ LET k == Log2Floor(sc) IN
        /\ W(w, 4) = 2 * (2^k)
        /\ W(w, 5) = k
        /\ W(w, 6) = 2 * sc - 2 * (2^k)
     /\ W(w, 7 + sc) = 0

WF4Segs(w) ==
  LET sc == SegCount4(w) IN
  /\ sc >= 1
  /\ Len(w) >= 8 + 4 * sc
  /\ \A i \in 0..sc - 1 : Start4(w, i) \in 0..MaxCode /\ End4(w, i) \in 0..MaxCode
                          /\ Delta4(w, i) \in 0..MaxCode
  /\ \A i \in 0..sc - 1 : Start4(w, i) <= End4(w, i)
  /\ \A i \in 1..sc - 1 : End4(w, i - 1) < Start4(w, i)
  /\ End4(w, sc - 1) = MaxCode
  /\ \A i \in 0..sc - 1 :
        RO4(w, i) # 0 => /\ RO4(w, i) % 2 = 0
                         /\ GIdx4(w, i, End4(w, i)) < Len(w)
                         /\ \A c \in Start4(w, i)..End4(w, i) : W(w, GIdx4(w, i, c)) \in 0..MaxCode

WF4(w, lang) == Len(w) >= 12 /\ WF4Head(w, lang) /\ WF4Segs(w)

\* the glyph segment i assigns to code c (Start4 <= c <= End4)
SegVal4(w, i, c) ==
  IF RO4(w, i) = 0
    THEN (c + Delta4(w, i)) % Mod
    ELSE LET g == W(w, GIdx4(w, i, c))
         IN IF g = 0 THEN 0 ELSE (g + Delta4(w, i)) % Mod

\* the decode rule of the format text
Dec4(w, c) ==
  LET sc == SegCount4(w)
      k  == SelectInSeq(SubSeq(w, 8, 7 + sc), LAMBDA e : e >= c)   \* first endCode >= c
  IN IF k = 0 THEN 0
     ELSE IF Start4(w, k - 1) > c THEN 0 ELSE SegVal4(w, k - 1, c)

\* all <<code, glyph>> with a non-zero glyph, in code order (needs WF4Segs)
Pairs4(w) ==
  FoldRange(LAMBDA acc, i :
              acc \o NonZero([k \in 1..(End4(w, i) - Start4(w, i) + 1) |->
                               <<Start4(w, i) + k - 1, SegVal4(w, i, Start4(w, i) + k - 1)>>]),
            <<>>, 0, SegCount4(w) - 1)

\* Merge step shared by Agree4/Agree12: st = <<j, ok>>, j = next unconsumed entry of the
\* non-zero map p; code c is covered by a segment that gives it the value v.
MergeStep(p, st, c, v) ==
  LET j == st[1] IN
  IF ~st[2] THEN st
  ELSE IF j <= Len(p) /\ p[j][1] < c THEN <<j, FALSE>>          \* a mapped code no segment covers
  ELSE IF j <= Len(p) /\ p[j][1] = c THEN <<j + 1, v = p[j][2]>>
  ELSE <<j, v = 0>>

\* Whole-code-space agreement for a table with WF4Segs and a non-zero map p:
\*   \A c \in 0..MaxCode : Dec4(w, c) = LookupP(p, c)
Agree4(w, p) ==
  LET fin == FoldRange(LAMBDA st, i :
                         FoldRange(LAMBDA s2, c : MergeStep(p, s2, c, SegVal4(w, i, c)),
                                   st, Start4(w, i), End4(w, i)),
                       <<1, TRUE>>, 0, SegCount4(w) - 1)
  IN fin[2] /\ fin[1] = Len(p) + 1

\* --- reference encoders (format 4) ---
\* a segment plan: [s, e, d, arr]; arr = <<>> for a delta segment, else the raw glyphIdArray entries
Build4(segs, lang) ==
  LET sc   == Len(segs)
      arrs == FoldLeft(LAMBDA acc, sg : acc \o sg.arr, <<>>, segs)
      before(i) == FoldLeft(LAMBDA a, sg : a + Len(sg.arr), 0, SubSeq(segs, 1, i - 1))
      ro(i) == IF segs[i].arr = <<>> THEN 0 ELSE 2 * ((sc - (i - 1)) + before(i))
      k    == Log2Floor(sc)
      n    == 8 + 4 * sc + Len(arrs)
  IN <<4, 2 * n, lang, 2 * sc, 2 * (2^k), k, 2 * sc - 2 * (2^k)>>
     \o [i \in 1..sc |-> segs[i].e] \o <<0>>
     \o [i \in 1..sc |-> segs[i].s]
     \o [i \in 1..sc |-> segs[i].d]
     \o [i \in 1..sc |-> ro(i)]
     \o arrs

\* The same plan with the explicit arrays laid out differently: the format text locates a segment's glyph
\* ids only through the address arithmetic of idRangeOffset, so the arrays may be stored in any order
\* ("rev": reverse segment order) and two segments may use the same words ("share": equal arrays stored once).
Uniq4(s) == FoldLeft(LAMBDA acc, y : IF \E i \in 1..Len(acc) : acc[i] = y THEN acc ELSE Append(acc, y), <<>>, s)
Build4L(segs, lang, layout) ==
  LET sc   == Len(segs)
      idx  == SelectSeq(RangeSeq(1, sc), LAMBDA i : segs[i].arr # <<>>)
      ord  == IF layout = "rev" THEN Reverse(idx) ELSE idx
      all  == [j \in 1..Len(ord) |-> segs[ord[j]].arr]
      st   == IF layout = "share" THEN Uniq4(all) ELSE all
      at(a) == LET j == CHOOSE j \in 1..Len(st) : st[j] = a /\ \A q \in 1..j - 1 : st[q] # a
               IN FoldLeft(LAMBDA acc, q : acc + Len(st[q]), 0, RangeSeq(1, j - 1))
      ro(i) == IF segs[i].arr = <<>> THEN 0 ELSE 2 * ((sc - (i - 1)) + at(segs[i].arr))
      arrs == FoldLeft(LAMBDA acc, a : acc \o a, <<>>, st)
      k    == Log2Floor(sc)
      n    == 8 + 4 * sc + Len(arrs)
  IN <<4, 2 * n, lang, 2 * sc, 2 * (2^k), k, 2 * sc - 2 * (2^k)>>
     \o [i \in 1..sc |-> segs[i].e] \o <<0>>
     \o [i \in 1..sc |-> segs[i].s]
     \o [i \in 1..sc |-> segs[i].d]
     \o [i \in 1..sc |-> ro(i)]
     \o arrs

\* maximal runs of consecutive mapped codes below MaxCode (p non-zero map)
RunsP(p) ==
  FoldLeft(LAMBDA acc, x :
             IF x[1] = MaxCode THEN acc
             ELSE IF acc # <<>> /\ Last(Last(acc))[1] = x[1] - 1
                    THEN [acc EXCEPT ![Len(acc)] = Append(@, x)]
                    ELSE Append(acc, <<x>>),
           <<>>, p)
DeltaOf(x) == (x[2] + Mod - x[1]) % Mod
FinalSeg(p) == [s |-> MaxCode, e |-> MaxCode, d |-> (LookupP(p, MaxCode) + Mod - MaxCode) % Mod, arr |-> <<>>]

\* minimal-ish: a delta segment for a delta-consistent run, an explicit array otherwise
RefSeg(run) ==
  LET d == DeltaOf(run[1]) IN
  IF \A i \in 1..Len(run) : DeltaOf(run[i]) = d
    THEN [s |-> run[1][1], e |-> Last(run)[1], d |-> d, arr |-> <<>>]
    ELSE [s |-> run[1][1], e |-> Last(run)[1], d |-> 0, arr |-> [i \in 1..Len(run) |-> run[i][2]]]
RefSegs(p) == LET r == RunsP(p) IN [i \in 1..Len(r) |-> RefSeg(r[i])] \o <<FinalSeg(p)>>

\* deliberately non-minimal: every run as an explicit array with idDelta d (legal iff no glyph = d)
CanDelta(p, d) == \A i \in 1..Len(p) : p[i][1] = MaxCode \/ p[i][2] # d
ArrSeg(run, d) == [s |-> run[1][1], e |-> Last(run)[1], d |-> d,
                   arr |-> [i \in 1..Len(run) |-> (run[i][2] + Mod - d) % Mod]]
ArrSegs(p, d) == LET r == RunsP(p) IN [i \in 1..Len(r) |-> ArrSeg(r[i], d)] \o <<FinalSeg(p)>>

\* one explicit array from the first to the last mapped code below MaxCode, zeros in the gaps
WideSegs(p, d) ==
  LET q == SelectSeq(p, LAMBDA x : x[1] # MaxCode) IN
  IF q = <<>> THEN <<FinalSeg(p)>>
  ELSE LET lo == q[1][1]
           hi == Last(q)[1]
       IN <<[s |-> lo, e |-> hi, d |-> d,
             arr |-> [k \in 1..(hi - lo + 1) |->
                        LET g == LookupP(q, lo + k - 1)
                        IN IF g = 0 THEN 0 ELSE (g + Mod - d) % Mod]],
            FinalSeg(p)>>

---------------------------------------------------------------------------
(* Format 12: segmented coverage.  32-bit fields are two words (hi, lo).   *)
(*   words: 0 format, 1 reserved, 2-3 length, 4-5 language, 6-7 numGroups, *)
(*   then per group startCharCode, endCharCode, startGlyphID (2 words each)*)

Safe32(w, i) == W(w, i) \in 0..32767 /\ W(w, i + 1) \in 0..MaxCode    \* the value fits TLC's integers
U32(w, i) == W(w, i) * Mod + W(w, i + 1)
NGroups12(w) == U32(w, 6)
GStart12(w, k) == U32(w, 8 + 6 * k)
GEnd12(w, k)   == U32(w, 10 + 6 * k)
GGid12(w, k)   == U32(w, 12 + 6 * k)

WF12(w, lang) ==
  /\ Len(w) >= 8
  /\ W(w, 0) = 12 /\ W(w, 1) = 0
  /\ Safe32(w, 2) /\ U32(w, 2) = 2 * Len(w)
  /\ W(w, 4) = 0 /\ W(w, 5) = lang
  /\ Safe32(w, 6) /\ Len(w) = 8 + 6 * NGroups12(w)
  /\ LET n == NGroups12(w) IN
     /\ \A k \in 0..n - 1 : Safe32(w, 8 + 6 * k) /\ Safe32(w, 10 + 6 * k) /\ Safe32(w, 12 + 6 * k)
     /\ \A k \in 0..n - 1 : GStart12(w, k) <= GEnd12(w, k)
     /\ \A k \in 1..n - 1 : GEnd12(w, k - 1) < GStart12(w, k)

Dec12(w, c) ==
  LET ks == {k \in 0..NGroups12(w) - 1 : GStart12(w, k) <= c /\ c <= GEnd12(w, k)}
  IN IF ks = {} THEN 0
     ELSE LET k == CHOOSE x \in ks : TRUE IN GGid12(w, k) + (c - GStart12(w, k))

Pairs12(w) ==
  FoldRange(LAMBDA acc, k :
              acc \o NonZero([j \in 1..(GEnd12(w, k) - GStart12(w, k) + 1) |->
                               <<GStart12(w, k) + j - 1, GGid12(w, k) + j - 1>>]),
            <<>>, 0, NGroups12(w) - 1)

Agree12(w, p) ==
  LET fin == FoldRange(LAMBDA st, k :
                         FoldRange(LAMBDA s2, c : MergeStep(p, s2, c, GGid12(w, k) + (c - GStart12(w, k))),
                                   st, GStart12(w, k), GEnd12(w, k)),
                       <<1, TRUE>>, 0, NGroups12(w) - 1)
  IN fin[2] /\ fin[1] = Len(p) + 1

Hi(x) == x \div Mod
Lo(x) == x % Mod
\* groups = sequence of <<start, end, gid>>
Build12(groups, lang) ==
  LET n == Len(groups)
      len == 16 + 12 * n
  IN <<12, 0, Hi(len), Lo(len), 0, lang, Hi(n), Lo(n)>>
     \o FoldLeft(LAMBDA acc, g : acc \o <<Hi(g[1]), Lo(g[1]), Hi(g[2]), Lo(g[2]), Hi(g[3]), Lo(g[3])>>,
                 <<>>, groups)
\* maximal groups: consecutive codes with consecutive glyph ids (no wrap-around)
Groups12(p) ==
  FoldLeft(LAMBDA acc, x :
             IF acc # <<>> /\ Last(acc)[2] = x[1] - 1 /\ Last(acc)[3] + (Last(acc)[2] - Last(acc)[1]) = x[2] - 1
               THEN [acc EXCEPT ![Len(acc)] = <<@[1], x[1], @[3]>>]
               ELSE Append(acc, <<x[1], x[1], x[2]>>),
           <<>>, p)
Enc12(p, lang) == Build12(Groups12(p), lang)
Enc12Single(p, lang) == Build12([i \in 1..Len(p) |-> <<p[i][1], p[i][1], p[i][2]>>], lang)

---------------------------------------------------------------------------
(* Format 6: trimmed table.  words: 0 format, 1 length, 2 language,        *)
(* 3 firstCode, 4 entryCount, glyphIdArray[entryCount]                     *)

WF6(w, lang) ==
  /\ Len(w) >= 5
  /\ W(w, 0) = 6 /\ W(w, 1) = 2 * Len(w) /\ W(w, 2) = lang
  /\ Len(w) = 5 + W(w, 4)
  /\ W(w, 3) + W(w, 4) <= Mod
  /\ \A i \in 5..Len(w) - 1 : W(w, i) \in 0..MaxCode
Dec6(w, c) == IF W(w, 3) <= c /\ c < W(w, 3) + W(w, 4) THEN W(w, 5 + (c - W(w, 3))) ELSE 0
Pairs6(w) == NonZero([k \in 1..W(w, 4) |-> <<W(w, 3) + k - 1, W(w, 4 + k)>>])
Enc6(p, lang) ==
  IF p = <<>> THEN <<6, 10, lang, 0, 0>>
  ELSE LET lo == p[1][1]
           n  == Last(p)[1] - lo + 1
       IN <<6, 10 + 2 * n, lang, lo, n>> \o [k \in 1..n |-> LookupP(p, lo + k - 1)]

---------------------------------------------------------------------------
(* Format 0: byte encoding table.  6 header bytes and glyphIdArray[256] of *)
(* bytes = words 0 format, 1 length (262), 2 language, 128 words of pairs  *)

WF0(w, lang) ==
  /\ Len(w) = 131
  /\ W(w, 0) = 0 /\ W(w, 1) = 262 /\ W(w, 2) = lang
  /\ \A i \in 3..130 : W(w, i) \in 0..65535
Dec0(w, c) ==
  IF c > 255 THEN 0
  ELSE LET x == W(w, 3 + c \div 2) IN IF c % 2 = 0 THEN x \div 256 ELSE x % 256
Pairs0(w) == NonZero([k \in 1..256 |-> <<k - 1, Dec0(w, k - 1)>>])
Enc0(p, lang) ==    \* codes and glyphs below 256
  <<0, 262, lang>> \o [k \in 1..128 |-> 256 * LookupP(p, 2 * k - 2) + LookupP(p, 2 * k - 1)]

\* Macintosh Roman (platform 1, encoding 0): character code -> Unicode scalar value
\* (Apple's ROMAN.TXT, the variant with the euro sign at 0xDB and U+F8FF at 0xF0).
MacRoman ==
  <<0, 1, 2, 3, 4, 5, 6, 7, 8, 9, 10, 11, 12, 13, 14, 15, 16, 17, 18, 19, 20, 21, 22, 23, 24, 25, 26, 27, 28,
    29, 30, 31, 32, 33, 34, 35, 36, 37, 38, 39, 40, 41, 42, 43, 44, 45, 46, 47, 48, 49, 50, 51, 52, 53, 54, 55,
    56, 57, 58, 59, 60, 61, 62, 63, 64, 65, 66, 67, 68, 69, 70, 71, 72, 73, 74, 75, 76, 77, 78, 79, 80, 81, 82,
    83, 84, 85, 86, 87, 88, 89, 90, 91, 92, 93, 94, 95, 96, 97, 98, 99, 100, 101, 102, 103, 104, 105, 106, 107,
    108, 109, 110, 111, 112, 113, 114, 115, 116, 117, 118, 119, 120, 121, 122, 123, 124, 125, 126, 127,
    196, 197, 199, 201, 209, 214, 220, 225, 224, 226, 228, 227, 229, 231, 233, 232, 234, 235, 237, 236, 238,
    239, 241, 243, 242, 244, 246, 245, 250, 249, 251, 252, 8224, 176, 162, 163, 167, 8226, 182, 223, 174, 169,
    8482, 180, 168, 8800, 198, 216, 8734, 177, 8804, 8805, 165, 181, 8706, 8721, 8719, 960, 8747, 170, 186,
    937, 230, 248, 191, 161, 172, 8730, 402, 8776, 8710, 171, 187, 8230, 160, 192, 195, 213, 338, 339, 8211,
    8212, 8220, 8221, 8216, 8217, 247, 9674, 255, 376, 8260, 8364, 8249, 8250, 64257, 64258, 8225, 183, 8218,
    8222, 8240, 194, 202, 193, 203, 200, 205, 206, 207, 204, 211, 212, 63743, 210, 218, 219, 217, 305, 710,
    732, 175, 728, 729, 730, 184, 733, 731, 711>>
\* a map over Mac Roman codes (< 256) read as a map over Unicode scalar values, in code-point order
MacToUnicode(p) == SortSeq([i \in 1..Len(p) |-> <<MacRoman[p[i][1] + 1], p[i][2]>>], LAMBDA a, b : a[1] < b[1])

---------------------------------------------------------------------------
(* The cmap table: header (version, numTables) and encoding records        *)
(* (platformID, encodingID, 32-bit offset from the start of the table),    *)
(* sorted by platform, encoding and the language of the subtable; several  *)
(* records may point at the same subtable.  b is a sequence of bytes.      *)

B8(b, o)  == b[o + 1]
B16(b, o) == B8(b, o) * 256 + B8(b, o + 1)
BSafe32(b, o) == B8(b, o) < 128
B32(b, o) == B16(b, o) * 65536 + B16(b, o + 2)
WordsToBytes(w) == [i \in 1..2 * Len(w) |-> IF i % 2 = 1 THEN w[(i + 1) \div 2] \div 256 ELSE w[i \div 2] % 256]
BytesToWords(b) == [i \in 1..Len(b) \div 2 |-> b[2 * i - 1] * 256 + b[2 * i]]

NumTables(b) == B16(b, 2)
RecPid(b, i) == B16(b, 4 + 8 * i)          \* i 0-based
RecEid(b, i) == B16(b, 6 + 8 * i)
RecOff(b, i) == B32(b, 8 + 8 * i)
SubFormat(b, o) == B16(b, o)
SubLen(b, o) == IF SubFormat(b, o) \in {0, 2, 4, 6} THEN B16(b, o + 2)
                ELSE IF SubFormat(b, o) \in {8, 10, 12, 13} THEN B32(b, o + 4)
                ELSE B32(b, o + 2)
SubLang(b, o) == IF SubFormat(b, o) \in {0, 2, 4, 6} THEN B16(b, o + 4)
                 ELSE IF SubFormat(b, o) \in {8, 10, 12, 13} THEN B32(b, o + 8)
                 ELSE 0
SubBytes(b, o) == SubSeq(b, o + 1, o + SubLen(b, o))

KeyLess(a, c) == \/ a[1] < c[1]
                 \/ a[1] = c[1] /\ a[2] < c[2]
                 \/ a[1] = c[1] /\ a[2] = c[2] /\ a[3] < c[3]

WFTable(b) ==
  /\ Len(b) >= 4
  /\ B16(b, 0) = 0
  /\ Len(b) >= 4 + 8 * NumTables(b)
  /\ LET n == NumTables(b) IN
     /\ \A i \in 0..n - 1 :
          /\ BSafe32(b, 8 + 8 * i)
          /\ RecOff(b, i) >= 4 + 8 * n
          /\ RecOff(b, i) + 8 <= Len(b)
          /\ SubFormat(b, RecOff(b, i)) \in {0, 2, 4, 6, 8, 10, 12, 13, 14}
          /\ SubFormat(b, RecOff(b, i)) \in {8, 10, 12, 13} =>
               RecOff(b, i) + 12 <= Len(b) /\ BSafe32(b, RecOff(b, i) + 4) /\ BSafe32(b, RecOff(b, i) + 8)
          /\ SubLen(b, RecOff(b, i)) >= 8
          /\ RecOff(b, i) + SubLen(b, RecOff(b, i)) <= Len(b)
     /\ \A i \in 1..n - 1 :
          KeyLess(<<RecPid(b, i - 1), RecEid(b, i - 1), SubLang(b, RecOff(b, i - 1))>>,
                  <<RecPid(b, i), RecEid(b, i), SubLang(b, RecOff(b, i))>>)

\* the decoded directory: one entry <<platform, encoding, language, subtable bytes, offset>> per record
TableDec(b) ==
  [k \in 1..NumTables(b) |->
     LET o == RecOff(b, k - 1)
     IN <<RecPid(b, k - 1), RecEid(b, k - 1), SubLang(b, o), SubBytes(b, o), o>>]

\* reference encoder: recs = sequence of <<platform, encoding, subtable bytes>> sorted by key,
\* store = the distinct subtables in storage order
U16Bytes(x) == <<x \div 256, x % 256>>
U32Bytes(x) == U16Bytes(x \div 65536) \o U16Bytes(x % 65536)
TableEnc(recs, store) ==
  LET n == Len(recs)
      off(sub) == LET k == SelectInSeq(store, LAMBDA s : s = sub)
                  IN 4 + 8 * n + FoldLeft(LAMBDA a, s : a + Len(s), 0, SubSeq(store, 1, k - 1))
  IN U16Bytes(0) \o U16Bytes(n)
     \o FoldLeft(LAMBDA acc, r : acc \o U16Bytes(r[1]) \o U16Bytes(r[2]) \o U32Bytes(off(r[3])), <<>>, recs)
     \o FoldLeft(LAMBDA acc, s : acc \o s, <<>>, store)

\* Best subtable: full Unicode before BMP before legacy; keys = set of <<platform, encoding>>
\* (language-independent subtables).  The order inside a class is not fixed by the property.
FullKeys   == {<<3, 10>>, <<0, 4>>}
BmpKeys    == {<<3, 1>>, <<0, 3>>}
LegacyKeys == {<<1, 0>>}
BestClass(keys) ==
  IF keys \cap FullKeys # {} THEN keys \cap FullKeys
  ELSE IF keys \cap BmpKeys # {} THEN keys \cap BmpKeys
  ELSE keys \cap LegacyKeys
=============================================================================
