CONSTANTS
  MaxCode = 65535
  MaxBlocks = 4
  Gaps = {0, 1, 2, 3, 4, 5, 6, 200}
  Lens = {1, 2, 3, 4, 5, 8}
  Kinds = {"delta", "perm", "zeroA", "zeroE", "const", "wrap"}
  Bases = {"same", "fresh"}
  Fmts = {4, 12}
  AllVars = FALSE
  FewAnchors = FALSE
INIT Init
NEXT Next
INVARIANT GenOK
INVARIANT Emit
CHECK_DEADLOCK FALSE
