-------------------------- MODULE LookupLayoutDefs --------------------------
(***************************************************************************)
(* C08.  Pure definitions shared by LookupLayout.tla (model of the encoder *)
(* of opentype/gtab/lookup.go), LookupLayoutTrace.tla (judge of recorded   *)
(* encodings) and LookupLayoutCov.tla.  Everything here is written from    *)
(* the OpenType specification (chapter 2 "Lookup List Table", "Lookup      *)
(* Table", GSUB 7.1 / GPOS 9.1 extension subtables, GSUB/GPOS header):     *)
(*                                                                         *)
(*  GSUB/GPOS header   10 bytes, Offset16 scriptList, featureList,         *)
(*                     lookupList, all from the start of the table         *)
(*  LookupList         uint16 count, Offset16 lookups[count] from the      *)
(*                     start of the lookup list                            *)
(*  Lookup             uint16 type, flag, subTableCount,                   *)
(*                     Offset16 subtables[count] from the start of the     *)
(*                     Lookup table, uint16 markFilteringSet iff flag&0x10 *)
(*  Extension          uint16 format=1, uint16 extensionLookupType,        *)
(*                     Offset32 from the start of the extension subtable   *)
(*                                                                         *)
(* A lookup is a record [mfs |-> BOOLEAN, subs |-> sequence of sizes].     *)
(***************************************************************************)
EXTENDS Integers, Sequences, FiniteSets, SequencesExt

Max16 == 65535
ExtRecLen == 8
GtabHeaderLen == 10

SumSeq(s) == FoldLeft(LAMBDA a, b : a + b, 0, s)

\* size of a Lookup table (without its subtables)
HdrLen(l) == 6 + 2 * Len(l.subs) + (IF l.mfs THEN 2 ELSE 0)
ListHdrLen(ll) == 2 + 2 * Len(ll)

\* size of a lookup with its subtables stored directly / through extension records
DirectLen(l) == HdrLen(l) + SumSeq(l.subs)
ExtLen(l)    == HdrLen(l) + ExtRecLen * Len(l.subs)

\* offset of subtable j from the start of its Lookup table when subtables follow the
\* table directly and in order
DirectSubOff(l, j) == HdrLen(l) + SumSeq(SubSeq(l.subs, 1, j - 1))

\* The property: "lookup lists too large for 16-bit offsets must come back intact via
\* extension subtables".  A list is representable iff, with every lookup stored through
\* extension records (the most compact arrangement of the 16-bit-addressed part), every
\* Lookup table starts within 0xFFFF of the list and every extension record within 0xFFFF
\* of its Lookup table.  (Offset32 reaches everything else.)
AllExtStart(ll, i) == ListHdrLen(ll) + SumSeq([k \in 1..(i - 1) |-> ExtLen(ll[k])])
Representable(ll) ==
  \A i \in 1..Len(ll) :
     /\ AllExtStart(ll, i) <= Max16
     /\ HdrLen(ll[i]) + ExtRecLen * (Len(ll[i].subs) - 1) <= Max16

\* header: script list, feature list, lookup list stored in this order after the header
HeaderFits(S, F) == GtabHeaderLen + S + F <= Max16

\* what 16 bits keep of a value
Trunc16(x) == x % 65536
=============================================================================
