----------------------------- MODULE Type2Trace -----------------------------
(***************************************************************************)
(* C04, trace specification.  The charstrings emitted by the Write method  *)
(* of cff.Font (extracted from the written bytes by the harness's own CFF  *)
(* walker, harness/cmd/c04) are executed on the Type 2 machine of          *)
(* Type2Core.tla, one event per emitted operator with its operands:        *)
(*                                                                         *)
(*   reset  the source glyph G (absolute coordinates in units of 1/GUnit)  *)
(*          and defaultWidthX / nominalWidthX read from the emitted        *)
(*          Private DICT (rounded to units of 1/GUnit)                     *)
(*   op     operands and operator: must be an ENABLED step of the machine  *)
(*          (legal operand count, stack <= 48, nothing after endchar)      *)
(*   end    the machine must have executed endchar and its path, stems,    *)
(*          masks and width must equal G: exactly when GUnit = Unit, and   *)
(*          within half a 16.16 unit per ABSOLUTE coordinate when          *)
(*          GUnit = 4 * Unit (so rounding errors may not accumulate).      *)
(*                                                                         *)
(* Acceptance: every line consumed (high-water mark = Len(Trace)) and no   *)
(* glyph reported BAD (POSTCONDITION Accepted, -workers 1).                *)
(***************************************************************************)
EXTENDS Type2Core, Json

CONSTANT GUnit      \* Unit (exact) or 4 * Unit

Trace == ndJsonDeserialize("trace.ndjson")

VARIABLES l,    \* next line of the trace
          mm,   \* machine state
          G,    \* the reset event of the current glyph
          skip  \* the current glyph has already been rejected: its remaining events are skipped
tvars == <<l, mm, G, skip>>

E == Trace[l]
NoG == [w |-> 0, hs |-> <<>>, vs |-> <<>>, cmds |-> <<>>, dwq |-> 0, nwq |-> 0,
        dwexact |-> TRUE, nwexact |-> TRUE, dwok |-> TRUE, nwok |-> TRUE]
Init == l = 1 /\ mm = M0 /\ G = NoG /\ skip = FALSE /\ TLCSet(1, 0) /\ TLCSet(2, 0)
Consume == l' = l + 1 /\ TLCSet(1, l)
Is(ev) == l <= Len(Trace) /\ E.ev = ev

\* A glyph that is not a behaviour of the specification is reported (one BAD line, counted in
\* register 2) and the rest of its events is skipped, so that one run judges every glyph.
Bad(what) == PrintT(<<"BAD", l, E.case, E.gid, what>>) /\ TLCSet(2, TLCGet(2) + 1)

Reset == /\ Is("reset")
         /\ G' = [w |-> E.w, hs |-> E.hs, vs |-> E.vs, cmds |-> E.cmds,
                  dwq |-> E.dwq, nwq |-> E.nwq, dwexact |-> E.dwexact, nwexact |-> E.nwexact,
                  dwok |-> E.dwok, nwok |-> E.nwok]
         /\ mm' = M0
         /\ IF E.gunit # GUnit \/ E.unit # Unit THEN Bad(<<"wrong units for this configuration">>) /\ skip' = TRUE
            ELSE skip' = FALSE
         /\ Consume

\* one emitted operator with its operands: must be an enabled step of the machine
Step == /\ Is("op")
        /\ IF skip THEN UNCHANGED <<mm, skip>>
           ELSE LET toks == [i \in 1..Len(E.args) |-> Num(E.args[i])] \o <<MaskTok(E.op, E.mask)>>
                    m2   == RunToks(mm, toks)
                IN IF ~E.exact
                     THEN Bad(<<"operand not representable in 1/Unit or out of range", E.op>>)
                          /\ skip' = TRUE /\ UNCHANGED mm
                   ELSE IF m2.st = "unmodelled"
                     THEN Bad(<<"coordinates leave the modelled range", E.op, Len(E.args)>>)
                          /\ skip' = TRUE /\ UNCHANGED mm
                   ELSE IF m2.st \notin {"run", "done"}
                     THEN Bad(<<"operator not enabled (operand count, stack limit or order)",
                                E.op, Len(E.args), Len(mm.stack), m2.st>>)
                          /\ skip' = TRUE /\ UNCHANGED mm
                   ELSE mm' = m2 /\ UNCHANGED skip
        /\ UNCHANGED G /\ Consume

R == GUnit \div Unit
Close(dec, want) == Abs(R * dec - want) <= R \div 2
SameSeq(dec, want) == Len(dec) = Len(want) /\ \A i \in 1..Len(dec) : Close(dec[i], want[i])
SameCmd(d, w) ==
  /\ Len(d) = Len(w) /\ d[1] = w[1]
  /\ IF d[1] \in {"hm", "cm"} THEN \A k \in 2..Len(d) : d[k] = w[k]
     ELSE \A k \in 2..Len(d) : Close(d[k], w[k])

\* every respect in which the final machine state is not the source glyph (<<>> if it is)
Verdicts ==
  IF mm.st # "done" THEN << <<"the charstring does not end with endchar", mm.st>> >>
  ELSE LET r == Meaning(mm, 0, 0)
           badcmd == {i \in 1..Len(r.path) : i > Len(G.cmds) \/ ~SameCmd(r.path[i], G.cmds[i])}
           \* The advance width in units of 1/GUnit.  The width defaults of the Private DICT are
           \* decimal numbers: the harness logs them rounded to 1/GUnit with an exactness flag, and
           \* an inexact default widens the tolerance by one unit (never a false alarm).
           usesDW == mm.w = <<>>
           wq     == IF usesDW THEN G.dwq ELSE G.nwq + R * mm.w[1]
           slack  == IF (usesDW /\ G.dwexact) \/ (~usesDW /\ G.nwexact) THEN 0 ELSE 1
       IN (IF Len(r.path) # Len(G.cmds) THEN << <<"path length", Len(r.path), Len(G.cmds)>> >>
           ELSE IF badcmd # {} THEN LET i == CHOOSE j \in badcmd : \A q \in badcmd : j <= q IN
                                    << <<"path command differs", i, r.path[i], G.cmds[i]>> >>
           ELSE <<>>)
          \o (IF ~SameSeq(r.hs, G.hs) THEN << <<"hstem", r.hs, G.hs>> >> ELSE <<>>)
          \o (IF ~SameSeq(r.vs, G.vs) THEN << <<"vstem", r.vs, G.vs>> >> ELSE <<>>)
          \o (IF (usesDW /\ ~G.dwok) \/ (~usesDW /\ ~G.nwok)
                THEN << <<"width: the default used by this glyph is not a sane number", mm.w>> >>
              ELSE IF Abs(wq - G.w) > R \div 2 + slack
                THEN << <<"width (decoded, G, defaultWidthX, nominalWidthX; units of 1/GUnit)",
                          wq, G.w, G.dwq, G.nwq>> >>
              ELSE <<>>)

End == /\ Is("end")
       /\ IF skip THEN TRUE
          ELSE LET v == Verdicts IN \A i \in 1..Len(v) : Bad(v[i])
       /\ skip' = FALSE
       /\ UNCHANGED <<mm, G>> /\ Consume

\* the encoder failed, or wrote something the walker cannot read
Fail == /\ Is("fail")
        /\ Bad(<<"no charstring", E.what>>)
        /\ skip' = TRUE
        /\ UNCHANGED <<mm, G>> /\ Consume

Next == Reset \/ Step \/ End \/ Fail
Spec == Init /\ [][Next]_tvars

StackOK == Len(mm.stack) <= MaxStack

Accepted == IF TLCGet(1) = Len(Trace) /\ TLCGet(2) = 0 THEN TRUE
            ELSE PrintT(<<"REJECTED_AT_LINE", TLCGet(1) + 1>>) /\ PrintT(<<"BADCOUNT", TLCGet(2)>>) /\ FALSE
=============================================================================
