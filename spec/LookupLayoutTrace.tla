------------------------- MODULE LookupLayoutTrace -------------------------
(***************************************************************************)
(* C08, observable specification.  A recorded run of the real encoders     *)
(* (harness/cmd/c08: one case = plan, encode, walk, decode events) must    *)
(* satisfy what the property states about the BYTES, whatever layout the   *)
(* encoder chose:                                                          *)
(*   - the encoder either returns bytes or refuses loudly (panic); it may  *)
(*     refuse only data that cannot be represented (Representable from     *)
(*     LookupLayoutDefs: every lookup reachable through extension records  *)
(*     with 16-bit lookup offsets, header offsets within 16 bits);         *)
(*   - the independent walker (harness/internal/gtabwalk) follows every    *)
(*     offset written in the bytes: every target is inside the table, no   *)
(*     byte belongs to no structure (declared sizes = emitted sizes) and   *)
(*     none to two, every subtable has exactly the size it was built with, *)
(*     lookup flags, mark filtering sets and counts are the planned ones;  *)
(*   - a lookup either stores its subtables directly under its own type,   *)
(*     or all of them through extension records (type 7 in GSUB, 9 in      *)
(*     GPOS) that carry the original type;                                 *)
(*   - coverage tables are ascending with indices 0..n-1 and use the       *)
(*     smaller format, class definitions use the smaller format, arrays    *)
(*     indexed by coverage index have the coverage's count;                *)
(*   - decoding the bytes gives the original structure (canonical form     *)
(*     digests computed by the harness, compared here).                    *)
(*                                                                         *)
(* Strict = TRUE: a failed clause disables the step, so the first bad line *)
(* is REJECTED_AT_LINE (replays).  Strict = FALSE: a failed clause prints  *)
(* <<"BAD", case, line, tag>> and the run goes on (batches); every BAD     *)
(* case is then replayed alone under Strict before it is reported.         *)
(***************************************************************************)
EXTENDS Integers, Sequences, TLC, Json, SequencesExt, LookupLayoutDefs

CONSTANT Strict

Trace == ndJsonDeserialize("trace.ndjson")

VARIABLES l,     \* next line of the trace
          plan,  \* the plan event of the current case
          st,    \* idle | planned | encoded | walked
          elen   \* length of the encoded bytes
vars == <<l, plan, st, elen>>

E == Trace[l]
Init == l = 1 /\ plan = [kind |-> "none"] /\ st = "idle" /\ elen = 0 /\ TLCSet(1, 0)
Consume == l' = l + 1 /\ TLCSet(1, l)
Is(ev) == l <= Len(Trace) /\ E.ev = ev

Check(c, tag) == IF c THEN TRUE ELSE IF Strict THEN FALSE ELSE PrintT(<<"BAD", E.case, l, tag>>)

Min2(a, b) == IF a < b THEN a ELSE b

\* the lookup list of a plan event in the form of LookupLayoutDefs
LL(p) == [i \in 1..Len(p.lookups) |-> [mfs |-> p.lookups[i].mfs, subs |-> p.lookups[i].subs]]
SizesKnown(p) == \A i \in 1..Len(p.lookups) : \A j \in 1..Len(p.lookups[i].subs) : p.lookups[i].subs[j] >= 0

Plan ==
  /\ Is("plan") /\ st = "idle"
  \* sanity of the case itself (a failure here is a harness error, tag "infra")
  /\ Check(E.kind \in {"plan", "shape", "gdef", "lists"}, "infra")
  /\ Check((E.kind = "plan" /\ SizesKnown(E) /\ E.S >= 0 /\ E.F >= 0) =>
              (E.mayRefuse <=> ~(Representable(LL(E)) /\ HeaderFits(E.S, E.F))), "infra")
  /\ plan' = E /\ st' = "planned" /\ elen' = 0 /\ Consume

\* script/feature list cases start from bytes written by the harness straight from the OpenType
\* format; the library reads them to obtain its own representation (the language.Tag values).  Every
\* language system and every feature written must arrive: the reader may not drop data silently.
Prep ==
  /\ Is("prep") /\ st = "planned" /\ E.case = plan.case
  /\ Check(E.ok, "reader-rejects-lists")
  /\ Check(E.ok => E.nread = E.npairs, "reader-drops-language-system")
  /\ st' = IF E.ok /\ E.nread = E.npairs THEN "planned" ELSE "idle"
  /\ UNCHANGED <<plan, elen>> /\ Consume

Encode ==
  /\ Is("encode") /\ st = "planned" /\ E.case = plan.case
  /\ IF E.outcome = "panic"
       THEN /\ Check(plan.mayRefuse, "needless-refusal")
            /\ st' = "idle" /\ elen' = 0
       ELSE /\ Check(E.outcome = "bytes", "infra")
            /\ st' = "encoded" /\ elen' = E.len
  /\ UNCHANGED plan /\ Consume

---------------------------------------------------------------------------
CovOK(c) ==        \* <<format, glyphs, maximal runs, size>>
  LET s1 == 4 + 2 * c[2]  s2 == 4 + 6 * c[3]
  IN /\ c[1] \in {1, 2}
     /\ c[4] = Min2(s1, s2)
     /\ c[1] = 1 => c[4] = s1
     /\ c[1] = 2 => c[4] = s2
CDefOK(c) ==       \* <<format, span of glyphs with a class, maximal segments, size>>
  LET s1 == 6 + 2 * c[2]  s2 == 4 + 6 * c[3]
  IN /\ c[1] \in {1, 2}
     /\ c[4] = Min2(s1, s2)
     /\ c[1] = 1 => c[4] = s1
     /\ c[1] = 2 => c[4] = s2

AllExt(k)  == \A j \in 1..Len(k.subs) : k.subs[j].ext
NoneExt(k) == \A j \in 1..Len(k.subs) : ~k.subs[j].ext

LookupOK(i) ==
  LET k == E.lookups[i]  p == plan.lookups[i]
  IN /\ Check(k.pos = E.hdr[3] + k.off, "lookup-offset")
     /\ Check(k.flags = p.flags /\ k.mfs = p.mfs /\ (p.mfs => k.mfsval = p.mfsval), "lookup-header")
     /\ Check(k.nsub = Len(p.subs) /\ Len(k.subs) = Len(p.subs), "subtable-count")
     /\ Check(AllExt(k) \/ NoneExt(k), "extension-mixed")
     /\ Check(NoneExt(k) => k.type = p.type, "lookup-type")
     /\ Check((~NoneExt(k)) => (k.type = plan.ext /\ \A j \in 1..Len(k.subs) : k.subs[j].ext => k.subs[j].etype = p.type),
              "extension-type")
     /\ (Len(k.subs) = Len(p.subs)) =>
          \A j \in 1..Len(k.subs) :
             LET s == k.subs[j]
             IN /\ Check(s.pos = k.pos + s.off, "subtable-offset")
                /\ Check(s.ext => s.tpos = s.pos + s.eoff[1] * 65536 + s.eoff[2], "extension-offset")
                /\ Check((~s.ext) => s.tpos = s.pos, "subtable-offset")
                /\ Check(p.subs[j] >= 0 => s.tend - s.tpos = p.subs[j], "subtable-size")

Walk ==
  /\ Is("walk") /\ st = "encoded" /\ E.case = plan.case
  /\ Check(E.len = elen, "infra")
  /\ Check(E.ok, "walk-error")
  /\ E.ok =>
       /\ Check(E.gaps = 0, "unclaimed-bytes")
       /\ Check(E.overlaps = 0, "overlapping-structures")
       /\ Check(E.covbad = 0, "coverage-order")
       /\ Check(E.cntbad = 0, "count-vs-coverage")
       /\ Check(\A n \in 1..Len(E.covs) : CovOK(E.covs[n]), "coverage-format")
       \* values with explicit class-0 entries have no canonical span: either format is accepted
       /\ Check(plan.zeros \/ \A n \in 1..Len(E.cdefs) : CDefOK(E.cdefs[n]), "classdef-format")
       /\ plan.kind \in {"plan", "shape", "lists"} =>
            /\ Check(plan.S >= 0 => E.sl[2] - E.sl[1] = plan.S, "script-list-size")
            /\ Check(plan.F >= 0 => E.fl[2] - E.fl[1] = plan.F, "feature-list-size")
            /\ Check(E.n = Len(plan.lookups) /\ Len(E.lookups) = Len(plan.lookups), "lookup-count")
            /\ (Len(E.lookups) = Len(plan.lookups)) => \A i \in 1..Len(E.lookups) : LookupOK(i)
       /\ plan.kind = "lists" =>
            /\ Check(E.scripts = plan.scripts, "script-records")
            /\ Check(E.features = plan.features, "feature-records")
  /\ st' = "walked" /\ UNCHANGED <<plan, elen>> /\ Consume

Decode ==
  /\ Is("decode") /\ st = "walked" /\ E.case = plan.case
  /\ Check(E.ok, "decode-error")
  /\ E.ok => Check(E.dec = E.orig, "roundtrip")
  /\ st' = "idle" /\ UNCHANGED <<plan, elen>> /\ Consume

Next == Plan \/ Prep \/ Encode \/ Walk \/ Decode
Spec == Init /\ [][Next]_vars

Accepted == IF TLCGet(1) = Len(Trace) THEN TRUE
            ELSE PrintT(<<"REJECTED_AT_LINE", TLCGet(1) + 1>>) /\ FALSE
=============================================================================
