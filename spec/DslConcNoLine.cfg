CONSTANTS
  MaxTok = 2
  MaxStr = 1
  MaxRunes = 2
  MaxPeek = 1
  RuneKinds = {"p"}
  DecMode = "buffered"
  LineMode = "asread"
SPECIFICATION Spec
INVARIANT TypeOK
INVARIANT ResultOK
CHECK_DEADLOCK TRUE
