---------------------------- MODULE NameCodecTrace ----------------------------
(***************************************************************************)
(* C14, V binding.  A recorded execution of the real code (harness/cmd/c14, *)
(* one ndjson event per API round) is accepted iff every event is explained *)
(* by the operators of NameCodecOps.  This module states the property and   *)
(* nothing else: encoder choices (record order, sharing, gaps, table        *)
(* version, post format 1 vs 2 for the standard list) are free.             *)
(*                                                                         *)
(* Events (all integers < 2^31, strings as sequences of code points, byte   *)
(* strings as sequences of bytes):                                          *)
(*  langtable  the BCP 47 tag the library attaches to each Macintosh /      *)
(*             Windows language id (found through name.Decode on tables     *)
(*             the harness wrote)                                           *)
(*  nreset / nencode / ndecode   one name.Info through Encode(1) (bytes     *)
(*             walked by the harness: header, records, storage) and Decode  *)
(*  nraw       one record written by the harness through Decode and back    *)
(*             through Encode                                               *)
(*  macbyte / macrune / macstr   mac.Decode, mac.DecodeOne, mac.Encode      *)
(*  codechist  a history of mac.Encode / mac.Decode / name.Info.Encode /      *)
(*             name.Decode calls with every result looked at when handed out *)
(*             and again after all later calls                               *)
(*  post       a glyph-name list (fresh, or the slice an earlier post.Read     *)
(*             returned, re-sliced, appended to: histories generated from    *)
(*             NameCodec.tla part "posth") through post.Info.Encode (walked),*)
(*             post.Read and golang.org/x/image GlyphName on a whole font   *)
(*  postread   post.Read of the table written last inside such a history      *)
(*  tagscript  a ScriptList written by the harness through gtab.Read and    *)
(*             gtab.Info.Encode (ScriptList walked)                         *)
(*  taglist    a ScriptList by structure / with shared and reordered tables    *)
(*             through gtab.Read, Encode (walked) and gtab.Read again          *)
(*  tagback    a BCP 47 tag without private-use part through Encode, several *)
(*             times in several processes                                   *)
(*                                                                         *)
(* Acceptance: high-water mark of consumed lines = Len(Trace) and no line   *)
(* was reported as BAD_LINE.                                                *)
(***************************************************************************)
EXTENDS Integers, Sequences, FiniteSets, TLC, Json, SequencesExt, NameCodecOps

Trace == ndJsonDeserialize("trace.ndjson")

VARIABLES l,      \* next line of the trace
          langs,  \* the last langtable event
          info    \* the name.Info of the current names case (sequence of [p, t, n, s])
vars == <<l, langs, info>>

E == Trace[l]
Init == /\ l = 1 /\ langs = [mac |-> <<>>, win |-> <<>>] /\ info = <<>>
        /\ TLCSet(1, 0) /\ TLCSet(2, 0) /\ TLCSet(3, 0)
Consume == l' = l + 1 /\ TLCSet(1, l)
Is(ev) == l <= Len(Trace) /\ E.ev = ev
\* TLC unfolds a bounded \A that is a conjunct of an action into one list item per element and
\* recurses over the list (stack overflow at a few 10^4 elements).  The checks of an event are
\* therefore state-level predicates XxxOK, evaluated as a value: Judge(XxxOK).
Holds(b) == b = TRUE
\* An event that is not explained is reported and skipped, so that one run names every bad
\* line: register 2 counts them, register 3 keeps the first.
Judge(ok) == IF Holds(ok) THEN TRUE
             ELSE /\ PrintT(<<"BAD_LINE", l>>)
                  /\ TLCSet(2, TLCGet(2) + 1)
                  /\ (IF TLCGet(3) = 0 THEN TLCSet(3, l) ELSE TRUE)

---------------------------------------------------------------------------
(* language ids.  A sample of the ids of the "name" chapter with the language *)
(* (and region) they stand for; the tag the library uses must be a tag of     *)
(* that language.  Ids the library does not support are not demanded.         *)

KnownMac == [id \in {0, 1, 2, 3, 4, 5, 6, 7, 8, 10, 11, 12, 13, 14, 15, 17, 21, 22, 23, 25, 26, 32, 37, 38, 130, 141} |->
  CASE id = 0 -> "en" [] id = 1 -> "fr" [] id = 2 -> "de" [] id = 3 -> "it" [] id = 4 -> "nl"
    [] id = 5 -> "sv" [] id = 6 -> "es" [] id = 7 -> "da" [] id = 8 -> "pt" [] id = 10 -> "he"
    [] id = 11 -> "ja" [] id = 12 -> "ar" [] id = 13 -> "fi" [] id = 14 -> "el" [] id = 15 -> "is"
    [] id = 17 -> "tr" [] id = 21 -> "hi" [] id = 22 -> "th" [] id = 23 -> "ko" [] id = 25 -> "pl"
    [] id = 26 -> "hu" [] id = 32 -> "ru" [] id = 37 -> "ro" [] id = 38 -> "cs" [] id = 130 -> "ca"
    [] id = 141 -> "af"]

KnownWin == [id \in {1033, 2057, 1031, 2055, 1036, 3084, 1040, 1034, 3082, 2058, 1041, 1042, 2052, 1028,
                     1049, 1046, 2070, 1043, 1053, 1030, 1035, 1045, 1029, 1038, 1032, 1055, 1037, 1025} |->
  CASE id = 1033 -> <<"en", "US">> [] id = 2057 -> <<"en", "GB">> [] id = 1031 -> <<"de", "DE">>
    [] id = 2055 -> <<"de", "CH">> [] id = 1036 -> <<"fr", "FR">> [] id = 3084 -> <<"fr", "CA">>
    [] id = 1040 -> <<"it", "IT">> [] id = 1034 -> <<"es", "ES">> [] id = 3082 -> <<"es", "ES">>
    [] id = 2058 -> <<"es", "MX">> [] id = 1041 -> <<"ja", "JP">> [] id = 1042 -> <<"ko", "KR">>
    [] id = 2052 -> <<"zh", "CN">> [] id = 1028 -> <<"zh", "TW">> [] id = 1049 -> <<"ru", "RU">>
    [] id = 1046 -> <<"pt", "BR">> [] id = 2070 -> <<"pt", "PT">> [] id = 1043 -> <<"nl", "NL">>
    [] id = 1053 -> <<"sv", "SE">> [] id = 1030 -> <<"da", "DK">> [] id = 1035 -> <<"fi", "FI">>
    [] id = 1045 -> <<"pl", "PL">> [] id = 1029 -> <<"cs", "CZ">> [] id = 1038 -> <<"hu", "HU">>
    [] id = 1032 -> <<"el", "GR">> [] id = 1055 -> <<"tr", "TR">> [] id = 1037 -> <<"he", "IL">>
    [] id = 1025 -> <<"ar", "SA">>]

Rows(p) == IF p = 1 THEN langs.mac ELSE langs.win
\* the tags of language id i on platform p (at most one, by LangTable)
TagsOf(p, i) == {r.tag : r \in {x \in Range(Rows(p)) : x.id = i}}

LangTableOK ==
  /\ \A rows \in {E.mac, E.win} :                        \* id -> tag is a function
       Cardinality({r.id : r \in Range(rows)}) = Cardinality({<<r.id, r.tag>> : r \in Range(rows)})
  /\ \A i \in 1..Len(E.mac) :
       E.mac[i].id \in DOMAIN KnownMac => E.mac[i].sub[1] = KnownMac[E.mac[i].id]
  /\ \A i \in 1..Len(E.win) :
       E.win[i].id \in DOMAIN KnownWin =>
         /\ E.win[i].sub[1] = KnownWin[E.win[i].id][1]
         /\ KnownWin[E.win[i].id][2] \in Range(E.win[i].sub)
  /\ Len(E.mac) > 0 /\ Len(E.win) > 0

LangTable ==
  /\ Is("langtable") /\ Judge(LangTableOK)
  /\ langs' = [mac |-> E.mac, win |-> E.win]
  /\ UNCHANGED info /\ Consume

---------------------------------------------------------------------------
(* name.Info through Encode and Decode *)

\* the strings that are there: the empty string means "not set" in name.Table
Present(seq) == {e \in Range(seq) : Len(e.s) > 0}

NReset == Is("nreset") /\ info' = E.info /\ UNCHANGED langs /\ Consume

Slice(st, off, len) == SubSeq(st, off + 1, off + len)

\* record r = <<platform, encoding, language, name id, length, offset>>
RecInside(r, st) == r[6] + r[5] <= Len(st)
\* r is a record for entry e
RecFor(r, e) == /\ r[1] = e.p /\ Understood(r[1], r[2]) /\ r[4] = e.n /\ e.t \in TagsOf(r[1], r[3])

\* Offsets and lengths are 16-bit fields.  pay = storage bytes a string needs.  Whatever order an
\* encoder stores the strings in (and without any sharing), the last one starts at total - (its own
\* size) <= total - (smallest size): if that fits the offset field, every encoder must succeed.
\* Beyond that the encoder may refuse (Encode has no error result: it panics) or write a faithful
\* table; it must not write an offset modulo 2^16.
FieldMax16 == 65535
Pay(e)  == IF e.p = 1 THEN Len(e.s) ELSE 2 * Units(e.s)
Pays    == SelectSeq([i \in 1..Len(info) |-> Pay(info[i])], LAMBDA x : x > 0)
MustFit == \/ Pays = <<>>
           \/ /\ \A i \in 1..Len(Pays) : Pays[i] <= FieldMax16
              /\ FoldLeft(LAMBDA a, x : a + x, 0, Pays) - FoldLeft(LAMBDA a, x : IF x < a THEN x ELSE a, Pays[1], Pays)
                   <= FieldMax16

NEncodeFaithful ==
  /\ E.walkok
  /\ E.version \in {0, 1}
  /\ E.count = Len(E.recs)
  /\ E.so >= E.hend /\ E.so <= E.total                 \* the storage area starts after the records
  /\ \A j \in 1..Len(E.recs) :
       LET r == E.recs[j] IN
       /\ RecInside(r, E.storage)                        \* offset + length inside the storage area
       /\ (Understood(r[1], r[2]) /\ TagsOf(r[1], r[3]) # {}) =>
            \* a record a reader understands stands for a string of the Info, and its bytes are
            \* the encoding of exactly that string
            \E e \in Present(info) :
               /\ RecFor(r, e)
               /\ DecodesTo(r[1], r[2], Slice(E.storage, r[6], r[5]), e.s)
  /\ \A e \in Present(info) :                            \* every representable string is written
       Representable(e.p, e.s) => \E j \in 1..Len(E.recs) : RecFor(E.recs[j], e)

NEncodeOK == IF E.panic THEN ~MustFit ELSE NEncodeFaithful

NEncode == Is("nencode") /\ Judge(NEncodeOK) /\ UNCHANGED <<langs, info>> /\ Consume

NDecodeOK ==
  \/ E.skipped                                            \* Encode refused the table (judged by nencode)
  \/ /\ ~E.failed
     /\ Range(E.dec) = {e \in Present(info) : Representable(e.p, e.s)}    \* decoded = original

NDecode == Is("ndecode") /\ Judge(NDecodeOK) /\ UNCHANGED <<langs, info>> /\ Consume

\* bytes the library did not write: decode, then encode again
NRawOK ==
  /\ ~E.panic
  /\ IF E.plat = 1
       THEN Len(E.bytes) > 0 =>
              /\ E.found /\ E.cps = MacDec(E.bytes)
              /\ E.backfound /\ E.back = E.bytes
       ELSE LET u == UnBE(E.bytes) IN
            (Len(E.bytes) > 0 /\ Len(E.bytes) % 2 = 0 /\ WellFormed16(u)) =>
              /\ E.found /\ E.cps = U16Dec(u)
              /\ E.backfound /\ E.back = E.bytes
            \* ill-formed UTF-16 and odd lengths are outside the codec's domain: any reply

NRaw == Is("nraw") /\ Judge(NRawOK) /\ UNCHANGED <<langs, info>> /\ Consume

---------------------------------------------------------------------------
(* Mac Roman *)

MacByteOK ==
  /\ ~E.panic
  /\ E.cps = <<MacDecByte(E.b)>> /\ E.one = MacDecByte(E.b)
  /\ E.back = <<E.b>>

MacByte == Is("macbyte") /\ Judge(MacByteOK) /\ UNCHANGED <<langs, info>> /\ Consume

MacRuneOK ==
  /\ ~E.panic
  /\ E.cp \in MacRepertoire => E.enc = <<MacEncCP(E.cp)>> /\ E.back = <<E.cp>>

MacRune == Is("macrune") /\ Judge(MacRuneOK) /\ UNCHANGED <<langs, info>> /\ Consume

MacStrOK ==
  /\ ~E.panic
  /\ E.cps = MacDec(E.bytes) /\ E.back = E.bytes

MacStr == Is("macstr") /\ Judge(MacStrOK) /\ UNCHANGED <<langs, info>> /\ Consume

\* a history of codec calls (NameCodec.tla, part "codech"): every result is what the codec says
\* when it is handed out ("first") and still the same after all later calls ("final")
CodecCallOK(c) ==
  /\ c.final = c.first /\ c.final2 = c.first2                 \* results handed out never change
  /\ CASE c.op = "ME" -> c.first = MacEnc(c.arg)
       [] c.op = "MD" -> c.first = MacDec(c.arg)
       [] c.op = "ND" -> c.first = MacDec(c.arg) /\ c.first2 = U16Dec(UnBE(c.arg2))
       [] OTHER -> TRUE                                        \* NE: the table itself is judged by nencode
CodecHistOK == ~E.failed /\ \A i \in 1..Len(E.calls) : CodecCallOK(E.calls[i])
CodecHistEv == Is("codechist") /\ Judge(CodecHistOK) /\ UNCHANGED <<langs, info>> /\ Consume

---------------------------------------------------------------------------
(* post *)

PostOK ==
  /\ ~E.panic /\ E.walkok
  /\ LET names == IF E.nil THEN <<>> ELSE E.names IN
     /\ E.ver \in {<<1, 0>>, <<2, 0>>, <<3, 0>>}
     /\ E.ver = <<1, 0>> => names = StdGlyphNames           \* format 1 means exactly the standard list
     /\ E.ver = <<3, 0>> => names = <<>>                     \* format 3 carries no names
     /\ E.ver = <<2, 0>> =>
          /\ E.ng = Len(names) /\ Len(E.index) = E.ng
          /\ PostIndexOK(StdGlyphNames, E.index, E.strings)
          /\ PostNames(StdGlyphNames, E.index, E.strings) = names
          \* (bytes after the last string that is referred to are not constrained by the property)
     /\ ~E.readfail /\ E.dec = names                          \* read back unchanged
     /\ E.xiused => ~E.xifail /\ E.xi = names                 \* an independent reader sees the same names

Post == Is("post") /\ Judge(PostOK) /\ UNCHANGED <<langs, info>> /\ Consume

\* post.Read of a table written earlier in a history (NameCodec.tla, part "posth"): what Read
\* returns is what that Encode was given, whatever happened to earlier results of Read since
PostReadOK == ~E.readfail /\ E.dec = (IF E.nil THEN <<>> ELSE E.names)
PostReadEv == Is("postread") /\ Judge(PostReadOK) /\ UNCHANGED <<langs, info>> /\ Consume

---------------------------------------------------------------------------
(* script / language tags *)

TagScriptOK ==
  /\ ~E.panic /\ ~E.readfail /\ ~E.walkfail
  \* the same (script, language) pairs, each with its own required feature and feature set
  /\ {[script |-> x.script, lang |-> x.lang, req |-> x.req, feat |-> Range(x.feat)] : x \in Range(E.out)}
       = {[script |-> E.script, lang |-> x.lang, req |-> x.req, feat |-> Range(x.feat)] : x \in Range(E.in)}
  /\ Len(E.out) = Len(E.in)

TagScript == Is("tagscript") /\ Judge(TagScriptOK) /\ UNCHANGED <<langs, info>> /\ Consume

\* A ScriptList written by the harness with one or two scripts, swept by structure (default language
\* system absent / empty / with features, 0..2 named ones) and using the freedoms of the format (Script
\* table shared by two script tags, LangSys tables shared, tables not in record order).  map1 / map2 are
\* the tag -> features maps of gtab.Read before and after Encode, out the walked ScriptList of Encode.
LSys(x)  == [script |-> x.script, lang |-> x.lang, req |-> x.req, feat |-> Range(x.feat)]
Feats(x) == [req |-> x.req, feat |-> Range(x.feat)]
TagListOK ==
  /\ ~E.panic /\ ~E.readfail /\ ~E.walkfail /\ ~E.read2fail
  /\ Len(E.map1) = Len(E.in)                                   \* Read delivers a tag for every language system
  /\ {Feats(x) : x \in Range(E.map1)} = {Feats(x) : x \in Range(E.in)}
  /\ {LSys(x) : x \in Range(E.out)} = {LSys(x) : x \in Range(E.in)}    \* every (script, language) written again,
  /\ Len(E.out) = Len(E.in)                                    \* an empty default language system included
  /\ E.map2 = E.map1                                           \* Encode -> Read returns the same map
TagList == Is("taglist") /\ Judge(TagListOK) /\ UNCHANGED <<langs, info>> /\ Consume

\* "back" must be a function of the tag: the same answer in every run and process
TagBackOK ==
  /\ \A i, j \in 1..Len(E.runs) : E.runs[i] = E.runs[j]
  /\ \A i \in 1..Len(E.runs) : E.runs[i].st # "panic"

TagBack == Is("tagback") /\ Judge(TagBackOK) /\ UNCHANGED <<langs, info>> /\ Consume

Next == LangTable \/ NReset \/ NEncode \/ NDecode \/ NRaw \/ MacByte \/ MacRune \/ MacStr \/ Post \/ PostReadEv
        \/ CodecHistEv
        \/ TagScript \/ TagList \/ TagBack
Spec == Init /\ [][Next]_vars

Accepted == IF TLCGet(1) = Len(Trace) /\ TLCGet(2) = 0 THEN TRUE
            ELSE PrintT(<<"REJECTED_AT_LINE", IF TLCGet(3) > 0 THEN TLCGet(3) ELSE TLCGet(1) + 1>>) /\ FALSE
=============================================================================
