------------------------------ MODULE Decoder ------------------------------
(***************************************************************************)
(* C02: the contract of the decoders and the fault plan, shared by         *)
(* DecoderPlan.tla (TLC generates the plan) and DecoderTrace.tla (TLC      *)
(* judges the recorded outcomes).                                          *)
(*                                                                         *)
(* Contract (properties.jsonl C02): for every byte string b and every      *)
(* decoder D, D(b) returns a value or an error -- it never panics and      *)
(* never fails to terminate -- and allocates at most 64*len(b) + Budget    *)
(* bytes; whatever a successful decode returns can be handed to the lazy   *)
(* decoders and accessors without a panic.                                 *)
(*                                                                         *)
(* Seeds is the list of seed inputs (whole fonts of both outline kinds and *)
(* stand-alone tables), each with its decoder, its length, the length      *)
(* mlen of the mutated prefix (= len except for seeds the quick tier       *)
(* restricts) and, for whole fonts, the number of tables.                  *)
(***************************************************************************)
EXTENDS Integers, Sequences, FiniteSets

CONSTANT Seeds      \* sequence of [id, dec, len, mlen, ntab, ngid, ndict, ncnt, ncpair]

Decoders == {"sfnt", "header", "cff", "cmap", "glyf", "GSUB", "GPOS", "GDEF", "coverage", "coverset",
             "classdef", "name", "head", "hmtx", "maxp", "os2", "post", "kern"}

\* ------------------------------------------------------------------ the fault plan
Kinds == <<"orig", "trunc", "word", "flip", "ff", "inc", "dec", "pair", "dict", "count", "drop">>
KindSet == {Kinds[i] : i \in DOMAIN Kinds}
NumValues == 10
NumGidValues == 6
NumTriggers == 9
NumDictValues == 6
NumCountValues == 2
\* the replacement values of kind "dict" as signed 32-bit integers (hi word, lo word omitted: TLC integers
\* are 32-bit, so the values are written as differences from 2^31 - 1 = 2147483647)
DictValue(v, partner) ==
  CASE v = 0 -> 2147483647 [] v = 1 -> 2147483647 - 15 [] v = 2 -> -2147483647 - 1 [] v = 3 -> -1
    [] v = 4 -> 2147483647 - partner                  \* operand + partner = 2^31 - 1: the largest sum without wrap
    [] v = 5 -> IF partner > 0 THEN (2147483647 - partner) + 1 ELSE -2147483647 - 1
                                                      \* operand + partner = 2^31: wraps to -2^31 in int32
\* the replacement values of kind "word": 0, 1, 2, 0x7FFF, 0x8000, 0xFFFE, 0xFFFF, len-1, len, len+1
WordValue(v, len) ==
  CASE v = 1 -> 0 [] v = 2 -> 1 [] v = 3 -> 2 [] v = 4 -> 32767 [] v = 5 -> 32768 [] v = 6 -> 65534
    [] v = 7 -> 65535 [] v = 8 -> (len - 1) % 65536 [] v = 9 -> len % 65536 [] v = 10 -> (len + 1) % 65536

\* number of mutants of one kind (and, for "word", of one value class) of seed s:
\*   orig   the seed itself
\*   trunc  every truncation length 0 .. mlen-1
\*   word   every aligned 16-bit word that lies below mlen, replaced by WordValue(v, len)
\*   flip   every byte below mlen with its top bit flipped;  ff: set to 0xFF
\*   inc    every byte below mlen replaced by b+1 (mod 256);  dec: by b-1 -- the "value = count"
\*          and "one less" boundary of byte-sized fields (FD indices, offSize, nLeft, formats)
\*   pair   whole fonts, cross-table consistency: each of the ngid glyph-id-valued words the harness's
\*          walker found (cmap deltas / glyph arrays / groups, maxp and hhea and post counts, kern pairs,
\*          composite components, GSUB/GPOS coverage glyphs) set to numGlyphs, numGlyphs+1, 0xFFFF,
\*          0, 1, numGlyphs-1 (NumGidValues), combined with each trigger that switches the reader's fall-backs on
\*          (NumTriggers: none; OS/2 xHeight and capHeight zeroed; one of the tables OS/2, maxp, hhea, hmtx,
\*          post, head, name removed -- the reader has a fall-back for each, which makes a count in one of the
\*          remaining tables the only witness of the glyph count)
\*   dict   CFF seeds, 32-bit arithmetic of DICT operands: each of the ndict offset- or size-bearing operands
\*          stored as a 5-byte int32 (charset, Encoding, CharStrings, Private size and offset, Subrs, FDArray,
\*          FDSelect, in the Top DICT, every Font DICT and every Private DICT) replaced by each of NumDictValues
\*          values: 0x7FFFFFFF, 0x7FFFFFF0, -2^31, -1, and the two values that make operand + partner
\*          (size + offset, Subrs + offset of its Private DICT) equal to 2^31-1 and to 2^31
\*   count  allocation before validation: the harness's structure walker lists the ncnt 16-bit COUNT fields of the
\*          seed (script/feature/lookup lists, every GSUB/GPOS subtable format with its nested tables, coverage,
\*          classdef, cmap, kern, name, post, hmtx, maxp, glyph headers, CFF INDEX counts) and the ncpair pairs of
\*          counts that belong to the same structure; every count alone, and every such pair together, is set to
\*          0x7FFF and to 0xFFFF (NumCountValues) while the table keeps its length
\*   drop   whole fonts: every table removed from the directory in turn
Planned(s, kind) ==
  CASE kind = "orig" -> 1
    [] kind \in {"trunc", "flip", "ff", "inc", "dec"} -> s.mlen
    [] kind = "word" -> s.mlen \div 2
    [] kind = "pair" -> s.ngid * NumGidValues * NumTriggers
    [] kind = "dict" -> s.ndict * NumDictValues
    [] kind = "count" -> (s.ncnt + s.ncpair) * NumCountValues
    [] kind = "drop" -> s.ntab

Cell(s, kind, v) == [seed |-> s.id, kind |-> kind, v |-> v, n |-> Planned(s, kind)]
CellsOf(s) ==
  LET all == <<Cell(s, "orig", 0), Cell(s, "trunc", 0)>>
             \o [v \in 1..NumValues |-> Cell(s, "word", v)]
             \o <<Cell(s, "flip", 0), Cell(s, "ff", 0), Cell(s, "inc", 0), Cell(s, "dec", 0), Cell(s, "pair", 0),
                 Cell(s, "dict", 0), Cell(s, "count", 0), Cell(s, "drop", 0)>>
  IN SelectSeq(all, LAMBDA c : c.n > 0)

RECURSIVE PlanFrom(_)
PlanFrom(i) == IF i > Len(Seeds) THEN <<>> ELSE CellsOf(Seeds[i]) \o PlanFrom(i + 1)
Plan == PlanFrom(1)          \* at most a few hundred seeds: the recursion is shallow

SeedsOK ==
  /\ \A i \in DOMAIN Seeds :
       /\ Seeds[i].id = i /\ Seeds[i].dec \in Decoders
       /\ Seeds[i].len > 0 /\ Seeds[i].mlen > 0 /\ Seeds[i].mlen <= Seeds[i].len /\ Seeds[i].ntab >= 0 /\ Seeds[i].ngid >= 0
       /\ (Seeds[i].dec # "sfnt" => Seeds[i].ntab = 0 /\ Seeds[i].ngid = 0)
       /\ Seeds[i].ndict >= 0 /\ (Seeds[i].dec # "cff" => Seeds[i].ndict = 0)
       /\ Seeds[i].ncnt >= 0 /\ Seeds[i].ncpair >= 0
       /\ 2 * Seeds[i].ncpair <= Seeds[i].ncnt * (Seeds[i].ncnt - 1)      \* pairs of distinct counts
  /\ \A d \in Decoders : \E i \in DOMAIN Seeds : Seeds[i].dec = d       \* every decoder of the property has a seed

\* ------------------------------------------------------------------ the contract
BudgetKiB == 16384         \* the "fixed constant" of the allocation bound: 16 MiB
\* alloc <= 64*len + Budget, with alloc given in KiB:  16*kib <= len + 16*BudgetKiB
AllocOK(kib, len) == kib >= 0 /\ kib * 16 <= len + BudgetKiB * 16
DecodeOK(outcome) == outcome \in {"value", "error"}
AccessOK(outcome) == outcome # "panic"
=============================================================================
