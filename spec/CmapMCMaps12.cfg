CONSTANTS
  MaxCode = 3
  N12 = 7
  G12 = 2
  NegAll = FALSE
  GA = 0
INIT InitMaps12
NEXT NextMaps12
INVARIANT Fmt12OK
CHECK_DEADLOCK FALSE
