CONSTANTS
  Source = "tables"
  Scale = "full"
  Reader = "repaired"
INIT Init
NEXT Next
INVARIANT EmitTables
CHECK_DEADLOCK FALSE
