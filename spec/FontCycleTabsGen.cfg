CONSTANTS
  Source = "tables"
  Scale = "full"
  Reader = "asis"
INIT Init
NEXT Next
INVARIANT EmitTables
CHECK_DEADLOCK FALSE
