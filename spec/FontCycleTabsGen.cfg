CONSTANTS
  Source = "tables"
  Scale = "full"
INIT Init
NEXT Next
INVARIANT EmitTables
CHECK_DEADLOCK FALSE
