CONSTANTS
  Parts = {"names", "units", "post", "equal", "scripts"}
  MaxE = 1
  MaxUnits = 3
  MaxGlyphs = 3
INIT Init
NEXT Next
INVARIANT Emit
CHECK_DEADLOCK FALSE
