CONSTANTS
  Mode = "cdef"
  MaxSegs = 3
  Gaps = {0, 1, 2, 50}
  Runs = {1, 2, 3}
  Starts = {0, 7}
  Classes = {1, 2}
INIT Init
NEXT Next
INVARIANT SizesOK
INVARIANT Emit
CHECK_DEADLOCK FALSE
