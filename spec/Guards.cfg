CONSTANTS
  W = 4
  Sample = 199
INIT Init
NEXT Next
INVARIANT NoHole
INVARIANT Emit
CHECK_DEADLOCK FALSE
