---------------------------- MODULE FontCycleOps ----------------------------
(***************************************************************************)
(* C01.  Constant-level part of the whole-font cycle model (no variables): *)
(* names as word sequences, the generated sub-family name, the precision   *)
(* maps of the file format, the abstract writer WriteSpec, the abstract    *)
(* reader ReadSpec, the normal form NF and the representable domain InDom. *)
(* Used by FontCycle.tla (model checking), FontCycleGen.tla (configuration *)
(* cover) and FontCycleTrace.tla (validation of recorded executions).      *)
(***************************************************************************)
EXTENDS Integers, Sequences, FiniteSets, TLC, Json

---------------------------------------------------------------------------
(* Names are sequences of words; the library tests sub-strings, which for  *)
(* the vocabulary used here coincides with contiguous word sub-sequences.  *)

Contains(s, t) == \E i \in 0..(Len(s) - Len(t)) : SubSeq(s, i + 1, i + Len(t)) = t

FamWords(k) == CASE k = "plain"    -> <<"Verif", "Sans">>
                 [] k = "bold"     -> <<"Verif", "Bold">>
                 [] k = "italic"   -> <<"Verif", "Italic">>
                 [] k = "semibold" -> <<"Verif", "Semi", "Bold">>
                 [] k = "none"     -> <<>>

\* usWeightClass -> name of the nearest named class (OpenType OS/2 usWeightClass table)
Rounded(w) == IF w <= 100 THEN 100 ELSE IF w >= 900 THEN 900 ELSE ((w + 50) \div 100) * 100
ClassWords(c) == CASE c = 100 -> <<"Thin">>          [] c = 200 -> <<"Extra", "Light">>
                   [] c = 300 -> <<"Light">>         [] c = 400 -> <<"Normal">>
                   [] c = 500 -> <<"Medium">>        [] c = 600 -> <<"Semi", "Bold">>
                   [] c = 700 -> <<"Bold">>          [] c = 800 -> <<"Extra", "Bold">>
                   [] c = 900 -> <<"Black">>
\* the exact name of a weight (CFF FontInfo.Weight), numeric if it is not a named class
NamedWeights == {100, 200, 300, 400, 500, 600, 700, 800, 900}
ModelWeights == 0..1000
WeightName(w) == IF w \in NamedWeights THEN ClassWords(w) ELSE <<ToString(w)>>
\* The reverse map is consulted only when the OS/2 weight is 0 or absent; numeric names are searched among the
\* numeric weights the models put into a CFF FontInfo.
NameableWeights == NamedWeights \cup {0, 1, 250, 650, 1000}
WeightFromName(n) == IF n = <<"Regular">> THEN 400
                     ELSE IF \E w \in NameableWeights : WeightName(w) = n
                            THEN CHOOSE w \in NameableWeights : WeightName(w) = n
                            ELSE 0
\* usWidthClass names (OpenType OS/2 usWidthClass table)
WidthWords(w) == CASE w = 1 -> <<"Ultra", "Condensed">> [] w = 2 -> <<"Extra", "Condensed">>
                   [] w = 3 -> <<"Condensed">>          [] w = 4 -> <<"Semi", "Condensed">>
                   [] w = 5 -> <<"Normal">>             [] w = 6 -> <<"Semi", "Expanded">>
                   [] w = 7 -> <<"Expanded">>           [] w = 8 -> <<"Extra", "Expanded">>
                   [] w = 9 -> <<"Ultra", "Expanded">>  [] OTHER -> <<"Width?">>

\* the generated sub-family name (font.go Subfamily)
Subfamily(F) ==
  LET w1  == IF F.width # 0 /\ F.width # 5 THEN WidthWords(F.width) ELSE <<>>
      tag == ClassWords(Rounded(F.weight))
      w2  == IF F.weight # 0 /\ F.weight # 400
               THEN IF Contains(FamWords(F.fam), tag) \/ Contains(w1, tag) THEN <<>> ELSE tag
               ELSE IF F.bold THEN <<"Bold">> ELSE <<>>
      w3  == IF F.obl THEN <<"Oblique">> ELSE IF F.ital THEN <<"Italic">> ELSE <<>>
      all == w1 \o w2 \o w3
  IN IF all = <<>> THEN <<"Regular">> ELSE all

---------------------------------------------------------------------------
(* Precision of the file format *)

\* 16.16 version -> thousandths, round half to even (what "%.3f" prints)
Thousandths(v) == LET p == v * 1000  q == p \div 65536  r == p % 65536
                  IN IF r > 32768 \/ (r = 32768 /\ q % 2 = 1) THEN q + 1 ELSE q
\* thousandths -> 16.16, round half up (no ties occur)
FromThousandths(k) == (k * 65536 + 500) \div 1000
PrecVer(v) == FromThousandths(Thousandths(v))

\* round to a multiple of m, half away from zero
RoundTo(x, m) == IF x >= 0 THEN ((x + m \div 2) \div m) * m ELSE -(((-x + m \div 2) \div m) * m)
PrecAngle(a) == RoundTo(a, 16)          \* 2^-20 degree -> 16.16
PrecUl(u)    == RoundTo(u, 4)           \* quarter units -> units
PrecTime(t)  == IF t = "t+ns" THEN "t" ELSE t

NoT == [absent |-> TRUE]                \* a table that is not in the file
Has(t) == t # NoT

---------------------------------------------------------------------------
(* The writer *)

SelOf(F) == (IF F.reg THEN {"REGULAR"}
             ELSE (IF F.angle # 0 THEN {"ITALIC"} ELSE {}) \cup (IF F.bold THEN {"BOLD"} ELSE {}))
            \cup (IF F.obl THEN {"OBLIQUE"} ELSE {})

WriteSpec(F) ==
  [ head |-> [rev |-> F.ver, created |-> PrecTime(F.created), modified |-> PrecTime(F.modified),
              bold |-> F.bold, ital |-> F.angle # 0],
    os2  |-> [v4 |-> TRUE, weight |-> F.weight, width |-> F.width, sel |-> SelOf(F),
              famclass |-> IF F.serif THEN 3 ELSE IF F.script THEN 10 ELSE 0],
    name |-> [fam |-> F.fam, sub |-> Subfamily(F), ver |-> Thousandths(F.ver), verok |-> TRUE],
    post |-> [angle |-> PrecAngle(F.angle), ul |-> PrecUl(F.ul)],
    cff  |-> IF F.kind = "cff"
               THEN [fam |-> F.fam, weight |-> WeightName(F.weight), ver |-> Thousandths(F.ver),
                     angle |-> F.angle, ul |-> F.ul]
               ELSE NoT,
    kind |-> F.kind ]

---------------------------------------------------------------------------
(* The reader *)

ReadSpec(T) ==
  LET os     == T.os2
      osBold == Has(os) /\ "BOLD" \in os.sel /\ "REGULAR" \notin os.sel
      osItal == Has(os) /\ "ITALIC" \in os.sel /\ "REGULAR" \notin os.sel
      osReg  == Has(os) /\ "REGULAR" \in os.sel
      osObl  == Has(os) /\ os.v4 /\ "OBLIQUE" \in os.sel
      sub    == IF Has(T.name) THEN T.name.sub ELSE <<>>
      fam    == IF Has(T.name) /\ T.name.fam # "none" THEN T.name.fam
                ELSE IF Has(T.cff) THEN T.cff.fam ELSE "none"
      w0     == IF Has(os) THEN os.weight ELSE 0
      weight == IF w0 = 0 /\ Has(T.cff) THEN WeightFromName(T.cff.weight) ELSE w0
      ver    == IF Has(T.name) /\ T.name.verok THEN FromThousandths(T.name.ver)
                ELSE IF Has(T.head) THEN PrecVer(T.head.rev)
                ELSE IF Has(T.cff) THEN FromThousandths(T.cff.ver) ELSE 0
      angle  == PrecAngle(IF Has(T.post) THEN T.post.angle ELSE IF Has(T.cff) THEN T.cff.angle ELSE 0)
      ital   == \/ angle # 0
                \/ (Has(T.head) /\ T.head.ital)
                \/ osItal \/ osObl
                \/ Contains(sub, <<"Italic">>)
      bold   == \/ (IF Has(os) THEN osBold ELSE Has(T.head) /\ T.head.bold)
                \/ (Contains(sub, <<"Bold">>) /\ ~Contains(sub, <<"Semi", "Bold">>)
                                              /\ ~Contains(sub, <<"Extra", "Bold">>))
  IN [ fam |-> fam,
       width |-> IF Has(os) THEN os.width ELSE 0,
       weight |-> weight,
       reg |-> ~(ital \/ bold) /\ osReg,
       bold |-> bold, ital |-> ital, obl |-> osObl,
       serif |-> Has(os) /\ os.famclass \in {1, 2, 3, 4, 5, 7},
       script |-> Has(os) /\ os.famclass = 10,
       angle |-> angle,
       ver |-> ver,
       created |-> IF Has(T.head) THEN T.head.created ELSE "zero",
       modified |-> IF Has(T.head) THEN T.head.modified ELSE "zero",
       ul |-> IF Has(T.post) THEN T.post.ul ELSE IF Has(T.cff) THEN T.cff.ul ELSE 0,
       kind |-> T.kind ]

NF(F) == ReadSpec(WriteSpec(F))

\* The reader with the repair proposed in proposed-fixes/C01-2.diff: the flag derived from the
\* sub-family name is also derived from the sub-family name the writer WOULD generate.
BoldName(sub) == Contains(sub, <<"Bold">>) /\ ~Contains(sub, <<"Semi", "Bold">>) /\ ~Contains(sub, <<"Extra", "Bold">>)
ReadSpecRepaired(T) ==
  LET a == ReadSpec(T)
      b == a.bold \/ BoldName(Subfamily(a))
  IN [a EXCEPT !.bold = b, !.reg = a.reg /\ ~b]

Prec(F) == [F EXCEPT !.angle = PrecAngle(@), !.ver = PrecVer(@), !.ul = PrecUl(@),
                     !.created = PrecTime(@), !.modified = PrecTime(@)]

Flags(F) == <<F.reg, F.bold, F.ital, F.obl, F.serif, F.script>>
HasTime(F) == F.created # "zero" \/ F.modified # "zero"
InDom(F) == Flags(NF(F)) = Flags(F) /\ HasTime(F)

=============================================================================
