------------------------- MODULE LookupLayoutShapes -------------------------
(***************************************************************************)
(* C08, generator of replay cases (binding R).  TLC enumerates             *)
(*  - Mode "shape": subtable shapes for every lookup type / format the     *)
(*    library can encode: k kind, n primary count (covered glyphs, rule    *)
(*    sets, records), m secondary count (sequence length, rules per set,   *)
(*    second glyphs, backtrack tables), c coverage layout (0 spread,       *)
(*    1 one run, 2 pairs, 3 both ends of the 16-bit glyph range), v value  *)
(*    variant (nil / zero-value / partial / full value records, anchors    *)
(*    present or absent, NULL rule sets, class counts), f lookup flag      *)
(*    variant (0 none, 1 mark filtering set, 2 all flag bits);             *)
(*  - Mode "huge": subtables whose inline arrays push an Offset16 beyond   *)
(*    0xFFFF in the natural layout;                                        *)
(*  - Mode "gdef": GDEF tables (glyph classes, mark attachment classes,    *)
(*    mark glyph sets present / absent / empty / huge);                    *)
(*  - Mode "lists": script and feature lists.                              *)
(* mayRefuse says whether the property lets the encoder refuse the value   *)
(* (only when an Offset16 overflows in the natural layout); a value that   *)
(* is encoded must be well-formed and decode to itself in every case.      *)
(***************************************************************************)
EXTENDS Integers, Sequences, TLC, Json

CONSTANTS Mode, Kinds, Ns, Ms, Cs, Vs, Fs

VARIABLE rec

Max16 == 65535

ShapeRecs == [what : {"shape"}, k : Kinds, n : Ns, m : Ms, c : Cs, v : Vs, f : Fs, mayRefuse : {FALSE}]

\* natural layouts: GSUB 1.2 = 6 + 2*count, then coverage; GSUB 2.1 / 3.1 = 6 + 2*count + sequences,
\* then coverage; GPOS 1.2 = 8 + 2*count (one value word), then coverage
HugeOffset(r) ==
  CASE r.k = "huge1_2"  -> 6 + 2 * (33000 + 100 * r.n)
    [] r.k = "hugep1_2" -> 8 + 2 * (33000 + 100 * r.n)
    [] OTHER            -> 6 + 4 + (2 + 2 * (20000 + r.n)) + (2 + 2 * (20000 + r.m))
HugeRecs == { [r EXCEPT !.mayRefuse = HugeOffset(r) > Max16] :
              r \in [what : {"shape"}, k : {"huge1_2", "huge2_1", "huge3_1", "hugep1_2"}, n : {0, 3}, m : {1},
                     c : {0}, v : {0}, f : {0}, mayRefuse : {FALSE}] }

---------------------------------------------------------------------------
(* Mode "off": every Offset16 field of every subtable format, taken from the *)
(* OpenType layouts (GSUB: lookup types 1-6, 8; GPOS: lookup types 1-4, 6-8; *)
(* sequence context = GSUB 5 / GPOS 7, chained sequence context = GSUB 6 /   *)
(* GPOS 8).  F(name, comp, arr): the field `name` holds the offset of a      *)
(* component `comp`; arr = TRUE for arrays of offsets to sibling components. *)
(* comps: the variable-size components of the format (inline arrays are      *)
(* components too: they necessarily precede everything an offset refers to). *)
(* A case (format, big) makes the component `big` at least 64 KiB, everything*)
(* else small.  Wherever an encoder places `big` before another component,   *)
(* the offset of that component (and of later siblings of `big`) cannot be   *)
(* written in 16 bits: the targets of the case.  The value may be refused or *)
(* encoded correctly by another arrangement; it must not be written corrupt. *)
F(name, comp, arr) == [name |-> name, comp |-> comp, arr |-> arr, rel |-> ""]
\* R(name, comp): offsets counted from the start of a sub-structure (rule set, ligature set, mark
\* array, base array); only a big sibling inside that structure (the component `comp`) pushes them
R(name, comp) == [name |-> name, comp |-> comp, arr |-> TRUE, rel |-> comp]
Cov == F("coverageOffset", "coverage", FALSE)
SeqCtx1(id) == [id |-> id,
  fields |-> {Cov, F("seqRuleSetOffsets[]", "ruleSets", TRUE), R("seqRuleOffsets[]", "rules")},
  comps |-> {"coverage", "ruleSets", "rules"}]
SeqCtx2(id) == [id |-> id,
  fields |-> {Cov, F("classDefOffset", "classDef", FALSE),
              F("classSeqRuleSetOffsets[]", "ruleSets", TRUE), R("classSeqRuleOffsets[]", "rules")},
  \* ",nullSets": the same with every rule set offset NULL (the format allows it)
  comps |-> {"coverage", "classDef", "ruleSets", "rules", "coverage,nullSets", "classDef,nullSets"}]
SeqCtx3(id) == [id |-> id,
  fields |-> {F("coverageOffsets[]", "coverages", TRUE)},
  comps |-> {"coverages", "seqLookupRecords"}]
Chain1(id) == [id |-> id,
  fields |-> {Cov, F("chainedSeqRuleSetOffsets[]", "ruleSets", TRUE), R("chainedSeqRuleOffsets[]", "rules")},
  comps |-> {"coverage", "ruleSets", "rules"}]
Chain2(id) == [id |-> id,
  fields |-> {Cov, F("backtrackClassDefOffset", "backtrackClassDef", FALSE),
              F("inputClassDefOffset", "inputClassDef", FALSE), F("lookaheadClassDefOffset", "lookaheadClassDef", FALSE),
              F("chainedClassSeqRuleSetOffsets[]", "ruleSets", TRUE), R("chainedClassSeqRuleOffsets[]", "rules")},
  comps |-> {"coverage", "backtrackClassDef", "inputClassDef", "lookaheadClassDef", "ruleSets", "rules",
             "coverage,nullSets", "backtrackClassDef,nullSets", "inputClassDef,nullSets", "lookaheadClassDef,nullSets"}]
Chain3(id) == [id |-> id,
  fields |-> {F("backtrackCoverageOffsets[]", "backtrackCoverages", TRUE), F("inputCoverageOffsets[]", "inputCoverages", TRUE),
              F("lookaheadCoverageOffsets[]", "lookaheadCoverages", TRUE)},
  comps |-> {"backtrackCoverages", "inputCoverages", "lookaheadCoverages", "seqLookupRecords"}]
MarkAttach(id) == [id |-> id,
  fields |-> {F("markCoverageOffset", "markCoverage", FALSE), F("baseCoverageOffset", "baseCoverage", FALSE),
              F("markArrayOffset", "markArray", FALSE), F("baseArrayOffset", "baseArray", FALSE),
              R("markAnchorOffsets[]", "markArray"), R("baseAnchorOffsets[]", "baseArray")},
  comps |-> {"markCoverage", "baseCoverage", "markArray", "baseArray"}]

Formats == {
  [id |-> "gsub1_1", fields |-> {Cov}, comps |-> {}],
  [id |-> "gsub1_2", fields |-> {Cov}, comps |-> {"coverage", "substituteArray"}],
  [id |-> "gsub2_1", fields |-> {Cov, F("sequenceOffsets[]", "sequences", TRUE)}, comps |-> {"coverage", "sequences"}],
  [id |-> "gsub3_1", fields |-> {Cov, F("alternateSetOffsets[]", "sequences", TRUE)}, comps |-> {"coverage", "sequences"}],
  [id |-> "gsub4_1", fields |-> {Cov, F("ligatureSetOffsets[]", "ligatureSets", TRUE), R("ligatureOffsets[]", "ligatures")},
                     comps |-> {"coverage", "ligatureSets", "ligatures"}],
  SeqCtx1("gsub5_1"), SeqCtx2("gsub5_2"), SeqCtx3("gsub5_3"),
  Chain1("gsub6_1"), Chain2("gsub6_2"), Chain3("gsub6_3"),
  [id |-> "gsub8_1", fields |-> {Cov, F("backtrackCoverageOffsets[]", "backtrackCoverages", TRUE),
                                 F("lookaheadCoverageOffsets[]", "lookaheadCoverages", TRUE)},
                     comps |-> {"coverage", "backtrackCoverages", "lookaheadCoverages"}],
  [id |-> "gpos1_1", fields |-> {Cov}, comps |-> {}],
  [id |-> "gpos1_2", fields |-> {Cov}, comps |-> {"coverage", "valueArray"}],
  [id |-> "gpos2_1", fields |-> {Cov, F("pairSetOffsets[]", "pairSets", TRUE)}, comps |-> {"coverage", "pairSets"}],
  [id |-> "gpos2_2", fields |-> {Cov, F("classDef1Offset", "classDef1", FALSE), F("classDef2Offset", "classDef2", FALSE)},
                     comps |-> {"coverage", "classDef1", "classDef2", "classMatrix"}],
  [id |-> "gpos3_1", fields |-> {Cov, F("entryExitAnchorOffsets[]", "anchors", TRUE)}, comps |-> {"coverage", "anchors"}],
  MarkAttach("gpos4_1"), MarkAttach("gpos6_1"),
  SeqCtx1("gpos7_1"), SeqCtx2("gpos7_2"), SeqCtx3("gpos7_3"),
  Chain1("gpos8_1"), Chain2("gpos8_2"), Chain3("gpos8_3") }

\* fields whose 16-bit value is pushed beyond 0xFFFF when `big` precedes the component they refer to
Null == ",nullSets"
IsNull(big) == Len(big) > Len(Null) /\ SubSeq(big, Len(big) - Len(Null) + 1, Len(big)) = Null
Base(big) == IF IsNull(big) THEN SubSeq(big, 1, Len(big) - Len(Null)) ELSE big
Targets(fmt, big) == {f.name : f \in {g \in fmt.fields :
                        IF IsNull(big) THEN g.rel = "" /\ ~g.arr /\ g.comp # Base(big)
                        ELSE IF g.rel = "" THEN g.comp # big \/ g.arr ELSE g.rel = big}}
OffCases == UNION { { [what |-> "shape", k |-> "off", t |-> fmt.id, big |-> b, fields |-> Targets(fmt, b),
                       n |-> 0, m |-> 0, c |-> 0, v |-> 0, f |-> 0, mayRefuse |-> TRUE] : b \in fmt.comps } : fmt \in Formats }
\* the complete list of (format, field) pairs, for the evidence; a format without a variable-size
\* component (GSUB 1.1, GPOS 1.1) has an offset that cannot overflow
FieldRecs == UNION { { [what |-> "field", t |-> fmt.id, field |-> g.name, pushable |-> fmt.comps # {}] : g \in fmt.fields } : fmt \in Formats }

\* GDEF: header 12 or 14 bytes, glyph class definition first; gc = 4 is a format-1 class
\* definition of 33000 glyphs with alternating classes: 6 + 2*33000 bytes
GdefRecs == { [r EXCEPT !.mayRefuse = (r.gc = 4 /\ (r.mac # 0 \/ r.sets # 0) /\ 14 + 6 + 2 * 33000 > Max16)] :
              r \in [what : {"gdef"}, gc : 0..8, mac : 0..5, sets : 0..6, mayRefuse : {FALSE}] }
\* gc 5..8, mac 3..5: class definitions with explicit class-0 entries (all-zero; zeros at glyph 0 and
\* 65535; zeros below and above the non-zero glyphs; zeros adjacent to the first and last one);
\* sets 4..6: a nil and an empty set; sets with false values; sets at glyph 0 and 65535.
\* Normal form for the comparison decoded = original: class-0 entries dropped, a set is its keys.
\* Kinds "ctx2z", "chain2z", "gpos2_2z": the class definitions of the subtable get explicit class-0
\* entries below and above, and one of them is replaced by an all-zero table.

\* script list: 2 + 6*ns, per script 4 + 6*nl + one LangSys table (6 + 2*nopt) per language system.
\* The big lists (11000 optional features per language system) reach beyond 16-bit script offsets.
NLangSys(r) == r.nl + (IF r.dflt = 1 \/ r.nl = 0 THEN 1 ELSE 0)
ScriptListLen(r) == 2 + 6 * r.ns + r.ns * (4 + 6 * r.nl + NLangSys(r) * (6 + 2 * r.nopt))
ListRecs == { [r EXCEPT !.mayRefuse = ScriptListLen(r) > Max16] :
              r \in [what : {"lists"}, ns : 1..3, nl : {0, 1, 3}, dflt : {0, 1}, nopt : {0, 1, 4},
                     req : {0, 65535}, nf : {0, 1, 3}, nlk : {0, 1, 3}, mayRefuse : {FALSE}]
                 \cup [what : {"lists"}, ns : 1..3, nl : {0, 1}, dflt : {1}, nopt : {11000},
                        req : {65535}, nf : {1}, nlk : {1}, mayRefuse : {FALSE}]
                 \* counts at the 8-bit carry: language systems, optional features, features, lookups of a feature
                 \cup [what : {"lists"}, ns : {1}, nl : {255, 256, 257}, dflt : {0, 1}, nopt : {1},
                        req : {65535}, nf : {1}, nlk : {1}, mayRefuse : {FALSE}]
                 \cup [what : {"lists"}, ns : {1}, nl : {1}, dflt : {1}, nopt : {255, 256, 257},
                        req : {0}, nf : {1}, nlk : {1}, mayRefuse : {FALSE}]
                 \cup [what : {"lists"}, ns : {1}, nl : {1}, dflt : {1}, nopt : {1},
                        req : {65535}, nf : {255, 256, 257}, nlk : {1}, mayRefuse : {FALSE}]
                 \cup [what : {"lists"}, ns : {1}, nl : {1}, dflt : {1}, nopt : {1},
                        req : {65535}, nf : {2}, nlk : {255, 256, 257, 300}, mayRefuse : {FALSE}] }

\* counts at the 8-bit carry (a count or size whose high byte becomes non-zero): always realised
BoundaryRecs == [what : {"shape"}, k : Kinds, n : {255, 256, 257}, m : {1}, c : {0, 1}, v : {2}, f : {1}, mayRefuse : {FALSE}]
           \cup [what : {"shape"}, k : Kinds, n : {1}, m : {255, 256, 257}, c : {0}, v : {2}, f : {0}, mayRefuse : {FALSE}]

\* reader-side geometry: many small lookups with flags and mark filtering sets behind a script list
\* of pad bytes, so that Lookup tables lie at every phase of a reader's buffer; lookups with many
\* subtables; lookup and subtable counts at the 8-bit carry.  nsub = 0: 1 + i mod 3 subtables.
GeomRecs == [what : {"geom"}, nl : {40, 100, 300}, nsub : {0}, pad : {20, 122, 284, 530, 792, 1000}]
       \cup [what : {"geom"}, nl : {255, 256, 257}, nsub : {1}, pad : {20}]
       \cup [what : {"geom"}, nl : {2}, nsub : {2, 255, 256, 257, 509, 510, 511, 600}, pad : {20, 530}]

\* every script tag and every language tag of the built-in tables of the tree under test appears in
\* one of NSweep script lists (the harness reads the tables from locale.go and cuts them in chunks)
NSweep == 64
SweepRecs == [what : {"lists"}, sweep : 1..NSweep, nsweep : {NSweep}, ns : {0}, nl : {0}, dflt : {1}, nopt : {2},
              req : {65535}, nf : {1}, nlk : {2}, mayRefuse : {FALSE}]

---------------------------------------------------------------------------
(* Mode "leaf": value sweeps on every scalar leaf of the subtable formats.  *)
(* One small subtable per case (three records, followed by more data); the   *)
(* named leaf of the middle record takes each of the values below, with the  *)
(* OTHER leaves non-zero (oth = 1) or all zero (oth = 0: "only this field    *)
(* is set").  Any shortcut "this record is empty / has format 0" that tests  *)
(* the wrong conjunction of fields changes the decoded value.  Leaves from   *)
(* the OpenType layouts: int16 coordinates and value-record adjustments,     *)
(* uint16 glyph ids, class values, sequence / lookup indices, device-table   *)
(* offsets (kept as raw words by the library), mark classes (0 .. classCount *)
(* - 1), the lookup flag and mark filtering set words of the Lookup table.   *)
S16 == {0, 1, -1, -32768, 32767}
U16 == {0, 1, 65535}
VRS == {"XPlacement", "YPlacement", "XAdvance", "YAdvance"}
VRU == {"XPlaDevice", "YPlaDevice", "XAdvDevice", "YAdvDevice"}
Pre(pre, names) == {pre \o n : n \in names}
L(t, names, vals) == [t : {t}, field : names, val : vals]
LeafTable ==
       L("gsub1_1", {"deltaGlyphID"}, U16) \cup L("gsub1_2", {"substituteGlyphID"}, U16)
  \cup L("gsub2_1", {"sequenceGlyph"}, U16) \cup L("gsub3_1", {"alternateGlyph"}, U16)
  \cup L("gsub4_1", {"ligatureGlyph", "componentGlyph"}, U16) \cup L("gsub8_1", {"substituteGlyphID"}, U16)
  \cup L("ctx1", {"inputGlyph", "sequenceIndex", "lookupListIndex"}, U16)
  \cup L("ctx2", {"inputClass", "sequenceIndex", "lookupListIndex"}, U16)
  \cup L("ctx3", {"sequenceIndex", "lookupListIndex"}, U16)
  \cup L("chain1", {"backtrackGlyph", "inputGlyph", "lookaheadGlyph", "sequenceIndex", "lookupListIndex"}, U16)
  \cup L("chain2", {"backtrackClass", "inputClass", "lookaheadClass", "sequenceIndex", "lookupListIndex"}, U16)
  \cup L("chain3", {"sequenceIndex", "lookupListIndex"}, U16)
  \cup L("gpos1_1", VRS, S16) \cup L("gpos1_1", VRU, U16) \cup L("gpos1_2", VRS, S16) \cup L("gpos1_2", VRU, U16)
  \cup L("gpos2_1", {"secondGlyph"}, U16)
  \cup L("gpos2_1", Pre("v1.", VRS) \cup Pre("v2.", VRS), S16) \cup L("gpos2_1", Pre("v1.", VRU) \cup Pre("v2.", VRU), U16)
  \cup L("gpos2_2", Pre("v1.", VRS) \cup Pre("v2.", VRS), S16) \cup L("gpos2_2", Pre("v1.", VRU) \cup Pre("v2.", VRU), U16)
  \cup L("gpos3_1", {"entryX", "entryY", "exitX", "exitY"}, S16)
  \cup L("gpos4_1", {"markX", "markY", "baseX", "baseY"}, S16) \cup L("gpos4_1", {"markClass"}, {0, 1})
  \cup L("gpos6_1", {"markX", "markY", "baseX", "baseY"}, S16) \cup L("gpos6_1", {"markClass"}, {0, 1})
  \cup L("gsub1_1", {"lookupFlag"}, {0, 1, 65519}) \cup L("gpos1_1", {"lookupFlag"}, {0, 1, 65519})
  \cup L("gsub1_1", {"markFilteringSet"}, U16) \cup L("gpos1_1", {"markFilteringSet"}, U16)
LeafRecs == { [what |-> "shape", k |-> "leaf", t |-> r.t, field |-> r.field, val |-> r.val, oth |-> o,
               n |-> 0, m |-> 0, c |-> 0, v |-> 0, f |-> 0, mayRefuse |-> FALSE] : r \in LeafTable, o \in {0, 1} }

Recs == CASE Mode = "shape" -> ShapeRecs
          [] Mode = "huge"  -> HugeRecs
          [] Mode = "gdef"  -> GdefRecs
          [] Mode = "lists" -> ListRecs
          [] Mode = "off"   -> OffCases \cup FieldRecs
          [] Mode = "leaf"  -> LeafRecs
          [] Mode = "all"   -> ShapeRecs \cup LeafRecs \cup BoundaryRecs \cup HugeRecs \cup OffCases \cup FieldRecs \cup GdefRecs
                               \cup ListRecs \cup SweepRecs \cup GeomRecs

Init == rec \in Recs
Next == UNCHANGED rec
Emit == PrintT(<<"CASE", ToJson(rec)>>)
=============================================================================
