------------------------- MODULE LookupLayoutShapes -------------------------
(***************************************************************************)
(* C08, generator of replay cases (binding R).  TLC enumerates             *)
(*  - Mode "shape": subtable shapes for every lookup type / format the     *)
(*    library can encode: k kind, n primary count (covered glyphs, rule    *)
(*    sets, records), m secondary count (sequence length, rules per set,   *)
(*    second glyphs, backtrack tables), c coverage layout (0 spread,       *)
(*    1 one run, 2 pairs, 3 both ends of the 16-bit glyph range), v value  *)
(*    variant (nil / zero-value / partial / full value records, anchors    *)
(*    present or absent, NULL rule sets, class counts), f lookup flag      *)
(*    variant (0 none, 1 mark filtering set, 2 all flag bits);             *)
(*  - Mode "huge": subtables whose inline arrays push an Offset16 beyond   *)
(*    0xFFFF in the natural layout;                                        *)
(*  - Mode "gdef": GDEF tables (glyph classes, mark attachment classes,    *)
(*    mark glyph sets present / absent / empty / huge);                    *)
(*  - Mode "lists": script and feature lists.                              *)
(* mayRefuse says whether the property lets the encoder refuse the value   *)
(* (only when an Offset16 overflows in the natural layout); a value that   *)
(* is encoded must be well-formed and decode to itself in every case.      *)
(***************************************************************************)
EXTENDS Integers, Sequences, TLC, Json

CONSTANTS Mode, Kinds, Ns, Ms, Cs, Vs, Fs

VARIABLE rec

Max16 == 65535

ShapeRecs == [what : {"shape"}, k : Kinds, n : Ns, m : Ms, c : Cs, v : Vs, f : Fs, mayRefuse : {FALSE}]

\* natural layouts: GSUB 1.2 = 6 + 2*count, then coverage; GSUB 2.1 / 3.1 = 6 + 2*count + sequences,
\* then coverage; GPOS 1.2 = 8 + 2*count (one value word), then coverage
HugeOffset(r) ==
  CASE r.k = "huge1_2"  -> 6 + 2 * (33000 + 100 * r.n)
    [] r.k = "hugep1_2" -> 8 + 2 * (33000 + 100 * r.n)
    [] OTHER            -> 6 + 4 + (2 + 2 * (20000 + r.n)) + (2 + 2 * (20000 + r.m))
HugeRecs == { [r EXCEPT !.mayRefuse = HugeOffset(r) > Max16] :
              r \in [what : {"shape"}, k : {"huge1_2", "huge2_1", "huge3_1", "hugep1_2"}, n : {0, 3}, m : {1},
                     c : {0}, v : {0}, f : {0}, mayRefuse : {FALSE}] }

\* GDEF: header 12 or 14 bytes, glyph class definition first; gc = 4 is a format-1 class
\* definition of 33000 glyphs with alternating classes: 6 + 2*33000 bytes
GdefRecs == { [r EXCEPT !.mayRefuse = (r.gc = 4 /\ (r.mac # 0 \/ r.sets # 0) /\ 14 + 6 + 2 * 33000 > Max16)] :
              r \in [what : {"gdef"}, gc : 0..4, mac : 0..2, sets : 0..3, mayRefuse : {FALSE}] }

\* script list: 2 + 6*ns, per script 4 + 6*nl + one LangSys table (6 + 2*nopt) per language system.
\* The big lists (11000 optional features per language system) reach beyond 16-bit script offsets.
NLangSys(r) == r.nl + (IF r.dflt = 1 \/ r.nl = 0 THEN 1 ELSE 0)
ScriptListLen(r) == 2 + 6 * r.ns + r.ns * (4 + 6 * r.nl + NLangSys(r) * (6 + 2 * r.nopt))
ListRecs == { [r EXCEPT !.mayRefuse = ScriptListLen(r) > Max16] :
              r \in [what : {"lists"}, ns : 1..3, nl : {0, 1, 3}, dflt : {0, 1}, nopt : {0, 1, 4},
                     req : {0, 65535}, nf : {0, 1, 3}, nlk : {0, 1, 3}, mayRefuse : {FALSE}]
                 \cup [what : {"lists"}, ns : 1..3, nl : {0, 1}, dflt : {1}, nopt : {11000},
                        req : {65535}, nf : {1}, nlk : {1}, mayRefuse : {FALSE}] }

Recs == CASE Mode = "shape" -> ShapeRecs
          [] Mode = "huge"  -> HugeRecs
          [] Mode = "gdef"  -> GdefRecs
          [] Mode = "lists" -> ListRecs
          [] Mode = "all"   -> ShapeRecs \cup HugeRecs \cup GdefRecs \cup ListRecs

Init == rec \in Recs
Next == UNCHANGED rec
Emit == PrintT(<<"CASE", ToJson(rec)>>)
=============================================================================
