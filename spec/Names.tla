-------------------------------- MODULE Names --------------------------------
(***************************************************************************)
(* C20.  Glyph-name completion: sfnt.Font.MakeGlyphNames,                  *)
(* EnsureGlyphNames, GlyphName (names.go, font.go) and                     *)
(* cff.Outlines.MakeSimple (cff/convert.go).                               *)
(*                                                                         *)
(* The property is a relation between a font (given names, character map,  *)
(* GSUB 1/3/4 rules) and the completed name list; it is stated in          *)
(* NamesLaw.tla as the clause set Fails(P, r).  This module                *)
(*                                                                         *)
(*  1. builds every font description of a bounded family, one choice per   *)
(*     step (glyph count, one given name per glyph from a pool of          *)
(*     deliberately colliding names, one target per code point, GSUB       *)
(*     rules with their subtable grouping, outline kind and the length of  *)
(*     the TrueType names list);                                           *)
(*  2. contains two deliberately different reference completions Ref(P,    *)
(*     "A") and Ref(P, "B") (different service order, different variant    *)
(*     and placeholder spellings, different treatment of invalid names)    *)
(*     and checks on every description that both satisfy the law, under    *)
(*     both readings of a short names list, and that installing a result   *)
(*     and asking again returns it, and that obviously wrong answers are   *)
(*     refused (RefLaw, RefStable, Refuses): the clauses are jointly       *)
(*     satisfiable, not vacuous and do not single out one algorithm;       *)
(*  3. prints each description as a CASE line (Emit) -- these are the      *)
(*     fonts the harness builds with the real library; the recorded        *)
(*     answers of the real code are judged by NamesTrace.tla.              *)
(***************************************************************************)
EXTENDS NamesLaw, TLC, Json

CONSTANTS MinN, MaxN, \* glyph counts MinN..MaxN
          MinRules,  \* a description has at least this many GSUB rules
          PoolSel,   \* "tiny" | "full" | "clash" | "own" | "first": the pool of given names
          Codes,     \* set of code points that may be mapped
          MaxRules,  \* number of GSUB rules 0..MaxRules
          RuleTypes, \* subset of {1, 3, 4}
          LigLens,   \* numbers of components of a ligature rule, subset of 1..3
          Kinds,     \* subset of {"ttf", "cff", "cid"}
          CmapFormats, \* cmap subtable formats the font may carry: subset of {"4", "12", "6", "0", "0mac"}
          LigFirst,  \* 0, or g >= 1: every ligature rule starts with glyph g and shares one subtable
          TextSel,   \* "none" | "A" | "mix" | "long": explicit glyph texts for MakeSimple (CFF kinds)
          Flags,     \* TRUE: also vary the single-substitution format (Gsub1_1 / Gsub1_2)
          Quiet      \* TRUE: no CASE output (exhaustive satisfiability runs)

VARIABLES n, stage, given, pcls, todo, cm, rules, prt, kind, keep, d1, cmf, txt

vars == <<n, stage, given, pcls, todo, cm, rules, prt, kind, keep, d1, cmf, txt>>

---------------------------------------------------------------------------
(* The pool of given names: chosen to collide with everything the          *)
(* completion may want to hand out.                                        *)
N_A      == <<65>>
N_i      == <<105>>
N_j      == <<106>>
N_ij     == <<105, 106>>
N_i_j    == <<105, 95, 106>>
N_space  == <<115, 112, 97, 99, 101>>
N_orn001 == <<111, 114, 110, 48, 48, 49>>
N_orn002 == <<111, 114, 110, 48, 48, 50>>
N_A1     == <<65, 46, 49>>                       \* "A.1"
N_i_j1   == <<105, 95, 106, 46, 49>>             \* "i_j.1"
N_A2     == <<65, 46, 50>>                       \* "A.2"
N_Aalt1  == <<65, 46, 97, 108, 116, 49>>         \* "A.alt1"
N_Aalt2  == <<65, 46, 97, 108, 116, 50>>         \* "A.alt2"
N_ctl    == <<1>>                                \* not printable
N_sp     == <<97, 32, 98>>                       \* "a b"
N_dig    == <<49, 97, 98, 99>>                   \* "1abc": starts with a digit
N_long   == [k \in 1..32 |-> 120]                \* 32 x "x": longer than a Type 1 name
N_utf    == <<195, 169>>                         \* e-acute, UTF-8

PoolTiny == {N_A, N_i_j, N_orn001, N_A1, N_ctl, NOTDEF}
PoolFull == {N_A, N_i, N_j, N_ij, N_i_j, N_space, N_orn001, N_orn002, N_A1, N_i_j1,
             N_ctl, N_sp, N_dig, N_long, N_utf, NOTDEF}
\* names that collide with the first, second and third candidate for one base name
PoolClash == {N_A, N_A1, N_A2, N_Aalt1, N_Aalt2}
\* "own": no colliding names at all -- every named glyph has a unique valid name
Pool == CASE PoolSel = "tiny"  -> PoolTiny
          [] PoolSel = "clash" -> PoolClash
          [] PoolSel = "own"   -> {<<103, 48 + Len(given)>>}
          [] OTHER             -> PoolFull \cup PoolClash

\* texts a glyph may stand for in MakeSimple; several glyphs may share one text, so that three
\* and more glyphs compete for one glyph-list name and its variants
Texts == CASE TextSel = "A"   -> {<<65>>}
           [] TextSel = "mix" -> {<<65>>, <<105, 106>>, <<307>>, <<545>>}
           \* "long": a text whose glyph-list name (guillemotleft_guillemotright, 28 bytes) is a valid name while
           \* every variant of it is longer than a name may be (31 bytes): the glyphs that lose the competition
           \* for the name fall back to placeholders
           [] TextSel = "long" -> {<<65>>, <<171, 187>>}
           [] OTHER           -> {}
HasText == Texts # {} /\ kind # "ttf"

Own(g) == <<103, 48 + g>>                        \* "g0" .. "g9": a name nobody else has

CodeSeq == SetToSortSeq(Codes, <)

---------------------------------------------------------------------------
(* Building a description *)
\* the outline kind and the subtable formats are fixed first (they do not matter to the law;
\* a random walk then yields one description per kind rather than all kinds of one description)
Init == /\ n \in MinN..MaxN
        /\ stage = "names" /\ given = <<>> /\ pcls = FALSE
        /\ todo = CodeSeq /\ cm = <<>> /\ rules = <<>> /\ prt = 0
        /\ kind \in Kinds /\ keep = 0
        /\ d1 \in (IF Flags THEN BOOLEAN ELSE {FALSE})
        /\ cmf \in CmapFormats
        /\ txt = <<>>

AfterNames(g2) == IF Len(g2) < n THEN "names" ELSE IF todo = <<>> THEN "rules" ELSE "cmap"

AddName(x) == /\ given' = Append(given, x)
              /\ stage' = AfterNames(Append(given, x))
              /\ pcls' = FALSE

\* two steps per glyph so that a random walk takes "missing" and "own" often
\* PoolSel = "first": no choice -- glyphs 0 and 1 have their own names, all others have none (a font
\* in which everything else has to be inferred through chains of rules)
NameClass == /\ stage = "names" /\ ~pcls
             /\ IF PoolSel = "first"
                  THEN AddName(IF Len(given) <= 1 THEN Own(Len(given)) ELSE <<>>)
                  ELSE \/ AddName(<<>>)
                       \/ AddName(Own(Len(given)))
                       \/ pcls' = TRUE /\ UNCHANGED <<given, stage>>
             /\ UNCHANGED <<n, todo, cm, rules, prt, kind, keep, d1, cmf, txt>>

NamePool == /\ stage = "names" /\ pcls
            /\ \E x \in Pool : AddName(x)
            /\ UNCHANGED <<n, todo, cm, rules, prt, kind, keep, d1, cmf, txt>>

\* one code point at a time: left unmapped, or (second step, so that a random walk leaves
\* half of the code points out) mapped to any glyph, glyph 0 included
CodeDone == /\ todo' = Tail(todo)
            /\ stage' = IF Tail(todo) = <<>> THEN "rules" ELSE "cmap"
            /\ pcls' = FALSE

MapClass == /\ stage = "cmap" /\ ~pcls
            /\ \/ CodeDone /\ UNCHANGED cm
               \/ pcls' = TRUE /\ UNCHANGED <<todo, stage, cm>>
            /\ UNCHANGED <<n, given, rules, prt, kind, keep, d1, cmf, txt>>

MapCode == /\ stage = "cmap" /\ pcls
           /\ \E g \in 0 .. n - 1 : cm' = Append(cm, <<Head(todo), g>>)
           /\ CodeDone
           /\ UNCHANGED <<n, given, rules, prt, kind, keep, d1, cmf, txt>>

RuleType == /\ stage = "rules" /\ prt = 0
            /\ \/ /\ Len(rules) >= MinRules
                  /\ stage' = (IF HasText THEN "text" ELSE "shape") /\ UNCHANGED prt
               \/ /\ Len(rules) < MaxRules
                  /\ prt' \in RuleTypes /\ UNCHANGED stage
            /\ UNCHANGED <<n, given, pcls, todo, cm, rules, kind, keep, d1, cmf, txt>>

LastSub == IF rules = <<>> THEN 0 ELSE rules[Len(rules)].sub

\* a rule may share the subtable of its predecessor if it has the same type; a single
\* substitution subtable maps each source once
Joinable(t, src) ==
  /\ rules # <<>> /\ rules[Len(rules)].t = t
  /\ t = 1 => \A k \in 1..Len(rules) : rules[k].sub = LastSub => rules[k].src # src

\* third and fourth components: any glyph of a small font, first or last glyph of a larger one
Tail3 == IF n <= 4 THEN 0..n-1 ELSE {0, n-1}
LigOfLen(len) == CASE len = 1 -> {<<a>> : a \in 0..n-1}
                   [] len = 2 -> {<<a, b>> : a \in 0..n-1, b \in 0..n-1}
                   [] len = 3 -> {<<a, b, c>> : a \in 0..n-1, b \in 0..n-1, c \in Tail3}
                   [] len = 4 -> {<<a, b, c, d>> : a \in 0..n-1, b \in 0..n-1, c \in Tail3, d \in Tail3}
\* LigFirst > 0: a ligature SET -- all ligatures hang off one first glyph in one subtable, in the
\* order generated, so that nameable ligatures follow ligatures abandoned at any component
FirstOK(src) == LigFirst = 0 \/ src[1] = (IF LigFirst < n THEN LigFirst ELSE 0)
LigSrcs == {src \in UNION {LigOfLen(len) : len \in LigLens} : FirstOK(src)}

RuleArgs == /\ stage = "rules" /\ prt # 0
            /\ \E src \in (IF prt = 4 THEN LigSrcs ELSE {<<a>> : a \in 0..n-1}),
                  dst \in 0..n-1 :
                 \E join \in (IF ~Joinable(prt, src) THEN {FALSE}
                              ELSE IF prt = 4 /\ LigFirst > 0 THEN {TRUE} ELSE BOOLEAN) :
                    rules' = Append(rules, [t |-> prt, src |-> src, dst |-> dst,
                                            sub |-> IF join THEN LastSub ELSE LastSub + 1])
            /\ prt' = 0
            /\ UNCHANGED <<n, stage, given, pcls, todo, cm, kind, keep, d1, cmf, txt>>

\* one glyph at a time: no text, or (second step) one of the texts; glyphs may share a text
AddText(t) == /\ txt' = Append(txt, t)
              /\ stage' = IF Len(txt) + 1 < n THEN "text" ELSE "shape"
              /\ pcls' = FALSE

TextClass == /\ stage = "text" /\ ~pcls
             /\ \/ AddText(<<>>)
                \/ pcls' = TRUE /\ UNCHANGED <<txt, stage>>
             /\ UNCHANGED <<n, given, todo, cm, rules, prt, kind, keep, d1, cmf>>

TextPick == /\ stage = "text" /\ pcls
            /\ \E t \in Texts : AddText(t)
            /\ UNCHANGED <<n, given, todo, cm, rules, prt, kind, keep, d1, cmf>>

\* how many of the given names the font carries: all of them (CFF), none (CID-keyed), any
\* prefix for TrueType (0 = no names, n = complete list, in between = a short names list)
Shape == /\ stage = "shape"
         /\ keep' \in (IF kind = "ttf" THEN 0..n ELSE IF kind = "cff" THEN {n} ELSE {0})
         /\ stage' = "done"
         /\ UNCHANGED <<n, given, pcls, todo, cm, rules, prt, kind, d1, cmf, txt>>

Next == NameClass \/ NamePool \/ MapClass \/ MapCode \/ RuleType \/ RuleArgs \/ TextClass \/ TextPick \/ Shape
Spec == Init /\ [][Next]_vars

done == stage = "done"

---------------------------------------------------------------------------
(* The description as the law sees it *)
Names == SubSeq(given, 1, keep)              \* what the font carries (TrueType: maybe short)

TextsOf(g) == {<<cm[k][1]>> : k \in {k \in 1..Len(cm) : cm[k][2] = g}}

Prob(gv) == [n |-> n, given |-> gv,
             texts |-> [k \in 1..n |-> TextsOf(k - 1)],
             rules |-> rules]

\* the problem MakeSimple solves: explicit texts, no GSUB
ProbSimple(gv) == [n |-> n, given |-> gv,
                   texts |-> [k \in 1..n |-> IF txt[k] = <<>> THEN {} ELSE {txt[k]}],
                   rules |-> <<>>]

---------------------------------------------------------------------------
(* Two reference completions.  Style "A": glyphs served in increasing      *)
(* order, invalid given names dropped, shortest glyph-list spelling,       *)
(* ".<k>" variants, rule passes repeated to a fixed point, "ornNNN"        *)
(* placeholders ("X" = "A" with a faulty ligature branch, see BugAccepted). *)
(* Style "B": decreasing order, any non-empty given name    *)
(* kept, longest spelling, ".alt<k>" variants (also of taken glyph-list    *)
(* names), one pass over the rules in reverse, "glyph<k>" placeholders.    *)
Dec(k)  == IF k < 10 THEN <<48 + k>> ELSE <<48 + (k \div 10), 48 + (k % 10)>>
Dec3(k) == <<48 + ((k \div 100) % 10), 48 + ((k \div 10) % 10), 48 + (k % 10)>>
UsedIn(res) == {res[k] : k \in 1..Len(res)} \ {<<>>}

\* first of cand(0), cand(1), ... that is not in used
FirstFree(cand(_), used) ==
  cand(CHOOSE k \in 0..80 : cand(k) \notin used /\ \A j \in 0..k-1 : cand(j) \in used)

Shortest(S) == CHOOSE x \in S : \A y \in S : Len(x) <= Len(y)
Longest(S)  == CHOOSE x \in S : \A y \in S : Len(x) >= Len(y)
Primary(c, st) == IF Listed(c) = {} THEN (IF st # "B" \/ c >= 65536 THEN UName(c) ELSE UniName(c))
                  ELSE IF st # "B" THEN Shortest(Listed(c)) ELSE Longest(Listed(c))
PrimaryText(t, st) == Join([k \in 1..Len(t) |-> Primary(t[k], st)])

VariantK(base, k, st) == IF st # "B" THEN base \o <<Dot>> \o Dec(k)
                         ELSE base \o <<Dot, 97, 108, 116>> \o Dec(k)

Order(P, st) == IF st # "B" THEN [k \in 1..P.n |-> k - 1] ELSE [k \in 1..P.n |-> P.n - k]

RefKeep(P, st) ==
  [k \in 1..P.n |->
     LET g == k - 1  x == P.given[k] IN
     IF g = 0 THEN NOTDEF
     ELSE IF /\ x # <<>> /\ x # NOTDEF
             /\ (st # "B" => ValidName(x))
             /\ \A h \in 1..g-1 : Nm(P.given, h) # x
             /\ (st = "B" => Nm(P.given, 0) # x)
          THEN x ELSE <<>>]

RefText(P, st, res0) ==
  FoldLeft(LAMBDA res, g :
     IF Nm(res, g) # <<>> \/ Nm(P.texts, g) = {} THEN res
     ELSE LET free == {PrimaryText(t, st) : t \in Nm(P.texts, g)} \ UsedIn(res) IN
          IF free # {} THEN [res EXCEPT ![g + 1] = Shortest(free)]
          ELSE IF st # "B" THEN res
          ELSE LET b == Shortest({PrimaryText(t, st) : t \in Nm(P.texts, g)}) IN
               [res EXCEPT ![g + 1] = FirstFree(LAMBDA k : VariantK(b, k + 1, st), UsedIn(res))],
     res0, Order(P, st))

RulePass(P, st, res0) ==
  FoldLeft(LAMBDA res, q :
     LET rule == P.rules[q] IN
     IF \/ Nm(res, rule.dst) # <<>> /\ ~(st = "X" /\ rule.t = 4)
        \/ \E k \in 1..Len(rule.src) : Nm(res, rule.src[k]) = <<>>
       THEN res
       ELSE LET base == IF rule.t = 4 THEN Join([k \in 1..Len(rule.src) |-> Nm(res, rule.src[k])]) ELSE Nm(res, rule.src[1])
                first == IF rule.t = 4 THEN 0 ELSE 1
            IN [res EXCEPT ![rule.dst + 1] =
                  FirstFree(LAMBDA k : IF k + first = 0 THEN base ELSE VariantK(base, k + first, st),
                            UsedIn(res))],
     res0,
     IF st # "B" THEN [q \in 1..Len(P.rules) |-> q]
                 ELSE [q \in 1..Len(P.rules) |-> Len(P.rules) + 1 - q])

RefRules(P, st, res0) ==
  IF st # "B" THEN FoldLeft(LAMBDA res, round : RulePass(P, st, res), res0, [k \in 1..P.n |-> k])
              ELSE RulePass(P, st, res0)

RefFill(P, st, res0) ==
  FoldLeft(LAMBDA res, g :
     IF Nm(res, g) # <<>> THEN res
     ELSE [res EXCEPT ![g + 1] =
             FirstFree(LAMBDA k : IF st # "B" THEN <<111, 114, 110>> \o Dec3(k + 1)
                                  ELSE <<103, 108, 121, 112, 104>> \o Dec(k + 1),
                       UsedIn(res))],
     res0, Order(P, st))

Ref(P, st) == RefFill(P, st, RefRules(P, st, RefText(P, st, RefKeep(P, st))))

---------------------------------------------------------------------------
(* What TLC checks on every completed description *)
Styles == {"A", "B"}

\* both references, computed under either reading of a short names list, satisfy every clause
\* under that reading (hence FailsAny, which takes the most favourable reading, accepts them)
RefLaw ==
  done => \A st \in Styles : \A k \in 1..Len(Readings(Names, n)) :
             LET P == Prob(Readings(Names, n)[k]) IN Law(P, Ref(P, st))

\* the same for the MakeSimple problem (k glyphs sharing one text, names and variants taken)
RefLawSimple ==
  (done /\ txt # <<>>) => \A st \in Styles :
             LET P == ProbSimple(Pad(Names, n)) IN Law(P, Ref(P, st))

\* installing the result and asking again returns the same names
RefStable ==
  done => \A st \in Styles :
             LET P == Prob(Pad(Names, n))  r == Ref(P, st) IN
             (\A g \in Glyphs(P) : st = "A" => ValidName(Nm(r, g)))
                => Ref([P EXCEPT !.given = r], st) = r

\* the law is not vacuous: the obviously wrong answers are refused
Refuses ==
  done => LET P == Prob(Pad(Names, n)) IN
          /\ ~Law(P, [k \in 1..n |-> <<>>])
          /\ n > 1 => ~Law(P, [k \in 1..n |-> NOTDEF])
          /\ ~Law(P, [k \in 1..n+1 |-> Own(k)])

\* The law has teeth on the model: style "X" is style "A" whose ligature branch names its target
\* even if the target already has a name (the shape of names.go:161).  TLC is EXPECTED to find a
\* description on which X is refused (NamesBug.cfg; the orchestrator fails if it finds none).
BugAccepted == done => LET P == Prob(Pad(Names, n)) IN Law(P, Ref(P, "X"))

CaseRec == [n |-> n, kind |-> kind, names |-> Names, cmap |-> cm, rules |-> rules,
            d1 |-> d1, cmf |-> cmf, text |-> txt]

Emit == (done /\ ~Quiet) => PrintT(<<"CASE", ToJson(CaseRec)>>)
=============================================================================
