\* C05: exhaustive model checking of 16.16 arithmetic at the representation boundary: every tie form
\* (products and quotients exactly halfway between two 16.16 numbers, both signs, one unit either side)
\* as an operand of the base operators; rounding is half away from zero (Type2Core.tla, RoundHA).
CONSTANTS
  Unit = 65536
  MaxV = 131072000
  MaxPos = 524288000
  Vals <- OneFineVal
  SVals <- FineSVals
  Sizes <- TinySizes
  DWs <- OneFineVal
  NWs <- OneFineVal
  MaskBytes <- OneVal
  GenOps <- AllGenOps
  MaxOps = 1
  MaxArgs = 1
  MaxArith = 1
  MaxCalls = 0
  Sim = FALSE
  Feats <- TieFeats
  Excluded <- NoExcl
  Faults <- NoFaults
  NGs <- OneGlyph
INIT Init
NEXT Next
VIEW View
INVARIANT FreshMachine
INVARIANT StackOK
INVARIANT DepthOK
INVARIANT StatusOK
INVARIANT WidthOK
INVARIANT StageOK
INVARIANT PathOK
INVARIANT ReplayAgrees
INVARIANT FaultIsError
PROPERTY StageMono
PROPERTY WidthOnce
PROPERTY MovedMono
CHECK_DEADLOCK FALSE
