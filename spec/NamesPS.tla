------------------------------- MODULE NamesPS -------------------------------
(***************************************************************************)
(* C20, PostScript font name.  sfnt.Font.PostScriptName (font.go) derives  *)
(* the name from the family name and a style description (OS/2 width and   *)
(* weight class names, bold / italic / oblique).  The property only says   *)
(* that the result contains nothing but characters permitted in a          *)
(* PostScript name (NamesLaw!PSSafe).                                      *)
(*                                                                         *)
(* The model: a family name is any byte string (here: up to MaxLen bytes   *)
(* over representatives of every character class: letters, digits, each    *)
(* delimiter, white space, control, DEL, bytes >= 128 alone and as UTF-8   *)
(* sequences), the style is a string with spaces and parentheses; the      *)
(* reference derivation Strip(family "-" style) drops every byte that is   *)
(* not permitted.  TLC checks that the reference is PSSafe for every       *)
(* description and prints the descriptions as CASE lines; the answers of   *)
(* the real code are judged by NamesTrace!PSName.                          *)
(***************************************************************************)
EXTENDS NamesLaw, TLC, Json

CONSTANTS MaxLen,   \* family names of 0..MaxLen bytes
          Alphabet, \* byte values used in family names
          Widths,   \* usWidthClass values
          Weights,  \* usWeightClass values
          Quiet

VARIABLES fam, width, weight, bold, italic, oblique, stage
vars == <<fam, width, weight, bold, italic, oblique, stage>>

Init == fam = <<>> /\ width = 0 /\ weight = 0 /\ bold = 0 /\ italic = 0 /\ oblique = 0 /\ stage = "family"

AddByte == /\ stage = "family" /\ Len(fam) < MaxLen
           /\ \E b \in Alphabet : fam' = Append(fam, b)
           /\ UNCHANGED <<width, weight, bold, italic, oblique, stage>>

Style == /\ stage = "family"
         /\ width' \in Widths /\ weight' \in Weights
         /\ bold' \in {0, 1} /\ italic' \in {0, 1} /\ oblique' \in {0, 1}
         /\ stage' = "done" /\ UNCHANGED fam

Next == AddByte \/ Style
Spec == Init /\ [][Next]_vars
done == stage = "done"

---------------------------------------------------------------------------
(* Style description: OS/2 class names (OpenType specification, OS/2 table) *)
DecStr(k) == IF k < 10 THEN <<48 + k>>
             ELSE IF k < 100 THEN <<48 + (k \div 10), 48 + (k % 10)>>
             ELSE <<48 + (k \div 100), 48 + ((k \div 10) % 10), 48 + (k % 10)>>

WidthWord(w) ==
  CASE w = 1 -> <<85, 108, 116, 114, 97, 32, 67, 111, 110, 100, 101, 110, 115, 101, 100>>   \* "Ultra Condensed"
    [] w = 2 -> <<69, 120, 116, 114, 97, 32, 67, 111, 110, 100, 101, 110, 115, 101, 100>>   \* "Extra Condensed"
    [] w = 3 -> <<67, 111, 110, 100, 101, 110, 115, 101, 100>>                              \* "Condensed"
    [] w = 4 -> <<83, 101, 109, 105, 32, 67, 111, 110, 100, 101, 110, 115, 101, 100>>       \* "Semi Condensed"
    [] w = 6 -> <<83, 101, 109, 105, 32, 69, 120, 112, 97, 110, 100, 101, 100>>             \* "Semi Expanded"
    [] w = 7 -> <<69, 120, 112, 97, 110, 100, 101, 100>>                                    \* "Expanded"
    [] w = 8 -> <<69, 120, 116, 114, 97, 32, 69, 120, 112, 97, 110, 100, 101, 100>>         \* "Extra Expanded"
    [] w = 9 -> <<85, 108, 116, 114, 97, 32, 69, 120, 112, 97, 110, 100, 101, 100>>         \* "Ultra Expanded"
    [] w = 0 \/ w = 5 -> <<>>
    [] OTHER -> <<87, 105, 100, 116, 104, 40>> \o DecStr(w) \o <<41>>                       \* "Width(n)"

WeightWord(w) ==
  LET c == IF w <= 100 THEN 1 ELSE IF w >= 900 THEN 9 ELSE (w + 50) \div 100 IN
  CASE w = 0 \/ c = 4 -> <<>>
    [] c = 1 -> <<84, 104, 105, 110>>                                   \* "Thin"
    [] c = 2 -> <<69, 120, 116, 114, 97, 32, 76, 105, 103, 104, 116>>   \* "Extra Light"
    [] c = 3 -> <<76, 105, 103, 104, 116>>                              \* "Light"
    [] c = 5 -> <<77, 101, 100, 105, 117, 109>>                         \* "Medium"
    [] c = 6 -> <<83, 101, 109, 105, 32, 66, 111, 108, 100>>            \* "Semi Bold"
    [] c = 7 -> <<66, 111, 108, 100>>                                   \* "Bold"
    [] c = 8 -> <<69, 120, 116, 114, 97, 32, 66, 111, 108, 100>>        \* "Extra Bold"
    [] c = 9 -> <<66, 108, 97, 99, 107>>                                \* "Black"

Words == SelectSeq(<< WidthWord(width),
                      IF WeightWord(weight) = <<>> /\ bold = 1 THEN <<66, 111, 108, 100>> ELSE WeightWord(weight),
                      IF oblique = 1 THEN <<79, 98, 108, 105, 113, 117, 101>>
                      ELSE IF italic = 1 THEN <<73, 116, 97, 108, 105, 99>> ELSE <<>> >>,
                   LAMBDA w : w # <<>>)
StyleStr == IF Words = <<>> THEN <<82, 101, 103, 117, 108, 97, 114>>                        \* "Regular"
            ELSE FoldLeft(LAMBDA a, w : IF a = <<>> THEN w ELSE a \o <<32>> \o w, <<>>, Words)

Strip(s) == SelectSeq(s, LAMBDA b : b >= 33 /\ b <= 126 /\ b \notin PSDelims)
RefPS == Strip(fam \o <<45>> \o StyleStr)

RefSafe   == done => PSSafe(RefPS)
\* the predicate is not vacuous: the unstripped string is refused whenever it has a forbidden byte
RefStrict == done => (PSSafe(fam \o <<45>> \o StyleStr) <=> RefPS = fam \o <<45>> \o StyleStr)

CaseRec == [family |-> fam, width |-> width, weight |-> weight,
            bold |-> bold, italic |-> italic, oblique |-> oblique]
Emit == (done /\ ~Quiet) => PrintT(<<"CASE", ToJson(CaseRec)>>)
=============================================================================
