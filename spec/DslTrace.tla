------------------------------ MODULE DslTrace ------------------------------
(***************************************************************************)
(* C19, trace specification.  Every line of trace.ndjson is one            *)
(* observation of the real library recorded by harness/cmd/c19; TLC        *)
(* accepts the trace iff every observation is allowed by the property:     *)
(*                                                                         *)
(*  parse  runs of builder.Parse on one text under one GOMAXPROCS value    *)
(*         (counts over the repetitions).  Each run must be a good outcome *)
(*         of DslContract (the predicate TLC proves for every quiescent    *)
(*         state of DslConc.tla): returned, no panic, no goroutine left,   *)
(*         lookups or an error whose line number is a line of the text.    *)
(*  rt     Explain -> Parse of an instance of a shape of Dsl.tla: the      *)
(*         instance conforms to the shape TLC enumerated, neither call     *)
(*         panics, Parse accepts the description, and the parsed lookup    *)
(*         list is structurally equal to the described one.                *)
(*  num    a number at a place of the grammar: exact in the result or an   *)
(*         error (NumLaw);  errline  an erroneous text: the error carries  *)
(*         the line of the token at which it is detected (ErrLaw).         *)
(*  mean   a hand-specified description of DslLang.tla: the parsed      *)
(*         lookup list equals the meaning TLC computes from the syntax     *)
(*         tree, and the text is the rendering of that tree.               *)
(*                                                                         *)
(* Acceptance (POSTCONDITION Accepted, -workers 1): every line consumed    *)
(* (TLC register 1) and no line rejected (register 2).                     *)
(***************************************************************************)
EXTENDS Integers, Sequences, TLC, Json, DslContract, DslLang

Trace == ndJsonDeserialize("trace.ndjson")

VARIABLE l
vars == <<l>>

E == Trace[l]
Init == l = 1 /\ TLCSet(1, 0) /\ TLCSet(2, 0)
Consume == l' = l + 1 /\ TLCSet(1, l)
Is(ev) == l <= Len(Trace) /\ E.ev = ev

(* the observation of one kind of run recorded in a parse event *)
RunObs(ret, pan, ok, line) ==
  [returned |-> ret, panicked |-> pan, ok |-> ok, line |-> line, nlines |-> E.nlines, leaked |-> E.leaks]

\* a refusal before any text is looked at (font without usable character map, E.pre # "ok") owes no
\* particular result, but it must return, not panic and leave no goroutine -- like every other outcome
EarlyOK ==
  /\ E.runs >= 1 /\ E.returned = E.runs /\ E.oks + E.errs + E.panics = E.returned
  /\ CleanOutcome([returned |-> TRUE, panicked |-> E.panics > 0, leaked |-> E.leaks])

ParseOK ==
  /\ E.runs >= 1
  /\ E.returned = E.runs                                    \* no run hung (watchdog)
  /\ E.oks + E.errs + E.panics = E.returned
  /\ E.panics = 0
  /\ E.oks > 0 => GoodOutcome(RunObs(TRUE, FALSE, TRUE, 0))
  /\ E.errs > 0 => /\ GoodOutcome(RunObs(TRUE, FALSE, FALSE, E.minline))
                   /\ GoodOutcome(RunObs(TRUE, FALSE, FALSE, E.maxline))
  /\ E.leaks = 0

RoundTripOK ==
  /\ E.xpanic = "" /\ E.ppanic = "" /\ E.returned /\ E.leaks = 0
  /\ Conforms(E.shape, E.before)
  /\ E.perr = ""
  /\ E.after = E.before
  /\ FormatsKept(E.before, E.bfmt, E.afmt)
  /\ Dense(E.bci) /\ Dense(E.aci)

MeanOK ==
  /\ E.mid \in 1..Len(Descs)
  /\ E.text = Render(Descs[E.mid]) /\ E.font = MeaningFont
  /\ E.ppanic = "" /\ E.returned /\ E.leaks = 0
  /\ IF MayFail(Descs[E.mid]) /\ E.perr # "" THEN TRUE
     ELSE E.perr = "" /\ E.got = Meaning(Descs[E.mid]) /\ Dense(E.gci)

NumOK  == /\ E.ppanic = "" /\ E.returned /\ E.leaks = 0
          /\ E.nk \in NumKinds /\ E.nl \in 1..Len(Lits) /\ E.text = NumText(E.nk, E.nl) /\ E.font = MeaningFont
          /\ NumLaw(E.nk, E.nl, E.perr, E.got) /\ Dense(E.gci)
ErrLineOK == /\ E.ppanic = "" /\ E.returned /\ E.leaks = 0
             /\ E.text = ErrText(E.et, E.ep, E.ex) /\ E.font = MeaningFont
             /\ ErrLaw(E.et, E.ep, E.ex, E.perr # "", E.line, E.item)

\* a text the parser accepts denotes a lookup list the language can express: describing that list and
\* parsing the description gives the same list again (same formats, dense coverage tables)
ReparseOK == /\ E.xpanic = "" /\ E.ppanic = "" /\ E.returned /\ E.leaks = 0
             /\ Dense(E.ci1)
             /\ E.perr2 = ""
             /\ E.l2 = E.l1 /\ E.f2 = E.f1 /\ Dense(E.ci2)

EventOK == CASE E.ev = "parse" -> IF E.pre = "ok" THEN ParseOK ELSE EarlyOK
             [] E.ev = "rt"    -> RoundTripOK
             [] E.ev = "mean"  -> MeanOK
             [] E.ev = "num"   -> NumOK
             [] E.ev = "errline" -> ErrLineOK
             [] E.ev = "reparse" -> ReparseOK
             [] OTHER          -> FALSE

(* Every line is consumed; a line that the property does not allow is printed and counted, *)
(* so that one validation run names all offending observations.                            *)
Next == /\ l <= Len(Trace)
        /\ IF EventOK THEN TRUE
           ELSE PrintT(<<"REJECTED_AT_LINE", l>>) /\ TLCSet(2, TLCGet(2) + 1)
        /\ Consume
Spec == Init /\ [][Next]_vars

Accepted == IF TLCGet(1) = Len(Trace) /\ TLCGet(2) = 0 THEN TRUE
            ELSE PrintT(<<"REJECTED_COUNT", TLCGet(2), "CONSUMED", TLCGet(1), "OF", Len(Trace)>>) /\ FALSE
=============================================================================
