----------------------------- MODULE Type2Glyph -----------------------------
(***************************************************************************)
(* C04, GlyphGen: the domain of "compiling glyphs to Type 2 preserves      *)
(* them".  A behaviour builds one font: 1..MaxGlyphs glyph descriptions    *)
(* (moves, lines, curves, stem hints, hint and counter masks, advance      *)
(* width).  Coordinates are absolute, in units of 1/GUnit (GUnit = 1:      *)
(* integers up to 32000; GUnit = 2^18: fractional values finer than the    *)
(* 16.16 grid, |v| <= 2000).  The deltas come from a boundary set chosen   *)
(* so that every operator form of the encoder is reachable: zero/non-zero  *)
(* patterns for the h/v forms, flex-compatible curve pairs, runs that      *)
(* cross the 48-entry stack limit, 0..96 stems, masks first / in the       *)
(* middle, width patterns with equal, unequal and fractional widths.       *)
(* The harness builds a cff.Font from each case, calls its Write method    *)
(* and records the emitted charstrings; Type2Trace.tla judges them.        *)
(***************************************************************************)
EXTENDS Integers, Sequences, FiniteSets, TLC, Json, SequencesExt

CONSTANTS GUnit,      \* 1 or 262144
          MaxG,       \* bound on absolute coordinates (units)
          D,          \* delta boundary set (units), contains 0
          SD,         \* stem delta set (units)
          WPats,      \* width patterns: sequences of widths applied cyclically to the glyphs
          StemPlans,  \* set of <<nH, nV>>
          MaxGlyphs, MaxSteps,
          LineRuns, CurveRuns,  \* run lengths
          FarJumps,   \* allow jumps between corners of the coordinate range (deltas up to 2*MaxG)
          SweepOnly,  \* TRUE: every glyph after the first is exactly one stack-limit sweep (enumerated)
          SweepA, SweepB,  \* delta magnitudes used by the sweeps (units)
          SweepKinds, \* which sweeps are enabled: "count", "delta", "value"
          ValuePos,   \* operand positions swept by the value sweep
          Sim

Abs(v) == IF v < 0 THEN -v ELSE v
Pick(S) == IF Sim /\ S # {} THEN {RandomElement(S)} ELSE S
Rnd(S)  == IF Sim THEN RandomElement(S) ELSE CHOOSE v \in S : TRUE
NZ == D \ {0}

VARIABLES font,   \* finished glyphs
          g,      \* glyph under construction: [w, hs, vs, cmds]
          x, y,   \* current point
          st,     \* "new" (choose stems) | "body" | "done"
          steps, ng, wp, moved
vars == <<font, g, x, y, st, steps, ng, wp, moved>>

G0 == [w |-> 0, hs |-> <<>>, vs |-> <<>>, cmds |-> <<>>]

Init == /\ font = <<>> /\ g = G0 /\ x = 0 /\ y = 0 /\ st = "new" /\ steps = 0 /\ moved = FALSE
        /\ ng \in 1..MaxGlyphs /\ wp \in WPats

NStems == (Len(g.hs) + Len(g.vs)) \div 2
MaskLen == (NStems + 7) \div 8
InRange(v) == Abs(v) <= MaxG

\* ---- stems: 2n increasing-or-not edges built from deltas (edge hints have negative widths)
\* wide > 0 (stem plans <<nh, nv, wide>>): the first edge lies at -20000 and delta number `wide` is 40000 -- a
\* stem, or a gap between stems, wider than the largest Type 2 operand, which the encoder has to write as a sum
\* (one more stack entry while the other 2n - 1 operands are waiting)
Edges(n, dummy, wide) ==
  LET step(acc, i) == Append(acc, (IF acc = <<>> THEN 0 ELSE acc[Len(acc)])
                                   + (IF wide = 0 THEN Rnd(SD)
                                      ELSE IF i = wide THEN 40000 * GUnit
                                      ELSE IF i = 1 THEN -20000 * GUnit
                                      ELSE Rnd({-3 * GUnit, 2 * GUnit, 5 * GUnit})))
  IN FoldLeft(step, <<>>, [i \in 1..(2 * n) |-> i])
MaskBytes(dummy) == [i \in 1..MaskLen |-> Rnd({0, 1, 128, 255, 170})]

StartGlyph ==
  /\ st = "new"
  /\ \E p \in Pick(IF SweepOnly /\ Len(font) = 0 THEN {<<0, 0>>} ELSE StemPlans) :
       g' = [w |-> wp[(Len(font) % Len(wp)) + 1],
             hs |-> Edges(p[1], Len(font), IF Len(p) = 3 /\ p[3] <= 2 * p[1] THEN p[3] ELSE 0),
             vs |-> Edges(p[2], Len(font) + 1, IF Len(p) = 3 /\ p[3] > 2 * p[1] THEN p[3] - 2 * p[1] ELSE 0),
             cmds |-> <<>>]
  /\ st' = "body" /\ x' = 0 /\ y' = 0 /\ steps' = 0 /\ moved' = FALSE
  /\ UNCHANGED <<font, ng, wp>>

Body == st = "body" /\ steps < MaxSteps
Add(cs, nx, ny) == /\ g' = [g EXCEPT !.cmds = @ \o cs] /\ x' = nx /\ y' = ny /\ steps' = steps + 1
                   /\ UNCHANGED <<font, st, ng, wp>>

Mask ==
  /\ Body /\ NStems > 0 /\ ~SweepOnly
  /\ \E k \in (IF moved THEN {"hm"} ELSE {"hm", "cm"}) :
       Add(<< <<k>> \o MaskBytes(steps) >>, x, y)
  /\ UNCHANGED moved

Move ==
  /\ Body /\ ~SweepOnly
  /\ \E dx \in Pick(D), dy \in Pick(D) :
       /\ InRange(x + dx) /\ InRange(y + dy)
       /\ Add(<< <<"m", x + dx, y + dy>> >>, x + dx, y + dy)
  /\ moved' = TRUE

\* jump to a corner of the coordinate range (the next delta can then be twice the range)
Far ==
  /\ Body /\ FarJumps /\ ~SweepOnly
  /\ \E k \in (IF moved THEN {"m", "l"} ELSE {"m"}) : \E fx \in Pick({-MaxG, MaxG}), fy \in Pick({-MaxG, 0, MaxG}) :
       Add(<< <<k, fx, fy>> >>, fx, fy)
  /\ moved' = TRUE

LineDelta(kind, a, b) == CASE kind = "gen" -> <<a, b>> [] kind = "h" -> <<a, 0>> [] kind = "v" -> <<0, b>>
                           [] kind = "zero" -> <<0, 0>>
Line ==
  /\ Body /\ moved /\ ~SweepOnly
  /\ \E kind \in Pick({"gen", "gen", "h", "v", "zero"} \cup {"h", "v"}) : \E a \in Pick(NZ), b \in Pick(NZ) :
       LET d == LineDelta(kind, a, b) IN
       /\ InRange(x + d[1]) /\ InRange(y + d[2])
       /\ Add(<< <<"l", x + d[1], y + d[2]>> >>, x + d[1], y + d[2])
  /\ UNCHANGED moved

\* six values of S: one random vector in simulation, the constant vectors when enumerating
Six(S) == IF Sim THEN {[i \in 1..6 |-> RandomElement(S)]} ELSE {[i \in 1..6 |-> v] : v \in S}
\* relative curve deltas for a zero/non-zero pattern
CurvePats == {"gen", "hv", "vh", "hh", "vv", "hvx", "vhx", "hhy", "vvx", "any"}
\* n: six non-zero values, z: six arbitrary values (bound by the caller: TLC re-evaluates LET
\* definitions at every use, so random picks must be bound by a quantifier)
CurveDelta(p, nn, zz) ==
  LET n(i) == nn[i]  z(i) == zz[i] IN
  CASE p = "gen" -> <<n(1), n(2), n(3), n(4), n(5), n(6)>>
    [] p = "any" -> <<z(1), z(2), z(3), z(4), z(5), z(6)>>
    [] p = "hv"  -> <<n(1), 0, z(3), z(4), 0, n(6)>>
    [] p = "vh"  -> <<0, n(2), z(3), z(4), n(5), 0>>
    [] p = "hh"  -> <<n(1), 0, z(3), z(4), n(5), 0>>
    [] p = "vv"  -> <<0, n(2), z(3), z(4), 0, n(6)>>
    [] p = "hvx" -> <<n(1), 0, z(3), z(4), n(5), n(6)>>
    [] p = "vhx" -> <<0, n(2), z(3), z(4), n(5), n(6)>>
    [] p = "hhy" -> <<n(1), n(2), z(3), z(4), n(5), 0>>
    [] p = "vvx" -> <<n(1), n(2), z(3), z(4), 0, n(6)>>

\* absolute curve command from relative deltas at (px, py); ok = in range
Abscurve(px, py, d) ==
  LET ax == px + d[1]  ay == py + d[2]  bx == ax + d[3]  by == ay + d[4]  cx == bx + d[5]  cy == by + d[6] IN
  [cmd |-> <<"c", ax, ay, bx, by, cx, cy>>, px |-> cx, py |-> cy,
   ok |-> InRange(ax) /\ InRange(ay) /\ InRange(bx) /\ InRange(by) /\ InRange(cx) /\ InRange(cy)]

Curve ==
  /\ Body /\ moved /\ ~SweepOnly
  /\ \E p \in Pick(CurvePats) : \E nn \in Six(NZ), zz \in Six(D) :
       LET r == Abscurve(x, y, CurveDelta(p, nn, zz)) IN
       /\ r.ok /\ Add(<<r.cmd>>, r.px, r.py)
  /\ UNCHANGED moved

\* two curves that qualify for hflex / hflex1 (the joining point and both ends on one height)
FlexPair ==
  /\ Body /\ moved /\ ~SweepOnly
  /\ \E k \in Pick({"hflex", "hflex1"}) : \E n1 \in Six(NZ), n2 \in Six(NZ) :
       LET n(i) == IF i <= 6 THEN n1[i] ELSE n2[i - 6]
           dy2 == n(1)  dy1 == n(2)  dy5 == n(3)
           d1 == IF k = "hflex" THEN <<n(4), 0, n(5), dy2, n(6), 0>> ELSE <<n(4), dy1, n(5), dy2, n(6), 0>>
           d2 == IF k = "hflex" THEN <<n(7), 0, n(8), -dy2, n(9), 0>>
                 ELSE <<n(7), 0, n(8), dy5, n(9), -(dy1 + dy2 + dy5)>>
           r1 == Abscurve(x, y, d1)
           r2 == Abscurve(r1.px, r1.py, d2)
       IN /\ r1.ok /\ r2.ok
          /\ FarJumps \/ Abs(dy1 + dy2 + dy5) \div GUnit < 32767   \* the closing delta is a sum of three
          /\ Add(<<r1.cmd, r2.cmd>>, r2.px, r2.py)
  /\ UNCHANGED moved

\* runs of k segments that cross the operand-stack limit (48 operands = 24 lines, 8 curves, ...)
RunKinds == {"lines", "hvlines", "vhlines", "curves", "hvcurves", "vhcurves", "hhcurves", "vvcurves", "mixed"}
RunSeg(kind, i, nn, zz) ==   \* relative deltas of segment i: a line <<dx,dy>> or a curve 6-tuple
  LET s == IF i % 2 = 0 THEN 1 ELSE -1
      a == s * Abs(nn[(i % 3) + 1])  b == -s * Abs(nn[(i % 2) + 4])  c == zz[(i % 6) + 1] IN
  CASE kind = "lines"    -> <<a, b>>
    [] kind = "hvlines"  -> IF i % 2 = 1 THEN <<a, 0>> ELSE <<0, b>>
    [] kind = "vhlines"  -> IF i % 2 = 1 THEN <<0, a>> ELSE <<b, 0>>
    [] kind = "curves"   -> <<a, b, c, a, b, a>>
    [] kind = "hvcurves" -> IF i % 2 = 1 THEN <<a, 0, c, b, 0, b>> ELSE <<0, a, b, c, b, 0>>
    [] kind = "vhcurves" -> IF i % 2 = 1 THEN <<0, a, b, c, b, 0>> ELSE <<a, 0, c, b, 0, b>>
    [] kind = "hhcurves" -> <<a, 0, c, b, a, 0>>
    [] kind = "vvcurves" -> <<0, a, b, c, 0, a>>
    [] kind = "mixed"    -> IF i % 3 = 0 THEN <<a, b, c, a, b, a>> ELSE <<a, b>>

Run ==
  /\ Body /\ moved /\ ~SweepOnly
  /\ \E kind \in Pick(RunKinds) :
     \E k \in Pick(IF kind \in {"lines", "hvlines", "vhlines", "mixed"} THEN LineRuns ELSE CurveRuns) :
     \E nn \in Six(NZ), zz \in Six(D) :
       LET step(acc, i) ==
             IF ~acc.ok THEN acc
             ELSE LET d == RunSeg(kind, i, nn, zz) IN
                  IF Len(d) = 2
                  THEN LET nx == acc.px + d[1]  ny == acc.py + d[2] IN
                       [px |-> nx, py |-> ny, ok |-> InRange(nx) /\ InRange(ny),
                        out |-> Append(acc.out, <<"l", nx, ny>>)]
                  ELSE LET r == Abscurve(acc.px, acc.py, d) IN
                       [px |-> r.px, py |-> r.py, ok |-> r.ok, out |-> Append(acc.out, r.cmd)]
           r == FoldLeft(step, [px |-> x, py |-> y, ok |-> TRUE, out |-> <<>>], [i \in 1..k |-> i])
       IN /\ r.ok /\ Add(r.out, r.px, r.py)
  /\ UNCHANGED moved

(***************************************************************************)
(* Systematic stack-limit sweep.  For every operator form the encoder can  *)
(* emit, one isolated subpath (move, run, move) whose single-operator      *)
(* encoding would need limit-2 .. limit+2 operands: k diagonal lines       *)
(* (rlineto), k alternating h/v lines, k curves of each aligned family,    *)
(* k lines + curve (rlinecurve), k curves + line (rcurveline).  Variants   *)
(* put a segment of another family first / in the middle / last, so that   *)
(* the optimiser has alternatives; the stem plans and width patterns of    *)
(* the sweep configuration put a width operand on the first operator.      *)
(***************************************************************************)
SweepForms == {"rlineto", "hvlineto", "vhlineto", "rrcurveto", "rlinecurve", "rcurveline",
               "hhcurveto", "vvcurveto", "hvcurveto", "vhcurveto"}
SweepK(f) == CASE f = "rlineto" -> 21..27                       \* 2k operands, limit k = 24
               [] f \in {"hvlineto", "vhlineto"} -> 45..51      \* k operands
               [] f = "rrcurveto" -> 6..10                      \* 6k, limit k = 8
               [] f = "rlinecurve" -> 19..26                    \* 2k + 6, limit k = 21
               [] f = "rcurveline" -> 5..9                      \* 6k + 2, limit k = 7
               [] OTHER -> 10..14                               \* 4k (+1), limit k = 12
SweepVars == {"plain", "first", "mid", "tail"}

SweepSeg(f, i, a, b) ==          \* segment i of the run proper (relative deltas)
  LET sg == IF i % 2 = 0 THEN 1 ELSE -1  p == sg * a  q == -sg * b IN
  CASE f \in {"rlineto", "rlinecurve"} -> <<p, q>>
    [] f = "hvlineto"  -> IF i % 2 = 1 THEN <<p, 0>> ELSE <<0, q>>
    [] f = "vhlineto"  -> IF i % 2 = 1 THEN <<0, p>> ELSE <<q, 0>>
    [] f \in {"rrcurveto", "rcurveline"} -> <<p, q, p, q, p, q>>
    [] f = "hhcurveto" -> <<p, 0, q, p, q, 0>>
    [] f = "vvcurveto" -> <<0, p, q, p, 0, q>>
    [] f = "hvcurveto" -> IF i % 2 = 1 THEN <<p, 0, q, p, 0, q>> ELSE <<0, p, q, p, q, 0>>
    [] f = "vhcurveto" -> IF i % 2 = 1 THEN <<0, p, q, p, q, 0>> ELSE <<p, 0, q, p, 0, q>>
SweepAlt(f, i, a, b) ==          \* a segment of another family at position i
  LET sg == IF i % 2 = 0 THEN 1 ELSE -1  p == sg * a  q == -sg * b IN
  CASE f \in {"rlineto", "rlinecurve"} -> <<p, 0>>
    [] f \in {"hvlineto", "vhlineto"} -> <<p, q>>
    [] f \in {"rrcurveto", "rcurveline"} -> <<p, 0, q, p, 0, q>>
    [] f = "hhcurveto" -> <<p, q, q, p, q, 0>>          \* leading dy1 when first
    [] f = "vvcurveto" -> <<p, q, q, p, 0, q>>          \* leading dx1 when first
    [] f = "hvcurveto" -> IF i % 2 = 1 THEN <<p, 0, q, p, p, q>> ELSE <<0, p, q, p, q, q>>   \* trailing operand when last
    [] f = "vhcurveto" -> IF i % 2 = 1 THEN <<0, p, q, p, q, q>> ELSE <<p, 0, q, p, p, q>>
SweepTrail(f, v, a, b) ==        \* the segment that closes the mixed forms
  CASE f = "rlinecurve" -> IF v = "tail" THEN << <<a, 0, b, a, 0, b>> >> ELSE << <<a, b, a, b, a, b>> >>
    [] f = "rcurveline" -> IF v = "tail" THEN << <<a, 0>> >> ELSE << <<a, b>> >>
    [] OTHER -> <<>>

Sweep ==
  /\ Body /\ "count" \in SweepKinds
  /\ SweepOnly => (steps = 0 /\ Len(font) > 0)
  /\ \E f \in Pick(SweepForms) : \E k \in Pick(SweepK(f)) : \E v \in Pick(SweepVars) :
     \E a \in Pick(SweepA), b \in Pick(SweepB) :
       LET pos == CASE v = "first" -> 1 [] v = "mid" -> (k + 1) \div 2
                    [] v = "tail" -> IF f \in {"rlinecurve", "rcurveline"} THEN 0 ELSE k
                    [] OTHER -> 0
           segs == [i \in 1..k |-> IF i = pos THEN SweepAlt(f, i, a, b) ELSE SweepSeg(f, i, a, b)]
                   \o SweepTrail(f, v, a, b)
           step(acc, d) ==
             IF ~acc.ok THEN acc
             ELSE IF Len(d) = 2
             THEN LET nx == acc.px + d[1]  ny == acc.py + d[2] IN
                  [px |-> nx, py |-> ny, ok |-> InRange(nx) /\ InRange(ny),
                   out |-> Append(acc.out, <<"l", nx, ny>>)]
             ELSE LET r == Abscurve(acc.px, acc.py, d) IN
                  [px |-> r.px, py |-> r.py, ok |-> r.ok, out |-> Append(acc.out, r.cmd)]
           r == FoldLeft(step, [px |-> 0, py |-> 0, ok |-> TRUE, out |-> <<>>], segs)
       IN /\ r.ok
          /\ (SweepOnly /\ NStems > 2) => (f = "rlineto" /\ k = 21 /\ v = "plain")
          /\ Add(<< <<"m", 0, 0>> >> \o r.out \o << <<"m", a, b>> >>, a, b)
  /\ moved' = TRUE

(***************************************************************************)
(* Number-range sweep: one coordinate delta of exactly 32767, 32768, 32769 *)
(* (the largest Type 2 number is 32767.99998), 40000, 40001 (an even and an *)
(* odd integer part), 63999 or 64000 (corner to corner), of either sign, on x, y or both, as a move, a line, two lines  *)
(* in a row, the first or the last delta of a curve.  Both end points are  *)
(* inside the coordinate range.                                            *)
(***************************************************************************)
SweepDeltas == {32767, 32768, 32769, 40000, 40001, 63999, 64000}
\* with a unit finer than 1 (quarters: GUnit = 4, exact in 16.16) the delta also gets every fractional part:
\* the sum form must carry the fraction of even and of odd integer parts (32767.75 still fits one operand)
FracParts == IF GUnit = 1 THEN {0} ELSE {0, 1, GUnit \div 2, GUnit - 1}
DeltaSweep ==
  /\ Body /\ (SweepOnly \/ FarJumps) /\ "delta" \in SweepKinds
  /\ MaxG \div GUnit >= 32000                     \* integer configuration only (32-bit arithmetic)
  /\ SweepOnly => (steps = 0 /\ Len(font) > 0 /\ NStems <= 2)
  /\ \E d0 \in Pick(SweepDeltas), fr \in Pick(FracParts), sg \in Pick({-1, 1}), ax \in Pick({"x", "y", "xy"}),
        kind \in Pick({"m", "l", "ll", "c1", "c3"}) :
       LET d  == sg * (d0 * GUnit + fr)
           dx == IF ax \in {"x", "xy"} THEN d ELSE 0
           dy == IF ax \in {"y", "xy"} THEN d ELSE 0
           sx == -(dx \div 2)   sy == -(dy \div 2)
           ex == sx + dx        ey == sy + dy
           u  == GUnit
           cs == CASE kind = "m"  -> << <<"m", sx, sy>>, <<"m", ex, ey>> >>
                   [] kind = "l"  -> << <<"m", sx, sy>>, <<"l", ex, ey>>, <<"m", 0, 0>> >>
                   [] kind = "ll" -> << <<"m", sx, sy>>, <<"l", ex, ey>>, <<"l", sx, sy>>, <<"m", 0, 0>> >>
                   [] kind = "c1" -> << <<"m", sx, sy>>,
                                        <<"c", ex, ey, ex - 5 * sg * u, ey - 5 * sg * u, ex - 9 * sg * u, ey - sg * u>>,
                                        <<"m", 0, 0>> >>
                   [] kind = "c3" -> << <<"m", sx + 9 * sg * u, sy + sg * u>>,
                                        <<"c", sx + 5 * sg * u, sy + 5 * sg * u, sx, sy, ex, ey>>,
                                        <<"m", 0, 0>> >>
           last == cs[Len(cs)]
       IN /\ \A i \in 1..Len(cs) : \A j \in 2..Len(cs[i]) : InRange(cs[i][j])
          /\ Add(cs, last[2], last[3])
  /\ moved' = TRUE

(***************************************************************************)
(* Operand-value sweep.  A FULL operator of every form (48 operands; 44    *)
(* for rcurveline) in which exactly one operand, at position p = 1..48,    *)
(* is a number that does not fit one plain operand: in the integer         *)
(* configuration a delta of magnitude >= 32768 (the encoder has to write   *)
(* it as a sum and needs a second stack entry while doing so), in the      *)
(* fractional configuration a value that needs the five-byte 16.16 form.   *)
(* Both starting orientations of the alternating forms are forms of their  *)
(* own.  The emitted program must stay within 48 stack entries at every    *)
(* step and reproduce the path (Type2Trace.tla).                           *)
(***************************************************************************)
FullK(f) == CASE f = "rlineto" -> 24 [] f \in {"hvlineto", "vhlineto"} -> 48 [] f = "rrcurveto" -> 8
              [] f = "rlinecurve" -> 21 [] f = "rcurveline" -> 7 [] OTHER -> 12
FullOps(f) == IF f = "rcurveline" THEN 44 ELSE 48
\* the segment and the component of its relative-delta tuple that operand p of the operator is
Nth(t, n) == t[n]
OperandAt(f, p) ==
  LET q  == p - 1
      i4 == (q \div 4) + 1
      s4 == (q % 4) + 1
      i2 == (q \div 2) + 1
      c2 == (q % 2) + 1
      i6 == (q \div 6) + 1
      c6 == (q % 6) + 1
      hstart == ((i4 % 2) = 1) = (f = "hvcurveto")
  IN CASE f = "rlineto"    -> <<i2, c2>>
       [] f = "hvlineto"   -> <<p, c2>>
       [] f = "vhlineto"   -> <<p, 3 - c2>>
       [] f = "rrcurveto"  -> <<i6, c6>>
       [] f = "rlinecurve" -> IF p <= 42 THEN <<i2, c2>> ELSE <<22, p - 42>>
       [] f = "rcurveline" -> IF p <= 42 THEN <<i6, c6>> ELSE <<8, p - 42>>
       [] f = "hhcurveto"  -> <<i4, Nth(<<1, 3, 4, 5>>, s4)>>
       [] f = "vvcurveto"  -> <<i4, Nth(<<2, 3, 4, 6>>, s4)>>
       [] OTHER -> <<i4, IF hstart THEN Nth(<<1, 3, 4, 6>>, s4) ELSE Nth(<<2, 3, 4, 5>>, s4)>>

ValueSweep ==
  /\ Body /\ "value" \in SweepKinds
  /\ SweepOnly => (steps = 0 /\ Len(font) > 0 /\ NStems = 0 /\ Len(wp) > 1 /\ wp[1] # wp[2])
  /\ \E f \in Pick(SweepForms) : \E p \in Pick({q \in ValuePos : q <= FullOps(f)}) :
     \E a \in Pick(SweepA), b \in Pick(SweepB) :
       LET k    == FullK(f)
           big  == MaxG \div GUnit >= 32000          \* integer configuration
           sg   == IF p % 2 = 0 THEN -1 ELSE 1
           val  == IF big THEN sg * (32768 + p) * GUnit ELSE sg * (a + GUnit \div 2)
           at   == OperandAt(f, p)
           base == [i \in 1..k |-> SweepSeg(f, i, a, b)] \o SweepTrail(f, "plain", a, b)
           segs == [base EXCEPT ![at[1]][at[2]] = val]
           onx  == IF Len(base[at[1]]) = 2 THEN at[2] = 1 ELSE at[2] % 2 = 1
           sx   == IF big /\ onx THEN -(val \div 2) ELSE 0
           sy   == IF big /\ ~onx THEN -(val \div 2) ELSE 0
           step(acc, d) ==
             IF ~acc.ok THEN acc
             ELSE IF Len(d) = 2
             THEN LET nx == acc.px + d[1]  ny == acc.py + d[2] IN
                  [px |-> nx, py |-> ny, ok |-> InRange(nx) /\ InRange(ny),
                   out |-> Append(acc.out, <<"l", nx, ny>>)]
             ELSE LET r == Abscurve(acc.px, acc.py, d) IN
                  [px |-> r.px, py |-> r.py, ok |-> r.ok, out |-> Append(acc.out, r.cmd)]
           r == FoldLeft(step, [px |-> sx, py |-> sy, ok |-> TRUE, out |-> <<>>], segs)
       IN /\ r.ok
          /\ Add(<< <<"m", sx, sy>> >> \o r.out \o << <<"m", a, b>> >>, a, b)
  /\ moved' = TRUE

EndGlyph ==
  /\ st = "body"
  /\ SweepOnly => (steps = MaxSteps \/ Len(font) = 0)      \* the first glyph (.notdef) stays empty
  /\ font' = Append(font, g) /\ g' = G0
  /\ st' = IF Len(font) + 1 = ng THEN "done" ELSE "new"
  /\ UNCHANGED <<x, y, steps, ng, wp, moved>>

Next == StartGlyph \/ Mask \/ Move \/ Far \/ Line \/ Curve \/ FlexPair \/ Run \/ Sweep \/ DeltaSweep \/ ValueSweep \/ EndGlyph
Spec == Init /\ [][Next]_vars

(***************************************************************************)
(* Well-formedness of the generated glyph descriptions (the domain of the  *)
(* property), checked by TLC.                                              *)
(***************************************************************************)
AllGlyphs == IF st = "body" THEN Append(font, g) ELSE font
CoordsOK ==
  \A i \in 1..Len(AllGlyphs) : \A j \in 1..Len(AllGlyphs[i].cmds) :
     LET c == AllGlyphs[i].cmds[j] IN
     c[1] \in {"m", "l", "c"} => \A k \in 2..Len(c) : InRange(c[k])
MasksOK ==
  \A i \in 1..Len(AllGlyphs) : \A j \in 1..Len(AllGlyphs[i].cmds) :
     LET c == AllGlyphs[i].cmds[j]  gl == AllGlyphs[i] IN
     c[1] \in {"hm", "cm"} => /\ Len(gl.hs) + Len(gl.vs) > 0
                              /\ Len(c) - 1 = ((Len(gl.hs) + Len(gl.vs)) \div 2 + 7) \div 8
MoveFirst ==   \* the first path command of every glyph is a move; counter masks only before it
  \A i \in 1..Len(AllGlyphs) :
     LET cs == AllGlyphs[i].cmds
         P == {j \in 1..Len(cs) : cs[j][1] \in {"m", "l", "c"}} IN
     /\ (P # {} => cs[CHOOSE j \in P : \A q \in P : j <= q][1] = "m")
     /\ \A j \in 1..Len(cs) : cs[j][1] = "cm" => \A q \in P : q > j
StemsOK == \A i \in 1..Len(AllGlyphs) : Len(AllGlyphs[i].hs) % 2 = 0 /\ Len(AllGlyphs[i].vs) % 2 = 0
                                        /\ Len(AllGlyphs[i].hs) + Len(AllGlyphs[i].vs) <= 192

(***************************************************************************)
(* Width selection.  How the two width defaults are chosen is the          *)
(* encoder's business and no part of the property; the rule of             *)
(* cff/write.go (most frequent integer width; mean of the others, kept     *)
(* 107 away from their extremes) is modelled here ONLY to find inputs: the *)
(* width-selection sweep enumerates width sequences and TLC classifies     *)
(* each by the special value the rule lands on, so that every class        *)
(* (nominal = 0, nominal clamped below / above, default = 0, default =     *)
(* nominal, default # 0 with nominal 0, all equal, one glyph, negative)    *)
(* is known to be hit.  The verdict never uses this model.                 *)
(***************************************************************************)
SelDefault(ws) ==     \* first width to reach the highest count, in glyph order
  LET Count(w, n) == Cardinality({j \in 1..n : ws[j] = w})
      step(acc, i) == IF Count(ws[i], i) > acc.c THEN [w |-> ws[i], c |-> Count(ws[i], i)] ELSE acc
  IN FoldLeft(step, [w |-> 0, c |-> 0], [i \in 1..Len(ws) |-> i]).w
RoundDiv(a, n) == IF a >= 0 THEN (2 * a + n) \div (2 * n) ELSE -((2 * (-a) + n) \div (2 * n))
WidthClasses(ws) ==
  IF Len(ws) = 0 \/ GUnit # 1 THEN {}
  ELSE IF Len(ws) = 1 THEN {"one glyph"} \cup (IF ws[1] < 0 THEN {"negative"} ELSE {})
  ELSE LET d == SelDefault(ws)
           O == {j \in 1..Len(ws) : ws[j] # d}
       IN (IF \E j \in 1..Len(ws) : ws[j] < 0 THEN {"negative"} ELSE {})
          \cup (IF d = 0 THEN {"default 0"} ELSE {})
          \cup IF O = {} THEN {"all equal"}
               ELSE LET sum == FoldLeft(LAMBDA tot, j : tot + ws[j], 0, SetToSeq(O))
                        mn == CHOOSE v \in {ws[j] : j \in O} : \A j \in O : v <= ws[j]
                        mx == CHOOSE v \in {ws[j] : j \in O} : \A j \in O : v >= ws[j]
                        raw == RoundDiv(sum, Len(ws))
                        nom == IF raw < mn + 107 THEN mn + 107 ELSE IF raw > mx - 107 THEN mx - 107 ELSE raw
                    IN (IF raw < mn + 107 THEN {"nominal clamped to min+107"}
                        ELSE IF raw > mx - 107 THEN {"nominal clamped to max-107"} ELSE {"nominal unclamped"})
                       \cup (IF nom = 0 THEN {"nominal 0"} ELSE {})
                       \cup (IF nom = 0 /\ d # 0 THEN {"default non-zero with nominal 0"} ELSE {})
                       \cup (IF nom = d THEN {"default equals nominal"} ELSE {})

Case == [gunit |-> GUnit, glyphs |-> font, cls |-> WidthClasses([i \in 1..Len(font) |-> font[i].w])]
Emit == st = "done" => PrintT(<<"CASE", ToJson(Case)>>)
=============================================================================
