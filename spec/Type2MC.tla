------------------------------ MODULE Type2MC ------------------------------
(* Constant definitions for the configurations of Type2.tla (cfg files cannot hold sets of
   strings or computed values). *)
EXTENDS Type2

U == 65536
AllGenOps == ClearOps \cup {"deep10"}
AllFaults == {"underflow", "overflow", "noendchar", "badsubr", "drawfirst", "deep", "maskshort"}
LenientFaults == {"pathunderflow"}
DrawFirstOnly == {"drawfirst"}

\* ---- integer programs (Unit = 1)
\* (the large values let the pen leave the operand range: positions beyond 32000 / 32767 / 65535)
CoarseVals  == {-3000, -1132, -1131, -108, -107, -1, 0, 1, 107, 108, 1131, 1132, 2500,
                767, 20000, -20000, 32000, -32000}
CoarseSVals == {-3, 0, 2, 5, 100}
CoarseDWs   == {0, 100, 500, 2000}        \* one per DICT integer size class (1, 2, 3 bytes) and absent
CoarseNWs   == {0, 600, -50, -1200}
AllSizes    == {0, 1, 1239, 1240, 33899, 33900, 40000}
SomeBytes   == {0, 1, 14, 28, 128, 255}

\* ---- 16.16 programs (Unit = 65536)
FineVals  == {-1132 * U, -108 * U - 1, -107 * U, -U, -1, 0, 1, U \div 2, U, 3 * U + U \div 4,
              107 * U, 108 * U, 1131 * U + 32768, 1132 * U, -700 * U - 16384}
FineSVals == {-3 * U, 0, 2 * U, U \div 2, 5 * U + U \div 4}
FineDWs   == {0, 500 * U + U \div 2, 1000 * U}
FineNWs   == {0, 600 * U + U \div 4, -50 * U}

\* ---- exhaustive configurations: tiny boundary sets
TinyVals  == {-108, 0, 3}
TinySVals == {-2, 3}
TinySizes == {0, 1240}
LineOps   == MoveOps \cup {"rlineto", "hlineto", "vlineto", "endchar"}
CurveOps  == {"rmoveto", "rrcurveto", "hhcurveto", "vvcurveto", "hvcurveto", "vhcurveto", "endchar"}
HintOps   == StemOps \cup MaskOps \cup {"hmoveto", "endchar"}
MixOps    == {"vmoveto", "rcurveline", "rlinecurve", "hflex", "endchar"}
FlexOps   == {"hmoveto", "flex", "flex1", "hflex1", "endchar"}
OneVal    == {7}
OneSize   == {0}
ArithFamOps == {"hmoveto", "endchar"}
TwoVals   == {-2, 5}
NoFaults  == {}
OneGlyph  == {1}
TwoGlyphs == {2}
TieFeats  == {"mul", "div"}
OneFineVal == {7 * U + 1}
ThreeGlyphs == {3}
\* operators with interpreter-level state that must not leak from one charstring to the next
StateFeats == {"get", "put", "hstem", "vstemhm", "hintmask", "cntrmask", "random", "callsubr"}
StorageFeats == {"get", "hstem", "hintmask"}
FontNGs   == {1, 3}      \* half of the simulated fonts have three glyphs
FaultNGs  == {1, 2}      \* the faulty glyph alone, or after a well-formed one
NoExcl    == {}
MixOnly   == {"mix"}
AllFeats  == DrawOps \cup StemOps \cup MaskOps \cup ArithOps \cup CallFeats \cup {"base", "endchar"}
PathFeats == DrawOps \cup StemOps \cup MaskOps \cup {"base"}    \* what the encoder of C04 can emit
ExFeats   == AllFeats \ {"deep10"}    \* the ten-deep nesting is left to simulation (state space)
=============================================================================
