CONSTANTS
  N = 2
  K = 2
  Ops <- OpNames
  Variant = "ok"
  MaxPar = 2
  MaxOps = 0
  Gen = TRUE
INIT Init
NEXT Next
INVARIANT Emit
CHECK_DEADLOCK FALSE
