---------------------------- MODULE CFFLayoutGen ----------------------------
(***************************************************************************)
(* C13, binding R: TLC enumerates structure descriptors of CFF fonts and    *)
(* expands each into an abstract font (every glyph name / CID, FD index,    *)
(* encoding vector, width, DICT number spelled out), printed as one CASE    *)
(* line.  The harness builds exactly that cff.Font, writes it, and records  *)
(* what comes back; CFFLayoutTrace.tla compares with the abstract font.     *)
(*                                                                         *)
(* A descriptor d is a record of small choices:                             *)
(*   kind, n            simple / CID-keyed, number of glyphs                *)
(*   namePat            glyph names: prefixes of the predefined charsets,   *)
(*                      custom strings, scattered / descending standard     *)
(*                      SIDs, runs of standard SIDs, odd strings            *)
(*   cidPat             GID->CID: identity, shifted, short runs, descending,*)
(*                      sparse, ending at 65535, a run of exactly 256 / 257 *)
(*   nfd, fdPat         private dictionaries and the FDSelect function      *)
(*   encPat, encK, nSup built-in encoding: none, Standard, Standard plus an *)
(*                      extra code, Expert, empty, one range, scattered,    *)
(*                      two ranges, codes from 0; K encoded glyphs; nSup    *)
(*                      additional codes of already encoded glyphs          *)
(*   wPat               widths: integer / fractional, so that the most      *)
(*                      frequent width, the smallest width (the writer      *)
(*                      derives defaultWidthX / nominalWidthX from them) and*)
(*                      the differences hit every case                      *)
(*   strPat, pad        FontInfo strings (empty, standard, custom, shared   *)
(*                      with a glyph name); Notice padded to pad bytes, to  *)
(*                      move every stored offset across a size boundary     *)
(*   intSel, realSel    DICT integers at every size-class boundary; reals   *)
(*                      with 1..9 digits and exponents up to +-290          *)
(*   ulPat, fmPat, privPat, shapePat, bulk                                  *)
(*                                                                         *)
(* Modes (constant Mode): "ofat" = every value of every dimension once,     *)
(* others at their default, for both kinds (exhaustive run); "sweep" = the  *)
(* default font of each kind with Notice padded to every length in Pads     *)
(* (exhaustive run); "rand" = all dimensions chosen independently (use      *)
(* -simulate); "big" = a few large fonts; "shapes" = every shape of a       *)
(* nibble-coded real (sign x 1..9 digits x position of the decimal point)   *)
(* in every float-typed DICT field (exhaustive run); "maxima" = the upper   *)
(* end, and the value below it, of every count field: 255 / 256 private     *)
(* dictionaries with FDSelect in long runs, alternating, and on one glyph;  *)
(* 65534 / 65535 glyphs; CID 65535 (exhaustive run); "edges" = every       *)
(* scalar over every operator's default value +-1, empty INDEX elements,   *)
(* assembled files with predefined charsets / encodings, width differences  *)
(* at the ends of the charstring number forms (exhaustive run).             *)
(***************************************************************************)
EXTENDS CFFLayoutOps, Json

CONSTANTS Mode, Pads, BigNs,
          PermA, PermB   \* seeded permutation of codes: PermA odd, 3..125; PermB in 0..127

VARIABLES d, stage
vars == <<d, stage>>

Min2(a, b) == IF a < b THEN a ELSE b
Max2(a, b) == IF a > b THEN a ELSE b

(* ------------------------------ dimensions ----------------------------- *)
NamePats == {"iso", "expert", "subset", "custom", "mixed", "stdrev", "runs", "odd"}
CidPats  == {"ident", "shift", "runs", "desc", "sparse", "top", "r256", "r257"}
FdPats   == {"zero", "last", "alt", "blocks", "tail"}
EncPats  == {"nil", "std", "stdplus", "expert", "zero", "range", "scatter", "tworange", "full"}
\* saturation: all (or all but one / two) codes in use, in orders needing 1, K/2, K-1 or K ranges
EncPatsSat == {"full", "rev", "rev1", "pairs", "perm"}
EncKs    == {0, 1, 2, 37, 255, 256}
WPats    == {"eq", "eqfrac", "ints", "fracdef", "fracmin", "mixed", "bound", "zero", "neg", "tiny", "big", "one",
             "d107", "d108", "d1131", "d1132"}    \* the writer's defaultWidthX on a size-class boundary
StrPats  == {"empty", "std", "custom", "dup"}
UlPats   == {"def", "int", "frac", "bigint"}     \* and "bnd": UlB[ulSel]
FmPats   == {"def", "ident", "scaled", "skew", "huge", "neg"}
\* "extreme": numbers beyond 1e-290..1e290 (denormal, beyond the reader's clamp): the font is marked
\* loose and only termination / success of Write and Read is judged for its FontMatrix
FmPatsX  == FmPats \cup {"extreme"}
PrivPats == {"none", "typ", "max14", "bnd", "wide"}
ShapePats == {"blank", "mixed", "bulk"}
Ns       == {1, 2, 3, 5, 12, 40, 150, 230, 258, 300, 520}
Bulks    == {3, 40, 400}

IntBnd == <<0, 1, -1, 107, 108, -107, -108, 1131, 1132, -1131, -1132, 32767, 32768, -32768, -32769,
            65535, 65536, 2147483647, -2147483647, 7, 32769, -32767, -2147483647 - 1>>
\* reals: 1..9 digits, exponents up to +-290
Reals == << <<1, 0>>, <<12, -1>>, <<123, -2>>, <<1234, -3>>, <<12345, -4>>, <<123456, -5>>,
            <<1234567, -6>>, <<12345678, -7>>, <<123456789, -8>>, <<999999999, -9>>,
            <<5, -4>>, <<-25, -2>>, <<100000001, -8>>, <<2, 280>>, <<-314159265, -200>>,
            <<999999999, 281>>, <<1, -290>>, <<123456789, -298>>, <<7, 3>>, <<1, 9>>,
            \* the integer size-class boundaries as values of float-typed fields
            <<32768, 0>>, <<-32769, 0>>, <<32767, 0>>, <<214748365, 1>>, <<-214748365, 1>>,
            <<1132, 0>>, <<-1131, 0>>, <<108, 0>>, <<-107, 0>> >>
Angles == << <<0, 0>>, <<-125, -1>>, <<1, -3>>, <<179999999, -6>>, <<-123456789, -7>>, <<5, 0>>,
             <<-90, 0>>, <<-1799, -1>>, <<100000001, -8>>, <<-2, -3>>,
             <<107, 0>>, <<108, 0>>, <<-107, 0>>, <<-108, 0>> >>
BlueScales == << <<39625, -6>>, <<5, -1>>, <<1, 0>>, <<123456789, -9>>, <<1, -9>>, <<15, -201>>,
                 <<987654321, -299>>, <<3, -2>>, <<39635, -6>>, <<0, 0>> >>
StdWs == << <<0, 0>>, <<80, 0>>, <<405, -1>>, <<123456789, -5>>, <<1, 4>>, <<1, -7>>,
            <<333333333, -250>>, <<1, 0>>, <<99999, -1>>, <<123456789, -8>>,
            <<107, 0>>, <<108, 0>>, <<1131, 0>>, <<1132, 0>> >>
\* UnderlinePosition / UnderlineThickness are float-typed but written as integers when integral: every
\* integer boundary, exactly.  <<m, e, a>> is the number m * 10^e + a (2^31 does not fit a TLC integer).
UlB == << <<214748364, 1, 7>>, <<214748364, 1, 8>>, <<214748364, 1, 9>>,
          <<-214748364, 1, -7>>, <<-214748364, 1, -8>>, <<-214748364, 1, -9>>,
          <<32767, 0, 0>>, <<32768, 0, 0>>, <<32769, 0, 0>>, <<-32767, 0, 0>>, <<-32768, 0, 0>>, <<-32769, 0, 0>>,
          <<1131, 0, 0>>, <<1132, 0, 0>>, <<-1131, 0, 0>>, <<-1132, 0, 0>>,
          <<107, 0, 0>>, <<108, 0, 0>>, <<-107, 0, 0>>, <<-108, 0, 0>> >>

(* The shape space of a nibble-coded real: sign, m = 1..9 significant digits (two digit families:
   1, 12, 123, ... and 7, 11, 101, 1001, ...), and the position of the decimal point relative to the
   digits: "0.0000ddd" (up to four zeros after the point) ... "0.ddd", every position inside the digits,
   "ddd", "ddd0" ... "ddd0000", and two exponent forms (10^12, 10^-(25+m)).  Entries <<mantissa, e, m>>. *)
ShapeMant(fam, m) == IF fam = 1 THEN 123456789 \div P10(9 - m) ELSE IF m = 1 THEN 7 ELSE P10(m - 1) + 1
ShapeExp(m, k) == IF k <= m + 9 THEN k - (m + 5) ELSE IF k = m + 10 THEN 12 ELSE -(25 + m)
ShapeSeq ==
  FoldLeft(LAMBDA acc, x : acc \o [k \in 1..(x[3] + 11) |-> <<x[1] * ShapeMant(x[2], x[3]), ShapeExp(x[3], k), x[3]>>],
           <<>>,
           [i \in 1..36 |-> <<IF i <= 18 THEN 1 ELSE -1, IF ((i - 1) % 18) < 9 THEN 1 ELSE 2, ((i - 1) % 9) + 1>>])
ShapeAt(i) == ShapeSeq[((i - 1) % Len(ShapeSeq)) + 1]
ShapeFonts == (Len(ShapeSeq) + 23) \div 24          \* 24 reals per font: top matrix + three FD matrices
\* font k carries shapes 24(k-1)+1 .. 24k in 24 slots (b = 0: top matrix, b = 1..3: FD matrices); the
\* rotation rot moves every shape through every slot, hence through every float-typed field
ShapeBlock(k, rot, b) == [i \in 1..6 |-> ShapeAt(24 * (k - 1) + ((6 * b + i - 1 + rot) % 24) + 1)]
Me(x) == <<x[1], x[2]>>
AbsMe(x) == <<IF x[1] < 0 THEN -x[1] ELSE x[1], x[2]>>
Mag(x) == x[3] + x[2]                                 \* value in [10^(Mag-1), 10^Mag)

Dflt == [kind |-> "simple", n |-> 5, namePat |-> "custom", cidPat |-> "ident", nfd |-> 1, fdPat |-> "zero",
       encPat |-> "range", encK |-> 2, nSup |-> 0, wPat |-> "ints", strPat |-> "custom", pad |-> 0,
       intSel |-> 20, realSel |-> 1, ulPat |-> "def", ulSel |-> 1, fmPat |-> "def", privPat |-> "typ",
       shapePat |-> "mixed", bulk |-> 3,
       ppad |-> -1,                   \* >= 0: the private dictionaries are sized for the Subrs sweep (PrivSweep)
       x |-> <<"none", 0, 0, 0>>]     \* an override applied to the expanded font (mode "edges")

(* ------------------------------ expansion ------------------------------ *)
G(i) == "g" \o ToString(i)

\* glyph names, names[i+1] for glyph i
Names(n, pat) ==
  [i1 \in 1..n |->
    LET i == i1 - 1 IN
    IF i = 0 THEN ".notdef"
    ELSE CASE pat = "iso"    -> IF i < 229 THEN StdStr[i + 1] ELSE G(i)
           [] pat = "expert" -> IF i < 166 THEN StdStr[ExpertCharset[i + 1] + 1] ELSE G(i)
           [] pat = "subset" -> IF i < 87 THEN StdStr[ExpertSubsetCharset[i + 1] + 1] ELSE G(i)
           [] pat = "custom" -> G(i)
           [] pat = "mixed"  -> IF i % 2 = 1 /\ i < 390 THEN StdStr[((7 * i) % 390) + 1] ELSE G(i)
           [] pat = "stdrev" -> IF i <= 390 THEN StdStr[391 - i + 1] ELSE G(i)
           [] pat = "runs"   -> LET s == 1 + ((i - 1) \div 5) * 9 + ((i - 1) % 5) IN
                                IF s <= 390 THEN StdStr[s + 1] ELSE G(i)
           [] pat = "odd"    -> CASE i = 1 -> "Shared"
                                  [] i = 2 -> "Bold"
                                  [] i = 3 -> "averyveryveryverylongglyphname.alt01.ss02"
                                  [] i = 4 -> "uni20AC"
                                  [] OTHER -> "a.b_c-" \o ToString(i)]

Cids(n, pat) ==
  [i1 \in 1..n |->
    LET i == i1 - 1 IN
    IF i = 0 THEN 0
    ELSE CASE pat = "ident"  -> i
           [] pat = "shift"  -> i + 1000
           [] pat = "runs"   -> ((i - 1) \div 4) * 10 + ((i - 1) % 4) + 1
           [] pat = "desc"   -> 65536 - i
           [] pat = "sparse" -> 3 * i
           [] pat = "top"    -> 65535 - (n - 1) + i
           [] pat = "r256"   -> IF i <= 256 THEN i ELSE i + 1000
           [] pat = "r257"   -> IF i <= 257 THEN i ELSE i + 1000]

Fds(n, nfd, pat) ==
  [i1 \in 1..n |->
    LET i == i1 - 1 IN
    CASE pat = "zero"   -> 0
      [] pat = "last"   -> nfd - 1
      [] pat = "alt"    -> i % nfd
      [] pat = "blocks" -> (i * nfd) \div n
      [] pat = "tail"   -> IF i = n - 1 THEN nfd - 1 ELSE 0]

\* encodings: a vector of 256 glyph indices.  The documented rule for a custom encoding: the
\* encoded glyphs are exactly 1..K.
Contiguous(enc) ==
  LET S == {enc[c] : c \in 1..256} \ {0} IN S = 1..Cardinality(S)
NumEncoded(enc) == Cardinality({enc[c] : c \in 1..256} \ {0})

Primary(n, pat, k0) ==
  LET K == Min2(k0, n - 1) IN
  CASE pat = "range"    -> LET K1 == Min2(K, 256) c0 == IF K1 > 191 THEN 0 ELSE 65 IN
                           [c1 \in 1..256 |-> LET g == c1 - 1 - c0 + 1 IN IF g >= 1 /\ g <= K1 THEN g ELSE 0]
    [] pat = "scatter"  -> LET K1 == Min2(K, 255) IN   \* 256 isolated codes fit neither format
                           [c1 \in 1..256 |->
                              IF \E g \in 1..K1 : (g * 37 + 11) % 256 = c1 - 1
                                THEN CHOOSE g \in 1..K1 : (g * 37 + 11) % 256 = c1 - 1 ELSE 0]
    [] pat = "tworange" -> LET K1 == Min2(K, 100) h == K1 \div 2 IN
                           [c1 \in 1..256 |-> LET c == c1 - 1 IN
                              IF c - 40 >= 1 /\ c - 40 <= h THEN c - 40
                              ELSE IF c - 150 > h /\ c - 150 <= K1 THEN c - 150 ELSE 0]
    [] pat = "full"     -> LET K1 == Min2(K, 256) IN [c1 \in 1..256 |-> IF c1 <= K1 THEN c1 ELSE 0]
    [] pat = "zero"     -> [c1 \in 1..256 |-> 0]
    \* glyph g at code K - g: K ranges
    [] pat = "rev"      -> LET K1 == Min2(K, 256) IN [c1 \in 1..256 |-> IF c1 <= K1 THEN K1 - (c1 - 1) ELSE 0]
    \* glyphs 1, 2 at codes K-2, K-1, glyph g >= 3 at code K - g: K - 1 ranges
    [] pat = "rev1"     -> LET K1 == Min2(K, 256) IN
                           [c1 \in 1..256 |-> LET c == c1 - 1 IN
                              IF c = K1 - 2 THEN 1 ELSE IF c = K1 - 1 THEN 2 ELSE IF c <= K1 - 3 THEN K1 - c ELSE 0]
    \* blocks of two glyphs, the blocks in a seeded order: about K/2 ranges
    [] pat = "pairs"    -> LET K1 == Min2(K, 256)  B == K1 \div 2 IN
                           [c1 \in 1..256 |-> LET c == c1 - 1 IN
                              IF c < 2 * B
                                THEN 2 * (CHOOSE j \in 0..(B - 1) : (PermA * j + PermB) % B = c \div 2) + (c % 2) + 1
                                ELSE IF c = K1 - 1 THEN K1 ELSE 0]
    \* a seeded affine permutation of the codes: no two glyphs in a row
    [] pat = "perm"     -> LET K1 == Min2(K, 256) IN
                           [c1 \in 1..256 |->
                              IF \E g \in 1..K1 : (g * PermA + PermB) % 256 = c1 - 1
                                THEN CHOOSE g \in 1..K1 : (g * PermA + PermB) % 256 = c1 - 1 ELSE 0]
    \* one or two encoded glyphs, every other code is an additional code of glyph 1 (255 / 254 supplements)
    [] pat = "allsup"   -> LET K1 == Min2(K, 2) IN [c1 \in 1..256 |-> IF c1 <= K1 THEN c1 ELSE IF K1 = 0 THEN 0 ELSE 1]

\* can the encoding be stored?  Format 0 holds at most 255 glyphs, format 1 at most 255 ranges.
EncRanges(enc) ==
  LET K == NumEncoded(enc)
      code(g) == CHOOSE c \in 1..256 : enc[c] = g
  IN 1 + Cardinality({g \in 1..(K - 1) : code(g + 1) # code(g) + 1})
EncFits(enc) == NumEncoded(enc) <= 255 \/ EncRanges(enc) <= 255

\* add s extra codes (the highest free ones) for already encoded glyphs
RECURSIVE AddSups(_, _, _)
AddSups(enc, s, K) ==
  IF s = 0 \/ K = 0 \/ \A c \in 1..256 : enc[c] # 0 THEN enc
  ELSE LET c == CHOOSE x \in 1..256 : enc[x] = 0 /\ \A y \in (x + 1)..256 : enc[y] # 0
           g == ((s * 3) % K) + 1
       IN AddSups([enc EXCEPT ![c] = g], s - 1, K)

\* [has, enc]: has = the Encoding field is set; enc = the encoding the font has.  An absent
\* Encoding means the Standard Encoding (TN5176 Table 9, default of the Encoding operator).
Encoding(n, names, pat, k, nsup) ==
  LET std == PredefEncoding(StdEnc, names)
      exp == PredefEncoding(ExpEnc, names)
      rng == Primary(n, "range", k)
  IN CASE pat = "nil"    -> [has |-> FALSE, enc |-> std]
       [] pat = "std"    -> [has |-> TRUE, enc |-> std]
       [] pat = "expert" -> [has |-> TRUE, enc |-> exp]
       [] pat = "stdplus" ->
            IF Contiguous(std) /\ NumEncoded(std) > 0
              THEN [has |-> TRUE, enc |-> AddSups(std, Max2(nsup, 1), NumEncoded(std))]
              ELSE [has |-> TRUE, enc |-> AddSups(rng, Max2(nsup, 1), NumEncoded(rng))]
       [] OTHER -> LET p == Primary(n, pat, k) IN [has |-> TRUE, enc |-> AddSups(p, nsup, NumEncoded(p))]

Widths(n, pat) ==
  [i1 \in 1..n |->
    LET i == i1 - 1 IN
    CASE pat = "eq"      -> <<500, 0>>
      [] pat = "eqfrac"  -> <<500, 32768>>
      [] pat = "ints"    -> <<200 + 37 * (i % 9), 0>>
      [] pat = "fracdef" -> IF i % 3 # 0 THEN <<500, 32768>> ELSE <<300 + i, 0>>
      [] pat = "fracmin" -> IF i = 1 THEN <<100, 16384>> ELSE IF i % 2 = 0 THEN <<600, 0>> ELSE <<400 + i, 0>>
      [] pat = "mixed"   -> <<(i * 13) % 1000, (i * 7919) % 65536>>
      [] pat = "bound"   -> <<1000 + <<-1132, -1131, -108, -107, 0, 107, 108, 1131, 1132, 0, 0>>[(i % 11) + 1], 0>>
      [] pat = "zero"    -> <<0, 0>>
      [] pat = "neg"     -> IF i % 4 = 0 THEN <<-50, 0>> ELSE <<250, 0>>
      [] pat = "tiny"    -> IF i % 2 = 0 THEN <<0, 1>> ELSE <<500, 65535>>
      [] pat = "big"     -> IF i % 2 = 0 THEN <<16000, 0>> ELSE <<-16000 + i, 0>>
      [] pat = "d107"    -> <<107, 0>>
      [] pat = "d108"    -> <<108, 0>>
      [] pat = "d1131"   -> <<1131, 0>>
      [] pat = "d1132"   -> <<1132, 0>>
      [] pat = "one"     -> IF i = 0 THEN <<250, 49152>> ELSE <<600 + (i % 2), 0>>]

Shapes(n, pat, bulk) ==
  [i1 \in 1..n |-> CASE pat = "blank" -> 0
                     [] pat = "mixed" -> (i1 - 1) % 4
                     [] pat = "bulk"  -> IF i1 % 3 = 2 THEN bulk + 4 ELSE (i1 - 1) % 4]

RECURSIVE Xs(_)
Xs(L) == IF L = 0 THEN "" ELSE "x" \o Xs(L - 1)
PadStr(L) == IF L < 40 THEN Xs(L) ELSE "@rep:x:" \o ToString(L)

Strings(pat, pad) ==
  LET b == CASE pat = "empty"  -> [fontName |-> "F", version |-> "", notice |-> "", copyright |-> "",
                                   fullName |-> "", familyName |-> "", weight |-> ""]
             [] pat = "std"    -> [fontName |-> "Regular", version |-> "001.000", notice |-> "Roman",
                                   copyright |-> "Black", fullName |-> "Semibold", familyName |-> "Regular",
                                   weight |-> "Bold"]
             [] pat = "custom" -> [fontName |-> "Test-Font", version |-> "1.5",
                                   notice |-> "A notice, with punctuation: (c) & more.",
                                   copyright |-> "Copyright 2024 Example Inc.", fullName |-> "Test Font Full",
                                   familyName |-> "Test Font", weight |-> "Heavy"]
             [] pat = "dup"    -> [fontName |-> "Shared", version |-> "001.003", notice |-> "Shared",
                                   copyright |-> "a.b_c-5", fullName |-> "Shared", familyName |-> "Shared",
                                   weight |-> "g1"]
  IN IF pad > 0 THEN [b EXCEPT !.notice = PadStr(pad)] ELSE b

Z == <<0, 0>>
DefFM == << <<1, -3>>, Z, Z, <<1, -3>>, Z, Z >>
IdFM  == << <<1, 0>>, Z, Z, <<1, 0>>, Z, Z >>
\* every matrix here is either equal to the default it is compared with or far (> 1e-5) from it
FM(pat, sel, dflt) ==
  CASE pat = "def"    -> dflt
    [] pat = "ident"  -> IdFM
    [] pat = "scaled" -> << <<5, -4>>, Z, Z, <<5, -4>>, Z, Z >>
    [] pat = "skew"   -> << <<1, -3>>, Z, <<212, -6>>, <<1, -3>>, Z, Z >>
    [] pat = "huge"   -> << Reals[sel], Reals[(sel % Len(Reals)) + 1], Reals[((sel + 5) % Len(Reals)) + 1],
                            Reals[((sel + 9) % Len(Reals)) + 1], Reals[((sel + 13) % Len(Reals)) + 1],
                            Reals[((sel + 16) % Len(Reals)) + 1] >>
    [] pat = "neg"    -> << <<-1, -3>>, Z, Z, <<-1, -3>>, <<-50, 0>>, <<125, -1>> >>
    [] pat = "shapes"  -> [i \in 1..6 |-> Me(ShapeBlock(sel[1], sel[2], 0)[i])]
    [] pat = "extreme" -> << <<1, -320>>, Z, Z, <<1, -3>>, <<1, 305>>, <<-7, -305>> >>

Blues(pat) == CASE pat = "none"  -> <<>>
                [] pat = "typ"   -> <<-10, 0, 700, 710>>
                [] pat = "max14" -> <<-300, -290, 0, 10, 500, 510, 700, 710, 1000, 1010, 1500, 1510, 16000, 16383>>
                [] pat = "bnd"   -> <<-108, -1, 107, 1238, 2370, 1239, 107, 10107>>
                \* neighbouring values farther apart than a 16-bit delta holds (the values themselves are 16-bit)
                [] pat = "wide"  -> <<-20000, 20000, 20010, 32767>>

(* Private DICT size sweep.  The writer stores in every Private DICT the offset of the (shared, final) Subrs
   INDEX relative to that DICT: for the last DICT this is the DICT's own length, a number that is itself part of
   the DICT.  The offset crosses the DICT integer size classes at 107/108 (and 1131/1132) when the DICT is long
   enough; then the layout loop has to notice a change of the LAST section offset only.  Blue values are stored
   as deltas: 24 numbers (14 BlueValues, 10 OtherBlues) of three bytes each give the longest DICT; q of them
   are shortened to one byte (one of them to two bytes when q is odd), so the DICT length runs through
   Max, Max-1, ..., Max-24 in steps of one byte. *)
SweepDeltas(cnt, q) ==     \* cnt deltas; the last q2 = q div 2 of them one byte, one more two bytes if q is odd
  [i \in 1..cnt |-> IF i > cnt - (q \div 2) THEN 100
                    ELSE IF i = cnt - (q \div 2) /\ q % 2 = 1 THEN 500 ELSE 1200]
Cum(ds, start) == [i \in 1..Len(ds) |-> start + FoldLeft(LAMBDA a, k : a + ds[k], 0, [k \in 1..i |-> k])]
PrivSweep(q) ==
  LET qo == IF q > 20 THEN 20 ELSE q            \* OtherBlues shrink first (10 numbers = 20 steps), then BlueValues
      qb == q - qo
  IN [blues |-> Cum(SweepDeltas(14, qb), 0),
      other |-> Cum(SweepDeltas(10, qo), -21000),
      blueScale |-> <<5, -1>>, blueShift |-> 1131, blueFuzz |-> 108,
      stdHW |-> <<123456789, -5>>, stdVW |-> <<123456789, -8>>, forceBold |-> TRUE,
      fm |-> <<Z, Z, Z, Z, Z, Z>>]

PrivOf(dd, j) ==   \* private dictionary j (1-based) of descriptor dd
  IF dd.ppad >= 0 THEN [PrivSweep(dd.ppad) EXCEPT !.fm = IF dd.kind = "cid" THEN FM("def", 1, DefFM) ELSE @] ELSE
  LET s  == dd.intSel + j - 1
      r  == dd.realSel + j - 1
      pp == IF j = 1 THEN dd.privPat
            ELSE CASE dd.privPat = "none" -> "typ" [] dd.privPat = "typ" -> "bnd"
                   [] dd.privPat = "max14" -> "none" [] dd.privPat = "bnd" -> "max14" [] dd.privPat = "wide" -> "wide"
      sh == ShapeBlock(dd.realSel, dd.intSel, j)
  IN IF dd.fmPat = "shapes" THEN
     \* every float-typed field of the private / font DICT carries a shape real that fits its range
     [blues |-> Blues(pp), other |-> <<>>,
      blueScale |-> IF Mag(sh[3]) <= 0 THEN AbsMe(sh[3]) ELSE <<39625, -6>>,
      blueShift |-> 7, blueFuzz |-> 1,
      stdHW |-> IF Mag(sh[1]) <= 4 THEN AbsMe(sh[1]) ELSE Z,
      stdVW |-> IF Mag(sh[2]) <= 4 THEN AbsMe(sh[2]) ELSE Z,
      forceBold |-> FALSE,
      fm |-> [i \in 1..6 |-> Me(sh[i])]]
     ELSE
     [blues |-> Blues(pp),
      other |-> IF pp \in {"max14", "bnd"} THEN <<-250, -240>> ELSE IF pp = "wide" THEN <<-32768, 32767>> ELSE <<>>,
      blueScale |-> BlueScales[((r - 1) % Len(BlueScales)) + 1],
      blueShift |-> IntBnd[((s - 1) % Len(IntBnd)) + 1],
      blueFuzz  |-> IntBnd[((s + 6) % Len(IntBnd)) + 1],
      stdHW |-> StdWs[((r - 1) % Len(StdWs)) + 1],
      stdVW |-> StdWs[((r + 3) % Len(StdWs)) + 1],
      forceBold |-> (s % 2 = 0),
      fm |-> IF dd.kind = "cid"
               THEN FM(IF j = 1 /\ dd.fmPat # "extreme" THEN dd.fmPat ELSE IF j <= 2 THEN "def" ELSE "scaled", r, DefFM)
               ELSE <<Z, Z, Z, Z, Z, Z>>]

Expand(dd) ==
  LET cid   == dd.kind = "cid"
      n     == dd.n
      names == IF cid THEN <<>> ELSE Names(n, dd.namePat)
      nfd   == IF cid THEN dd.nfd ELSE 1
      e     == IF cid THEN [has |-> FALSE, enc |-> <<>>] ELSE Encoding(n, names, dd.encPat, dd.encK, dd.nSup)
      s     == Strings(dd.strPat, dd.pad)
      topDef == IF cid THEN IdFM ELSE DefFM
  IN [cid |-> cid, n |-> n, names |-> names,
      cids |-> IF cid THEN Cids(n, dd.cidPat) ELSE <<>>,
      nfd |-> nfd,
      fd |-> IF cid THEN Fds(n, nfd, dd.fdPat) ELSE [i \in 1..n |-> 0],
      hasEnc |-> e.has, enc |-> e.enc,
      w |-> Widths(n, dd.wPat),
      shape |-> Shapes(n, dd.shapePat, dd.bulk),
      fontName |-> s.fontName, version |-> s.version, notice |-> s.notice, copyright |-> s.copyright,
      fullName |-> s.fullName, familyName |-> s.familyName, weight |-> s.weight,
      fixed |-> (dd.intSel % 2 = 1),
      angle |-> IF dd.fmPat = "shapes"
                  THEN (LET x == ShapeBlock(dd.realSel, dd.intSel, 0)[4] IN IF (Mag(x) <= 2 /\ Mag(x) >= -2) \/ (x[3] = 1 /\ x[2] = 2 /\ x[1] \in {1, -1})
                                                                  THEN Me(x) ELSE Z)   \* 0.001 <= |angle| < 180
                  ELSE Angles[((dd.realSel - 1) % Len(Angles)) + 1],
      ulAdd |-> IF dd.ulPat = "bnd" /\ dd.fmPat # "shapes"
                  THEN <<UlB[dd.ulSel][3], UlB[(dd.ulSel % Len(UlB)) + 1][3]>> ELSE <<0, 0>>,
      ulPos |-> IF dd.fmPat = "shapes"
                  THEN (LET x == ShapeBlock(dd.realSel, dd.intSel, 0)[5] IN IF Mag(x) <= 9 THEN Me(x) ELSE <<-100, 0>>) ELSE
                CASE dd.ulPat = "def" -> <<-100, 0>> [] dd.ulPat = "int" -> <<-75, 0>>
                  [] dd.ulPat = "frac" -> <<-1005, -1>> [] dd.ulPat = "bigint" -> <<-32769, 0>>
                  [] dd.ulPat = "bnd" -> <<UlB[dd.ulSel][1], UlB[dd.ulSel][2]>>,
      ulThick |-> IF dd.fmPat = "shapes"
                    THEN (LET x == ShapeBlock(dd.realSel, dd.intSel, 0)[6] IN IF Mag(x) <= 9 THEN Me(x) ELSE <<50, 0>>) ELSE
                  CASE dd.ulPat = "def" -> <<50, 0>> [] dd.ulPat = "int" -> <<123, 0>>
                    [] dd.ulPat = "frac" -> <<2025, -2>> [] dd.ulPat = "bigint" -> <<100000, 0>>
                    [] dd.ulPat = "bnd" -> LET x == UlB[(dd.ulSel % Len(UlB)) + 1] IN <<x[1], x[2]>>,
      fm |-> FM(dd.fmPat, IF dd.fmPat = "shapes" THEN <<dd.realSel, dd.intSel>> ELSE dd.realSel, topDef),
      ros |-> IF cid THEN [reg |-> IF dd.strPat = "dup" THEN "Shared" ELSE "Adobe",
                           ord |-> IF dd.strPat = "std" THEN "Bold" ELSE "Identity",
                           sup |-> IntBnd[((dd.intSel + 2) % Len(IntBnd)) + 1]]
             ELSE [reg |-> "", ord |-> "", sup |-> 0],
      priv |-> [j \in 1..nfd |-> PrivOf(dd, j)],
      loose |-> (dd.fmPat = "extreme"),
      \* asm.on: the file is not written by the library but assembled by the harness with a predefined charset /
      \* encoding (freedom of the format that Write never uses); judge = FALSE: recorded, not judged
      asm |-> [on |-> FALSE, charset |-> 0, enc |-> 0], judge |-> TRUE,
      \* SIDs are 2-byte numbers in 0..64999 (TN5176 section 10): at most 64999 - 390 strings besides the
      \* standard ones.  A font that needs more cannot be represented; the writer has to refuse it.
      fits |-> Cardinality(({names[i] : i \in 1..Len(names)}
                             \cup {s.version, s.notice, s.copyright, s.fullName, s.familyName, s.weight}
                             \cup (IF cid THEN {IF dd.strPat = "dup" THEN "Shared" ELSE "Adobe",
                                                 IF dd.strPat = "std" THEN "Bold" ELSE "Identity"} ELSE {}))
                            \ ({StdStr[i] : i \in 1..NStd} \cup {""})) <= 64999 - (NStd - 1)
               /\ (cid \/ ~e.has \/ EncFits(e.enc)),
      desc |-> dd]

(* ------------------------ mode "edges": overrides ---------------------- *)
(* (a) defaults.  DefaultVals = every default of DictDefaults (TN5176 Tables 9, 10, 23), the values one
   below and one above, and 0.  Every scalar the API can set runs through all of them: a value equal to
   ANOTHER operator's default must not be taken for "default, leave it out". *)
DecAdd(v, k) == IF v[2] >= 0 THEN Norm(v[1] * P10(v[2]) + k, 0) ELSE Norm(v[1] + k * P10(-v[2]), v[2])
DefaultVals ==
  SetToSeq(UNION {{DecAdd(DictDefaults[i][3], -1), DecAdd(DictDefaults[i][3], 0), DecAdd(DictDefaults[i][3], 1)} :
                    i \in 1..Len(DictDefaults)} \cup {Z})
DVat(i) == DefaultVals[((i - 1) % Len(DefaultVals)) + 1]
DecAbs(v) == IF v[1] < 0 THEN -v[1] ELSE v[1]
DecIsInt(v) == v[2] >= 0 /\ v[2] <= 4
DecInt(v) == v[1] * P10(v[2])
DecIn(v, k) == /\ v[1] >= 0                                                                  \* 0 <= v <= k
               /\ IF v[2] >= 0 THEN v[1] * P10(v[2]) <= k
                  ELSE LET q == v[1] \div P10(-v[2])  r == v[1] % P10(-v[2]) IN q < k \/ (q = k /\ r = 0)
DecAngleOK(v) == \/ v = Z
                 \/ /\ (IF v[2] >= 0 THEN DecAbs(v) * P10(v[2]) < 180 ELSE DecAbs(v) < 180 * P10(-v[2]))
                    /\ (v[2] >= -3 \/ DecAbs(v) * 1000 >= P10(-v[2]))
IntOr(v, dflt) == IF DecIsInt(v) THEN DecInt(v) ELSE dflt
\* widths that make the writer choose nominalWidthX = v: three glyphs of a far-away most frequent width and two
\* widths a < b with a + b = 5 v and a + 107 <= v <= b - 107 (the writer takes the rounded mean over all five)
NominalFamily(v) == LET a == IF v >= 0 THEN v - 300 ELSE 4 * v - 300
                        b == IF v >= 0 THEN 4 * v + 300 ELSE v + 300
                    IN << <<7777, 0>>, <<7777, 0>>, <<7777, 0>>, <<a, 0>>, <<b, 0>> >>
XDefaults(f, i, sub) ==
  LET v(k) == DVat(i + k)
      wv == IntOr(v(19), 500)
  IN [f EXCEPT !.ulPos = v(0), !.ulThick = v(3), !.ulAdd = <<0, 0>>,
               !.angle = IF DecAngleOK(v(5)) THEN v(5) ELSE Z,
               !.fixed = (i % 2 = 0),
               !.ros = IF f.cid THEN [f.ros EXCEPT !.sup = IntOr(v(17), 0)] ELSE f.ros,
               !.w = IF sub = 0 THEN [g \in 1..f.n |-> <<wv, 0>>] ELSE NominalFamily(wv),
               !.priv = [j \in 1..f.nfd |->
                           [f.priv[j] EXCEPT !.blueScale = IF DecIn(v(7 + j), 1) THEN v(7 + j) ELSE <<39625, -6>>,
                                             !.blueShift = IntOr(v(9 + j), 7), !.blueFuzz = IntOr(v(11 + j), 1),
                                             !.stdHW = IF DecIn(v(13 + j), 10000) THEN v(13 + j) ELSE Z,
                                             !.stdVW = IF DecIn(v(15 + j), 10000) THEN v(15 + j) ELSE Z,
                                             !.forceBold = ((i + j) % 2 = 0)]]]

(* (b) empty elements of an INDEX (two equal consecutive offsets): an empty FontName, an empty glyph name as the
   first, a middle and the last custom string, an empty Registry and / or Ordering.  (Empty FontInfo strings are
   strPat "empty"; the library writes no entry for them.) *)
XEmpty(f, which) ==
  CASE which = 1 -> [f EXCEPT !.fontName = ""]
    [] which \in {2, 3} -> [f EXCEPT !.names = [f.names EXCEPT ![which] = ""]]
    [] which = 4 -> [f EXCEPT !.names = [f.names EXCEPT ![f.n] = ""]]
    [] which = 5 -> [f EXCEPT !.ros = [f.ros EXCEPT !.reg = ""]]
    [] which = 6 -> [f EXCEPT !.ros = [f.ros EXCEPT !.ord = ""]]
    [] which = 7 -> [f EXCEPT !.ros = [f.ros EXCEPT !.reg = "", !.ord = ""]]
    [] which = 8 -> [f EXCEPT !.fontName = ""]

(* (c) files the library never writes: predefined charset cs (0 ISOAdobe, 1 Expert, 2 ExpertSubset) and predefined
   encoding en (0 Standard, 1 Expert), n one-byte charstrings, everything else at its default.  The harness
   assembles the bytes; cff.Read must deliver the predefined names and codes.  Beyond the end of the charset
   (n > its length) the file is not valid: recorded, not judged. *)
DefaultPriv == [blues |-> <<>>, other |-> <<>>, blueScale |-> <<39625, -6>>, blueShift |-> 7, blueFuzz |-> 1,
                stdHW |-> Z, stdVW |-> Z, forceBold |-> FALSE, fm |-> <<Z, Z, Z, Z, Z, Z>>]
XAsm(f, cs, en) ==
  LET n == f.n
      L == Len(PredefCharset(cs))
      names == [g \in 1..n |-> IF g <= L THEN StdStr[PredefCharset(cs)[g] + 1] ELSE "?" \o ToString(g)]
  IN [f EXCEPT !.names = names, !.hasEnc = FALSE,
               !.enc = PredefEncoding(IF en = 0 THEN StdEnc ELSE ExpEnc, names),
               !.w = [g \in 1..n |-> Z], !.shape = [g \in 1..n |-> 0],
               !.fontName = "Asm", !.version = "", !.notice = "", !.copyright = "", !.fullName = "",
               !.familyName = "", !.weight = "", !.fixed = FALSE, !.angle = Z,
               !.ulPos = <<-100, 0>>, !.ulThick = <<50, 0>>, !.ulAdd = <<0, 0>>, !.fm = DefFM,
               !.priv = <<DefaultPriv>>, !.loose = FALSE, !.fits = TRUE,
               !.asm = [on |-> TRUE, charset |-> cs, enc |-> en], !.judge = (n <= L)]

(* (d) the number encoding of charstrings reached through the width: width - nominalWidthX next to +-32768 (end of
   the 16.16 operand range), +-1131/1132 and +-107/108.  nominalWidthX is the writer's choice; the families aim at
   it (four glyphs: 500, 500 and two others): fam 1/2: 0 and b = +-(4 T / 3 + j), nominal = b/4 rounded;
   fam 3: -14 and 200 + j, nominal = min + 107; fam 4: -14 and -(228 + j), nominal = max - 107. *)
WTargets == <<32767, 32768, 32769, 1131, 1132>>
XWidth(f, fam, t, j) ==
  LET b == CASE fam = 1 -> (4 * WTargets[t]) \div 3 + j
             [] fam = 2 -> -((4 * WTargets[t]) \div 3 + j)
             [] fam = 3 -> 200 + j
             [] fam = 4 -> -(228 + j)
      a == IF fam \in {1, 2} THEN 0 ELSE -14
  IN [f EXCEPT !.w = << <<500, 0>>, <<500, 0>>, <<a, 0>>, <<b, 0>> >>]

ExpandX(dd) ==
  LET f == Expand(dd)  x == dd.x IN
  CASE x[1] = "none"  -> f
    [] x[1] = "dflt"  -> XDefaults(f, x[2], x[3])
    [] x[1] = "empty" -> XEmpty(f, x[2])
    [] x[1] = "asm"   -> XAsm(f, x[2], x[3])
    [] x[1] = "w"     -> XWidth(f, x[2], x[3], x[4])

Edges ==
  {[Dflt EXCEPT !.kind = k, !.nfd = IF k = "cid" THEN 2 ELSE 1, !.fdPat = "alt", !.n = IF sub = 0 THEN 3 ELSE 5,
                !.x = <<"dflt", i, sub, 0>>] : k \in {"simple", "cid"}, i \in 1..Len(DefaultVals), sub \in {0, 1}}
  \cup {[Dflt EXCEPT !.x = <<"empty", w, 0, 0>>] : w \in 1..4}
  \cup {[Dflt EXCEPT !.kind = "cid", !.nfd = 2, !.fdPat = "alt", !.x = <<"empty", w, 0, 0>>] : w \in 5..8}
  \cup UNION {{[Dflt EXCEPT !.n = n, !.x = <<"asm", cs, en, 0>>] :
                  en \in {0, 1}, n \in {1, 2, Len(PredefCharset(cs)) - 1, Len(PredefCharset(cs)), Len(PredefCharset(cs)) + 1}} :
               cs \in 0..2}
  \cup {[Dflt EXCEPT !.n = 4, !.x = <<"w", fam, t, j>>] : fam \in {1, 2}, t \in 1..Len(WTargets), j \in (-2)..2}
  \cup {[Dflt EXCEPT !.n = 4, !.x = <<"w", fam, 1, j>>] : fam \in {3, 4}, j \in (-1)..2}

(* ------------------------------- behaviours ---------------------------- *)
\* a descriptor is usable if the patterns fit the glyph count
Usable(dd) ==
  /\ (dd.kind = "cid" /\ dd.cidPat \in {"r256", "r257"}) => dd.n >= 259
  /\ dd.kind = "simple" => dd.nfd = 1

Vary(f, S) == {[Dflt EXCEPT ![f] = v] : v \in S}
Ofat1 ==  Vary("n", Ns) \cup Vary("namePat", NamePats) \cup Vary("cidPat", CidPats \ {"r256", "r257"})
     \cup Vary("fdPat", FdPats) \cup Vary("encPat", EncPats) \cup Vary("encK", EncKs)
     \cup Vary("nSup", 0..3) \cup Vary("wPat", WPats) \cup Vary("strPat", StrPats)
     \cup Vary("intSel", 1..Len(IntBnd)) \cup Vary("realSel", 1..Len(Reals)) \cup Vary("ulPat", UlPats)
     \cup Vary("fmPat", FmPatsX) \cup Vary("privPat", PrivPats) \cup Vary("shapePat", ShapePats)
     \cup {[Dflt EXCEPT !.shapePat = "bulk", !.bulk = b] : b \in Bulks}
     \* combinations that need each other
     \cup {[Dflt EXCEPT !.n = n, !.namePat = p] : n \in {150, 230, 300}, p \in {"iso", "expert", "subset", "mixed", "stdrev", "runs"}}
     \cup {[Dflt EXCEPT !.n = n, !.encPat = p, !.encK = k, !.nSup = s] :
             n \in {12, 258, 300}, p \in {"range", "scatter", "tworange", "full"}, k \in {37, 255, 256}, s \in {0, 2}}
     \* encodings at the saturation points of the count bytes (nCodes, nRanges, nSups: 254, 255, 256)
     \cup {[Dflt EXCEPT !.n = 258, !.encPat = p, !.encK = k, !.nSup = s] :
             p \in EncPatsSat, k \in {254, 255, 256}, s \in {0, 3}}
     \cup {[Dflt EXCEPT !.encPat = "allsup", !.encK = k] : k \in {1, 2}}
     \cup {[Dflt EXCEPT !.ulPat = "bnd", !.ulSel = u] : u \in 1..Len(UlB)}
     \cup {[Dflt EXCEPT !.n = 150, !.namePat = p, !.encPat = q, !.nSup = s] :
             p \in {"iso", "expert"}, q \in {"nil", "std", "stdplus", "expert"}, s \in {1, 3}}
     \cup {[Dflt EXCEPT !.n = n, !.cidPat = p] : n \in {259, 300, 520}, p \in CidPats}
     \cup {[Dflt EXCEPT !.n = n, !.wPat = p] : n \in {1, 2, 3, 12}, p \in WPats}
     \cup {[Dflt EXCEPT !.n = 12, !.nfd = k, !.fdPat = p] : k \in 1..3, p \in FdPats}
     \* one-byte charstrings: the CharStrings INDEX body is n bytes long (offSize 1 -> 2 at 255)
     \cup {[Dflt EXCEPT !.n = n, !.wPat = "eq", !.shapePat = "blank"] : n \in 253..257}
     \cup {[Dflt EXCEPT !.n = 300, !.nfd = 3, !.fdPat = p, !.shapePat = "bulk", !.bulk = 40] : p \in FdPats}
\* both kinds; a dimension that the other kind ignores is not varied for it (it would give the same font)
Ofat == {y \in {[x EXCEPT !.kind = k, !.nfd = IF k = "cid" THEN Max2(x.nfd, 2) ELSE 1] : x \in Ofat1, k \in {"simple", "cid"}} :
           /\ y.kind = "cid" => /\ y.namePat = Dflt.namePat /\ y.encPat = Dflt.encPat
                                /\ y.encK = Dflt.encK /\ y.nSup = Dflt.nSup
           /\ y.kind = "simple" => y.cidPat = Dflt.cidPat /\ y.fdPat = Dflt.fdPat}
          \cup {[x EXCEPT !.kind = "cid", !.nfd = 1] : x \in Vary("n", {1, 5})}

\* Pads holds codes 100000 * k + pad, k = 0: simple, k = 1..3: CID-keyed with k font DICTs
\* the font is as small as possible, so that offsets below 108 exist
Sweep == {[Dflt EXCEPT !.kind = IF p \div 100000 = 0 THEN "simple" ELSE "cid",
                       !.nfd = Max2(p \div 100000, 1), !.pad = p % 100000, !.intSel = 1 + (p % 2),
                       !.n = 2, !.strPat = "empty", !.encK = 1, !.privPat = "none", !.shapePat = "blank"] : p \in Pads}

\* the Private DICT size sweep on the same minimal fonts (simple, CID-keyed with one and with two font DICTs),
\* part of every "sweep" run whatever Pads is
PSweep == {[Dflt EXCEPT !.kind = IF k = 0 THEN "simple" ELSE "cid", !.nfd = Max2(k, 1), !.ppad = q, !.wPat = w,
                        !.n = 2, !.strPat = "empty", !.encK = 1, !.shapePat = "blank"] :
             k \in 0..2, q \in 0..34, w \in {"eq", "d1131"}}

Big == {[Dflt EXCEPT !.kind = k, !.n = n, !.nfd = IF k = "cid" THEN 3 ELSE 1, !.namePat = "mixed",
                   !.cidPat = IF 3 * n <= 65535 THEN "sparse" ELSE IF n % 2 = 0 THEN "desc" ELSE "top", !.fdPat = IF n % 2 = 0 THEN "alt" ELSE "blocks",
                   !.encPat = "scatter", !.encK = 256, !.nSup = 3, !.wPat = "mixed", !.shapePat = "blank"] :
          k \in {"simple", "cid"}, n \in BigNs}
       \* one-byte charstrings: CharStrings INDEX body of n bytes (offSize 2 -> 3 at 65535)
       \cup {[Dflt EXCEPT !.kind = k, !.n = n, !.nfd = IF k = "cid" THEN 2 ELSE 1, !.fdPat = "blocks", !.wPat = "eq",
                       !.shapePat = "blank"] :
               k \in {"simple", "cid"}, n \in {m \in BigNs : m > 60000}}

(* The upper ends of the count / index fields of the property's quantifier and of the format.
   Every one of them, and the value just below, occurs in a font of every run (mode "maxima"; the
   encoding counts MaxCodes / MaxSups / 255 ranges are part of "ofat", see EncPatsSat and "allsup"). *)
MaxPrivate == 256      \* private dictionaries: the FD index is one byte (0..255)
MaxGlyphs  == 65535    \* glyphs: INDEX count, glyph index, FDSelect sentinel, charset nLeft are 16 bits
MaxCID     == 65535    \* CIDs are 16 bits
MaxCodes   == 256      \* codes of an encoding (nCodes / nRanges / nSups are one byte: at most 255)
MaxSups    == 255
\* charstrings are one byte each (blank glyphs of the default width), so that these fonts stay small
Maxima ==
  \* 255 / 256 private dictionaries; FDSelect in runs of four (the writer's format 3 is shorter: 256 ranges),
  \* alternating (only format 0 is feasible), and FD index MaxPrivate - 1 on the last glyph alone (2 ranges)
  {[Dflt EXCEPT !.kind = "cid", !.nfd = f, !.fdPat = p[1], !.n = IF p[2] = 0 THEN 12 ELSE p[2] * f + 8,
                !.wPat = "eq", !.shapePat = "blank", !.privPat = "none"] :
     f \in {MaxPrivate - 1, MaxPrivate}, p \in {<<"blocks", 4>>, <<"alt", 2>>, <<"tail", 0>>}}
  \* 65534 / 65535 glyphs, CIDs up to MaxCID in one run (charset nLeft 65532 / 65533), two long FD runs
  \cup {[Dflt EXCEPT !.kind = "cid", !.nfd = 2, !.fdPat = "blocks", !.n = n, !.cidPat = "top",
                   !.wPat = "eq", !.shapePat = "blank", !.privPat = "none"] : n \in {MaxGlyphs - 1, MaxGlyphs}}

\* every shape of a real, in every float-typed DICT field (24 reals per CID-keyed font with 3 FDs)
RealShapes == {[Dflt EXCEPT !.kind = "cid", !.nfd = 3, !.n = 3, !.fdPat = "alt", !.fmPat = "shapes", !.realSel = k,
                        !.intSel = rot, !.shapePat = "blank", !.privPat = "none"] : k \in 1..ShapeFonts, rot \in 0..23}

Init ==
  /\ CASE Mode = "shapes" -> d \in RealShapes /\ stage = "done"
       [] Mode = "maxima" -> d \in Maxima /\ stage = "done"
       [] Mode = "edges" -> d \in Edges /\ stage = "done"
       [] Mode = "ofat"  -> d \in {x \in Ofat : Usable(x)} /\ stage = "done"
       [] Mode = "sweep" -> d \in Sweep \cup PSweep /\ stage = "done"
       [] Mode = "big"   -> d \in {x \in Big : Usable(x)} /\ stage = "done"
       [] Mode = "rand"  -> d = Dflt /\ stage = "s1"

\* "rand": a few dimensions per step, so that -simulate samples the full product while every
\* step has few successors (TLC generates them all before picking one)
Step(from, to, S) == stage = from /\ stage' = to /\ d' \in S
S1  == Step("s1", "s2", {[d EXCEPT !.kind = k, !.n = n, !.nfd = IF k = "cid" THEN f ELSE 1] :
                           k \in {"simple", "cid"}, n \in Ns, f \in 1..3})
S2  == Step("s2", "s3", {[d EXCEPT !.namePat = p, !.fdPat = f] : p \in NamePats, f \in FdPats})
S3  == Step("s3", "s4", {[d EXCEPT !.cidPat = c] : c \in CidPats})
S4  == Step("s4", "s5", {[d EXCEPT !.encPat = p, !.encK = k] : p \in EncPats, k \in EncKs})
S5  == Step("s5", "s6", {[d EXCEPT !.nSup = s, !.ulPat = u] : s \in 0..3, u \in UlPats})
S6  == Step("s6", "s7", {[d EXCEPT !.wPat = w, !.strPat = t] : w \in WPats, t \in StrPats})
S7  == Step("s7", "s8", {[d EXCEPT !.pad = p] : p \in {x % 100000 : x \in Pads} \cup {0}})
S8  == Step("s8", "s9", {[d EXCEPT !.intSel = i] : i \in 1..Len(IntBnd)})
S9  == Step("s9", "s10", {[d EXCEPT !.realSel = r] : r \in 1..Len(Reals)})
S10 == Step("s10", "s11", {[d EXCEPT !.fmPat = f, !.privPat = p] : f \in FmPats, p \in PrivPats})
S11 == Step("s11", "fin", {[d EXCEPT !.shapePat = t, !.bulk = b] : t \in ShapePats, b \in Bulks})
\* a last step without choice: in simulation TLC evaluates the invariants (Emit!) on every
\* successor it generates, so the emitting state must be the only successor
Fin == stage = "fin" /\ stage' = (IF Usable(d) THEN "done" ELSE "skip") /\ UNCHANGED d

Next == S1 \/ S2 \/ S3 \/ S4 \/ S5 \/ S6 \/ S7 \/ S8 \/ S9 \/ S10 \/ S11 \/ Fin
Spec == Init /\ [][Next]_vars

\* what the expansion promises (checked by TLC on every emitted font)
WF(f) ==
    /\ Len(f.w) = f.n /\ Len(f.fd) = f.n /\ Len(f.priv) = f.nfd
    /\ \A i \in 1..f.n : f.fd[i] \in 0..(f.nfd - 1)
    /\ f.cid => /\ Len(f.cids) = f.n /\ f.cids[1] = 0
                /\ \A i \in 1..f.n : f.cids[i] \in 0..65535
                /\ Cardinality({f.cids[i] : i \in 1..f.n}) = f.n
    /\ ~f.cid => /\ Len(f.names) = f.n /\ f.names[1] = ".notdef"
                 /\ Cardinality({f.names[i] : i \in 1..f.n}) = f.n
                 /\ Len(f.enc) = 256
                 /\ \A c \in 1..256 : f.enc[c] \in 0..(f.n - 1)
                 \* a custom encoding obeys the documented contiguity rule
                 /\ (f.n <= 1000 /\ f.hasEnc /\ ~Contiguous(f.enc))
                       => (f.enc = PredefEncoding(StdEnc, f.names) \/ f.enc = PredefEncoding(ExpEnc, f.names))

\* one CASE line per generated font; the invariant fails if the font is not well-formed
Emit == stage = "done" => LET f == ExpandX(d) IN WF(f) /\ PrintT(<<"CASE", ToJson(f)>>)
=============================================================================
