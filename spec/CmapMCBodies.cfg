CONSTANTS
  MaxCode = 3
  N12 = 7
  G12 = 2
  NegAll = FALSE
  GA = 1
INIT InitBodies
NEXT NextBodies
INVARIANT BodyOK
CHECK_DEADLOCK FALSE
