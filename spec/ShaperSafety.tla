---------------------------- MODULE ShaperSafety ----------------------------
(***************************************************************************)
(* C07.  A shaping object (gtab.Context, sfnt.Layouter) specified as what  *)
(* the property says it is: a FUNCTION of (tables, input).  The only state *)
(* of the abstract object is the memo of results already observed; a call  *)
(* on a reused object must return what a fresh object returns.             *)
(*                                                                         *)
(* The module is used twice:                                               *)
(*  - by TLC as a generator of call histories over a pool of NIn inputs    *)
(*    (objects 1 = Context, 2 = Layouter), exhaustively for short          *)
(*    histories and by simulation for long ones (Emit);                    *)
(*  - by ShaperSafetyTrace.tla, which replays recorded executions of the   *)
(*    real objects through Call and the per-call safety predicate.         *)
(***************************************************************************)
EXTENDS Integers, Sequences, FiniteSets, TLC, Json

CONSTANTS NIn,      \* size of the input pool
          MaxHist,  \* history length (generation)
          Results   \* abstract result values (generation only)

VARIABLES memo,     \* <<object, input>> -> result of a fresh object ("unset" before)
          hist      \* calls made so far: sequence of <<object, input>>
vars == <<memo, hist>>

Objs == {1, 2}
Keys == Objs \X (1..NIn)
Init == memo = [k \in Keys |-> "unset"] /\ hist = <<>>
\* generation of histories: the function is already defined everywhere
InitGen == memo = [k \in Keys |-> CHOOSE r \in Results : TRUE] /\ hist = <<>>

\* what a fresh object returns is decided once (by the tables and the input alone) ...
Fresh(o, i, r) == /\ memo[<<o, i>>] = "unset"
                  /\ memo' = [memo EXCEPT ![<<o, i>>] = r]
                  /\ UNCHANGED hist
\* ... and every later call, on any object with any history, returns the same
Call(o, i, r) == /\ memo[<<o, i>>] # "unset" /\ r = memo[<<o, i>>]
                 /\ Len(hist) < MaxHist
                 /\ hist' = Append(hist, <<o, i>>)
                 /\ UNCHANGED memo

Next == \E o \in Objs, i \in 1..NIn, r \in Results : Fresh(o, i, r) \/ Call(o, i, r)
Spec == Init /\ [][Next]_vars

\* the function never changes its mind
Functional == [][\A k \in Keys : memo[k] # "unset" => memo'[k] = memo[k]]_vars
TypeOK == memo \in [Keys -> Results \cup {"unset"}] /\ Len(hist) <= MaxHist

\* generation: print each complete history once (terminal state)
Emit == (Len(hist) = MaxHist) => PrintT(<<"CASE", ToJson([h |-> hist])>>)

(* Per-call safety predicate of the property: no panic, terminated, text conserved,        *)
(* length within what the matched substitutions can produce.  One lookup pass makes at most *)
(* one outer step per glyph and each step runs at most 63 nested actions, each of which     *)
(* inserts at most R-1 glyphs (R = longest replacement sequence of the tables).             *)
Cap == 100000000
Factor(R) == 1 + 63 * (R - 1)
Grow(n, R) == IF n > Cap \div Factor(R) THEN Cap ELSE n * Factor(R)      \* no 32-bit overflow
RECURSIVE Bound(_, _, _)
Bound(n, R, passes) == IF passes = 0 THEN n ELSE Bound(Grow(n, R), R, passes - 1)
Safe(e, R, passes) ==
  /\ e.ok /\ ~e.hung
  /\ ~e.unimpl => (e.cons /\ e.outlen <= Bound(e.n, R, passes))
=============================================================================
