SPECIFICATION Spec
CHECK_DEADLOCK FALSE
INVARIANT RefLaw
INVARIANT RefLawSimple
INVARIANT RefStable
INVARIANT Refuses
INVARIANT Emit
CONSTANTS
  MaxN = 3
  PoolSel = "tiny"
  Codes = {}
  MaxRules = 1
  RuleTypes = {1, 3, 4}
  LigLens = {1, 2}
  Kinds = {"ttf"}
  CmapFormats = {"4"}
  LigFirst = -1
  TextSel = "none"
  Flags = FALSE
  Quiet = TRUE
