------------------------------- MODULE Type2 -------------------------------
(***************************************************************************)
(* C05: the Type 2 machine (Type2Core.tla) in GENERATION mode.  TLC builds *)
(* well-formed charstring programs operator-first TOGETHER WITH their      *)
(* meaning (path, stems, masks, width), and single-fault mutants whose     *)
(* meaning is "error"; the harness (harness/cmd/c05) assembles a CFF file  *)
(* around each program and compares cff.Read with the meaning TLC printed. *)
(* The same machine is the trace specification of C04 (Type2Trace.tla).    *)
(***************************************************************************)
EXTENDS Type2Core, Json

CONSTANTS Vals,      \* operand boundary set (units)
          SVals,     \* small operand set for the arithmetic forms (units)
          Sizes,     \* subroutine INDEX sizes
          DWs, NWs,  \* defaultWidthX / nominalWidthX candidates (units)
          MaskBytes, \* candidate mask bytes
          GenOps,    \* operators the generator may plan
          MaxOps,    \* stack-clearing operators per program
          MaxArgs,   \* operands per operator (<= 48)
          MaxArith,  \* arithmetic forms per operator
          MaxCalls,  \* subroutine calls per program
          Sim,       \* TRUE: random picks (simulation), FALSE: enumerate
          Feats,     \* features a behaviour may be dedicated to: operator names, "base", "mix"
          Excluded,  \* operators the "mix" behaviours must not use
          Faults,    \* set of fault kinds that may be injected ({} = none)
          NGs        \* numbers of glyphs per font

Pick(S) == IF Sim /\ S # {} THEN {RandomElement(S)} ELSE S
MaxOf(S) == CHOOSE v \in S : \A q \in S : v >= q
MinOf(S) == CHOOSE v \in S : \A q \in S : v <= q

(***************************************************************************)
(* Generation mode.                                                        *)
(***************************************************************************)
VARIABLES m,       \* machine state
          main,    \* tokens of the charstring itself
          bodies,  \* subroutines: sequence of [k |-> "l"|"g", i |-> index, toks |-> tokens]
          open,    \* indices into bodies of the subroutines being executed (innermost last)
          plan,    \* the operator chosen next and the operands still to push
          nops, ncalls,
          ls, gs,  \* sizes of the local and global subroutine INDEX
          dw, nw,  \* defaultWidthX, nominalWidthX
          fault,   \* "" or the kind of the injected fault
          fin,     \* program text complete
          feat,    \* the feature the current glyph is dedicated to
          glyphs,  \* the finished glyphs of this font (output records)
          ng       \* number of glyphs of this font
vars == <<m, main, bodies, open, plan, nops, ncalls, ls, gs, dw, nw, fault, fin, feat, glyphs, ng>>

\* the INDEX sizes matter to behaviours with calls only (simulation varies them regardless)
SizesFor(f, k) == IF Sim \/ f \in {"mix", "deep10"} \/ (f = "callsubr" /\ k = "l") \/ (f = "callgsubr" /\ k = "g")
                  THEN Sizes ELSE {CHOOSE z \in Sizes : \A q \in Sizes : z <= q}

NoPlan == [op |-> "", n |-> 0, ar |-> 0, bad |-> FALSE, tot |-> 0]

Init == /\ m = M0 /\ main = <<>> /\ bodies = <<>> /\ open = <<>> /\ plan = NoPlan
        /\ nops = 0 /\ ncalls = 0 /\ fault = "" /\ fin = FALSE
        \* (TLC computes the initial states once, also in simulation: no random picks here)
        /\ feat \in Feats /\ dw \in DWs /\ nw \in NWs /\ glyphs = <<>> /\ ng \in NGs
        /\ ls \in SizesFor(feat, "l") /\ gs \in SizesFor(feat, "g")

\* subroutine numbers worth calling: around the bias and the number-encoding thresholds
CandIdx(size) ==
  {i \in {0, 1, 106, 107, 108, 214, 215, 216, 1022, 1023, 1130, 1131, 1132, 1238, 1239,
          2262, 2263, 30768, 32767, 32768, 33898, 33899, 34000, 34768, 39999, size - 1, size \div 2} :
     i >= 0 /\ i < size /\ Abs(i - Bias(size)) <= MaxV \div Unit}

IdxNow(size) == IF Sim THEN CandIdx(size)
                ELSE {i \in CandIdx(size) : i \in {0, Bias(size) + 108, size - 1}}
CallOp(k) == IF k = "l" THEN "callsubr" ELSE "callgsubr"

\* A behaviour dedicated to one operator uses it on top of a small base vocabulary, so that a
\* disagreement with the implementation can be attributed; "mix" behaviours use everything.
BaseOps   == MoveOps \cup {"rlineto", "endchar"}
BaseArith == {"add", "sub", "drop", "exch"}
CallFeats == {"callsubr", "callgsubr", "deep10"}
OpsNow ==
  IF feat = "mix" THEN (GenOps \cap ClearOps) \ Excluded
  ELSE (BaseOps \cup {feat}
        \cup (IF feat \in MaskOps THEN {"hstem", "vstem"} ELSE {})
        \cup (IF feat = "endchar" THEN {"hstem", "hintmask"} ELSE {})) \cap GenOps \cap ClearOps
ArithNow ==
  IF feat = "mix" THEN ArithOps \ Excluded
  ELSE IF feat \in {"put", "get"} THEN BaseArith \cup {"put", "get"}   \* storage is observable only through both
  ELSE IF feat \in ArithOps THEN BaseArith \cup {feat}
  ELSE IF feat \in {"base"} \cup CallFeats THEN BaseArith ELSE {}
KindsNow ==
  IF feat = "mix" THEN {k \in {"l", "g"} : CallOp(k) \notin Excluded}
  ELSE IF feat = "callsubr" THEN {"l"} ELSE IF feat = "callgsubr" THEN {"g"}
  ELSE IF feat = "deep10" THEN {"l", "g"} ELSE {}

\* append tokens to the innermost open subroutine, or to the charstring
Emit2(toks, mm, bb) ==
  IF open = <<>> THEN /\ main' = mm \o toks /\ bodies' = bb
  ELSE LET j == open[Len(open)] IN
       /\ main' = mm /\ bodies' = [bb EXCEPT ![j].toks = @ \o toks]
Out(toks) == Emit2(toks, main, bodies)

Running == ~fin /\ m.st = "run" /\ fault = ""

\* ---- choose the next operator first, then a legal operand count
LegalFor(op, n) ==
  LET w == IF m.wset THEN 0 ELSE 1 IN
  CASE op = "rmoveto" -> n = 2 \/ n = 2 + w
    [] op \in {"hmoveto", "vmoveto"} -> n = 1 \/ n = 1 + w
    [] op \in DrawOps -> m.moved /\ Arity(op, n)
    [] op \in {"hstem", "hstemhm"} -> m.stage <= 1 /\ m.vs = <<>> /\ n >= 2 /\ (n % 2 = 0 \/ w = 1)
    [] op \in {"vstem", "vstemhm"} -> m.stage <= 1 /\ n >= 2 /\ (n % 2 = 0 \/ w = 1)
    [] op \in MaskOps -> /\ (n % 2 = 0 \/ w = 1)
                         /\ (n >= 2 => m.stage <= 1)
                         /\ (n >= 2 \/ m.hs # <<>> \/ m.vs # <<>>)
                         /\ (op = "cntrmask" => m.stage <= 1 \/ ~m.moved)
    [] op = "endchar" -> n \in {0, w, 4, 4 + w}

\* at least the smallest legal count, also when it exceeds MaxArgs (flex needs 13)
\* (the four-operand form of endchar: always in simulation, when enumerating only in the
\* behaviours dedicated to endchar)
Counts(op) ==
  LET seac == Sim \/ feat = "endchar"
      C == {n \in 0..MaxArgs : LegalFor(op, n) /\ (op # "endchar" \/ n < 4 \/ seac)}
           \cup (IF op = "endchar" /\ seac THEN {n \in 4..5 : LegalFor(op, n)} ELSE {})
      A == {n \in 0..MaxStack : LegalFor(op, n)} IN
  IF C # {} \/ A = {} THEN C ELSE {CHOOSE n \in A : \A k \in A : n <= k}
\* simulation favours the boundary counts; model checking takes all
SomeCounts(op) ==
  LET C == Counts(op) IN
  IF ~Sim \/ C = {} THEN C
  ELSE LET lo == CHOOSE n \in C : \A k \in C : n <= k
           hi == CHOOSE n \in C : \A k \in C : n >= k
           small == {n \in C : n <= lo + 9}
       IN {RandomElement(small), RandomElement(small), RandomElement(small),
           RandomElement({hi, RandomElement(C)})}

ChoosePlan ==
  /\ Running /\ plan.op = "" /\ m.stack = <<>>
  /\ \E op \in OpsNow :
       /\ (nops >= MaxOps => op = "endchar")
       /\ \E n \in SomeCounts(op) :
          \E ar \in Pick(IF ArithNow = {} \/ (~Sim /\ nops > 0) THEN {0}
                         ELSE IF feat \in ArithOps THEN 1..MaxArith ELSE 0..MaxArith) :
            plan' = [op |-> op, n |-> n, ar |-> ar, bad |-> FALSE, tot |-> n]
  /\ UNCHANGED <<m, main, bodies, open, nops, ncalls, ls, gs, dw, nw, fault, fin, feat, glyphs, ng>>

\* ---- operands: a literal ...
\* Enumeration keeps the state space small: both boundary values only for the last six operands
\* of the operator the behaviour is dedicated to; simulation always draws from Vals.
\* (bchar and achar of the four-operand endchar are character codes)
ValsNow == IF plan.op = "endchar" /\ plan.tot >= 4 /\ plan.n <= 2 THEN {65 * Unit, 194 * Unit}
           ELSE IF Sim \/ (plan.n <= 6 /\ (plan.op = feat \/ feat \in {"base", "mix"})) THEN Vals
           ELSE {MaxOf(Vals)}
PushLit ==
  /\ Running /\ plan.op # "" /\ plan.n > 0
  /\ \E v \in Pick(ValsNow) :
       /\ m' = Push(m, v) /\ Out(<<Num(v)>>)
  /\ plan' = [plan EXCEPT !.n = @ - 1]
  /\ UNCHANGED <<open, nops, ncalls, ls, gs, dw, nw, fault, fin, feat, glyphs, ng>>

\* ---- ... or a short computation (arithmetic, stack, storage, conditional operators)
FormsOf(A, B) ==
  LET N(v) == Num(v)  W(k) == Num(k * Unit) IN
  UNION {
    {<<N(a), N(b), Op(o)>> : o \in {"add", "sub", "eq", "and", "or"}}
      \cup {<<N(a), N(b), Op("drop")>>, <<N(a), N(b), Op("exch"), Op("drop")>>,
            <<N(a), W(b \div Unit), Op("mul")>>, <<W(a \div Unit), N(b), Op("mul")>>,
            <<N(a), Op("neg")>>, <<N(a), Op("abs")>>, <<N(a), Op("not")>>,
            <<N(a), Op("dup"), Op("add")>>, <<N(a), Op("dup"), Op("sub"), N(b), Op("add")>>,
            <<N(a), N(b), W(1), Op("index"), Op("sub"), Op("add")>>,
            <<N(a), N(b), W(0), Op("index"), Op("exch"), Op("drop"), Op("exch"), Op("drop")>>,
            <<N(a), N(b), W(-1), Op("index"), Op("add"), Op("exch"), Op("drop")>>,
            <<N(a), N(b), N(a), W(3), W(1), Op("roll"), Op("drop"), Op("drop")>>,
            <<N(a), N(b), N(0), W(3), W(-1), Op("roll"), Op("drop"), Op("drop")>>,
            <<N(a), N(b), N(0), W(3), W(2), Op("roll"), Op("drop"), Op("exch"), Op("drop")>>,
            <<N(a), N(b), N(a), N(b), W(4), W(-5), Op("roll"), Op("drop"), Op("drop"), Op("drop")>>,
            <<N(a), N(b), W(2), W(7), Op("roll"), Op("sub")>>,
            <<N(a), W(0), Op("put"), W(0), Op("get")>>,
            <<N(a), W(31), Op("put"), N(b), W(5), Op("put"), W(31), Op("get")>>,
            <<N(a), W(7), Op("put"), N(b), W(7), Op("put"), W(7), Op("get")>>,
            \* reads of cells this charstring may not have written (indeterminate, see Type2Core)
            <<N(a), W(9), Op("put"), W(0), Op("get")>>, <<W(31), Op("get")>>, <<W(5), Op("get"), Op("drop"), N(a)>>,
            <<N(a), W(7), Op("get"), Op("add")>>,
            <<N(a), N(b), N(a), N(b), Op("ifelse")>>, <<N(a), N(b), N(b), N(a), Op("ifelse")>>,
            <<N(a), N(b), N(a), N(a), Op("ifelse")>>,
            <<N(a), N(b), N(0), Op("random"), Op("ifelse")>>,
            <<N(a), N(b), Op("random"), N(0), Op("ifelse")>>,
            <<Op("random"), Op("drop"), N(a)>>, <<Op("random"), Op("not"), N(a), Op("add")>>,
            <<N(a * (b \div Unit)), W(b \div Unit), Op("div")>>,
            <<N(a), W(2), Op("mul"), W(-2), Op("div")>>,
            <<W((a \div Unit) * (a \div Unit)), Op("sqrt")>>, <<W(0), Op("sqrt")>>}
    : a \in A, b \in B }
FormsAll == FormsOf({MinOf(SVals)}, {MaxOf(SVals)})   \* a constant: TLC evaluates it once
\* 16.16 arithmetic at the representation boundary: products and quotients that lie exactly halfway
\* between two 16.16 numbers (k odd, in units of 2^-16), of both signs, and one unit either side;
\* a tie amplified by further multiplications; exact quotients for comparison
TieKs == {1, -1, 3, -32767}
TieForms ==
  IF Unit = 1 THEN {}
  ELSE LET N(v) == Num(v)  W(k) == Num(k * Unit)  h == Unit \div 2 IN
       UNION { { <<N(k), N(h), Op("mul")>>, <<N(k), N(-h), Op("mul")>>, <<N(k), N(h + 1), Op("mul")>>,
                 <<N(k), N(h - 1), Op("mul")>>, <<N(h), N(k), Op("mul"), W(16384), Op("mul"), W(4), Op("mul")>>,
                 <<N(k), W(2), Op("div")>>, <<N(k), W(-2), Op("div")>>, <<N(k), W(4), Op("div")>>,
                 <<N(3 * k), W(3), Op("div")>>, <<N(k), N(h), Op("div")>> } : k \in TieKs }
\* truth tables: the comparison and logic operators on operand pairs whose sum, difference or product
\* vanishes (x and -x, x and x, 0 and x, 0 and 0), ifelse on both sides of and at equality
LogicPairs == LET x == MaxOf(SVals) IN
  IF Sim THEN {<<x, -x>>, <<-x, x>>, <<x, x>>, <<0, x>>, <<x, 0>>, <<0, 0>>, <<-x, 0>>}
  ELSE {<<x, -x>>, <<x, x>>, <<0, x>>, <<0, 0>>}          \* the exhaustive runs: one pair per vanishing quantity
LogicForms ==
  LET N(v) == Num(v)  W(k) == Num(k * Unit) IN
  UNION { {<<N(p[1]), N(p[2]), Op(o)>> : o \in {"eq", "and", "or", "add", "sub"}}
            \cup {<<N(p[1]), Op("not")>>, <<N(p[1]), Op("abs")>>,
                  <<W(7), W(9), N(p[1]), N(p[2]), Op("ifelse")>>}
                \cup (IF Sim THEN {<<N(p[1]), N(p[2]), Op("and"), N(p[2]), Op("or")>>,
                                   <<N(p[1]), N(p[2]), Op("eq"), Op("not")>>} ELSE {})
          : p \in LogicPairs }
\* (the parameter keeps TLC from treating the random picks as a constant, too)
Forms(dummy) == IF Sim THEN FormsOf(Pick(SVals), Pick(SVals)) \cup LogicForms ELSE FormsAll \cup LogicForms

\* forms that work on the operands already pushed for this operator (net effect +1, +1, 0, 0)
StackForms ==
  LET W(k) == Num(k * Unit)  d == Len(m.stack) IN
  (IF d >= 1 THEN {<<Op("dup")>>, <<W(0), Op("index")>>} ELSE {})
  \cup (IF d >= 2 THEN {<<Op("exch")>>, <<W(1), Op("index")>>, <<W(2), W(1), Op("roll")>>} ELSE {})
  \cup (IF d >= 3 THEN {<<W(d), W(1), Op("roll")>>, <<W(d), W(-1), Op("roll")>>,
                        <<W(3), W(4), Op("roll")>>, <<W(d - 1), Op("index")>>} ELSE {})

PushArith ==
  /\ Running /\ plan.op # "" /\ plan.ar > 0
  /\ \E f \in Pick({g \in Forms(Len(main)) \cup TieForms \cup StackForms :
                       \A i \in 1..Len(g) : g[i].op = "num" \/ g[i].op \in ArithNow}) :
       LET m2 == RunToks(m, f)
           d  == Len(m2.stack) - Len(m.stack) IN
       /\ Len(m.stack) + 6 <= MaxStack
       /\ m2.st = "run" /\ Bounded(m2)
       \* only a path operator may take an inexact quotient, and not as its width operand
       /\ m2.inex => (plan.op \in MoveOps \cup DrawOps
                      /\ (m.wset \/ plan.tot = (IF plan.op = "rmoveto" THEN 2 ELSE 1)))
       /\ d \in {0, 1} /\ d <= plan.n
       /\ m' = m2 /\ Out(f)
       /\ plan' = [plan EXCEPT !.n = @ - d, !.ar = @ - 1]
  /\ UNCHANGED <<open, nops, ncalls, ls, gs, dw, nw, fault, fin, feat, glyphs, ng>>

\* ---- the operator itself
MaskFor(op) ==
  IF op \notin MaskOps THEN {<<>>}
  ELSE LET w   == IF ~m.wset /\ Len(m.stack) % 2 = 1 THEN 1 ELSE 0
           nst == (Len(m.hs) + Len(m.vs) + Len(m.stack) - w) \div 2
           k   == (nst + 7) \div 8
       IN IF Sim THEN {[i \in 1..k |-> RandomElement(MaskBytes)]}
          ELSE {[i \in 1..k |-> b] : b \in MaskBytes}

ExecPlan ==
  /\ Running /\ plan.op # "" /\ plan.n = 0 /\ ~plan.bad
  /\ \E mk \in MaskFor(plan.op) :
       LET t  == MaskTok(plan.op, mk)
           m2 == DoOp(m, t) IN
       /\ m2.st \in {"run", "done"}
       /\ m' = m2 /\ Out(<<t>>)
       /\ fin' = (m2.st = "done")
  /\ plan' = NoPlan /\ nops' = nops + 1
  /\ UNCHANGED <<open, ncalls, ls, gs, dw, nw, fault, feat, glyphs, ng>>

\* ---- subroutines: a call may happen anywhere, also between the operands of an operator
Size(k) == IF k = "l" THEN ls ELSE gs
Used(k) == {bodies[j].i : j \in {q \in 1..Len(bodies) : bodies[q].k = k}}
Call ==
  /\ Running /\ ncalls < MaxCalls /\ Len(open) < MaxDepth /\ Len(m.stack) < MaxStack
  /\ \E k \in KindsNow : \E i \in Pick(IdxNow(Size(k)) \ Used(k)) :
       /\ Emit2(<<Num((i - Bias(Size(k))) * Unit), Op(CallOp(k))>>, main,
                Append(bodies, [k |-> k, i |-> i, toks |-> <<>>]))
       /\ open' = Append(open, Len(bodies) + 1)
  /\ ncalls' = ncalls + 1
  /\ UNCHANGED <<m, plan, nops, ls, gs, dw, nw, fault, fin, feat, glyphs, ng>>

\* ten nested calls at once (the deepest legal nesting); the text continues in the innermost
DeepCall ==
  /\ Running /\ "deep10" \in GenOps /\ feat \in {"deep10", "mix"} /\ "deep10" \notin Excluded
  /\ ncalls = 0 /\ open = <<>> /\ Len(m.stack) < MaxStack
  /\ (~Sim => main = <<>>)                       \* enumeration: at the start of the text only
  /\ \E k \in KindsNow :
       LET C == CandIdx(Size(k)) \ Used(k) IN
       /\ Cardinality(C) >= MaxDepth
       /\ LET idx == SetToSeq(C)
              call(j) == <<Num((idx[j] - Bias(Size(k))) * Unit), Op(CallOp(k))>>
          IN /\ main' = main \o call(1)
             /\ bodies' = bodies \o [j \in 1..MaxDepth |->
                             [k |-> k, i |-> idx[j], toks |-> IF j < MaxDepth THEN call(j + 1) ELSE <<>>]]
             /\ open' = [j \in 1..MaxDepth |-> Len(bodies) + j]
  /\ ncalls' = MaxCalls
  /\ UNCHANGED <<m, plan, nops, ls, gs, dw, nw, fault, fin, feat, glyphs, ng>>

Return ==
  /\ Running /\ open # <<>>
  /\ (~Sim /\ Len(open) > 1) => plan.op = ""    \* enumeration: nested returns at operator boundaries only
  /\ Out(<<Op("return")>>)
  /\ open' = SubSeq(open, 1, Len(open) - 1)
  /\ UNCHANGED <<m, plan, nops, ncalls, ls, gs, dw, nw, fault, fin, feat, glyphs, ng>>

(***************************************************************************)
(* Fonts.  The law of TN5177 stated here: EVERY CHARSTRING IS EXECUTED ON A *)
(* FRESH MACHINE (empty stack, no hints, width undecided, pen at the origin,*)
(* no transient cell written, no call in progress).  NextGlyph closes the   *)
(* finished glyph, keeps the font-level state only (the subroutine INDEXes  *)
(* and the Private DICT widths) and resets everything else, so the meaning  *)
(* TLC prints for glyph k is the meaning of its charstring alone, whatever  *)
(* the other glyphs of the font executed (put, random, calls, hints, width).*)
(***************************************************************************)
OutTok(t) == IF t.op = "num" THEN t.v
             ELSE IF t.op \in MaskOps THEN <<t.op, t.mask>> ELSE t.op
OutToks(toks) == [i \in 1..Len(toks) |-> OutTok(toks[i])]
GlyphRec ==
  [main |-> OutToks(main), fault |-> fault, feat |-> feat, indet |-> m.indet,
   verdict |-> IF fault = "" THEN "ok" ELSE "error",
   exp |-> IF fault = "" THEN Meaning(m, dw, nw) ELSE [path |-> <<>>, hs |-> <<>>, vs |-> <<>>, width |-> 0]]
Case ==
  [glyphs |-> Append(glyphs, GlyphRec),
   subrs |-> [j \in 1..Len(bodies) |-> [k |-> bodies[j].k, i |-> bodies[j].i, toks |-> OutToks(bodies[j].toks)]],
   ls |-> ls, gs |-> gs, dw |-> dw, nw |-> nw, unit |-> Unit]
Wanted == IF Faults = {} THEN fault = "" ELSE fault # ""
Emit == (fin /\ Wanted /\ Len(glyphs) + 1 = ng) => PrintT(<<"CASE", ToJson(Case)>>)


NextGlyph ==
  /\ fin /\ fault = "" /\ m.st = "done" /\ Len(glyphs) + 1 < ng
  /\ glyphs' = Append(glyphs, GlyphRec)
  /\ m' = M0 /\ main' = <<>> /\ open' = <<>> /\ plan' = NoPlan /\ nops' = 0 /\ ncalls' = 0 /\ fin' = FALSE
  /\ feat' \in (IF Sim THEN Pick(Feats) ELSE {feat})
  /\ UNCHANGED <<bodies, ls, gs, dw, nw, fault, ng>>

(***************************************************************************)
(* Fault mode: exactly one fault, then the text is closed with endchar.    *)
(* The meaning of every such program is "error".                           *)
(***************************************************************************)
Lits(n) == [i \in 1..n |-> Num(IF Sim THEN RandomElement(Vals) ELSE CHOOSE v \in Vals : TRUE)]

\* the fault has happened: the rest of the text is irrelevant, keep it well formed
Faulted(kind, toks) ==
  /\ Out(toks \o <<Op("endchar")>>)
  /\ m' = Err(m) /\ fault' = kind /\ fin' = TRUE /\ plan' = NoPlan
  /\ UNCHANGED <<open, nops, ncalls, ls, gs, dw, nw, feat, glyphs, ng>>

AtBoundary == Running /\ plan.op = "" /\ m.stack = <<>>

\* an arithmetic / stack operator with fewer operands than it needs
FUnderflow ==
  /\ "underflow" \in Faults /\ AtBoundary
  /\ \E o \in Pick(ArithOps \ {"random"}) : \E k \in Pick(0..(Need(o) - 1)) :
       Faulted("underflow", Lits(k) \o <<Op(o)>>)

\* 49 operands in front of an operator that accepts any number of them
FOverflow ==
  /\ "overflow" \in Faults /\ AtBoundary
  /\ \/ m.moved /\ \E o \in Pick({"hlineto", "vlineto"}) : Faulted("overflow", Lits(49) \o <<Op(o)>>)
     \/ ~m.wset /\ m.stage = 0 /\ Faulted("overflow", Lits(49) \o <<Op("hstem")>>)
     \/ \E o \in Pick({"add", "drop", "exch"}) : Faulted("overflow", Lits(49) \o <<Op(o)>>)
     \* the 49th entry is pushed by an operator, not by a number (also when it is dropped again at once)
     \/ \E o \in Pick({"dup", "random"}) : \E tail \in Pick({<<>>, <<Op("drop")>>, <<Op("add")>>}) :
          Faulted("overflow", Lits(48) \o <<Op(o)>> \o tail)

\* the text ends without endchar (every open subroutine returns first)
FNoEndchar ==
  /\ "noendchar" \in Faults /\ AtBoundary /\ open = <<>>
  /\ m' = Err(m) /\ fault' = "noendchar" /\ fin' = TRUE
  /\ UNCHANGED <<main, bodies, open, plan, nops, ncalls, ls, gs, dw, nw, feat, glyphs, ng>>

\* a subroutine number outside the INDEX (just below 0, just above size-1)
FBadSubr ==
  /\ "badsubr" \in Faults /\ Running /\ Len(m.stack) < MaxStack
  /\ \E k \in {"l", "g"} : \E i \in Pick({-1, Size(k), Size(k) + 1, -Bias(Size(k)) - 1, Size(k) + 500}) :
       /\ Abs(i - Bias(Size(k))) <= MaxV \div Unit + 1
       /\ Faulted("badsubr", <<Num((i - Bias(Size(k))) * Unit), Op(CallOp(k))>>)

\* a drawing operator with a legal operand count before the first moveto
FDrawFirst ==
  /\ "drawfirst" \in Faults /\ AtBoundary /\ ~m.moved /\ m.wset
  /\ \E o \in Pick(DrawOps) :
       LET C == {n \in 1..MaxStack : Arity(o, n)} IN
       \E n \in Pick({k \in C : k <= 13}) : Faulted("drawfirst", Lits(n) \o <<Op(o)>>)
FDrawFirst0 ==   \* ... as the very first operator
  /\ "drawfirst" \in Faults /\ AtBoundary /\ ~m.wset
  /\ \E o \in Pick({"rlineto", "rrcurveto", "hhcurveto", "hvcurveto", "flex"}) :
       LET n == CHOOSE k \in 1..13 : Arity(o, k) /\ (k % 2 = 0 \/ o = "flex")
       IN Faulted("drawfirst", Lits(n) \o <<Op(o)>>)

\* eleven nested calls
FDeep ==
  /\ "deep" \in Faults /\ Running /\ open = <<>> /\ Len(m.stack) < MaxStack
  /\ \E k \in {"l", "g"} :
       LET C == CandIdx(Size(k)) \ Used(k) IN
       /\ Cardinality(C) >= 11
       /\ LET idx == SetToSeq(C)
              call(j) == <<Num((idx[j] - Bias(Size(k))) * Unit), Op(CallOp(k))>>
              nb == [j \in 1..11 |-> [k |-> k, i |-> idx[j],
                                      toks |-> IF j < 11 THEN call(j + 1) \o <<Op("return")>>
                                               ELSE <<Op("return")>>]]
          IN /\ main' = main \o call(1) \o <<Op("endchar")>>
             /\ bodies' = bodies \o nb
  /\ m' = Err(m) /\ fault' = "deep" /\ fin' = TRUE /\ plan' = NoPlan
  /\ UNCHANGED <<open, nops, ncalls, ls, gs, dw, nw, feat, glyphs, ng>>

\* a mask with one byte too few at the end of the text: the endchar byte is taken as mask data
FMaskShort ==
  /\ "maskshort" \in Faults /\ AtBoundary /\ open = <<>> /\ (m.hs # <<>> \/ m.vs # <<>>)
  /\ LET nst == (Len(m.hs) + Len(m.vs)) \div 2
         k   == (nst + 7) \div 8 IN
     \E o \in MaskOps : \E b \in Pick(MaskBytes) :
       Faulted("maskshort", <<MaskTok(o, [i \in 1..(k - 1) |-> b])>>)

\* a path operator on an empty stack
FPathUnderflow ==
  /\ "pathunderflow" \in Faults /\ AtBoundary /\ m.wset
  /\ \E o \in Pick(MoveOps \cup (IF m.moved THEN {"rlineto", "rrcurveto", "hhcurveto", "flex"} ELSE {})) :
       Faulted("pathunderflow", <<Op(o)>>)

\* in simulation the fault is offered at one step in six, so that prefixes get long
FaultGate(dummy) == ~Sim \/ RandomElement(1..6) = 1
FaultStep == FaultGate(Len(main)) /\ Len(glyphs) + 1 = ng /\ (FUnderflow \/ FOverflow \/ FNoEndchar \/ FBadSubr \/ FDrawFirst \/ FDrawFirst0
             \/ FDeep \/ FMaskShort \/ FPathUnderflow)

\* with Faults # {} a behaviour that finishes without a fault is not emitted; the generator
\* makes the fault likely by offering it at every boundary
Next == ChoosePlan \/ PushLit \/ PushArith \/ ExecPlan \/ Call \/ DeepCall \/ Return \/ NextGlyph \/ FaultStep
Spec == Init /\ [][Next]_vars

(***************************************************************************)
(* What TLC checks on the model.                                           *)
(***************************************************************************)
\* every charstring starts on the fresh machine, whatever the glyphs before it did
FreshMachine == (main = <<>> /\ ~fin) => m = M0
StackOK   == Len(m.stack) <= MaxStack
DepthOK   == Len(open) <= MaxDepth
StatusOK  == m.st \in {"run", "done", "error"}            \* never "unmodelled"
WidthOK   == (~m.wset => m.w = <<>>) /\ Len(m.w) <= 1
StageOK   == /\ m.stage \in 0..2
             /\ (m.stage = 0 => m.hs = <<>> /\ m.vs = <<>>)
             /\ Len(m.hs) % 2 = 0 /\ Len(m.vs) % 2 = 0
PathOK    == (m.path # <<>> /\ ~m.moved) =>
               \A i \in 1..Len(m.path) : m.path[i][1] \in {"hm", "cm"}
\* (within one charstring: NextGlyph starts the next one on a fresh machine)
StageMono == [][glyphs' = glyphs => m'.stage >= m.stage]_vars
WidthOnce == [][(glyphs' = glyphs /\ m.wset) => (m'.wset /\ m'.w = m.w)]_vars
MovedMono == [][(glyphs' = glyphs /\ m.moved) => m'.moved]_vars

\* Executing the generated text from scratch (subroutine calls replaced by their bodies, using
\* the bias rule to find them) gives the meaning the generator accumulated.
RECURSIVE Flatten(_, _, _)
Flatten(toks, bb, depth) ==
  IF depth > MaxDepth + 1 THEN <<Op("reserved")>>
  ELSE
  LET step(acc, t) ==
        IF acc.stop THEN acc
        ELSE IF t.op \in {"callsubr", "callgsubr"} THEN
          LET k == IF t.op = "callsubr" THEN "l" ELSE "g"
              prev == acc.out[Len(acc.out)]
              i == (prev.v \div Unit) + Bias(Size(k))
              J == {j \in 1..Len(bb) : bb[j].k = k /\ bb[j].i = i}
          IN IF J = {} THEN [acc EXCEPT !.out = Append(@, Op("reserved")), !.stop = TRUE]
             ELSE LET inner == Flatten(bb[CHOOSE j \in J : TRUE].toks, bb, depth + 1)
                      ended == inner # <<>> /\ inner[Len(inner)].op = "endchar"
                  IN [out |-> SubSeq(acc.out, 1, Len(acc.out) - 1) \o inner, stop |-> ended]
        ELSE IF t.op = "return" THEN [acc EXCEPT !.stop = TRUE]
        ELSE IF t.op = "endchar" THEN [out |-> Append(acc.out, t), stop |-> TRUE]
        ELSE [acc EXCEPT !.out = Append(@, t)]
      r == FoldLeft(step, [out |-> <<>>, stop |-> FALSE], toks)
  IN r.out

ReplayAgrees ==
  (fin /\ fault = "") =>
     LET r == RunToks(M0, Flatten(main, bodies, 0)) IN
     /\ r.st = "done"
     /\ Meaning(r, dw, nw) = Meaning(m, dw, nw)

\* ... and the faulty ones are errors for the executor too (where it can see the fault:
\* the call-depth and bad-index faults live in the call mechanism, not in the flat text)
FaultIsError ==
  (fin /\ fault \in {"underflow", "overflow", "drawfirst", "pathunderflow"}) =>
     RunToks(M0, Flatten(main, bodies, 0)).st = "error"

(***************************************************************************)
(* Output for the replay binding.                                          *)
(***************************************************************************)
View == vars
=============================================================================
