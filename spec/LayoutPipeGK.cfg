CONSTANTS
  Mode = "kern"
  Gen = TRUE
  CmapMenu <- GLCmapMenu
  WidthMenu <- GKWidthMenu
  MarkMenu <- GLMarkMenu
  PlanMenu <- GKPlanMenu
  GsubMenu <- GLGsubMenu
  GposMenu <- GLGposMenu
  FeatTagsG <- GLFeatTagsG
  FeatTagsP <- GLFeatTagsP
  LkMenu <- GLLkMenu
  ReqMenu <- GLReqMenu
  OptMenu <- GLOptMenu
  TagPool <- SmallPool
  ReqPool <- GLReqPool
  SwMenuG <- GKSwMenuG
  SwMenuP <- GKSwMenuP
  FlagMenu <- GKFlagMenu
  PairsMenu <- GKPairsMenu
  Chars <- GKChars
  Words <- GLWords
  MaxStr = 3
  MaxCalls = 8
INIT Init
NEXT Next
INVARIANT SelectionOK
INVARIANT Conserved
INVARIANT WidthsOK
INVARIANT Composition
INVARIANT Stable
INVARIANT KernOK
INVARIANT KernExact
INVARIANT Emit
CHECK_DEADLOCK FALSE
