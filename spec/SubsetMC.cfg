CONSTANT Fonts <- MCFonts
INIT Init
NEXT Next
INVARIANT TypeOK
INVARIANT InMax
INVARIANT Saturated
INVARIANT DoneAccepted
INVARIANT DoneCanonical
INVARIANT NoClosureRejected
INVARIANT Emit
CHECK_DEADLOCK FALSE
