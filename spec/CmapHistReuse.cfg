CONSTANTS
  MaxCode = 65535
  MaxOps = 2
  AllowScratchReuse = TRUE
INIT Init
NEXT Next
INVARIANT ResultsStable
CHECK_DEADLOCK FALSE
