--------------------------- MODULE ContainerTrace ---------------------------
(***************************************************************************)
(* C03, trace specification.  A recorded execution of the real writer      *)
(* (harness/cmd/c03) is judged with the operators of ContainerOps:         *)
(*                                                                         *)
(*   case      the input: kind "map" (argument of header.Write: scaler and *)
(*             the tag -> nil | bytes entries) or "font" (a whole font     *)
(*             written with Font.Write of package sfnt; table map internal) *)
(*   written   return values of the writer and the produced bytes; TLC     *)
(*             parses the bytes itself: WellFormed(file), for maps also    *)
(*             count and content = the non-nil entries.  The fields logged *)
(*             by the harness's independent walker must agree with TLC's   *)
(*             own reading of the bytes (cross-check of the walker, which  *)
(*             C18 relies on; a disagreement is a harness fault).          *)
(*             Whole fonts must also contain the required tables           *)
(*             (ContainerOps!RequiredTables).                              *)
(*   readback  header.Read + ReadTableBytes of every entry: must succeed   *)
(*             and return exactly TablesOf(file)                           *)
(*   readalt   table-count sweeps only: header.Read on an independently    *)
(*             assembled container with the same tables; Write accepted    *)
(*             the map <=> Read accepts it                                 *)
(*   obs       src "lib": what the written font value says; src "ximage":  *)
(*             what golang.org/x/image/font/sfnt reads from the file: must *)
(*             agree on glyph count, units per em, character mapping,      *)
(*             advances, (where x/image reports names) glyph names and     *)
(*             the outlines of non-composite glyphs                        *)
(*                                                                         *)
(* Every line is consumed; a line whose check fails is reported as         *)
(* <<"FAILED", line, case id, clause>> and counted (TLC register 2).  The  *)
(* trace is accepted iff all lines were consumed and nothing failed.       *)
(* (Checks are written with IF, never with \/ or =>: TLC would explore both *)
(* disjuncts of an action and execute the side effect of Fail.)            *)
(***************************************************************************)
EXTENDS ContainerOps, TLC, Json

Trace == ndJsonDeserialize("trace.ndjson")

VARIABLES l,      \* next line
          kind,   \* kind of the current case
          scaler, inp,
          file,   \* bytes produced by the writer (<<>> after a failed "written")
          good,   \* the written event of the case passed
          lib,    \* the "lib" observation of the case
          meta,   \* [law, okind, hascmap] of the case
          wst     \* "ok" | "refused" (Write returned an error and produced nothing) | "bad"
vars == <<l, kind, scaler, inp, file, good, lib, meta, wst>>

E == Trace[l]
Is(ev) == l <= Len(Trace) /\ E.ev = ev
Consume == l' = l + 1 /\ TLCSet(1, l)
Fail(clause) == /\ PrintT(<<"FAILED", l, E.id, clause>>)
                /\ TLCSet(2, TLCGet(2) + 1)
                /\ IF TLCGet(3) = 0 THEN TLCSet(3, l) ELSE TRUE

NoMeta == [law |-> FALSE, okind |-> "", hascmap |-> FALSE]
Init == /\ l = 1 /\ kind = "" /\ scaler = <<0, 0>> /\ inp = <<>> /\ file = <<>> /\ good = FALSE /\ lib = <<>>
        /\ meta = NoMeta /\ wst = ""
        /\ TLCSet(1, 0) /\ TLCSet(2, 0) /\ TLCSet(3, 0)

Case == /\ Is("case")
        /\ kind' = E.kind /\ scaler' = E.scaler /\ inp' = E.tabs
        /\ file' = <<>> /\ good' = FALSE /\ lib' = <<>>
        /\ meta' = [law |-> E.law, okind |-> E.okind, hascmap |-> E.hascmap] /\ wst' = ""
        /\ Consume

\* does the walker of the harness read the same directory as TLC?
WalkerAgrees(f) ==
  IF ~(Len(f) >= 12 /\ Len(f) >= DirEnd(f)) THEN ~E.walkok
  ELSE /\ E.walkok
       /\ E.nt = NumTables(f) /\ E.sr = SearchRange(f) /\ E.es = EntrySelector(f) /\ E.rs = RangeShift(f)
       /\ Len(E.recs) = NumTables(f)
       /\ E.fsum = FileSum(f)
       /\ \A i \in 1..NumTables(f) : LET r == RecAt(f, i) w == E.recs[i] IN
            /\ w.tag = r.tag /\ w.sum = r.sum /\ w.off = r.off /\ w.len = r.len
            /\ (Small(r.off) /\ Small(r.len) /\ Int32(r.off) + Int32(r.len) <= Len(f))
                 => w.inside /\ w.calc = Checksum(TableBytes(f, r))

\* table-count sweep with no table at all: a writer that accepts it has nothing to lay out but the
\* 12-byte offset table (whether that is acceptable is decided by the law at "readalt")
EmptyCase == kind = "map" /\ meta.law /\ Present(inp) = {}
\* in a table-count sweep Write may refuse the map: an error and not a single byte written
Refused == meta.law /\ ~E.panic /\ ~E.ok /\ Len(E.file) = 0

\* first failing clause of the "written" event ("" = passes)
Verdict(f) ==
  IF E.panic THEN "panic" ELSE
  IF ~E.ok THEN "error" ELSE
  IF E.n # Len(f) THEN "count-returned" ELSE
  IF EmptyCase THEN (IF Len(f) = 12 /\ NumTables(f) = 0 /\ Scaler(f) = scaler THEN "" ELSE "header") ELSE
  IF ~HeaderOK(f) THEN "header" ELSE
  IF kind = "map" /\ Scaler(f) # scaler THEN "scaler" ELSE
  IF kind = "map" /\ NumTables(f) # Cardinality(Present(inp)) THEN "numtables" ELSE
  IF WhyNot(f) # "" THEN WhyNot(f) ELSE
  IF kind = "map" /\ Masked(TablesOf(f)) # Expected(inp) THEN "content" ELSE
  IF kind = "font" /\ ~(RequiredTables(meta.okind, meta.hascmap) \subseteq TagsIn(f)) THEN "font-required-table" ELSE ""

Written ==
  /\ Is("written")
  /\ LET f == E.file
         v == Verdict(f)
     IN  /\ IF WalkerAgrees(f) THEN TRUE ELSE Fail("WALKER")
         /\ IF Refused THEN file' = <<>> /\ good' = FALSE /\ wst' = "refused"
            ELSE IF v = "" THEN file' = f /\ good' = TRUE /\ wst' = "ok"
                           ELSE Fail(v) /\ file' = <<>> /\ good' = FALSE /\ wst' = "bad"
  /\ UNCHANGED <<kind, scaler, inp, lib, meta>> /\ Consume

ReadVerdict ==
  IF E.panic THEN "read-panic" ELSE
  IF ~E.ok THEN "read-error" ELSE
  IF E.scaler # Scaler(file) THEN "read-scaler" ELSE
  IF Len(E.tabs) # NumTables(file) THEN "read-count" ELSE
  IF {<<E.tabs[i].tag, E.tabs[i].data>> : i \in 1..Len(E.tabs)} # TablesOf(file) THEN "read-content" ELSE ""

\* only judged for files that passed "written" (otherwise there is nothing well-formed to read)
Readback ==
  /\ Is("readback")
  /\ IF good /\ ReadVerdict # "" THEN Fail(ReadVerdict) /\ good' = FALSE ELSE good' = good
  /\ UNCHANGED <<kind, scaler, inp, file, lib, meta, wst>> /\ Consume

\* The law of the table-count sweep (Container!InvAgree): header.Read is given a well-formed container
\* with the same tables, built by the harness's independent assembler.  Write accepted <=> Read accepts.
ReadAlt ==
  /\ Is("readalt")
  /\ IF E.panic THEN Fail("read-panic")
     ELSE IF wst = "refused" /\ E.ok THEN Fail("write-refuses-what-read-accepts")
     ELSE IF wst = "ok" /\ good /\ ~E.ok THEN Fail("read-refuses-what-write-accepts")   \* (not reported twice)
     ELSE IF E.ok /\ E.ntabs # Cardinality(Present(inp)) THEN Fail("read-count")
     ELSE TRUE
  /\ UNCHANGED <<kind, scaler, inp, file, good, lib, meta, wst>> /\ Consume

ObsLib == /\ Is("obs") /\ E.src = "lib"
          /\ IF E.ok THEN TRUE ELSE Fail("LIBOBS")
          /\ lib' = E
          /\ UNCHANGED <<kind, scaler, inp, file, good, meta, wst>> /\ Consume

\* x/image refuses a font without a character map (the unchanged tree writes none for CMapTable = nil):
\* such a case proves nothing and is reported as SKIPPED.  Any other file that Write produced without
\* an error and x/image rejects is a failure.
\* outlines of glyph i (see harness/cmd/c03: CFF path operators in order; TrueType: the off-curve
\* points are the same multiset, the on-curve points of the font are end points in x/image)
PointSet(s) == {s[j] : j \in 1..Len(s)}
OutlineAgrees(i) ==
  /\ E.oseq[i] = lib.oseq[i]
  /\ E.ooff[i] = lib.ooff[i]
  /\ PointSet(lib.oon[i]) \subseteq PointSet(E.oon[i])

ObsVerdict ==
  IF E.ng # lib.ng THEN "x-numglyphs" ELSE
  IF E.upem # lib.upem THEN "x-unitsperem" ELSE
  IF E.runes # lib.runes THEN "HARNESS-runes" ELSE
  IF E.gids # lib.gids THEN "x-glyphindex" ELSE
  IF Len(E.advlo) # lib.ng THEN "x-advance-count" ELSE
  IF \E i \in 1..lib.ng : E.advlo[i] # lib.advlo[i] /\ E.advlo[i] # lib.advhi[i] THEN "x-advance" ELSE
  IF (\E i \in 1..Len(E.names) : E.names[i] # "") /\ E.names # lib.names THEN "x-glyphname" ELSE
  IF Len(E.oseq) # lib.ng \/ Len(E.ooff) # lib.ng \/ Len(E.oon) # lib.ng THEN "x-outline-count" ELSE
  IF \E i \in 1..lib.ng : ~lib.oskip[i] /\ ~OutlineAgrees(i) THEN "x-outline" ELSE ""

ObsX == /\ Is("obs") /\ E.src = "ximage"
        /\ IF ~good \/ ~lib.ok THEN TRUE
           ELSE IF ~E.ok /\ ~meta.hascmap THEN PrintT(<<"SKIPPED", l, E.id, E.msg>>)
           ELSE IF ~E.ok THEN Fail("x-rejected")
           ELSE IF ObsVerdict # "" THEN Fail(ObsVerdict) ELSE TRUE
        /\ UNCHANGED <<kind, scaler, inp, file, good, lib, meta, wst>> /\ Consume

Next == Case \/ Written \/ Readback \/ ReadAlt \/ ObsLib \/ ObsX
Spec == Init /\ [][Next]_vars

Accepted == IF TLCGet(1) = Len(Trace) /\ TLCGet(2) = 0 THEN TRUE
            ELSE PrintT(<<"REJECTED_AT_LINE", IF TLCGet(3) > 0 THEN TLCGet(3) ELSE TLCGet(1) + 1>>) /\ FALSE
=============================================================================
