\* generation (R binding): glyph sets whose glyf table has exactly the given size
CONSTANTS
  Kind = "big"
  Salt = 1
  MaxRuns = 0
  MaxComps = 0
  MaxGlyphs = 0
  MaxSteps = 0
  FinishFull = TRUE
  With256 = FALSE
  Targets = {65534, 65536, 131070, 131072}
  SharedBuf = FALSE
INIT Init
NEXT Next
INVARIANT EncodeDecode
INVARIANT PointsMeaning
INVARIANT LocaInv
INVARIANT Emit
CHECK_DEADLOCK FALSE
