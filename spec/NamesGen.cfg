SPECIFICATION Spec
CHECK_DEADLOCK FALSE
INVARIANT RefLaw
INVARIANT RefLawSimple
INVARIANT RefStable
INVARIANT Refuses
INVARIANT Emit
CONSTANTS
  MinN = 1
  MinRules = 0
  MaxN = 6
  PoolSel = "full"
  Codes = {32, 65, 66, 105, 106, 160, 307, 545}
  MaxRules = 4
  RuleTypes = {1, 3, 4}
  LigLens = {1, 2, 3}
  Kinds = {"ttf", "cff", "cid"}
  CmapFormats = {"4", "12", "6", "0"}
  LigFirst = 0
  TextSel = "mix"
  Flags = TRUE
  Quiet = FALSE
