--------------------------- MODULE CFFLayoutOps ---------------------------
(***************************************************************************)
(* C13, part (b): the CFF data structures as pure operators, written from   *)
(* Adobe Technical Note #5176 (CFF) and, for the width prefix of a Type 2   *)
(* charstring, #5177.  Nothing here is taken from go-sfnt.                  *)
(*                                                                         *)
(*   numbers     IntLen, DecodeDict (five integer forms, nibble reals as    *)
(*               (mantissa, exponent) with at most nine digits), Norm       *)
(*   INDEX       WFIndex, ItemPos, ItemLen, IndexSize, OffSizeFor           *)
(*   charset     DecodeCharset (formats 0, 1, 2), predefined charsets       *)
(*   encoding    DecodeEncoding (formats 0, 1, supplements), predefined     *)
(*   FDSelect    DecodeFDSelect (formats 0, 3)                              *)
(*   Type 2      T2Head (operands before the first operator), width rule    *)
(*                                                                         *)
(* Bytes are integers 0..255 in 1-based sequences.  All arithmetic stays    *)
(* inside TLC's 32-bit integers.  A decimal real is the pair <<m, e>> =     *)
(* m * 10^e with m not divisible by 10 (<<0, 0>> for zero); a 16.16 number  *)
(* is <<i, f>> = i + f/65536 with f in 0..65535.                            *)
(***************************************************************************)
EXTENDS Integers, Sequences, FiniteSets, TLC, SequencesExt, CFFLayoutStd

Sum(s) == FoldLeft(LAMBDA a, b : a + b, 0, s)
Range1(n) == [i \in 1..n |-> i]
P10(k) == CASE k = 0 -> 1 [] k = 1 -> 10 [] k = 2 -> 100 [] k = 3 -> 1000 [] k = 4 -> 10000
            [] k = 5 -> 100000 [] k = 6 -> 1000000 [] k = 7 -> 10000000 [] k = 8 -> 100000000
            [] k = 9 -> 1000000000

(* ------------------------------ numbers -------------------------------- *)

\* TN5176 Table 3: size of the DICT encoding of an integer (shortest form)
IntLen(v) == IF v >= -107 /\ v <= 107 THEN 1
             ELSE IF v >= -1131 /\ v <= 1131 THEN 2
             ELSE IF v >= -32768 /\ v <= 32767 THEN 3
             ELSE 5

\* the shortest-form bytes of an integer (used only to test the decoder on the model)
Byte4(v) == \* two's complement big-endian bytes of a 32-bit integer
  LET hi == v \div 65536  \* floor: -32768..32767
      lo == v % 65536
      h  == IF hi < 0 THEN hi + 65536 ELSE hi
  IN <<h \div 256, h % 256, lo \div 256, lo % 256>>
IntBytes(v) ==
  CASE v >= -107 /\ v <= 107     -> <<v + 139>>
    [] v >= 108 /\ v <= 1131     -> <<(v - 108) \div 256 + 247, (v - 108) % 256>>
    [] v >= -1131 /\ v <= -108   -> <<(-v - 108) \div 256 + 251, (-v - 108) % 256>>
    [] (v > 1131 /\ v <= 32767) \/ (v < -1131 /\ v >= -32768)
                                 -> <<28, Byte4(v)[3], Byte4(v)[4]>>
    [] OTHER                     -> <<29>> \o Byte4(v)

\* decimal normal form: no trailing zeros in the mantissa
RECURSIVE Norm(_, _)
Norm(m, e) == IF m = 0 THEN <<0, 0>>
              ELSE IF m % 10 = 0 THEN Norm(m \div 10, e + 1)
              ELSE <<m, e>>

Tok(k, v, e) == [k |-> k, v |-> v, e |-> e]   \* k = "i": integer v;  k = "r": real v * 10^e
TokVal(t) == Norm(t.v, t.e)
TokIsInt(t, n) == TokVal(t) = Norm(n, 0)
TokIsReal(t, me) == TokVal(t) = Norm(me[1], me[2])
\* the integer denoted by an operand (offsets, sizes, SIDs), -1 if it is none
TokInt(t) == IF t.k = "i" THEN t.v
             ELSE LET n == TokVal(t) IN
                  IF n[2] >= 0 /\ n[2] <= 4 /\ n[1] >= 0 /\ n[1] < 100000 THEN n[1] * P10(n[2]) ELSE -1

\* --- nibble-coded reals (TN5176 Table 5) ---
RealS0 == [neg |-> FALSE, m |-> 0, nd |-> 0, sh |-> 0, pt |-> FALSE, rnd |-> 0, ex |-> 0,
       exn |-> FALSE, inex |-> FALSE, any |-> FALSE, exany |-> FALSE, st |-> "run"]

Nib(r, d) ==
  IF r.st # "run" THEN r
  ELSE IF d <= 9 THEN
    IF r.inex THEN (IF r.ex > 9999 THEN [r EXCEPT !.st = "bad"]
                    ELSE [r EXCEPT !.ex = r.ex * 10 + d, !.exany = TRUE])
    ELSE IF r.nd = 0 /\ d = 0 THEN [r EXCEPT !.any = TRUE, !.sh = IF r.pt THEN r.sh - 1 ELSE r.sh]
    ELSE IF r.nd < 9 THEN [r EXCEPT !.any = TRUE, !.m = r.m * 10 + d, !.nd = r.nd + 1,
                                     !.sh = IF r.pt THEN r.sh - 1 ELSE r.sh]
    ELSE [r EXCEPT !.nd = r.nd + 1, !.rnd = IF r.nd = 9 THEN d ELSE r.rnd,
                   !.sh = IF r.pt THEN r.sh ELSE r.sh + 1]
  ELSE IF d = 10 THEN (IF r.pt \/ r.inex THEN [r EXCEPT !.st = "bad"] ELSE [r EXCEPT !.pt = TRUE])
  ELSE IF d = 11 THEN (IF r.inex THEN [r EXCEPT !.st = "bad"] ELSE [r EXCEPT !.inex = TRUE])
  ELSE IF d = 12 THEN (IF r.inex THEN [r EXCEPT !.st = "bad"] ELSE [r EXCEPT !.inex = TRUE, !.exn = TRUE])
  ELSE IF d = 13 THEN [r EXCEPT !.st = "bad"]
  ELSE IF d = 14 THEN (IF r.any \/ r.neg \/ r.pt \/ r.inex THEN [r EXCEPT !.st = "bad"]
                       ELSE [r EXCEPT !.neg = TRUE])
  ELSE (IF ~r.any \/ (r.inex /\ ~r.exany) THEN [r EXCEPT !.st = "bad"] ELSE [r EXCEPT !.st = "end"])

RealTok(r) ==
  LET m0 == IF r.rnd >= 5 THEN r.m + 1 ELSE r.m
      e0 == r.sh + (IF r.exn THEN -r.ex ELSE r.ex)
      n  == Norm(IF r.neg THEN -m0 ELSE m0, e0)
  IN Tok("r", n[1], n[2])

\* --- DICT data: operands followed by a one- or two-byte operator (TN5176 section 4) ---
\* two-byte operators 12 x are numbered 1200 + x
DictS0 == [mode |-> "top", need |-> 0, first |-> FALSE, acc |-> 0, r |-> RealS0,
       stack |-> <<>>, out |-> <<>>, bad |-> FALSE]

DStep(s, b) ==
  IF s.bad THEN s
  ELSE CASE s.mode = "top" ->
         (CASE b = 12 -> [s EXCEPT !.mode = "esc"]
            [] b <= 21 /\ b # 12 -> [s EXCEPT !.out = Append(s.out, [op |-> b, args |-> s.stack]), !.stack = <<>>]
            [] b = 28 -> [s EXCEPT !.mode = "int", !.need = 2, !.first = TRUE]
            [] b = 29 -> [s EXCEPT !.mode = "int", !.need = 4, !.first = TRUE]
            [] b = 30 -> [s EXCEPT !.mode = "real", !.r = RealS0]
            [] b >= 32 /\ b <= 246 -> [s EXCEPT !.stack = Append(s.stack, Tok("i", b - 139, 0))]
            [] b >= 247 /\ b <= 250 -> [s EXCEPT !.mode = "p", !.acc = (b - 247) * 256 + 108]
            [] b >= 251 /\ b <= 254 -> [s EXCEPT !.mode = "n", !.acc = -(b - 251) * 256 - 108]
            [] OTHER -> [s EXCEPT !.bad = TRUE])
       [] s.mode = "esc" -> [s EXCEPT !.mode = "top", !.stack = <<>>,
                                      !.out = Append(s.out, [op |-> 1200 + b, args |-> s.stack])]
       [] s.mode = "p" -> [s EXCEPT !.mode = "top", !.stack = Append(s.stack, Tok("i", s.acc + b, 0))]
       [] s.mode = "n" -> [s EXCEPT !.mode = "top", !.stack = Append(s.stack, Tok("i", s.acc - b, 0))]
       [] s.mode = "int" ->
            LET a == IF s.first THEN (IF b >= 128 THEN b - 256 ELSE b) ELSE s.acc * 256 + b IN
            IF s.need = 1 THEN [s EXCEPT !.mode = "top", !.stack = Append(s.stack, Tok("i", a, 0))]
            ELSE [s EXCEPT !.acc = a, !.need = s.need - 1, !.first = FALSE]
       [] s.mode = "real" ->
            LET r1 == Nib(s.r, b \div 16)
                r2 == Nib(r1, b % 16) IN
            IF r2.st = "bad" THEN [s EXCEPT !.bad = TRUE]
            ELSE IF r2.st = "end" THEN [s EXCEPT !.mode = "top", !.stack = Append(s.stack, RealTok(r2))]
            ELSE [s EXCEPT !.r = r2]

\* [ok, ents]: ents = sequence of [op, args]; ok iff the data ends after an operator
DecodeDict(bytes) ==
  LET s == FoldLeft(DStep, DictS0, bytes)
  IN [ok |-> ~s.bad /\ s.mode = "top" /\ s.stack = <<>>, ents |-> s.out]

DictHas(d, op) == \E i \in 1..Len(d.ents) : d.ents[i].op = op
\* operands of an operator (the last occurrence); <<>> if absent
DictArgs(d, op) ==
  IF DictHas(d, op)
    THEN LET i == CHOOSE j \in 1..Len(d.ents) :
                    d.ents[j].op = op /\ \A k \in (j + 1)..Len(d.ents) : d.ents[k].op # op
         IN d.ents[i].args
    ELSE <<>>
DictOps(d) == {d.ents[i].op : i \in 1..Len(d.ents)}

\* a delta-encoded array (TN5176 section 4, "delta"): operands are differences
Undelta(args) ==
  LET f(acc, t) == Append(acc, (IF Len(acc) = 0 THEN 0 ELSE acc[Len(acc)]) + t.v)
  IN FoldLeft(f, <<>>, args)

(* -------------------------------- INDEX -------------------------------- *)

OffSizeFor(x) == IF x < 256 THEN 1 ELSE IF x < 65536 THEN 2 ELSE IF x < 16777216 THEN 3 ELSE 4

\* size of an INDEX holding objects of the given lengths, with the smallest offSize
IndexSize(lens) == IF Len(lens) = 0 THEN 2
                   ELSE 3 + (Len(lens) + 1) * OffSizeFor(Sum(lens) + 1) + Sum(lens)

\* ix = [at, count, offSize, offs, end] as found in a file: TN5176 section 5
WFIndex(ix) ==
  IF ix.count = 0 THEN ix.end = ix.at + 2 /\ ix.offs = <<>>
  ELSE /\ ix.count > 0 /\ ix.count <= 65535
       /\ ix.offSize \in 1..4
       /\ Len(ix.offs) = ix.count + 1
       /\ ix.offs[1] = 1
       /\ \A i \in 1..ix.count : ix.offs[i] <= ix.offs[i + 1]
       /\ OffSizeFor(ix.offs[ix.count + 1]) <= ix.offSize
       /\ ix.end = ix.at + 3 + (ix.count + 1) * ix.offSize + ix.offs[ix.count + 1] - 1
ItemPos(ix, i) == ix.at + 3 + (ix.count + 1) * ix.offSize + ix.offs[i] - 1
ItemLen(ix, i) == ix.offs[i + 1] - ix.offs[i]

(* ------------------------------- charsets ------------------------------ *)

W16(b, i) == b[i] * 256 + b[i + 1]

\* [ok, sids]: sids[g+1] = SID (or CID) of glyph g; glyph 0 is not stored (TN5176 section 13)
DecodeCharset(b, n) ==
  IF Len(b) < 1 THEN [ok |-> FALSE, sids |-> <<>>]
  ELSE IF b[1] = 0 THEN
    IF Len(b) < 1 + 2 * (n - 1) THEN [ok |-> FALSE, sids |-> <<>>]
    ELSE [ok |-> TRUE, sids |-> <<0>> \o [i \in 1..(n - 1) |-> W16(b, 2 * i)]]
  ELSE IF b[1] \in {1, 2} THEN
    LET w  == IF b[1] = 1 THEN 3 ELSE 4
        R  == (Len(b) - 1) \div w
        st(acc, r) ==
          IF Len(acc) >= n THEN acc
          ELSE LET p == 2 + w * (r - 1)
                   first == W16(b, p)
                   nLeft == IF w = 3 THEN b[p + 2] ELSE W16(b, p + 2)
               IN acc \o [j \in 1..(nLeft + 1) |-> first + j - 1]
        all == FoldLeft(st, <<0>>, Range1(R))
    IN [ok |-> Len(all) = n /\ \A i \in 1..Len(all) : all[i] <= 65535, sids |-> all]
  ELSE [ok |-> FALSE, sids |-> <<>>]

ISOAdobeCharset == [i \in 1..229 |-> i - 1]
PredefCharset(k) == CASE k = 0 -> ISOAdobeCharset [] k = 1 -> ExpertCharset [] k = 2 -> ExpertSubsetCharset

(* ------------------------------- encodings ----------------------------- *)

\* position (glyph index) of a SID in a charset, 0 if absent
GidOfSid(sids, s) == IF \E g \in 1..Len(sids) : sids[g] = s
                     THEN (CHOOSE g \in 1..Len(sids) : sids[g] = s) - 1 ELSE 0

\* [ok, enc]: enc[c+1] = glyph at code c, 0 = none (TN5176 section 12).  Primary codes are
\* given in glyph order starting at glyph 1; supplements name glyphs by SID.
DecodeEncoding(b, sids) ==
  LET bad == [ok |-> FALSE, enc |-> <<>>] IN
  IF Len(b) < 2 THEN bad
  ELSE
  LET fmt == b[1] % 128
      sup == b[1] >= 128
      n   == Len(sids)
  IN IF fmt \notin {0, 1} THEN bad
  ELSE
  LET cnt   == b[2]
      endp  == IF fmt = 0 THEN 2 + cnt ELSE 2 + 2 * cnt
  IN IF Len(b) < endp + (IF sup THEN 1 ELSE 0) THEN bad
  ELSE
  LET codes == IF fmt = 0 THEN SubSeq(b, 3, 2 + cnt)
               ELSE FoldLeft(LAMBDA acc, r :
                               acc \o [j \in 1..(b[2 * r + 2] + 1) |-> b[2 * r + 1] + j - 1],
                             <<>>, Range1(cnt))
      nSup  == IF sup THEN b[endp + 1] ELSE 0
  IN IF Len(b) < endp + (IF sup THEN 1 + 3 * nSup ELSE 0) THEN bad
  ELSE
  LET supCode(k) == b[endp + 3 * k - 1]
      supSid(k)  == W16(b, endp + 3 * k)
      gl(c) == {i \in 1..Len(codes) : codes[i] = c}
               \cup {GidOfSid(sids, supSid(k)) : k \in {k \in 1..nSup : supCode(k) = c}}
  IN [ok |-> /\ Len(codes) <= n - 1
             /\ \A i \in 1..Len(codes) : codes[i] <= 255
             /\ \A c \in 0..255 : Cardinality(gl(c)) <= 1
             /\ \A k \in 1..nSup : \E g \in 1..n : sids[g] = supSid(k),
      enc |-> [c1 \in 1..256 |-> IF gl(c1 - 1) = {} THEN 0 ELSE CHOOSE g \in gl(c1 - 1) : TRUE]]

\* a predefined encoding applied to a font with the given glyph names (names[g+1])
PredefEncoding(table, names) ==
  LET nameSet == {names[g] : g \in 2..Len(names)} IN
  [c1 \in 1..256 |->
     IF table[c1] = 0 THEN 0
     ELSE LET nm == StdStr[table[c1] + 1] IN
          IF nm \in nameSet THEN (CHOOSE g \in 2..Len(names) : names[g] = nm) - 1 ELSE 0]

(* -------------------------------- FDSelect ----------------------------- *)

\* [ok, fds]: fds[g+1] = font DICT index of glyph g (TN5176 section 19)
DecodeFDSelect(b, n) ==
  LET bad == [ok |-> FALSE, fds |-> <<>>] IN
  IF Len(b) < 1 THEN bad
  ELSE IF b[1] = 0 THEN
    IF Len(b) < 1 + n THEN bad ELSE [ok |-> TRUE, fds |-> SubSeq(b, 2, 1 + n)]
  ELSE IF b[1] = 3 THEN
    IF Len(b) < 5 THEN bad
    ELSE
    LET nR == W16(b, 2) IN
    IF Len(b) < 5 + 3 * nR \/ nR = 0 THEN bad
    ELSE
    LET first(r) == IF r = nR + 1 THEN W16(b, 4 + 3 * nR) ELSE W16(b, 4 + 3 * (r - 1))
        fd(r) == b[6 + 3 * (r - 1)]
        mono == first(1) = 0 /\ \A r \in 1..nR : first(r) < first(r + 1)
    IN IF ~mono \/ first(nR + 1) # n THEN bad
       ELSE [ok |-> TRUE,
             fds |-> FoldLeft(LAMBDA acc, r : acc \o [j \in 1..(first(r + 1) - first(r)) |-> fd(r)],
                              <<>>, Range1(nR))]
  ELSE bad

(* --------------------- Type 2 charstrings: width prefix ----------------- *)

Add16(a, b) == <<a[1] + b[1] + (a[2] + b[2]) \div 65536, (a[2] + b[2]) % 65536>>

\* decimal real <<m, e>> rounded to 16.16 (only for |value| < 32768)
RECURSIVE FracBits(_, _, _, _)
FracBits(r, den, k, acc) ==   \* k more binary digits of r/den (0 <= r < den <= 10^9)
  IF k = 0 THEN <<acc, r>>
  ELSE IF 2 * r >= den THEN FracBits(2 * r - den, den, k - 1, 2 * acc + 1)
  ELSE FracBits(2 * r, den, k - 1, 2 * acc)
RealTo16(me) ==
  LET m == me[1]  e == me[2] IN
  IF e >= 0 THEN <<m * P10(e), 0>>
  ELSE IF -e > 9 THEN <<0, 0>>     \* below 16.16 resolution for the mantissas used here
  ELSE LET den == P10(-e)
           q   == m \div den       \* floor
           r   == m % den
           fb  == FracBits(r, den, 16, 0)
           up  == IF 2 * fb[2] >= den THEN 1 ELSE 0
       IN Add16(<<q, fb[1]>>, <<0, up>>)
TokTo16(t) == IF t.k = "i" THEN <<t.v, 0>> ELSE RealTo16(TokVal(t))

\* operands (as 16.16) before the first operator of a charstring, and that operator
\* (TN5177 section 3.2: number encodings; 12 x is numbered 1200 + x)
T2S0 == [mode |-> "top", acc |-> 0, hi |-> 0, need |-> 0, args |-> <<>>, op |-> -1, bad |-> FALSE]
TStep(s, b) ==
  IF s.bad \/ s.op >= 0 THEN s
  ELSE CASE s.mode = "top" ->
         (CASE b = 12 -> [s EXCEPT !.mode = "esc"]
            [] b = 28 -> [s EXCEPT !.mode = "w", !.need = 2, !.acc = 0]
            [] b = 255 -> [s EXCEPT !.mode = "f", !.need = 4, !.acc = 0, !.hi = 0]
            [] b <= 31 /\ b # 12 /\ b # 28 -> [s EXCEPT !.op = b]
            [] b >= 32 /\ b <= 246 -> [s EXCEPT !.args = Append(s.args, <<b - 139, 0>>)]
            [] b >= 247 /\ b <= 250 -> [s EXCEPT !.mode = "p", !.acc = (b - 247) * 256 + 108]
            [] b >= 251 /\ b <= 254 -> [s EXCEPT !.mode = "n", !.acc = -(b - 251) * 256 - 108])
       [] s.mode = "esc" -> [s EXCEPT !.op = 1200 + b]
       [] s.mode = "p" -> [s EXCEPT !.mode = "top", !.args = Append(s.args, <<s.acc + b, 0>>)]
       [] s.mode = "n" -> [s EXCEPT !.mode = "top", !.args = Append(s.args, <<s.acc - b, 0>>)]
       [] s.mode = "w" ->
            LET a == s.acc * 256 + b IN
            IF s.need = 1 THEN [s EXCEPT !.mode = "top",
                                  !.args = Append(s.args, <<IF a >= 32768 THEN a - 65536 ELSE a, 0>>)]
            ELSE [s EXCEPT !.acc = a, !.need = 1]
       [] s.mode = "f" ->
            IF s.need > 2 THEN [s EXCEPT !.hi = s.hi * 256 + b, !.need = s.need - 1]
            ELSE IF s.need = 2 THEN [s EXCEPT !.acc = b, !.need = 1]
            ELSE [s EXCEPT !.mode = "top",
                    !.args = Append(s.args, <<IF s.hi >= 32768 THEN s.hi - 65536 ELSE s.hi, s.acc * 256 + b>>)]
T2Head(bytes) ==
  LET s == FoldLeft(TStep, T2S0, bytes) IN [ok |-> ~s.bad /\ s.op >= 0, args |-> s.args, op |-> s.op]

\* TN5177 section 4.1/4.4: the first stack-clearing operator may carry one extra, leading
\* operand: the difference between the advance width and nominalWidthX; without it the width
\* is defaultWidthX.  [known, has]: known = the rule applies to this first operator.
WidthArg(h) ==
  LET k == Len(h.args) IN
  CASE h.op = 14 -> [known |-> k \in {0, 1, 4, 5}, has |-> k \in {1, 5}]            \* endchar
    [] h.op = 21 -> [known |-> k \in {2, 3}, has |-> k = 3]                          \* rmoveto
    [] h.op \in {4, 22} -> [known |-> k \in {1, 2}, has |-> k = 2]                   \* v/hmoveto
    [] h.op \in {1, 3, 18, 23, 19, 20} -> [known |-> TRUE, has |-> k % 2 = 1]        \* stems, masks
    [] OTHER -> [known |-> FALSE, has |-> FALSE]
\* advance width of a charstring given defaultWidthX and nominalWidthX (16.16)
T2Width(h, dflt, nominal) == IF WidthArg(h).has THEN Add16(nominal, h.args[1]) ELSE dflt
=============================================================================
