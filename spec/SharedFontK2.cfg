CONSTANTS
  N = 2
  K = 2
  Ops = {"Write", "Subset", "MakeGlyphNames", "Layout"}
  Variant = "ok"
  MaxPar = 2
  MaxOps = 0
  Gen = FALSE
INIT Init
NEXT Next
VIEW view
INVARIANT TypeOK
INVARIANT NoRace
INVARIANT SeqEquiv
INVARIANT SharedUnchanged
CHECK_DEADLOCK FALSE
