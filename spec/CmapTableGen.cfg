CONSTANTS
  MaxCode = 65535
  NC = 3
INIT Init
NEXT Next
INVARIANT TableOK
INVARIANT BestOK
INVARIANT Emit
CHECK_DEADLOCK FALSE
