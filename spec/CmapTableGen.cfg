CONSTANTS
  MaxCode = 65535
  NC = 3
  NoUnicode = FALSE
INIT Init
NEXT Next
INVARIANT TableOK
INVARIANT BestOK
INVARIANT Emit
CHECK_DEADLOCK FALSE
