\* C04 GlyphGen, operand-value sweep on the 2^-18 grid: a full operator of every form with one operand,
\* at each position 1..48, that needs the five-byte 16.16 number form (enumerated)
CONSTANTS
  GUnit = 262144
  MaxG = 524288000
  D <- FineD
  SD <- WidthSD
  WPats <- FineSweepW
  StemPlans <- SweepPlans0
  MaxGlyphs = 2
  MaxSteps = 1
  LineRuns <- NoRuns
  CurveRuns <- NoRuns
  FarJumps = FALSE
  SweepOnly = TRUE
  SweepA <- FineSweepAs
  SweepB <- FineSweepBs
  SweepKinds <- ValueOnly
  ValuePos <- AllPos
  Sim = FALSE
INIT SweepInit
NEXT Next
INVARIANT CoordsOK
INVARIANT MasksOK
INVARIANT MoveFirst
INVARIANT StemsOK
INVARIANT Emit
CHECK_DEADLOCK FALSE
