------------------------------ MODULE CmapMC ------------------------------
(***************************************************************************)
(* C09.  TLC validates the operators of Cmap.tla on scaled-down word       *)
(* sizes, exhaustively:                                                    *)
(*                                                                         *)
(*  InitMaps   every map 0..MaxCode -> 0..MaxCode.  For the reference      *)
(*             encoder, for explicit glyph arrays with every legal idDelta *)
(*             and for the single wide array: the table is well formed,    *)
(*             Dec4 at EVERY code gives back the map, Pairs4/Agree4 say    *)
(*             the same, and Agree4 rejects every one-point change of the  *)
(*             map (reference encoder; the others when NegAll).  Same for  *)
(*             formats 6 and (InitMaps12) 12.                              *)
(*  InitBodies every format-4 body (segCount <= 2, glyph array <= GA       *)
(*             words, every word value): whenever the segments are well    *)
(*             formed, the O(span) whole-space test Agree4 and the list    *)
(*             Pairs4 coincide with the pointwise decode rule Dec4, i.e.   *)
(*             the shortcut used on recorded tables is the definition.     *)
(*  InitBytes  format 0 at the real word size.                             *)
(***************************************************************************)
EXTENDS Cmap

CONSTANTS GA,        \* InitBodies: largest glyph array
          N12, G12,  \* InitMaps12: codes 0..N12-1, glyphs 0..G12
          NegAll     \* TRUE: the one-point-change test also for the non-minimal encoders (slow)
VARIABLE x           \* the object under construction, one value per step (so that all workers share the load)

Codes == 0..MaxCode
FnOf(w) == [c \in Codes |-> Dec4(w, c)]

\* w decodes to the map m (a function on Codes) under every view the trace spec uses
Good4(w, m, lang, neg) ==
  LET p == PairsOfFn(m) IN
  /\ WF4(w, lang)
  /\ \A c \in Codes : Dec4(w, c) = m[c]
  /\ Agree4(w, p)
  /\ Pairs4(w) = p
  /\ neg => \A c \in Codes : \A g \in Codes : g # m[c] => ~Agree4(w, PairsOfFn([m EXCEPT ![c] = g]))

InitMaps == x = <<>>
NextMaps == Len(x) <= MaxCode /\ \E g \in Codes : x' = Append(x, g)
MapOf == [c \in Codes |-> x[c + 1]]
Full == Len(x) = MaxCode + 1
Ref4OK  == Full => Good4(Build4(RefSegs(PairsOfFn(MapOf)), 3), MapOf, 3, TRUE)
Arr4OK  == Full => \A d \in Codes : CanDelta(PairsOfFn(MapOf), d) => Good4(Build4(ArrSegs(PairsOfFn(MapOf), d), 0), MapOf, 0, NegAll)
Wide4OK == Full => \A d \in Codes : CanDelta(PairsOfFn(MapOf), d) => Good4(Build4(WideSegs(PairsOfFn(MapOf), d), 1), MapOf, 1, NegAll)
Fmt6OK  == Full => LET p == PairsOfFn(MapOf)
                       w == Enc6(p, 2)
                   IN WF6(w, 2) /\ (\A c \in Codes : Dec6(w, c) = MapOf[c]) /\ Pairs6(w) = p

\* format 12: codes 0..N12-1 reach beyond one word (Mod = MaxCode + 1 < N12)
Codes12 == 0..N12 - 1
InitMaps12 == x = <<>>
NextMaps12 == Len(x) < N12 /\ \E g \in 0..G12 : x' = Append(x, g)
MapOf12 == [c \in Codes12 |-> x[c + 1]]
Good12(w, m, lang) ==
  LET p == PairsOfFn(m) IN
  /\ WF12(w, lang)
  /\ \A c \in 0..(Mod * Mod - 1) : Dec12(w, c) = IF c \in Codes12 THEN m[c] ELSE 0
  /\ Agree12(w, p)
  /\ Pairs12(w) = p
  /\ \A c \in Codes12 : \A g \in 0..G12 : g # m[c] => ~Agree12(w, PairsOfFn([m EXCEPT ![c] = g]))
Fmt12OK == Len(x) = N12 => Good12(Enc12(PairsOfFn(MapOf12), 2), MapOf12, 2) /\ Good12(Enc12Single(PairsOfFn(MapOf12), 0), MapOf12, 0)

\* arbitrary bodies
\* x = <<segCount, glyph array length, v1, v2, ...>>: endCode, startCode, idDelta, idRangeOffset, glyphIdArray
InitBodies == \E sc \in 1..2 : \E ga \in 0..GA : x = <<sc, ga>>
NextBodies ==
  LET sc == x[1]
      k  == Len(x) - 2            \* values chosen so far
  IN /\ k < 4 * sc + x[2]
     /\ \E v \in (IF k >= 3 * sc /\ k < 4 * sc THEN {0, 2, 4, 6} ELSE Codes) : x' = Append(x, v)
BodyFull == Len(x) - 2 = 4 * x[1] + x[2]
BodyWords ==
  LET sc == x[1]
      k  == Log2Floor(sc)
  IN <<4, 2 * (8 + 4 * sc + x[2]), 0, 2 * sc, 2 * (2^k), k, 2 * sc - 2 * (2^k)>>
     \o SubSeq(x, 3, 2 + sc) \o <<0>> \o SubSeq(x, 3 + sc, Len(x))
BodyOK ==
  LET w == BodyWords IN
  BodyFull /\ WF4Segs(w) =>
    LET m == FnOf(w)
        p == PairsOfFn(m)
    IN /\ WF4(w, 0)
       /\ Agree4(w, p)
       /\ Pairs4(w) = p
       /\ \A c \in Codes : \A g \in Codes : g # m[c] => ~Agree4(w, PairsOfFn([m EXCEPT ![c] = g]))
\* the interesting bodies exist: an explicit array whose idDelta is not 0
BodyWitness == LET w == BodyWords IN ~(BodyFull /\ WF4Segs(w) /\ RO4(w, 0) # 0 /\ Delta4(w, 0) # 0 /\ Dec4(w, Start4(w, 0)) # 0)

\* format 0 at the real word size
NextBytes == UNCHANGED x
InitBytes == x \in [lo : {0, 1, 100, 250}, n : {1, 2, 5, 6}, g : {1, 200, 252}]
BytesMap(b) == NonZero([i \in 1..b.n |-> <<b.lo + i - 1, (b.g + i - 1) % 256>>])
Fmt0OK == LET p == BytesMap(x)
              w == Enc0(p, 9)
          IN WF0(w, 9) /\ (\A c \in 0..300 : Dec0(w, c) = LookupP(p, c)) /\ Pairs0(w) = p
                       /\ Len(MacToUnicode(p)) = Len(p)
=============================================================================
