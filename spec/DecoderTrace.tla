---------------------------- MODULE DecoderTrace ----------------------------
(***************************************************************************)
(* C02, contract trace specification.  The harness (harness/cmd/c02)       *)
(* executes the fault plan on the real decoders of go-sfnt and records     *)
(*                                                                         *)
(*   "mut"   one mutant: decoder, seed, mutation (kind, value class,       *)
(*           index), length of the mutant, decode outcome                  *)
(*           (value | error | panic | timeout), allocation of the decode   *)
(*           call in KiB, and the lazy accessors that did not return       *)
(*           normally (badacc);                                            *)
(*   "cell"  the summary of one plan cell: how many mutants returned a     *)
(*           value / an error / panicked / timed out, how many had a       *)
(*           panicking accessor, and the worst (allocation, length) pair;  *)
(*   "guard" one replayed state of Guards.tla (replay mode).               *)
(*                                                                         *)
(* In plan mode ("plan" is the first event) every mutant that the harness  *)
(* considers reportable, and one unremarkable mutant per cell, is logged   *)
(* individually before the cell's summary.  The specification              *)
(*   - recomputes the plan from Seeds and requires the cells in plan order *)
(*     with exactly the planned number of mutants, each with an outcome    *)
(*     (n = nvalue + nerror + npanic + ntimeout);                          *)
(*   - evaluates the contract on every "mut"/"guard" event and on the      *)
(*     counters and the worst allocation of every cell, and prints a BAD   *)
(*     line for each event that breaks it (the trace is still consumed, so *)
(*     that all distinct failures of a run are seen);                      *)
(*   - refuses (does not consume) an event that is not well-formed, a cell *)
(*     whose counters report a failure that no logged mutant shows, or a   *)
(*     cell out of plan order.                                             *)
(* POSTCONDITION Accepted: every line consumed and, in plan mode, every    *)
(* cell of the plan summarised.  Run with -workers 1.                      *)
(***************************************************************************)
EXTENDS Decoder, C02Seeds, TLC, Json

Trace == ndJsonDeserialize("trace.ndjson")

VARIABLES l,      \* next line
          mode,   \* "" | "plan" | "replay"
          ci,     \* plan mode: number of the cell being filled ...
          si, ki, \* ... and its position as (seed, cell of the seed)
          nbad    \* contract-breaking "mut" events seen in the current cell
vars == <<l, mode, ci, si, ki, nbad>>

E == Trace[l]
Is(ev) == l <= Len(Trace) /\ E.ev = ev
Init == l = 1 /\ mode = "" /\ ci = 1 /\ si = 1 /\ ki = 1 /\ nbad = 0 /\ TLCSet(1, 0) /\ TLCSet(2, 0) /\ TLCSet(3, 0)
Consume == l' = l + 1 /\ TLCSet(1, l)

Outcomes == {"value", "error", "panic", "timeout"}

Start ==
  /\ l = 1 /\ (Is("plan") \/ Is("replay"))
  /\ mode' = E.ev
  /\ E.ev = "plan" => (E.cells = Len(Plan) /\ SeedsOK /\ TLCSet(3, 1))
  /\ UNCHANGED <<ci, si, ki, nbad>> /\ Consume

\* the current cell of the plan: Plan[ci] = CellsOf(Seeds[si])[ki]  (Decoder!Plan is the
\* concatenation of CellsOf over the seeds; every seed has at least the cell "orig")
HasCell == si <= Len(Seeds)
Here == CellsOf(Seeds[si])[ki]

\* a mutant of the plan: the index lies in its cell and the reported length is the length
\* the mutation produces (-1: the process was killed before it could report)
MutWellFormed(e) ==
  /\ e.seed \in DOMAIN Seeds
  /\ LET s == Seeds[e.seed] IN
     /\ e.dec = s.dec
     /\ e.kind \in KindSet
     /\ IF e.kind = "word" THEN e.v \in 1..NumValues ELSE e.v = 0
     /\ e.idx >= 0 /\ e.idx < Planned(s, e.kind)
     /\ e.mutlen \in {-1, IF e.kind = "trunc" THEN e.idx ELSE s.len}
  /\ e.outcome \in Outcomes
  /\ e.mutlen = -1 => e.outcome \in {"panic", "timeout"} \/ e.badacc # <<>>
  /\ e.outcome # "value" => e.badacc = <<>> /\ e.nacc = 0
  /\ e.nacc >= 0 /\ e.allocKiB >= 0

LenOf(e) == IF e.mutlen >= 0 THEN e.mutlen ELSE Seeds[e.seed].len
AccessorsOK(e) == \A k \in DOMAIN e.badacc : AccessOK(e.badacc[k].outcome)
Contract(e) == DecodeOK(e.outcome) /\ AllocOK(e.allocKiB, LenOf(e)) /\ AccessorsOK(e)
Why(e) == IF ~DecodeOK(e.outcome) THEN e.outcome
          ELSE IF ~AllocOK(e.allocKiB, LenOf(e)) THEN "alloc" ELSE "access"

Mut ==
  /\ Is("mut") /\ mode \in {"plan", "replay"}
  /\ MutWellFormed(E)
  /\ mode = "plan" => /\ HasCell
                      /\ E.seed = Here.seed /\ E.kind = Here.kind /\ E.v = Here.v
  /\ IF Contract(E) THEN nbad' = nbad
     ELSE PrintT(<<"BAD", l, Why(E)>>) /\ nbad' = nbad + 1
  /\ UNCHANGED <<mode, ci, si, ki>> /\ Consume

CellClean(e) == e.npanic = 0 /\ e.ntimeout = 0 /\ e.naccbad = 0 /\ AllocOK(e.worstKiB, e.worstLen)

CellEv ==
  /\ Is("cell") /\ mode = "plan" /\ HasCell
  /\ LET c == Here IN E.seed = c.seed /\ E.kind = c.kind /\ E.v = c.v /\ E.n = c.n
  /\ E.nvalue >= 0 /\ E.nerror >= 0 /\ E.npanic >= 0 /\ E.ntimeout >= 0 /\ E.naccbad >= 0
  /\ E.nvalue + E.nerror + E.npanic + E.ntimeout = E.n          \* every planned mutant has an outcome
  /\ E.naccbad <= E.nvalue
  /\ CellClean(E) <=> nbad = 0                                  \* counters and logged mutants agree
  /\ ~CellClean(E) => PrintT(<<"BADCELL", l, E.npanic, E.ntimeout, E.naccbad>>)
  /\ ci' = ci + 1 /\ nbad' = 0 /\ TLCSet(2, ci)
  /\ IF ki < Len(CellsOf(Seeds[si])) THEN si' = si /\ ki' = ki + 1 ELSE si' = si + 1 /\ ki' = 1
  /\ UNCHANGED mode /\ Consume

GuardOK(e) == DecodeOK(e.outcome) /\ AllocOK(e.allocKiB, e.inlen) /\ AccessorsOK(e)
Guard ==
  /\ Is("guard") /\ mode = "replay"
  /\ E.outcome \in Outcomes /\ E.inlen >= 0 /\ E.dec \in Decoders /\ E.pred \in {"hole", "accept", "reject"}
  /\ E.outcome # "value" => E.badacc = <<>>
  /\ IF GuardOK(E) THEN TRUE
     ELSE PrintT(<<"BAD", l, IF ~DecodeOK(E.outcome) THEN E.outcome
                             ELSE IF ~AllocOK(E.allocKiB, E.inlen) THEN "alloc" ELSE "access">>)
  /\ UNCHANGED <<mode, ci, si, ki, nbad>> /\ Consume

Next == Start \/ Mut \/ CellEv \/ Guard
Spec == Init /\ [][Next]_vars

Accepted ==
  IF TLCGet(1) = Len(Trace) /\ (TLCGet(3) = 1 => TLCGet(2) = Len(Plan)) THEN TRUE
  ELSE PrintT(<<"REJECTED_AT_LINE", TLCGet(1) + 1>>) /\ FALSE
=============================================================================
