---------------------------- MODULE SubsetTrace ----------------------------
(***************************************************************************)
(* C10, conformance of the real subsetter.  harness/cmd/c10 records, per    *)
(* case, what the real Font.Subset and Outlines.Subset (package cff) and        *)
(* Write + Read produced, as projections (record P of Subset.tla).  This    *)
(* module evaluates the relation of Subset.tla on every recorded event:     *)
(*                                                                         *)
(*   reset    case constants: abstract font F (must be well-formed), list   *)
(*   orig     projection of the concrete font the harness built from F:     *)
(*            must be F itself (the identity subset) -- otherwise the line  *)
(*            is not consumed: harness and model disagree, no verdict;      *)
(*            if the library cannot decode the built font at all the case   *)
(*            is printed as <<"SKIPPED", case, "orig">> and not judged      *)
(*   subset   Failed(F, list, P) must be empty                              *)
(*   osubset  FailedOutlines(F, list, P) must be empty                      *)
(*   reread   FailedReread(F, P, status, Q) must be empty                   *)
(*                                                                         *)
(* A non-empty set of violated clauses is printed as                        *)
(*   <<"FAILED", case, event, clause>>    (one line per violated clause)    *)
(* and the trace continues, so that one run reports every failing case.     *)
(* All lines must be consumed (POSTCONDITION Accepted, -workers 1).         *)
(***************************************************************************)
EXTENDS Subset, Json

Trace == ndJsonDeserialize("trace.ndjson")

VARIABLES l,     \* next line of the trace
          F,     \* abstract font of the current case
          list,  \* glyph list of the current case
          P      \* projection of the subset of the current case
vars == <<l, F, list, P>>

E == Trace[l]
NoP == [ok |-> FALSE, none |-> TRUE]
Init == l = 1 /\ F = [n |-> 0] /\ list = << >> /\ P = NoP /\ TLCSet(1, 0)
Consume == l' = l + 1 /\ TLCSet(1, l)
Is(ev) == l <= Len(Trace) /\ E.ev = ev

Report(bad) == \A c \in bad : PrintT(<<"FAILED", E.case, E.ev, c>>)

Reset ==
  /\ Is("reset")
  /\ WellFormed(E.f) /\ GoodList(E.f, E.list)
  /\ F' = E.f /\ list' = E.list /\ P' = NoP
  /\ Consume

Identity(n) == [i \in 1..n |-> i - 1]

\* The library could not inspect (decode) the font the harness built from valid parts: that is
\* not the subsetter's doing (C01's subject).  The case is recorded as skipped, not judged.
OrigSkipped ==
  /\ Is("orig") /\ ~E.p.ok
  /\ PrintT(<<"SKIPPED", E.case, "orig">>)
  /\ UNCHANGED <<F, list, P>>
  /\ Consume

Orig ==
  /\ Is("orig")
  /\ E.p.ok /\ Len(E.p.glyphs) = F.n
  /\ Failed(F, Identity(F.n), E.p) = {}
  /\ \A t \in ToSet(E.p.subs) : <<t[2], t[3]>> \in ToSet(EffSubs(F))
  /\ Len(E.p.subs) = Len(EffSubs(F))
  /\ UNCHANGED <<F, list, P>>
  /\ Consume

Sub ==
  /\ Is("subset")
  /\ P' = E.p
  /\ Report(Failed(F, list, E.p))
  /\ UNCHANGED <<F, list>>
  /\ Consume

OSub ==
  /\ Is("osubset")
  /\ Report(FailedOutlines(F, list, E.p))
  /\ UNCHANGED <<F, list, P>>
  /\ Consume

Reread ==
  /\ Is("reread")
  /\ "none" \notin DOMAIN P
  /\ (E.st = "skipped") => ~P.ok       \* (a subset that cannot be inspected is still written)
  /\ Report(FailedReread(F, P, E.st, E.p))
  /\ UNCHANGED <<F, list, P>>
  /\ Consume

Next == Reset \/ Orig \/ OrigSkipped \/ Sub \/ OSub \/ Reread
Spec == Init /\ [][Next]_vars

Accepted == IF TLCGet(1) = Len(Trace) THEN TRUE
            ELSE PrintT(<<"REJECTED_AT_LINE", TLCGet(1) + 1>>) /\ FALSE
=============================================================================
