\* exhaustive model: palette glyph sets, every padding / loca version, API calls
CONSTANTS
  Kind = "set"
  Salt = 1
  MaxRuns = 0
  MaxComps = 0
  MaxGlyphs = 2
  MaxSteps = 4
  FinishFull = TRUE
  With256 = FALSE
  Targets = {}
  SharedBuf = FALSE
INIT Init
NEXT Next
VIEW view
INVARIANT EncodeDecode
INVARIANT LocaInv
INVARIANT RoundTrip
INVARIANT FixInv
INVARIANT HistInv
CHECK_DEADLOCK FALSE
