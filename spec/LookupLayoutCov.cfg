CONSTANTS
  Mode = "cov"
  MaxSegs = 3
  Gaps = {1, 2, 50}
  Runs = {1, 2, 3, 4}
  Starts = {0, 1, 7}
  Classes = {1}
INIT Init
NEXT Next
INVARIANT SizesOK
INVARIANT Emit
CHECK_DEADLOCK FALSE
