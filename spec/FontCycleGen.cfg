CONSTANTS
  GlyphCounts = {1, 2, 30, 255, 256, 257}
  Span = 5
  IdxLens = {254, 255, 256, 257}
  Dense = FALSE
  Focus = "random"
INIT Init
NEXT Next
INVARIANT Emit
INVARIANT FlagsExist
CHECK_DEADLOCK FALSE
