----------------------------- MODULE SharedFont -----------------------------
(***************************************************************************)
(* C16.  N goroutines, each performing K read-only operations on one       *)
(* shared *sfnt.Font.  An operation is the sequence of abstract accesses   *)
(* declared in SharedFontOps.tla; the goroutines interleave at the         *)
(* granularity of single accesses.                                         *)
(*                                                                         *)
(*   Start(g, op)  goroutine g begins its next call (the call allocates    *)
(*                 its private locations); which operation is chosen here  *)
(*   Step(g)       the next access of the running call                     *)
(*   Finish(g)     the call returns; its result is everything it read      *)
(*                                                                         *)
(* Properties (for Variant = "ok", the design):                            *)
(*   NoRace           no state in which two goroutines are about to access *)
(*                    the same shared location and one of them writes      *)
(*   SeqEquiv         every returned result equals the result of the same  *)
(*                    call run alone on the untouched font                 *)
(*   SharedUnchanged  whenever no call is in flight the shared locations   *)
(*                    hold their initial values (what the fingerprints of  *)
(*                    binding V1 measure)                                  *)
(* The other variants hide a write and must violate them (negative         *)
(* configurations, SharedFontNeg*.cfg).                                    *)
(*                                                                         *)
(* In generation mode (Gen = TRUE) the terminal state prints the behaviour *)
(* as a case: the programs and the schedule, i.e. the order of the Start   *)
(* ("S") and Finish ("F") events.  The harness replays a schedule with a   *)
(* gate: "S g" releases the next call of goroutine g, "F g" waits for it   *)
(* to return; calls between their S and F run in parallel for real.        *)
(***************************************************************************)
EXTENDS SharedFontOps, TLC, Json

CONSTANTS N,        \* goroutines 1..N
          K,        \* calls per goroutine
          Ops,      \* operations the goroutines choose from (subset of OpNames)
          Variant,  \* "ok" or one of the hidden-write variants
          MaxPar,   \* at most this many calls in flight (generation: schedule shapes)
          MaxOps,   \* generation: at most this many different operations in one behaviour (0 = any);
                    \* 1 = the same call hammered from all goroutines, 2 = a pair of operations
          Gen       \* TRUE: record the schedule and emit it

ASSUME Ops \subseteq OpNames /\ Variant \in Variants /\ N >= 1 /\ K >= 1

VARIABLES prog,     \* prog[g]: the operations chosen so far by goroutine g
          pc,       \* pc[g] = 0: between calls; j >= 1: next access of the running call
          mem,      \* location -> value
          acc,      \* acc[g]: values read so far by the running call
          flag,     \* flag[g]: outcome of the last test
          results,  \* results[g]: the results of the finished calls
          sched     \* generation mode: sequence of <<"S"|"F", g>>

vars == <<prog, pc, mem, acc, flag, results, sched>>
view == <<prog, pc, mem, acc, flag, results>>

G == 1..N
Loc(name, g) == IF IsShared(name, Variant) THEN <<name, 0>> ELSE <<name, g>>
SharedLocs == { <<n, 0>> : n \in SharedNames \cup Leaked(Variant) }
AllLocs == SharedLocs \cup { <<n, g>> : n \in LocalNames \ Leaked(Variant), g \in G }

V0   == <<"v0", 0, 0>>       \* the value of a shared location of the untouched font
None == <<"none", 0, 0>>     \* nil / freshly allocated
Val(v, g, i) == IF v = "tok" THEN <<"tok", g, i>> ELSE <<v, 0, 0>>
InitVal(l) == IF l[1] \in SharedNames THEN V0 ELSE None
InitMem == [l \in AllLocs |-> InitVal(l)]

Init == /\ prog = [g \in G |-> <<>>]
        /\ pc = [g \in G |-> 0]
        /\ mem = InitMem
        /\ acc = [g \in G |-> <<>>]
        /\ flag = [g \in G |-> FALSE]
        /\ results = [g \in G |-> <<>>]
        /\ sched = <<>>

Running(g) == pc[g] > 0
CurOp(g)   == prog[g][Len(prog[g])]
FpTab      == [op \in Ops |-> Footprint(op, Variant)]     \* constant: evaluated once
CurFp(g)   == FpTab[CurOp(g)]
InFlight   == Cardinality({g \in G : Running(g)})
Log(e)     == sched' = IF Gen THEN Append(sched, e) ELSE sched

UsedOps == UNION { { prog[g][i] : i \in 1..Len(prog[g]) } : g \in G }

Start(g, op) ==
  /\ ~Running(g) /\ Len(prog[g]) < K /\ InFlight < MaxPar
  /\ MaxOps = 0 \/ Cardinality(UsedOps \cup {op}) <= MaxOps
  /\ prog' = [prog EXCEPT ![g] = Append(@, op)]
  /\ pc' = [pc EXCEPT ![g] = 1]
  \* the call allocates its private locations
  /\ mem' = [l \in AllLocs |-> IF l[2] = g THEN None ELSE mem[l]]
  /\ acc' = [acc EXCEPT ![g] = <<>>]
  /\ flag' = [flag EXCEPT ![g] = FALSE]
  /\ Log(<<"S", g>>)
  /\ UNCHANGED results

\* one access, as a function on (memory, accumulated reads, flag)
Do(a, g, i, m, ac, fl) ==
  LET l == Loc(a.n, g) IN
  CASE a.k = "R"  -> [m |-> m, ac |-> Append(ac, m[l]), fl |-> fl]
    [] a.k = "T"  -> [m |-> m, ac |-> ac, fl |-> (m[l] = None)]
    [] a.k = "W"  -> [m |-> [m EXCEPT ![l] = Val(a.v, g, i)], ac |-> ac, fl |-> fl]
    [] a.k = "Wc" -> [m |-> IF fl THEN [m EXCEPT ![l] = Val(a.v, g, i)] ELSE m, ac |-> ac, fl |-> fl]

Step(g) ==
  /\ Running(g) /\ pc[g] <= Len(CurFp(g))
  /\ LET r == Do(CurFp(g)[pc[g]], g, Len(prog[g]), mem, acc[g], flag[g]) IN
       /\ mem' = r.m
       /\ acc' = [acc EXCEPT ![g] = r.ac]
       /\ flag' = [flag EXCEPT ![g] = r.fl]
  /\ pc' = [pc EXCEPT ![g] = @ + 1]
  /\ UNCHANGED <<prog, results, sched>>

Finish(g) ==
  /\ Running(g) /\ pc[g] = Len(CurFp(g)) + 1
  /\ results' = [results EXCEPT ![g] = Append(@, acc[g])]
  /\ pc' = [pc EXCEPT ![g] = 0]
  /\ Log(<<"F", g>>)
  /\ UNCHANGED <<prog, mem, acc, flag>>

Next == \E g \in G : (\E op \in Ops : Start(g, op)) \/ Step(g) \/ Finish(g)
Spec == Init /\ [][Next]_vars

---------------------------------------------------------------------------
(* The result of call i of goroutine g when it is run alone on the untouched font *)
RECURSIVE RunAlone(_, _, _, _, _)
RunAlone(fp, j, g, i, st) ==
  IF j > Len(fp) THEN st.ac
  ELSE RunAlone(fp, j + 1, g, i, Do(fp[j], g, i, st.m, st.ac, st.fl))
Alone(op, g, i) == RunAlone(Footprint(op, Variant), 1, g, i, [m |-> InitMem, ac |-> <<>>, fl |-> FALSE])

AloneTab == [op \in Ops, g \in G, i \in 1..K |-> Alone(op, g, i)]   \* constant: evaluated once

SeqEquiv == \A g \in G : \A i \in 1..Len(results[g]) : results[g][i] = AloneTab[prog[g][i], g, i]

\* the access goroutine g is about to perform (if any)
Pending(g) == Running(g) /\ pc[g] <= Len(CurFp(g))
NextAcc(g) == CurFp(g)[pc[g]]
WritesNow(g) == \/ NextAcc(g).k = "W"
                \/ NextAcc(g).k = "Wc" /\ flag[g]
Conflict(g, h) ==
  /\ Pending(g) /\ Pending(h)
  /\ Loc(NextAcc(g).n, g) = Loc(NextAcc(h).n, h)
  /\ Loc(NextAcc(g).n, g) \in SharedLocs
  /\ WritesNow(g) \/ WritesNow(h)
NoRace == \A g \in G : \A h \in G : g # h => ~Conflict(g, h)

SharedUnchanged == InFlight = 0 => \A l \in SharedLocs : mem[l] = InitVal(l)

\* the design claim itself, as a static fact about the table (checked by TLC at start-up)
ASSUME NoSharedWriteDeclared == \A op \in OpNames : SharedWrites(op, "ok") = {}

TypeOK == /\ \A g \in G : Len(prog[g]) <= K /\ Len(results[g]) <= Len(prog[g])
          /\ \A g \in G : pc[g] \in 0..30
          /\ InFlight <= MaxPar

Done == \A g \in G : ~Running(g) /\ Len(prog[g]) = K

\* generation: one case per behaviour, with the model's own verdict on it (all results equal the
\* run-alone results; shared locations unchanged at the end)
Emit == (Gen /\ Done) =>
          PrintT(<<"CASE", ToJson([n |-> N, k |-> K, maxpar |-> MaxPar, maxops |-> MaxOps,
                                   prog |-> prog, sched |-> sched,
                                   equiv |-> SeqEquiv, unchanged |-> SharedUnchanged])>>)
=============================================================================
