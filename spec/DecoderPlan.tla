---------------------------- MODULE DecoderPlan ----------------------------
(***************************************************************************)
(* C02: TLC generates the fault plan.  One behaviour walks through the     *)
(* cells (seed, kind, value class) of Decoder!Plan and prints each cell    *)
(* with the number of mutants it contains; the harness executes exactly    *)
(* these cells (c02 run) and DecoderTrace.tla checks that every planned    *)
(* mutant has an outcome.  Invariants state what the plan must cover.      *)
(***************************************************************************)
EXTENDS Decoder, C02Seeds, TLC, Json

VARIABLES i,          \* number of the next cell of the plan
          si, ki      \* the same position as (seed, cell of the seed)
Init == i = 1 /\ si = 1 /\ ki = 1
Here == CellsOf(Seeds[si])
Next == /\ si <= Len(Seeds)
        /\ i' = i + 1
        /\ IF ki < Len(Here) THEN si' = si /\ ki' = ki + 1 ELSE si' = si + 1 /\ ki' = 1

\* per seed: one cell of every kind that has mutants, all ten value classes of "word"
CoversSeed(s, p) ==
  LET cs == {p[k] : k \in {k \in DOMAIN p : p[k].seed = s.id}} IN
  /\ \A kind \in KindSet \ {"word"} :
       Planned(s, kind) > 0 => Cardinality({c \in cs : c.kind = kind /\ c.v = 0 /\ c.n = Planned(s, kind)}) = 1
  /\ Planned(s, "word") > 0 =>
       \A v \in 1..NumValues : Cardinality({c \in cs : c.kind = "word" /\ c.v = v /\ c.n = s.mlen \div 2}) = 1
  /\ \A c \in cs : c.n > 0 /\ c.kind \in KindSet
\* offsets: the word mutants touch every byte below 2*(mlen div 2), truncation reaches every
\* proper prefix of the mutated region, flip/ff/inc/dec reach every byte of it
CoversOffsets(s) ==
  /\ {2 * w + b : w \in 0..(Planned(s, "word") - 1), b \in {0, 1}} = 0..(2 * (s.mlen \div 2) - 1)
  /\ \A kind \in {"trunc", "flip", "ff", "inc", "dec"} : Planned(s, kind) = s.mlen
  /\ \A v \in 1..NumValues : WordValue(v, s.len) \in 0..65535
  \* the count plan: every single count and every pair, each with every value
  /\ {<<c, v>> : c \in 1..(s.ncnt + s.ncpair), v \in 0..(NumCountValues - 1)}
       = {<<(k \div NumCountValues) + 1, k % NumCountValues>> : k \in 0..(Planned(s, "count") - 1)}
  \* the DICT plan gives every 5-byte operand every value class
  /\ {<<d, v>> : d \in 1..s.ndict, v \in 0..(NumDictValues - 1)}
       = {<<(k \div NumDictValues) + 1, k % NumDictValues>> : k \in 0..(Planned(s, "dict") - 1)}
  \* the cross-table plan pairs every glyph-id word with every value and every trigger
  /\ {<<w, v, t>> : w \in 1..s.ngid, v \in 1..NumGidValues, t \in 1..NumTriggers}
       = {<<(k \div (NumGidValues * NumTriggers)) + 1, ((k \div NumTriggers) % NumGidValues) + 1, (k % NumTriggers) + 1>> :
             k \in 0..(Planned(s, "pair") - 1)}
PlanOK == i = 1 => LET p == Plan IN
                    /\ SeedsOK /\ \A k \in DOMAIN Seeds : CoversSeed(Seeds[k], p) /\ CoversOffsets(Seeds[k])
                    /\ \A k \in DOMAIN Seeds : Len(CellsOf(Seeds[k])) >= 1

\* the walk (si, ki) enumerates exactly Decoder!Plan, in order
WalkIsPlan == IF si <= Len(Seeds) THEN ki \in DOMAIN Here ELSE i = Len(Plan) + 1
Emit == si <= Len(Seeds) => PrintT(<<"CASE", ToJson(Here[ki])>>)
=============================================================================
