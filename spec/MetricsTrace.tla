---------------------------- MODULE MetricsTrace ----------------------------
(***************************************************************************)
(* C12, trace specification.  One event per case recorded by               *)
(* harness/cmd/c12 from the real library; an event is accepted iff what    *)
(* the library emitted and returned satisfies the definitions of           *)
(* MetricsDefs.tla - and only what the property text names:                *)
(*                                                                         *)
(*  hmtx   hmtx.Info.Encode / hmtx.Decode on a TLC-generated Info value:   *)
(*         the hmtx words decode (numberOfHMetrics rule) to the widths and *)
(*         bearings, hhea scalars, caret slope as a rational, aggregates   *)
(*  runs   the same for vectors of up to 65535 glyphs in run-length form   *)
(*  head, maxp, os2, post   Encode / Read: fields at their offsets, bit    *)
(*         layouts, 1904 epoch, exact round trip of the named fields       *)
(*  font   a whole font: query methods against the outlines, then the      *)
(*         tables inside the output of Font.Write (walked by the harness   *)
(*         as raw words) against the definitions of the derived fields;    *)
(*         golang.org/x/image/font/sfnt as a second reader of the file     *)
(*                                                                         *)
(* The judgement of an event is a record of named checks (Chk...); the     *)
(* action consumes the event iff all of them hold.  Acceptance: high-water *)
(* mark of consumed lines = Len(Trace); for a rejected line the names of   *)
(* the failed checks are printed.                                          *)
(***************************************************************************)
EXTENDS MetricsDefs, TLC, Json

Trace == ndJsonDeserialize("trace.ndjson")

CONSTANT Survey   \* FALSE: strict validation.  TRUE: every event is consumed and the failed checks of each
                  \* are printed (used only to look behind events of a class that was already reported)
VARIABLES l
vars == <<l>>

Init == l = 1 /\ TLCSet(1, 0)
Consume == l' = l + 1 /\ TLCSet(1, l)

SameOn(r1, r2, names) == \A f \in names : r1[f] = r2[f]
AllTrue(r) == \A k \in DOMAIN r : r[k]
Failed(r)  == {k \in DOMAIN r : ~r[k]}
Malformed  == [shape |-> FALSE]

---------------------------------------------------------------------------
ChkHmtx(e) ==
  LET i == e.in
      n == Len(i.w)
      t == e.hhea
      o == e.out
  IN IF ~(n >= 1 /\ Len(i.lsb) = n /\ Len(t) = HheaWords /\ AllWords(t) /\ AllWords(e.hm)
          /\ (i.mode # "nobox" => Len(i.box) = n))
     THEN Malformed
     ELSE
     [shape        |-> e.hmbytes = 2 * Len(e.hm) /\ HmtxShape(n, W(t, 17), e.hm),
      version      |-> W(t, 0) = 1 /\ W(t, 1) = 0 /\ W(t, 16) = 0,
      vmetrics     |-> SW(t, 2) = i.asc /\ SW(t, 3) = i.desc /\ SW(t, 4) = i.gap,
      caret_offset |-> SW(t, 11) = i.coff,
      caret_slope  |-> SlopeSame(i.rise, i.run, SW(t, 9), SW(t, 10)),
      hmtx_words   |-> HmtxShape(n, W(t, 17), e.hm) /\ JudgeHmtx(i.w, i.lsb, W(t, 17), e.hm),
      advmax       |-> JudgeAdvMax(i.w, t),
      minlsb       |-> i.mode # "nobox" => JudgeMinLsb(i.lsb, i.box, t),
      minrsb       |-> i.mode # "nobox" => JudgeMinRsb(i.w, i.lsb, i.box, t),
      xmaxextent   |-> i.mode # "nobox" => JudgeMaxExt(i.w, i.lsb, i.box, t),
      \* call history: the tables handed out are unchanged after the encoder was used again
      alias_free   |-> e.intact,
      decode_ok    |-> e.ok,
      rt_widths    |-> o.w = i.w,
      rt_lsb       |-> o.lsb = i.lsb,
      rt_vmetrics  |-> o.asc = i.asc /\ o.desc = i.desc /\ o.gap = i.gap /\ o.coff = i.coff,
      rt_caret     |-> e.ok => SlopeSame(i.rise, i.run, o.rise, o.run),
      \* the decoder on reference encodings with more long records than necessary
      alt_decode   |-> \A j \in 1..Len(e.alt) :
                         LET a == e.alt[j] IN
                         /\ a.k >= NumLong(i.w) /\ a.k <= n /\ a.hm = HmtxWords(i.w, i.lsb, a.k)
                         /\ a.ok /\ a.w = i.w /\ a.lsb = i.lsb]

ChkRuns(e) ==
  LET wr == Canon(e.in.wr)
      lr == Canon(e.in.lr)
      n  == RunsLen(wr)
  IN IF ~(n >= 1 /\ n <= 65535 /\ RunsLen(lr) = n /\ e.n = n)
     THEN Malformed
     ELSE
     [shape      |-> e.shape /\ e.hmbytes = 4 * e.k + 2 * (n - e.k),
      numlong    |-> e.k >= NumLongRL(wr) /\ e.k <= n,
      hmtx_words |-> e.rw = TruncRuns(wr, e.k) /\ e.rl = lr,
      advmax     |-> e.advmax = SetMax({wr[j][1] : j \in 1..Len(wr)}),
      decode_ok  |-> e.ok,
      rt_widths  |-> e.dw = wr,
      rt_lsb     |-> e.dl = lr,
      \* Decode, edit the trailing widths, Encode, Decode: the edited widths (logged as runs) come back
      rt_edited  |-> e.edw = Canon(e.ew)]

ChkHead(e) ==
  LET f == e.in
      t == e.raw
      o == e.out
  IN IF ~(Len(t) = HeadWords /\ AllWords(t) /\ e.bytes = 2 * HeadWords)
     THEN Malformed
     ELSE
     [shape      |-> TRUE,
      version    |-> W(t, 0) = 1 /\ W(t, 1) = 0 /\ W(t, 6) = 24335 /\ W(t, 7) = 15605 /\ W(t, 26) = 0,
      flag_bits  |-> JudgeHeadBits(f, t),
      upm        |-> W(t, 9) = f.upm,
      created    |-> JudgeTime(f.czero, f.c, t, 10),
      modified   |-> JudgeTime(f.mzero, f.m, t, 14),
      bbox       |-> <<SW(t, 18), SW(t, 19), SW(t, 20), SW(t, 21)>> = f.bbox,
      alias_free |-> e.intact,
      decode_ok  |-> e.ok,
      rt_flags   |-> SameOn(o, f, {"ybase", "xbase", "nonlin", "bold", "italic", "shadow", "cond", "ext"}),
      rt_fields  |-> SameOn(o, f, {"upm", "bbox"}),
      rt_created |-> o.czero = f.czero /\ (~f.czero => o.c = f.c),
      rt_modified |-> o.mzero = f.mzero /\ (~f.mzero => o.m = f.m)]
\* fontRevision, lowestRecPPEM and indexToLocFormat are logged but not judged: the property does not name them

ChkMaxp(e) ==
  IF ~(AllWords(e.raw) /\ Len(e.raw) >= 3 /\ e.bytes = 2 * Len(e.raw))
  THEN Malformed
  ELSE
  [shape     |-> Len(e.raw) = (IF e.in.ttf THEN 16 ELSE 3),
   fields    |-> Len(e.raw) = (IF e.in.ttf THEN 16 ELSE 3) /\ JudgeMaxp(e.in, e.raw),
   alias_free |-> e.intact,
   decode_ok |-> e.ok,
   rt_count  |-> e.out.n = e.in.n /\ e.out.ttf = e.in.ttf,
   rt_maxima |-> e.in.ttf => e.out.t = e.in.t]

ChkOS2(e) ==
  LET i == [e.in EXCEPT !.cp = ToSet(@)]
      o == [e.out EXCEPT !.cp = ToSet(@)]
      t == e.raw
  IN IF ~(Len(t) >= 48 /\ AllWords(t) /\ e.bytes = 2 * Len(t))
     THEN Malformed
     ELSE
     [shape       |-> W(t, 0) >= 2 /\ (i.oblique => W(t, 0) >= 4),      \* code pages: version 2, OBLIQUE: version 4
      fsselection |-> JudgeSel(i, W(t, 31)),
      fstype      |-> JudgeType(i, W(t, 4)),
      codepages   |-> CodePagesOf(t) = i.cp,
      avgwidth    |-> SW(t, 1) = i.avg,
      firstlast   |-> W(t, 32) = i.first /\ W(t, 33) = i.last,
      vmetrics    |-> SW(t, 34) = i.asc /\ SW(t, 35) = i.desc /\ SW(t, 36) = i.gap,
      alias_free  |-> e.intact,
      decode_ok   |-> e.ok,
      rt_style    |-> o.oblique = i.oblique /\ (StyleConsistent(i) => SameOn(o, i, {"bold", "italic", "regular"})),
      rt_perm     |-> SameOn(o, i, {"nosub", "bmp", "perm"}),
      rt_codepages |-> o.cp = i.cp,
      rt_fields   |-> SameOn(o, i, {"avg", "first", "last", "asc", "desc", "gap"})]

ChkPost(e) ==
  LET t == e.raw IN
  IF ~(Len(t) >= 16 /\ AllWords(t) /\ e.bytes = 2 * Len(t))
  THEN Malformed
  ELSE
  [shape      |-> TRUE,
   angle      |-> W(t, 2) = e.in.ahi /\ W(t, 3) = e.in.alo,
   underline  |-> SW(t, 4) = e.in.upos /\ SW(t, 5) = e.in.uthick,
   alias_free |-> e.intact,
   decode_ok  |-> e.ok,
   rt_angle   |-> e.exact /\ e.out.ahi = e.in.ahi /\ e.out.alo = e.in.alo,
   rt_fields  |-> SameOn(e.out, e.in, {"upos", "uthick"})]
\* the isFixedPitch word is logged but not judged at table level (not named by the property)

---------------------------------------------------------------------------
Zero4 == <<0, 0, 0, 0>>
NearBox(a, b) == \A k \in 1..4 : Near(a[k], b[k])

ChkFont(e) ==
  LET n   == e.n
      upm == e.upm
      N   == e.fmN
      D   == e.fmD
      \* style inputs of the font value agree with each other and with the angle
      consistent == /\ e.st.i_italic = (e.f.asign # 0)
                    /\ e.st.i_regular => (~e.st.i_bold /\ ~e.st.i_italic /\ ~e.st.i_oblique)
      intw == \A i \in 1..e.n : e.wq[i] % 20 = 0          \* integer advance widths
      wj  == e.fm_known /\ e.fmN[2] * e.fmN[3] = 0 /\ (e.fkind = "ttf" => e.fmN[1] * e.upm = e.fmD)
      box == e.q_box
      ne  == NonEmptyIdx(box)
  IN IF ~(/\ n >= 1 /\ upm >= 1
          /\ Len(e.wq) = n /\ Len(e.wlo) = n /\ Len(e.whi) = n /\ Len(e.npts) = n
          /\ Len(e.on) = n /\ Len(e.onin) = n /\ Len(e.all) = n /\ Len(box) = n
          /\ Len(e.fmN) = 6 /\ e.fmD >= 1 /\ Len(e.onpts) = n
          /\ Len(e.q_gwq) = n /\ Len(e.q_gwpdf) = n /\ Len(e.q_boxpdf) = n /\ Len(e.q_wmap) = n
          /\ e.wrote
          /\ Len(e.hhea) = HheaWords /\ AllWords(e.hhea) /\ AllWords(e.hm)
          /\ HmtxShape(n, W(e.hhea, 17), e.hm)
          /\ Len(e.head) = HeadWords /\ Len(e.maxp) >= 3 /\ Len(e.os2) >= 39 /\ Len(e.post) >= 8
          /\ AllWords(e.head) /\ AllWords(e.os2) /\ AllWords(e.post)
          /\ (e.fkind = "ttf" => Len(e.fileBox) = n /\ Len(e.fileEmpty) = n))
     THEN Malformed
     ELSE
     LET d == HmtxOfWords(n, W(e.hhea, 17), e.hm) IN
     [shape |-> TRUE,
      \* glyph boxes against the outlines (sandwich); npts = -1: composite, not judged
      glyph_boxes   |-> \A i \in 1..n : /\ e.npts[i] = 0 => EmptyBox(box[i])
                                        /\ e.npts[i] > 0 => Sandwich(box[i], e.on[i], e.all[i]),
      glyph_boxes_list |-> e.q_boxes = box,
      font_bbox     |-> ne # {} => e.q_fbox = UnionBox(box),
      \* advance widths in design units and in PDF units
      widths        |-> e.q_wq = e.wq /\ e.q_gwq = e.wq,
      \* = horizontal scale of the font matrix times the width.  Judged when the matrix is known, when
      \* it has no rotation part (N[2] N[3] = 0; otherwise the library's skew correction a - bc/d of
      \* GlyphWidthPDF is not fixed by the property) and, for TrueType, when the matrix agrees with
      \* unitsPerEm in x (TrueType advances are scaled by unitsPerEm, the matrix is not in the file)
      glyph_width_pdf |-> wj => \A i \in 1..n : Near(e.q_gwpdf[i], WidthMicro(N, D, e.wq[i])),
      widths_pdf    |-> Len(e.q_wpdf) = n /\ (wj => \A i \in 1..n : Near(e.q_wpdf[i], WidthMicro(N, D, e.wq[i]))),
      widths_map_pdf |-> (wj /\ e.has_wmap) => \A i \in 1..n : Near(e.q_wmap[i], WidthMicro(N, D, e.wq[i])),
      \* whatever the matrix (when the harness could state it: fm_known; an unknown matrix is logged as all zeros and
      \* must not pass for one without rotation part): the two width queries agree with each other
      widths_pdf_agree |-> (e.fm_known /\ N[2] * N[3] = 0 /\ Len(e.q_wpdf) = n) => \A i \in 1..n : Near(e.q_wpdf[i], e.q_gwpdf[i]),
      \* glyph and font boxes in PDF units
      glyph_bbox_pdf |-> \A i \in 1..n :
                           /\ e.npts[i] = 0 => e.q_boxpdf[i] = Zero4
                           /\ (e.fm_known /\ e.npts[i] > 0) =>
                                SandwichPDF(e.q_boxpdf[i],
                                            IF Sheared(N) /\ Len(e.onpts[i]) > 0 THEN ImgBoxOf(N, D, ToSet(e.onpts[i])) ELSE ImgBox(N, D, e.onin[i]),
                                            ImgBox(N, D, e.all[i]))
                           \* TrueType: the matrix applied to the glyph box of the font data
                           /\ (e.fm_known /\ e.fkind = "ttf" /\ e.npts[i] # 0) => NearBox(e.q_boxpdf[i], ImgBox(N, D, box[i])),
      \* the two box queries agree with each other: the PDF box is the matrix image of the design-unit box, which
      \* is rounded outward to integers (so the image of the box shrunk by one unit is the inner bound); without
      \* shear, where the image of a box is a box
      glyph_bbox_agree |-> \A i \in 1..n :
                             (e.fm_known /\ e.fkind # "ttf" /\ ~Sheared(N) /\ e.npts[i] > 0
                              /\ box[i][1] < box[i][3] /\ box[i][2] < box[i][4]) =>          \* boxes with an area
                                SandwichPDF(e.q_boxpdf[i],
                                            ImgBox(N, D, <<box[i][1] + 1, box[i][2] + 1, box[i][3] - 1, box[i][4] - 1>>),
                                            ImgBox(N, D, box[i])),
      font_bbox_pdf |-> LET nz == {i \in 1..n : e.q_boxpdf[i] # Zero4} IN
                        nz # {} => NearBox(e.q_fboxpdf, UnionBox(e.q_boxpdf)),
      fixed_pitch   |-> FixedPitchOK(e.q_fixed, e.wq),
      \* the written file
      hmtx_widths   |-> \A i \in 1..n : d.w[i] >= e.wlo[i] /\ d.w[i] <= e.whi[i],
      hhea_advmax   |-> JudgeAdvMax(d.w, e.hhea),
      hhea_minlsb   |-> JudgeMinLsb(d.lsb, box, e.hhea),
      hhea_minrsb   |-> JudgeMinRsb(d.w, d.lsb, box, e.hhea),
      hhea_xmaxextent |-> JudgeMaxExt(d.w, d.lsb, box, e.hhea),
      head_upm      |-> W(e.head, 9) = upm,
      head_bbox     |-> ne # {} => <<SW(e.head, 18), SW(e.head, 19), SW(e.head, 20), SW(e.head, 21)>> = UnionBox(box),
      maxp          |-> /\ W(e.maxp, 2) = n
                        /\ IF e.fkind = "ttf" THEN Len(e.maxp) = 16 /\ W(e.maxp, 0) = 1 /\ W(e.maxp, 1) = 0
                                              ELSE Len(e.maxp) = 3 /\ W(e.maxp, 0) = 0 /\ W(e.maxp, 1) = 20480,
      \* xAvgCharWidth from the advance widths the file itself records in hmtx (a fractional width of
      \* the font value may become either neighbouring integer in hmtx - the unchanged library
      \* truncates - but every table of the file has to be derived from the same integers)
      os2_avgwidth  |-> AvgOK(SW(e.os2, 1), d.w, d.w),
      \* against the cmap actually written (walked by the harness) and against the codes the builder mapped
      os2_firstlast |-> /\ Len(e.codes) > 0 => /\ W(e.os2, 32) = FirstCharDef(ToSet(e.codes))
                                                /\ W(e.os2, 33) = LastCharDef(ToSet(e.codes))
                        /\ (e.fcodes_ok /\ Len(e.fcodes) > 0) => /\ W(e.os2, 32) = FirstCharDef(ToSet(e.fcodes))
                                                                  /\ W(e.os2, 33) = LastCharDef(ToSet(e.fcodes))
                        /\ Len(e.codes) > 0 => e.has_cmap,
      \* identical calls give identical files
      write_deterministic |-> e.rewrite_same,
      \* Style bits across the tables of one file.  The property states that each table's bits survive
      \* and (with the whole-font round trip) that a written font reads back as itself; it does not say
      \* how Write resolves CONTRADICTORY style inputs (IsRegular together with IsBold or a slant,
      \* IsItalic differing from "angle # 0").  So these clauses are judged for consistent inputs only:
      \* there a file whose tables disagree could not be read back as the font that was written.
      style_italic  |-> consistent =>
                          LET H == Bit(W(e.head, 22), 1)
                              S == Bit(W(e.os2, 31), 0)
                              P == W(e.post, 2) # 0 \/ W(e.post, 3) # 0
                              C == SW(e.hhea, 10) # 0
                          IN H = S /\ P = C,               \* macStyle bit 1 = fsSelection bit 0; post angle <=> slanted caret
      style_bold    |-> consistent => Bit(W(e.head, 22), 0) = Bit(W(e.os2, 31), 5),   \* macStyle bit 0 = fsSelection bit 5
      style_regular |-> SelWellFormed(W(e.os2, 31)),       \* OpenType: REGULAR excludes ITALIC and BOLD, whatever the input
      \* post.isFixedPitch is not a derived field of the property; it is compared with the hmtx of the same
      \* file only where float and stored widths coincide (integer widths)
      post_fixedpitch |-> intw => FixedPitchOK(W(e.post, 6) # 0 \/ W(e.post, 7) # 0, [i \in 1..n |-> 20 * d.w[i]]),
      \* what Read reports about the written file (consistent inputs)
      style_read    |-> e.st.read_ok /\
                        (consistent =>
                          LET H == Bit(W(e.head, 22), 1)
                              S == Bit(W(e.os2, 31), 0)
                              O == Bit(W(e.os2, 31), 9)
                              P == W(e.post, 2) # 0 \/ W(e.post, 3) # 0
                              B == Bit(W(e.os2, 31), 5)
                              R == Bit(W(e.os2, 31), 6)
                          IN /\ (H \/ S \/ O \/ P) => e.st.r_italic
                             /\ (~H /\ ~S /\ ~O /\ ~P /\ ~e.st.name_italic) => ~e.st.r_italic
                             /\ B => e.st.r_bold
                             /\ (~B /\ ~e.st.name_bold) => ~e.st.r_bold
                             /\ e.st.r_oblique = O
                             /\ e.st.r_regular => (R /\ ~e.st.r_italic /\ ~e.st.r_bold)
                             /\ e.st.r_weight = W(e.os2, 2)
                             /\ e.st.r_upm = W(e.head, 9)),
      \* any input, also a contradictory one: what Read reports is stable under a second write/read cycle
      style_cycle   |-> \A k \in {"read_ok", "r_italic", "r_oblique", "r_bold", "r_regular", "r_weight", "r_upm"} :
                          e.prev.st[k] = e.st[k],
      \* scalar header data of the font value inside the file
      file_vmetrics |-> /\ SW(e.hhea, 2) = e.f.asc /\ SW(e.hhea, 3) = e.f.desc /\ SW(e.hhea, 4) = e.f.gap
                        /\ SW(e.os2, 34) = e.f.asc /\ SW(e.os2, 35) = e.f.desc /\ SW(e.os2, 36) = e.f.gap,
      file_caret    |-> /\ e.f.asign = 0 => (SW(e.hhea, 9) > 0 /\ SW(e.hhea, 10) = 0)
                        /\ (e.f.asign # 0 /\ e.f.steep) =>
                             (SW(e.hhea, 9) > 0 /\ (IF e.f.asign < 0 THEN SW(e.hhea, 10) > 0 ELSE SW(e.hhea, 10) < 0)),
      file_post     |-> /\ e.f.aexact => (W(e.post, 2) = e.f.ahi /\ W(e.post, 3) = e.f.alo)
                        /\ SW(e.post, 4) = e.f.upos /\ SW(e.post, 5) = e.f.uthick,
      file_times    |-> JudgeTime(e.f.czero, e.f.c, e.head, 10) /\ JudgeTime(e.f.mzero, e.f.m, e.head, 14),
      maxp_loca     |-> e.fkind = "ttf" => e.locaN = n,
      \* second cycle: Write(Read(Write(F))) declares the same derived values as Write(F)
      cycle_stable  |-> LET p == e.prev IN
                        /\ Len(p.hhea) = HheaWords /\ Len(p.head) = HeadWords /\ Len(p.os2) >= 39
                        /\ \A k \in {5, 6, 7, 8, 17} : W(p.hhea, k) = W(e.hhea, k)
                        /\ p.hm = e.hm
                        /\ \A k \in 18..21 : W(p.head, k) = W(e.head, k)
                        /\ \A k \in {1, 32, 33} : W(p.os2, k) = W(e.os2, k)
                        /\ p.maxp = e.maxp
                        \* the fixed-pitch flag only where no precision was lost on the way (integer widths before the cycle)
                        /\ Len(p.post) >= 8
                        /\ p.intw =>
                             (W(p.post, 6) # 0 \/ W(p.post, 7) # 0) = (W(e.post, 6) # 0 \/ W(e.post, 7) # 0),
      glyf_boxes    |-> e.fkind = "ttf" =>
                          \A i \in 1..n : IF e.fileEmpty[i] THEN EmptyBox(box[i]) ELSE e.fileBox[i] = box[i],
      \* second reader of the same file
      ximage_advances |-> e.x_ok => (e.x_n = n /\ e.x_adv = d.w),
      ximage_metrics  |-> e.x_ok => /\ e.x_upm = upm
                                    /\ e.x_asc = SW(e.hhea, 2) /\ e.x_desc = SW(e.hhea, 3)
                                    /\ ne # {} => e.x_bbox = UnionBox(box)]

---------------------------------------------------------------------------
Chk(e) == CASE e.ev = "hmtx" -> ChkHmtx(e)
            [] e.ev = "runs" -> ChkRuns(e)
            [] e.ev = "head" -> ChkHead(e)
            [] e.ev = "maxp" -> ChkMaxp(e)
            [] e.ev = "os2"  -> ChkOS2(e)
            [] e.ev = "post" -> ChkPost(e)
            [] e.ev = "font" -> ChkFont(e)
            [] OTHER -> [known_event |-> FALSE]        \* e.g. "panic", "readfail"

\* one action per event kind
Kinds == {"hmtx", "runs", "head", "maxp", "os2", "post", "font"}
Ev(kind) == /\ l <= Len(Trace) /\ Trace[l].ev = kind
            /\ LET c == Chk(Trace[l]) IN
               IF Survey THEN (IF AllTrue(c) THEN TRUE ELSE PrintT(<<"FAILED_AT", l, ToJson(Failed(c))>>))
                         ELSE AllTrue(c)
            /\ Consume
EvOther == /\ Survey /\ l <= Len(Trace) /\ Trace[l].ev \notin Kinds
           /\ PrintT(<<"FAILED_AT", l, ToJson({"known_event"})>>)
           /\ Consume
EvHmtx == Ev("hmtx")
EvRuns == Ev("runs")
EvHead == Ev("head")
EvMaxp == Ev("maxp")
EvOS2  == Ev("os2")
EvPost == Ev("post")
EvFont == Ev("font")

Next == EvHmtx \/ EvRuns \/ EvHead \/ EvMaxp \/ EvOS2 \/ EvPost \/ EvFont \/ EvOther
Spec == Init /\ [][Next]_vars

Accepted == IF TLCGet(1) = Len(Trace) THEN TRUE
            ELSE /\ PrintT(<<"REJECTED_AT_LINE", TLCGet(1) + 1>>)
                 /\ PrintT(<<"FAILED_CHECKS", ToJson(Failed(Chk(Trace[TLCGet(1) + 1])))>>)
                 /\ FALSE
=============================================================================
