------------------------------ MODULE DslConc ------------------------------
(***************************************************************************)
(* C19, part (a).  The goroutines behind builder.Parse                     *)
(* (opentype/gtab/builder/parser.go, lexer.go):                            *)
(*                                                                         *)
(*   Lexer    lexer.run: sends one item per token over the UNBUFFERED      *)
(*            channel `items`; after the EOF item, or after an error item  *)
(*            (illegal character, unterminated string), it closes the      *)
(*            channel and exits.                                 lexer.go  *)
(*   Parser   the caller.  readItem pops the backlog or receives from the  *)
(*            channel (a closed channel yields the zero item); items are   *)
(*            pushed back (peek, optional, readGlyphList ...); a quoted    *)
(*            string is expanded by `for r := range decodeString(s)`;      *)
(*            fatal() peeks one more item and panics; the deferred         *)
(*            function of Parse drains the channel and returns the error;  *)
(*            parse() returns the lookups when it reads the EOF item.      *)
(*   Dec[d]   decodeString: one goroutine per string token, sends the      *)
(*            runes over its own channel, closes it, exits.                *)
(*                                                                         *)
(* The grammar is abstracted: after every item the parser may accept it,   *)
(* push it back, or fail -- a superset of what any grammar does.  Two      *)
(* facts about the grammar are assumed (read off parser.go, and exercised  *)
(* by the conformance run): error/zero/EOF items are never accepted as     *)
(* content (a reader that consumes one fails), and an item is pushed back  *)
(* only a bounded number of times before something is received.            *)
(*                                                                         *)
(* A quoted string is a sequence of runes, each written plainly ("p", one   *)
(* byte), as an escape sequence ("e": \n \r \t \" \x, two bytes, one rune) *)
(* or as an escaped backslash ("b": two backslash bytes, one rune).  The   *)
(* decoder SENDS ONE RUNE PER ELEMENT, whatever its length in bytes.  Its  *)
(* channel has capacity Cap(token); a send blocks while the buffer is full.*)
(* The parser leaves the range loop only from inside its body, i.e. after  *)
(* it has received at least one rune, so the goroutine can always finish   *)
(*   IFF  Cap(token) >= (runes sent) - 1   for every string token          *)
(* (BufferSuffices is the sufficient form Cap >= runes that the design     *)
(* uses; TLC shows with the negative configurations that less leaks).      *)
(* DecMode  = "buffered"   Cap = bytes of the token incl. quotes (the      *)
(*                         design: make(chan rune, len(s)))                *)
(*          = "exact"      Cap = runes sent                                *)
(*          = "unbuffered" Cap = 0, as read in parser.go:1392 (negative)   *)
(*          = "tight"      Cap = bytes - 2 - number of backslash bytes: one *)
(*                         too small per escaped backslash (negative)      *)
(* LineMode = "tracked"    error items carry the lexer's line and a        *)
(*                         receive on the closed channel reports the last  *)
(*                         line seen (the design)                          *)
(*          = "asread"     lexer.errorf sets no line, the zero item has    *)
(*                         line 0 (negative config)                        *)
(*          = "eolnext"    the line counter is advanced before the         *)
(*                         end-of-line item is sent (negative config)      *)
(*                                                                         *)
(* Checked by TLC over ALL token lists up to MaxTok, a lexical error or    *)
(* not, a parse error after any item and at any rune, all interleavings:   *)
(* deadlock freedom, SinkGood (every quiescent state is a good outcome of  *)
(* DslContract: returned, no goroutine left, lookups or error with line),  *)
(* NoOrphan, TypeOK, and termination under weak fairness.                  *)
(***************************************************************************)
EXTENDS Integers, Sequences, FiniteSets, TLC, Json, DslContract

CONSTANTS MaxTok,    \* token lists of length 0..MaxTok
          MaxStr,    \* at most this many string tokens in a list
          MaxRunes,  \* a string has 1..MaxRunes runes
          RuneKinds, \* subset of {"p", "e", "b"}: how the runes of a string may be written
          MaxPeek,   \* push-backs between two receives
          DecMode, LineMode,
          WithComments, \* TRUE: token lists may contain comments ("# ..." up to the end of the line or of the input)
          CommentMode,  \* "eofsafe": the comment loop stops at '\n' and at end of input (the design)
                        \* "newlineonly": it stops at '\n' only (negative configuration)
          Pres,         \* preconditions of Parse that may fail: subset of {"ok", "nocmap"}
          SpawnMode     \* "afterchecks": the lexer goroutine is started once the preconditions hold (the design)
                        \* "first": it is started first (negative configuration)

VARIABLES toks,      \* the token list of this behaviour: records [k, n]
          lexerr,    \* TRUE: the lexer ends with an error item instead of EOF
          pre,       \* "ok", or the precondition of Parse that fails ("nocmap": no usable character map)
          lpc, li,   \* lexer: "none" (not started), "send" (scanning / blocked in items <- item no. li), "close", "exit"
          scn,       \* runes of the current comment consumed so far
          ppc,       \* parser: "start", "idle", "decide", "runes", "fatal", "drain", "exit"
          backlog,   \* parser.backlog (a stack, top = last)
          cur,       \* the item readItem returned
          held,      \* readChainedSeqCtx: `next`, kept while the item after it is peeked
          npeek,     \* push-backs since the last receive
          lastLine,  \* line of the last item received ("tracked" only)
          errLine,   \* line of the item fatal() peeked
          dec,       \* decoder goroutines, by index of their string token
          curDec,    \* the decoder the parser is ranging over (0 = none)
          result,    \* what Parse returned
          fat        \* where the parse error struck (for the conformance cases)

vars == <<toks, lexerr, pre, lpc, li, scn, ppc, backlog, cur, held, npeek, lastLine, errLine,
          dec, curDec, result, fat>>

Tok == {[k |-> "t", n |-> 0, r |-> <<>>], [k |-> "nl", n |-> 0, r |-> <<>>]}
       \cup (IF WithComments THEN {[k |-> "c", n |-> m, r |-> <<>>] : m \in 0..1} ELSE {})   \* "#" and m more runes
       \cup UNION {{[k |-> "s", n |-> m, r |-> rr] : rr \in [1..m -> RuneKinds]} : m \in 1..MaxRunes}

\* length in bytes of a string token (with its quotes), backslash bytes in it, capacity of its channel
Count(tok, K) == Cardinality({i \in 1..tok.n : tok.r[i] \in K})
Bytes(tok)    == 2 + tok.n + Count(tok, {"e", "b"})
Backsl(tok)   == Count(tok, {"e"}) + 2 * Count(tok, {"b"})
Cap(tok) == CASE DecMode = "buffered"   -> Bytes(tok)
              [] DecMode = "exact"      -> tok.n
              [] DecMode = "unbuffered" -> 0
              [] DecMode = "tight"      -> Bytes(tok) - 2 - Backsl(tok)
NStr(s) == Cardinality({i \in 1..Len(s) : s[i].k = "s"})
\* a comment extends to the end of its line: it is followed by a line break or it is the end of the input
TokLists == {s \in UNION {[1..len -> Tok] : len \in 0..MaxTok} :
               /\ NStr(s) <= MaxStr
               /\ \A i \in 1..Len(s) : s[i].k = "c" => (i = Len(s) \/ s[i + 1].k = "nl")}

None == [k |-> "none", n |-> 0, line |-> 0, idx |-> 0]
N == Len(toks)
LineOf(i) == 1 + Cardinality({j \in 1..(i - 1) : j <= N /\ toks[j].k = "nl"})   \* lexer.line when item i is sent
NLines == LineOf(N + 1)

\* item number i of the lexer, i \in 1..N+1
LexItem(i) ==
  IF i <= N THEN [k |-> toks[i].k, n |-> toks[i].n, idx |-> i,
                  line |-> LineOf(i) + (IF LineMode = "eolnext" /\ toks[i].k = "nl" THEN 1 ELSE 0)]
  ELSE IF lexerr THEN [k |-> "ERR", n |-> 0, line |-> (IF LineMode = "asread" THEN 0 ELSE LineOf(i)), idx |-> i]
  ELSE [k |-> "EOF", n |-> 0, line |-> LineOf(i), idx |-> i]
ZeroItem == [k |-> "ZERO", n |-> 0, line |-> (IF LineMode = "asread" THEN 0 ELSE lastLine), idx |-> 0]

NoDec == [pc |-> "none", n |-> 0, sent |-> 0, buf |-> 0, cap |-> 0]

Init ==
  /\ toks \in TokLists /\ lexerr \in BOOLEAN /\ pre \in Pres
  /\ (Len(toks) > 0 /\ toks[Len(toks)].k = "c") => ~lexerr      \* nothing follows a comment at the end of the input
  /\ lpc = "none" /\ li = 1 /\ scn = 0
  /\ ppc = "start" /\ backlog = <<>> /\ cur = None /\ held = None /\ npeek = 0
  /\ lastLine = 0 /\ errLine = 0
  /\ dec = [d \in 1..MaxTok |-> NoDec] /\ curDec = 0
  /\ result = [kind |-> "none", line |-> 0]
  /\ fat = [at |-> 0, str |-> 0, rune |-> 0, peek |-> 0]

---------------------------------------------------------------------------
(* Parse, parser.go:39-62.  Preconditions first (a font without a usable    *)
(* character map is refused with an error that has no line: nothing has    *)
(* been parsed); the design starts the lexer goroutine only after they     *)
(* hold, so that an early return leaves nothing behind.                    *)
Start ==
  /\ ppc = "start"
  /\ lpc' = IF pre = "ok" \/ SpawnMode = "first" THEN "send" ELSE lpc     \* go l.run()
  /\ IF pre = "ok" THEN ppc' = "idle" /\ UNCHANGED result
     ELSE ppc' = "exit" /\ result' = [kind |-> "early", line |-> 0]      \* EarlyExit
  /\ UNCHANGED <<toks, lexerr, pre, li, scn, backlog, cur, held, npeek, lastLine, errLine, dec, curDec, fat>>

(* The lexer between two items.  Every loop of lexer.go (white space,      *)
(* identifier, string, integer, comment) calls l.next() once per           *)
(* iteration and stops at its delimiter OR at eof; l.next() consumes a     *)
(* rune unless the input is exhausted, so each loop runs at most           *)
(* len(input)+1 times: scanning terminates.  Only the comment loop is      *)
(* modelled rune by rune, because a comment is the one construct that      *)
(* produces no item -- a loop that waits for '\n' alone never ends when    *)
(* the input ends inside a comment, while the parser waits for an item.    *)
IsComment(i) == i <= Len(toks) /\ toks[i].k = "c"
LexScan ==
  /\ lpc = "send" /\ IsComment(li)
  /\ IF scn < toks[li].n
       THEN scn' = scn + 1 /\ UNCHANGED li                         \* a rune of the comment
       ELSE IF li < Len(toks) \/ CommentMode = "eofsafe"
              THEN scn' = 0 /\ li' = li + 1                        \* '\n' (left for the next item) or eof: stop
              ELSE UNCHANGED <<scn, li>>                           \* eof is not '\n': next() again, for ever
  /\ UNCHANGED <<toks, lexerr, pre, lpc, ppc, backlog, cur, held, npeek, lastLine, errLine, dec, curDec, result, fat>>

(* <-p.tokens : rendezvous with the lexer's blocked send, or the zero item *)
(* once the channel is closed; blocks while the lexer is between its last  *)
(* send and close(l.items).                                                *)
CanRecv == (lpc = "send" /\ ~IsComment(li)) \/ lpc = "exit"
Recvd   == IF lpc = "send" THEN LexItem(li) ELSE ZeroItem
RecvEffect ==
  IF lpc = "send"
    THEN /\ li' = li + 1
         /\ lpc' = IF li = N + 1 THEN "close" ELSE "send"
    ELSE UNCHANGED <<li, lpc>>

LexClose == /\ lpc = "close" /\ lpc' = "exit"
            /\ UNCHANGED <<toks, lexerr, pre, scn, li, ppc, backlog, cur, held, npeek, lastLine, errLine,
                           dec, curDec, result, fat>>

---------------------------------------------------------------------------
(* parser.readItem, parser.go:1339 *)
ReadItem ==
  /\ ppc = "idle"
  /\ IF backlog # <<>>
       THEN /\ cur' = backlog[Len(backlog)]
            /\ backlog' = SubSeq(backlog, 1, Len(backlog) - 1)
            /\ UNCHANGED <<li, lpc, npeek, lastLine>>
       ELSE /\ CanRecv
            /\ cur' = Recvd /\ RecvEffect
            /\ npeek' = 0
            /\ lastLine' = IF Recvd.line > 0 THEN Recvd.line ELSE lastLine
            /\ UNCHANGED backlog
  /\ ppc' = "decide"
  /\ UNCHANGED <<toks, lexerr, pre, scn, held, errLine, dec, curDec, result, fat>>

\* the item is accepted by the grammar
Consume ==
  /\ ppc = "decide" /\ held = None
  /\ cur' = None
  /\ IF cur.k \in {"EOF", "ERR", "ZERO"}
       THEN /\ ppc' = "fatal"                       \* required(...) got it: fatal follows
            /\ fat' = [at |-> li - 1, str |-> 0, rune |-> 0, peek |-> 0]
       ELSE ppc' = "idle" /\ UNCHANGED fat
  /\ UNCHANGED <<toks, lexerr, pre, scn, lpc, li, backlog, held, npeek, lastLine, errLine, dec, curDec, result>>

\* p.backlog = append(p.backlog, item): peek, optional, readGlyphList, readNestedLookups ...
PushBack ==
  /\ ppc = "decide" /\ held = None /\ npeek < MaxPeek
  /\ backlog' = Append(backlog, cur) /\ cur' = None /\ npeek' = npeek + 1
  /\ ppc' = "idle"
  /\ UNCHANGED <<toks, lexerr, pre, scn, lpc, li, held, lastLine, errLine, dec, curDec, result, fat>>

\* readChainedSeqCtx, parser.go:856-861: next := readItem(); peek(); push next
Hold ==
  /\ ppc = "decide" /\ held = None /\ cur.k = "t" /\ npeek < MaxPeek
  /\ held' = cur /\ cur' = None /\ ppc' = "idle"
  /\ UNCHANGED <<toks, lexerr, pre, scn, lpc, li, backlog, npeek, lastLine, errLine, dec, curDec, result, fat>>
PushBackBoth ==
  /\ ppc = "decide" /\ held # None
  /\ backlog' = backlog \o <<cur, held>> /\ cur' = None /\ held' = None /\ npeek' = npeek + 1
  /\ ppc' = "idle"
  /\ UNCHANGED <<toks, lexerr, pre, scn, lpc, li, lastLine, errLine, dec, curDec, result, fat>>

\* parse() reads itemEOF and returns the lookups, parser.go:93
ReturnOk ==
  /\ ppc = "decide" /\ held = None /\ cur.k = "EOF"
  /\ result' = [kind |-> "ok", line |-> 0] /\ ppc' = "exit" /\ cur' = None
  /\ UNCHANGED <<toks, lexerr, pre, scn, lpc, li, backlog, held, npeek, lastLine, errLine, dec, curDec, fat>>

\* readGlyphList, parser.go:1124: for r := range decodeString(item.val) -- go statement
StartDecode ==
  /\ ppc = "decide" /\ held = None /\ cur.k = "s"
  /\ dec' = [dec EXCEPT ![cur.idx] = [pc |-> "send", n |-> cur.n, sent |-> 0, buf |-> 0, cap |-> Cap(toks[cur.idx])]]
  /\ curDec' = cur.idx /\ cur' = None /\ ppc' = "runes"
  /\ UNCHANGED <<toks, lexerr, pre, scn, lpc, li, backlog, held, npeek, lastLine, errLine, result, fat>>

\* one iteration of the range loop: a rune arrives and is mapped (continue) or is not
\* (p.fatal inside the loop body), or the channel is closed and the loop ends
AfterRune(j) ==
  \/ ppc' = "runes" /\ UNCHANGED <<fat, curDec>>
  \/ ppc' = "fatal" /\ fat' = [at |-> li - 1, str |-> curDec, rune |-> j, peek |-> 0] /\ curDec' = 0
RuneRecv ==
  /\ ppc = "runes"
  /\ LET d == curDec IN
     \/ /\ dec[d].cap = 0 /\ dec[d].pc = "send"                  \* rendezvous with c <- r
        /\ dec' = [dec EXCEPT ![d].sent = @ + 1,
                              ![d].pc = IF dec[d].sent + 1 = dec[d].n THEN "close" ELSE "send"]
        /\ AfterRune(dec[d].sent + 1)
     \/ /\ dec[d].buf > 0                                       \* from the buffer
        /\ dec' = [dec EXCEPT ![d].buf = @ - 1]
        /\ AfterRune(dec[d].sent - dec[d].buf + 1)
     \/ /\ dec[d].pc = "exit" /\ dec[d].buf = 0                  \* closed and empty
        /\ ppc' = "idle" /\ curDec' = 0 /\ UNCHANGED <<dec, fat>>
  /\ UNCHANGED <<toks, lexerr, pre, scn, lpc, li, backlog, cur, held, npeek, lastLine, errLine, result>>

\* a parse error is noticed between two reads (length mismatch, unknown flag, ...)
FatalHere ==
  /\ ppc = "idle" /\ held = None
  /\ li > 1                                          \* something has been read
  /\ ppc' = "fatal" /\ fat' = [at |-> li - 1, str |-> 0, rune |-> 0, peek |-> 0]
  /\ UNCHANGED <<toks, lexerr, pre, scn, lpc, li, backlog, cur, held, npeek, lastLine, errLine, dec, curDec, result>>

\* fatal(): panic(&parseError{next: p.peek(), ...}), parser.go:1492; recovered in Parse
FatalPeek ==
  /\ ppc = "fatal"
  /\ IF backlog # <<>>
       THEN /\ errLine' = backlog[Len(backlog)].line
            /\ fat' = [fat EXCEPT !.peek = backlog[Len(backlog)].idx]
            /\ UNCHANGED <<li, lpc, backlog, lastLine>>
       ELSE /\ CanRecv
            /\ errLine' = Recvd.line /\ RecvEffect
            /\ fat' = [fat EXCEPT !.peek = Recvd.idx]
            /\ backlog' = Append(backlog, Recvd)
            /\ lastLine' = IF Recvd.line > 0 THEN Recvd.line ELSE lastLine
  /\ ppc' = "drain"
  /\ UNCHANGED <<toks, lexerr, pre, scn, cur, held, npeek, dec, curDec, result>>

\* for range tokens { }, parser.go:65
Drain ==
  /\ ppc = "drain" /\ CanRecv
  /\ IF lpc = "send"
       THEN RecvEffect /\ UNCHANGED <<ppc, result>>
       ELSE /\ result' = [kind |-> "error", line |-> errLine] /\ ppc' = "exit"
            /\ UNCHANGED <<li, lpc>>
  /\ UNCHANGED <<toks, lexerr, pre, scn, backlog, cur, held, npeek, lastLine, errLine, dec, curDec, fat>>

---------------------------------------------------------------------------
(* decodeString goroutine, parser.go:1393-1418 *)
DecSend(d) ==      \* c <- r completes iff the channel has room
  /\ dec[d].pc = "send" /\ dec[d].buf < dec[d].cap
  /\ dec' = [dec EXCEPT ![d].sent = @ + 1, ![d].buf = @ + 1,
                        ![d].pc = IF dec[d].sent + 1 = dec[d].n THEN "close" ELSE "send"]
DecClose(d) ==
  /\ dec[d].pc = "close"
  /\ dec' = [dec EXCEPT ![d].pc = "exit"]
DecStep == /\ \E d \in 1..MaxTok : DecSend(d) \/ DecClose(d)
           /\ UNCHANGED <<toks, lexerr, pre, scn, lpc, li, ppc, backlog, cur, held, npeek, lastLine, errLine,
                          curDec, result, fat>>

---------------------------------------------------------------------------
LexStep == LexClose \/ LexScan
ParserStep == Start \/ ReadItem \/ Consume \/ PushBack \/ Hold \/ PushBackBoth \/ ReturnOk \/ StartDecode
              \/ RuneRecv \/ FatalHere \/ FatalPeek \/ Drain
Moves == LexStep \/ ParserStep \/ DecStep

Terminated == ppc = "exit" /\ lpc \in {"none", "exit"} /\ \A d \in 1..MaxTok : dec[d].pc \in {"none", "exit"}
Next == Moves \/ (Terminated /\ UNCHANGED vars)

Spec == Init /\ [][Next]_vars
FairSpec == Spec /\ WF_vars(LexStep) /\ WF_vars(ParserStep) /\ WF_vars(DecStep)

---------------------------------------------------------------------------
Quiescent == ~ENABLED Moves

Obs == [returned |-> ppc = "exit",
        panicked |-> FALSE,
        ok       |-> result.kind = "ok",
        line     |-> result.line,
        nlines   |-> NLines,
        leaked   |-> Cardinality({d \in 1..MaxTok : dec[d].pc \notin {"none", "exit"}})
                     + (IF lpc \in {"none", "exit"} THEN 0 ELSE 1)]

\* an early refusal owes no line number, but it must be as clean as any other return
SinkGood == Quiescent => IF result.kind = "early" THEN CleanOutcome(Obs) ELSE GoodOutcome(Obs)

\* when Parse has returned, no helper is blocked on a channel nobody will serve
NoOrphan == ppc = "exit" =>
              /\ lpc # "send"
              /\ \A d \in 1..MaxTok : dec[d].pc = "send" => dec[d].n - dec[d].sent <= dec[d].cap - dec[d].buf

\* the sufficient condition the design relies on: room for every rune that is sent
BufferSuffices == \A d \in 1..MaxTok : dec[d].pc # "none" => dec[d].cap >= dec[d].n

\* the result, as soon as there is one
ResultOK == ppc = "exit" => \/ result.kind = "ok" \/ result.kind = "early"
                            \/ result.kind = "error" /\ result.line >= 1 /\ result.line <= NLines

\* THE LAW OF THE ERROR LINE (see DslContract / DslLang section 4): an error carries the line of the item at
\* which it is detected -- the first item the parser has not accepted, fat.peek; an end-of-line item belongs
\* to the line it ends (LineOf counts the line breaks BEFORE an item); reading on after the end of the input
\* (peek = 0) reports the line of the end of the input
LineLaw == (ppc = "exit" /\ result.kind = "error") =>
             result.line = LineOf(IF fat.peek = 0 THEN N + 1 ELSE fat.peek)

TypeOK ==
  /\ lpc \in {"none", "send", "close", "exit"} /\ li \in 1..(N + 2) /\ scn \in 0..1
  /\ ppc \in {"start", "idle", "decide", "runes", "fatal", "drain", "exit"}
  /\ Len(backlog) <= 2 * MaxPeek + 1 /\ npeek \in 0..MaxPeek
  /\ \A d \in 1..MaxTok : /\ dec[d].pc \in {"none", "send", "close", "exit"}
                          /\ dec[d].buf <= dec[d].sent /\ dec[d].sent <= dec[d].n
                          /\ dec[d].buf <= dec[d].cap \/ dec[d].cap = 0
  /\ (ppc = "runes") = (curDec # 0)
  /\ result.kind \in {"none", "ok", "error", "early"} /\ (result.kind = "none") = (ppc # "exit")

Termination == <>Terminated

(* conformance cases: one per terminal state; the orchestrator removes duplicates *)
Emit == Terminated =>
  PrintT(<<"CASE", ToJson([toks |-> toks, lexerr |-> lexerr, pre |-> pre, fat |-> fat, result |-> result.kind])>>)
=============================================================================
