CONSTANTS
  NIn = 3
  MaxHist = 3
  Results = {"r1", "r2"}
SPECIFICATION Spec
INVARIANT TypeOK
PROPERTY Functional
CHECK_DEADLOCK FALSE
