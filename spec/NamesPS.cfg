SPECIFICATION Spec
CHECK_DEADLOCK FALSE
INVARIANT RefSafe
INVARIANT RefStrict
INVARIANT Emit
CONSTANTS
  MaxLen = 2
  Alphabet = {0, 9, 32, 37, 40, 41, 47, 60, 62, 65, 91, 93, 123, 125, 126, 127, 128, 195, 169, 255}
  Widths = {5, 1, 12}
  Weights = {400, 250, 700}
  Quiet = FALSE
