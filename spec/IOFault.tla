------------------------------- MODULE IOFault -------------------------------
(***************************************************************************)
(* C18.  Writing a container to a destination that fails after k bytes,    *)
(* and reading one from a source that is cut or starts failing at k.       *)
(*                                                                         *)
(* Writer side (header/write.go:97-120, reached from Font.Write,           *)
(* WriteTrueTypePDF, WriteOpenTypeCFFPDF; cff/write.go:231-236 has the     *)
(* same shape with the CFF sections as chunks):                            *)
(*   the layout (table lengths) implies the ordered plan of Write calls:   *)
(*   directory, then per table the body and, if needed, the padding.       *)
(*   WStep   one call: the destination accepts part of the chunk           *)
(*           ("exact": everything up to byte k, "atomic": the chunk or     *)
(*           nothing, "short": any shorter amount; "eager": like exact,    *)
(*           but the call that consumes the k-th byte already reports the  *)
(*           failure, TOGETHER WITH ITS FULL COUNT when it ends exactly at *)
(*           k -- io.Writer allows (len(p), err); "once" / "eonce": exact  *)
(*           / eager, but the destination fails one call only and works    *)
(*           again afterwards), the code adds the reported count and       *)
(*           returns at the first error                                    *)
(*   WReturn all chunks written                                            *)
(* Reader side (header/tables.go:58-163, read.go:62-75,                    *)
(* header/tables.go:177-192):                                              *)
(*   RAll    streaming sources are read into memory first (io.ReadAll)     *)
(*   RStep   one ReadAt of the plan: 6 bytes of the offset table, every    *)
(*           16-byte record, one byte at the end of the last table (the    *)
(*           "probe"), then the tables in chunks; the code returns the     *)
(*           first error.  Every table has a class:                        *)
(*             "dec"   decoded by a parser, which notices missing bytes    *)
(*             "raw"   copied with io.ReadAll from a SectionReader (cvt,   *)
(*                     fpgm, prep, gasp, hhea/hmtx/cmap/name bytes): the   *)
(*                     end of a cut file is an ordinary EOF there, the     *)
(*                     copy is silently short; a non-EOF error is returned *)
(*             "skip"  never looked at (unknown tables)                    *)
(*           so for raw/skip tables only the probe notices a cut.  With    *)
(*           Probe = FALSE (the probe left out) TLC must find a violation  *)
(*           of RTruncRejected: checks/C18.py runs that as a must-fail.    *)
(*   RReturn everything read                                               *)
(*   sources: "trunc" (file cut to k bytes: an access beyond it hits EOF)  *)
(*            "failat" (an access touching an offset >= k fails)           *)
(*            "strunc" / "sfail": the same through a plain io.Reader       *)
(*                                                                         *)
(* Stand-alone readers (cff.Read on a bare CFF stream, cmap.Decode,        *)
(* gtab.Read, os2.Read, ... each on the bytes its own writer produced):    *)
(*   the stream is ONE extent of L bytes, read front to back in pieces.    *)
(*   A format may have legitimately optional tails: positions at which the *)
(*   stream may end although the writer produced more.  An end is optional *)
(*   only if a stream with THESE header fields is complete there: opt is a *)
(*   function of the stream (OS/2: after the 68-byte core, whatever the    *)
(*   version word says -- the reader's documented leniency for short Apple *)
(*   tables; a stream declaring version 0 or 1 is decoded up to byte 78    *)
(*   only, one declaring version 2..5 is complete at 96 bytes and nowhere  *)
(*   before; a "loca" table is complete after every whole entry of 2 or 4  *)
(*   bytes, by head.indexToLocFormat).  The set of such positions is part  *)
(*   of the reader's contract (opt); everywhere else the law is            *)
(*     cut strictly inside the extent the writer produced  =>  error.      *)
(*   SStep   one piece: a cut source that ends exactly at an optional      *)
(*           position ends the read without error; an end inside a piece,  *)
(*           or a source that fails, is an error                           *)
(*                                                                         *)
(* TLC checks for every layout, every k in 0..total, every mode and every  *)
(* set of needed tables the accounting/propagation invariants below.       *)
(***************************************************************************)
EXTENDS Integers, Sequences, FiniteSets, TLC, SequencesExt

CONSTANTS MaxTables,  \* layouts have 1..MaxTables tables
          MaxLen,     \* table lengths 0..MaxLen
          WModes,     \* subset of {"exact", "atomic", "short", "eager", "once", "eonce"}
          RModes,     \* subset of {"trunc", "failat", "strunc", "sfail"}
          Chunk,      \* tables are read in pieces of at most Chunk bytes
          Probe,      \* BOOLEAN: the reader probes the last byte of the last table
          SMaxLen     \* stand-alone streams have 1..SMaxLen bytes (0: side "s" not explored)

VARIABLES side,   \* "w" | "r" | "s" (stand-alone reader: lens = <<L>>, need = set of optional end positions)
          lens,   \* the layout: sequence of table lengths (physical order)
          mode, k,
          need,   \* reader: class of every table: "dec" | "raw" | "skip"
          pc,     \* next chunk / access of the plan
          acc,    \* writer: bytes accepted by the destination so far
          n,      \* writer: count the code has accumulated
          err,    \* the call returned / will return an error
          hit,    \* an access of this run failed (destination or source reported an error)
          done,
          loaded, \* reader: streaming source already read into memory
          healed  \* writer: a fail-once destination has had its failure
vars == <<side, lens, mode, k, need, pc, acc, n, err, hit, done, loaded, healed>>

Pad4(x) == 4 * ((x + 3) \div 4)
Min2(a, b) == IF a < b THEN a ELSE b
SumTo(s, j) == FoldLeft(LAMBDA a, i : a + s[i], 0, [i \in 1..j |-> i])
NT == Len(lens)
DirLen == 12 + 16 * NT
Off(t) == DirLen + SumTo([i \in 1..NT |-> Pad4(lens[i])], t - 1)
Total == Off(NT + 1)
\* end of the last byte of table data: a cut at or behind it loses padding only
DataEnd == LET E == {Off(t) + lens[t] : t \in {u \in 1..NT : lens[u] > 0}} IN
           IF E = {} THEN 0 ELSE CHOOSE x \in E : \A y \in E : y <= x

\* writer: the Write calls implied by the layout
Rem4(x) == x % 4
WPlan == <<DirLen>> \o FlattenSeq([t \in 1..NT |->
            IF Rem4(lens[t]) = 0 THEN << lens[t] >> ELSE << lens[t], 4 - Rem4(lens[t]) >>])

\* reader: the ReadAt calls <<offset, length>>
Pieces(o, l) == [i \in 1..((l + Chunk - 1) \div Chunk) |-> <<o + (i - 1) * Chunk, Min2(Chunk, l - (i - 1) * Chunk)>>]
LastEnd == Off(NT) + lens[NT]          \* end of the table with the largest offset (directory sanity probe)
\* accesses are <<offset, length, class>>; the directory accesses behave like "dec"
Hdr(a) == <<a[1], a[2], "dec">>
RPlan == << Hdr(<<0, 6>>) >> \o [i \in 1..NT |-> Hdr(<<12 + 16 * (i - 1), 16>>)]
           \o (IF Probe THEN << Hdr(<<LastEnd - 1, 1>>) >> ELSE <<>>)
           \o FlattenSeq([t \in 1..NT |-> IF need[t] = "skip" THEN <<>>
                           ELSE [i \in 1..Len(Pieces(Off(t), lens[t])) |->
                                   <<Pieces(Off(t), lens[t])[i][1], Pieces(Off(t), lens[t])[i][2], need[t]>>]])

Layouts == UNION {[1..c -> 0..MaxLen] : c \in 1..MaxTables}

Init == /\ side \in (IF WModes = {} THEN {} ELSE {"w"}) \cup (IF RModes = {} THEN {} ELSE {"r"})
                      \cup (IF SMaxLen = 0 THEN {} ELSE {"s"})
        /\ lens \in (IF side = "s" THEN {<<c>> : c \in 1..SMaxLen} ELSE Layouts)
        /\ mode \in (CASE side = "w" -> WModes [] side = "r" -> RModes [] side = "s" -> {"trunc", "failat"})
        /\ k \in 0..(IF side = "s" THEN lens[1] ELSE Total)
        /\ need \in (CASE side = "w" -> {<<>>} [] side = "r" -> [1..NT -> {"dec", "raw", "skip"}]
                       [] side = "s" -> SUBSET (1..(lens[1] - 1)))
        /\ pc = 1 /\ acc = 0 /\ n = 0 /\ err = FALSE /\ hit = FALSE /\ done = FALSE /\ loaded = FALSE
        /\ healed = FALSE

---------------------------------------------------------------------------
(* the destination: how many of m offered bytes it accepts, and whether it reports an error *)
Eager == mode \in {"eager", "eonce"}
Once  == mode \in {"once", "eonce"}
Accepts(m) == LET room == k - acc IN
  IF healed THEN {<<m, FALSE>>}
  ELSE IF Eager THEN (IF m > 0 /\ m >= room THEN {<<Min2(m, room), TRUE>>} ELSE {<<m, FALSE>>})
  ELSE IF m <= room THEN {<<m, FALSE>>}
  ELSE CASE mode \in {"exact", "once"} -> {<<room, TRUE>>}
         [] mode = "atomic" -> {<<0, TRUE>>}
         [] mode = "short"  -> {<<a, TRUE>> : a \in 0..room}

WStep == /\ side = "w" /\ ~done /\ pc <= Len(WPlan)
         /\ \E r \in Accepts(WPlan[pc]) :
              /\ acc' = acc + r[1]
              /\ n' = n + r[1]                    \* the code adds the count the destination reports
              /\ healed' = (healed \/ (r[2] /\ Once))
              /\ IF r[2] THEN err' = TRUE /\ hit' = TRUE /\ done' = TRUE /\ pc' = pc
                         ELSE pc' = pc + 1 /\ UNCHANGED <<err, hit, done>>
         /\ UNCHANGED <<side, lens, mode, k, need, loaded>>

WReturn == /\ side = "w" /\ ~done /\ pc > Len(WPlan)
           /\ done' = TRUE
           /\ UNCHANGED <<side, lens, mode, k, need, pc, acc, n, err, hit, loaded, healed>>

---------------------------------------------------------------------------
Streaming == mode \in {"strunc", "sfail"}
\* a streaming source is consumed completely first; a failing one fails that already
RAll == /\ side = "r" /\ ~done /\ Streaming /\ ~loaded
        /\ IF mode = "sfail" /\ k < Total
             THEN err' = TRUE /\ hit' = TRUE /\ done' = TRUE /\ loaded' = loaded
             ELSE loaded' = TRUE /\ UNCHANGED <<err, hit, done>>
        /\ UNCHANGED <<side, lens, mode, k, need, pc, acc, n, healed>>

\* does the access <<o, l, class>> fail?  (after RAll the memory copy has Min(k, Total) bytes)
\* A failing source returns an error to whoever reads; at the end of a cut file a raw copy just ends.
Beyond(a) == a[2] > 0 /\ a[1] + a[2] > k /\ k < Total
Fails(a)  == Beyond(a) /\ (mode = "failat" \/ a[3] = "dec")

RStep == /\ side = "r" /\ ~done /\ (Streaming => loaded) /\ pc <= Len(RPlan)
         /\ IF Fails(RPlan[pc]) THEN err' = TRUE /\ hit' = TRUE /\ done' = TRUE /\ pc' = pc
                                ELSE pc' = pc + 1 /\ UNCHANGED <<err, hit, done>>
         /\ UNCHANGED <<side, lens, mode, k, need, acc, n, loaded, healed>>

RReturn == /\ side = "r" /\ ~done /\ (Streaming => loaded) /\ pc > Len(RPlan)
           /\ done' = TRUE
           /\ UNCHANGED <<side, lens, mode, k, need, pc, acc, n, err, hit, loaded, healed>>

---------------------------------------------------------------------------
(* stand-alone reader of one stream of SL bytes; need = the optional end positions *)
SL == lens[1]
SCuts == {0, SL} \cup need \cup {c \in 1..SL : c % Chunk = 0}
SStarts == SetToSortSeq(SCuts \ {SL}, <)                     \* piece i starts at SStarts[i] ...
SEnd(o) == CHOOSE e \in SCuts : e > o /\ \A x \in SCuts : x > o => e <= x   \* ... and ends at the next cut

SStep == /\ side = "s" /\ ~done /\ pc <= Len(SStarts)
         /\ LET o == SStarts[pc]
                e == SEnd(o)
            IN  IF mode = "trunc" /\ k < SL /\ o = k /\ o \in need
                  THEN done' = TRUE /\ UNCHANGED <<err, hit, pc>>               \* the optional tail is absent
                ELSE IF e > k /\ k < SL
                  THEN err' = TRUE /\ hit' = TRUE /\ done' = TRUE /\ pc' = pc
                  ELSE pc' = pc + 1 /\ UNCHANGED <<err, hit, done>>
         /\ UNCHANGED <<side, lens, mode, k, need, acc, n, loaded, healed>>

SReturn == /\ side = "s" /\ ~done /\ pc > Len(SStarts)
           /\ done' = TRUE
           /\ UNCHANGED <<side, lens, mode, k, need, pc, acc, n, err, hit, loaded, healed>>

Next == WStep \/ WReturn \/ RAll \/ RStep \/ RReturn \/ SStep \/ SReturn
Spec == Init /\ [][Next]_vars

---------------------------------------------------------------------------
(* The property *)
WD == side = "w" /\ done
RD == side = "r" /\ done
\* a write fails exactly if the destination cannot take the whole file; an eager destination
\* reports its failure for every k <= Total (at k = Total with all bytes accepted)
WErrIffShort   == WD => (err <=> (k < Total \/ Eager))
\* the reported count is what the destination accepted; on success it is the file length
WCountAccepted == WD => n = acc /\ acc <= k
WSuccessTotal  == (WD /\ ~err) => n = Total
WExactAccepts  == (WD /\ mode \in {"exact", "eager", "once", "eonce"}) => acc = Min2(k, Total)
\* an error of the destination/source is never swallowed, and never invented
ErrIffHit      == done => (err <=> hit)
\* a file cut anywhere inside its table data is rejected, through ReaderAt and through Reader
RTruncRejected == (RD /\ mode \in {"trunc", "strunc"} /\ k < DataEnd) => err
\* a failing stream is rejected wherever it fails; the intact file is accepted
RStreamFail    == (RD /\ mode = "sfail" /\ k < Total) => err
RIntactOK      == (RD /\ k = Total) => ~err
\* a failing ReaderAt: rejected iff an access of the plan touches an offset >= k
RFailNeeded    == (RD /\ mode = "failat") => (err <=> \E i \in 1..Len(RPlan) : Fails(RPlan[i]))
\* stand-alone readers: a cut strictly inside the extent the writer produced is an error, except at
\* the optional end positions of the format; a failing source is an error wherever it fails
SD             == side = "s" /\ done
SCutRejected   == (SD /\ mode = "trunc" /\ k < SL /\ k \notin need) => err
SCutOptional   == (SD /\ mode = "trunc" /\ k \in need) => ~err
SFailRejected  == (SD /\ mode = "failat" /\ k < SL) => err
SIntactOK      == (SD /\ k = SL) => ~err
Bounds         == acc >= 0 /\ acc <= Total /\ n >= 0 /\ pc >= 1
=============================================================================
