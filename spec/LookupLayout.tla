---------------------------- MODULE LookupLayout ----------------------------
(***************************************************************************)
(* C08.  The layout plan of a GSUB/GPOS lookup list as computed by         *)
(* (LookupList).encode, opentype/gtab/lookup.go:304-532, and of the table  *)
(* header written by Info.Encode, gtab.go:165-199 -- and, separately,     *)
(* what the property demands of ANY encoder (the Demand operators).       *)
(*                                                                         *)
(* One action per critical section of the Go code:                         *)
(*   BuildChunks   lookup.go:329-355  header, table and subtable chunks    *)
(*   CheckSize     lookup.go:357-370  isTooLarge: a Lookup table starts    *)
(*                                    beyond 0xFFFF                        *)
(*   ReorderInit   lookup.go:449-478  sizes, stable sort, biggest last     *)
(*   ReorderStep   lookup.go:479-497  one iteration of the replace loop    *)
(*   ReorderEnd    lookup.go:498-531  panic, or the new chunk order        *)
(*   Layout        lookup.go:372-441  positions and the offsets written    *)
(*                 gtab.go:170-194    (16-bit fields keep x mod 65536)     *)
(*                                                                         *)
(* The model says what the code DOES (CodeInv.., checked by TLC, must hold)*)
(* and the property says what must be true of the bytes (Demand..).  Where *)
(* TLC finds a reachable state violating a Demand, the lookup list of that *)
(* state is a concrete replay case for the real encoder (Emit prints every *)
(* terminal state with the verdict of the model).                          *)
(***************************************************************************)
EXTENDS Integers, Sequences, FiniteSets, TLC, Json, SequencesExt, LookupLayoutDefs

CONSTANTS Sizes,        \* abstract subtable sizes
          MaxLookups,   \* 1..MaxLookups lookups
          MaxSubs,      \* 1..MaxSubs subtables per lookup
          MfsChoices,   \* subset of BOOLEAN: lookups with a markFilteringSet word
          ScriptSizes,  \* sizes of the encoded script list
          FeatSizes,    \* sizes of the encoded feature list
          Types,        \* lookup types of the lookups ({0}: the type is left to the harness)
          ExtType,      \* 7 (GSUB) or 9 (GPOS): the lookup type of extension lookups
          Recognised,   \* lookup types from whose subtables the encoder can tell GSUB from GPOS
                        \* (lookup.go:309-322 finds the table kind by looking at the subtables)
          EmitCases,    \* TRUE: print every terminal state as a replay case
          Fix28         \* FALSE: the pinned code.  TRUE: the design of proposed-fixes/C08-1.diff
                        \* (subtable offsets count for isTooLarge; the biggest lookup gets
                        \* extension records when its own subtable offsets overflow)

VARIABLES ll, S, F,     \* the input: lookups, script list size, feature list size
          pc,
          chunks,       \* the chunk list (sequence of [k, i, j, size])
          order,        \* ReorderStep: lookups still to be considered, biggest first
          lastPos,      \* ReorderStep: position of the biggest lookup
          repl,         \* lookups whose subtables are replaced by extension records
          big,          \* the lookup moved to the end (0: no reordering)
          tooLarge,     \* result of CheckSize
          res           \* what is written: positions and offset fields
vars == <<ll, S, F, pc, chunks, order, lastPos, repl, big, tooLarge, res>>

Lookups == UNION {[mfs : MfsChoices, subs : [1..k -> Sizes], type : Types] : k \in 1..MaxSubs}
Plans   == UNION {[1..n -> Lookups] : n \in 1..MaxLookups}

NoRes == [total |-> 0]

Init == /\ ll \in Plans /\ S \in ScriptSizes /\ F \in FeatSizes
        /\ pc = "start" /\ chunks = <<>> /\ order = <<>> /\ lastPos = 0
        /\ repl = {} /\ big = 0 /\ tooLarge = FALSE /\ res = NoRes

N == Len(ll)
Ch(k, i, j, sz) == [k |-> k, i |-> i, j |-> j, size |-> sz]

---------------------------------------------------------------------------
LookupChunks(i) ==
  <<Ch("table", i, 0, HdrLen(ll[i]))>> \o
  [j \in 1..Len(ll[i].subs) |-> Ch("sub", i, j, ll[i].subs[j])]

BuildChunks ==
  /\ pc = "start"
  /\ chunks' = <<Ch("header", 0, 0, ListHdrLen(ll))>> \o
               FlattenSeq([i \in 1..N |-> LookupChunks(i)])
  /\ pc' = "built"
  /\ UNCHANGED <<ll, S, F, order, lastPos, repl, big, tooLarge, res>>

\* Starts(cs)[n] = start position of chunk n of a chunk list; Starts(cs)[Len(cs)+1] = total size
Starts(cs) == FoldLeft(LAMBDA acc, c : Append(acc, acc[Len(acc)] + c.size), <<0>>, cs)
TotalOf(cs) == Starts(cs)[Len(cs) + 1]

CheckSize ==
  /\ pc = "built"
  /\ LET st == Starts(chunks)
     IN tooLarge' = \/ \E n \in 1..Len(chunks) : chunks[n].k = "table" /\ st[n] > Max16
                    \/ Fix28 /\ \E i \in 1..N : \E j \in 1..Len(ll[i].subs) : DirectSubOff(ll[i], j) > Max16
  /\ pc' = IF tooLarge' THEN "reorder" ELSE "layout"
  /\ UNCHANGED <<ll, S, F, chunks, order, lastPos, repl, big, res>>

---------------------------------------------------------------------------
(* tryReorder *)
LSize(i) == DirectLen(ll[i])
\* sort.SliceStable by size: ascending by (size, index)
Before(a, b) == LSize(a) < LSize(b) \/ (LSize(a) = LSize(b) /\ a < b)

ReorderInit ==
  /\ pc = "reorder"
  /\ LET asc == SetToSortSeq(1..N, Before)
     IN /\ big' = asc[N]
        /\ order' = Reverse(SubSeq(asc, 1, N - 1))
        /\ lastPos' = TotalOf(chunks) - LSize(asc[N])
  /\ repl' = {}
  /\ pc' = "loop"
  /\ UNCHANGED <<ll, S, F, chunks, tooLarge, res>>

ReorderStep ==
  /\ pc = "loop" /\ lastPos > Max16 /\ order # <<>>
  /\ LET t == Head(order)
         old == LSize(t)
         new == ExtLen(ll[t])
     IN IF new < old
          THEN repl' = repl \cup {t} /\ lastPos' = lastPos - (old - new)
          ELSE UNCHANGED <<repl, lastPos>>
  /\ order' = Tail(order)
  /\ UNCHANGED <<ll, S, F, pc, chunks, big, tooLarge, res>>

\* the new chunk order: header, every lookup but the biggest in the old order (subtables
\* of replaced lookups become 8-byte extension records), the biggest lookup with its
\* subtables, the subtables that were replaced
Reordered(r) ==
  LET front == SelectSeq(chunks, LAMBDA c : c.k = "header" \/ (c.i # big))
      conv(c) == IF c.k = "sub" /\ c.i \in r THEN Ch("ext", c.i, c.j, ExtRecLen) ELSE c
      moved == SelectSeq(chunks, LAMBDA c : c.k # "header" /\ c.i = big)
      ext == SelectSeq(chunks, LAMBDA c : c.k = "sub" /\ c.i \in r)
  IN [n \in 1..Len(front) |-> conv(front[n])] \o [n \in 1..Len(moved) |-> conv(moved[n])] \o ext

\* proposed fix: the biggest lookup needs extension records itself when one of its subtable
\* offsets (subtables directly after the Lookup table) does not fit 16 bits
BigOverflows == \E j \in 1..Len(ll[big].subs) : DirectSubOff(ll[big], j) > Max16

ReorderEnd ==
  /\ pc = "loop" /\ (lastPos <= Max16 \/ order = <<>>)
  /\ IF lastPos > Max16
       THEN pc' = "panic" /\ UNCHANGED chunks      \* panic("too much data for lookup list table")
       ELSE /\ pc' = "layout"
            /\ repl' = IF Fix28 /\ BigOverflows THEN repl \cup {big} ELSE repl
            /\ chunks' = Reordered(repl')
  /\ lastPos > Max16 => UNCHANGED repl
  /\ UNCHANGED <<ll, S, F, order, lastPos, big, tooLarge, res>>

---------------------------------------------------------------------------
(* positions, and the fields as written *)
Idx(k, i, j) == CHOOSE n \in 1..Len(chunks) : chunks[n].k = k /\ chunks[n].i = i /\ chunks[n].j = j
Has(k, i, j) == \E n \in 1..Len(chunks) : chunks[n].k = k /\ chunks[n].i = i /\ chunks[n].j = j

Layout ==
  /\ pc = "layout"
  /\ LET st == Starts(chunks)
         Pos(k, i, j) == st[Idx(k, i, j)]
     IN
     res' = [ total   |-> st[Len(chunks) + 1],
              \* true positions (from the start of the lookup list)
              tpos    |-> [i \in 1..N |-> Pos("table", i, 0)],
              \* position of what the j-th subtable offset of lookup i refers to
              rpos    |-> [i \in 1..N |-> [j \in 1..Len(ll[i].subs) |->
                             IF Has("ext", i, j) THEN Pos("ext", i, j) ELSE Pos("sub", i, j)]],
              spos    |-> [i \in 1..N |-> [j \in 1..Len(ll[i].subs) |-> Pos("sub", i, j)]],
              \* the lookup type is rewritten iff the first subtable has an extension record
              retyped |-> {i \in 1..N : Has("ext", i, 1)},
              \* the lookup type written in the Lookup table, and the type carried by its extension records;
              \* the extension type is known only if some subtable of the list reveals the table kind
              wtype   |-> [i \in 1..N |-> IF Has("ext", i, 1)
                                           THEN (IF \E k \in 1..N : ll[k].type \in Recognised THEN ExtType ELSE 0)
                                           ELSE ll[i].type],
              etype   |-> [i \in 1..N |-> ll[i].type],
              \* the three header offsets: 10, 10+S, 10+S+F
              hdr     |-> <<GtabHeaderLen, GtabHeaderLen + S, GtabHeaderLen + S + F>> ]
  /\ pc' = "done"
  /\ UNCHANGED <<ll, S, F, chunks, order, lastPos, repl, big, tooLarge>>

Next == BuildChunks \/ CheckSize \/ ReorderInit \/ ReorderStep \/ ReorderEnd \/ Layout
Spec == Init /\ [][Next]_vars

Done == pc = "done"
---------------------------------------------------------------------------
(* What the code guarantees (TLC checks these on the model; they must hold) *)

\* the final chunk list is the header, every Lookup table once, every subtable once and an
\* extension record exactly for the subtables of replaced lookups; nothing else
CodeInvChunks == Done =>
  /\ Has("header", 0, 0) /\ Idx("header", 0, 0) = 1
  /\ \A i \in 1..N : Has("table", i, 0)
  /\ \A i \in 1..N : \A j \in 1..Len(ll[i].subs) :
        Has("sub", i, j) /\ (Has("ext", i, j) <=> i \in repl)
  /\ Len(chunks) = 1 + N + SumSeq([i \in 1..N |-> Len(ll[i].subs)])
                     + SumSeq([i \in 1..N |-> IF i \in repl THEN Len(ll[i].subs) ELSE 0])

\* sum of sizes = length
CodeInvTotal == Done =>
  res.total = ListHdrLen(ll) + SumSeq([i \in 1..N |-> DirectLen(ll[i])])
              + ExtRecLen * SumSeq([i \in 1..N |-> IF i \in repl THEN Len(ll[i].subs) ELSE 0])

\* every lookup offset fits 16 bits (isTooLarge / tryReorder / panic)
CodeInvLookupOffsets == Done => \A i \in 1..N : res.tpos[i] <= Max16

\* extension records: directly after their Lookup table, pointing forward with a 32-bit offset
CodeInvExt == Done => \A i \in repl : \A j \in 1..Len(ll[i].subs) :
  /\ res.rpos[i][j] = res.tpos[i] + HdrLen(ll[i]) + ExtRecLen * (j - 1)
  /\ res.spos[i][j] > res.rpos[i][j]
  /\ res.spos[i][j] - res.rpos[i][j] < 2147483647

\* lookup types are rewritten exactly for replaced lookups; the biggest is never replaced
CodeInvRetyped == Done => res.retyped = repl /\ (~Fix28 => big \notin repl) /\ (~tooLarge => repl = {} /\ big = 0)

\* subtable offsets of every lookup but the biggest fit
CodeInvOtherSubOffsets == Done =>
  \A i \in 1..N : (i # big /\ (tooLarge \/ i < N)) =>
     \A j \in 1..Len(ll[i].subs) : res.rpos[i][j] - res.tpos[i] <= Max16

\* the design of the proposed fix satisfies the demand on every plan
FixInvSubOffsets == (Fix28 /\ Done) => \A i \in 1..N : \A j \in 1..Len(ll[i].subs) : res.rpos[i][j] - res.tpos[i] <= Max16

\* LAW: extension wrapping is transparent.  A reader resolves a lookup of type ExtType to the type carried
\* by its extension records; for every lookup type T, type(ext(L)) = type(L).  It needs wtype = ExtType for
\* every wrapped lookup, whatever the types in the list (also when only one type occurs).
ReadType(i) == IF res.wtype[i] = ExtType THEN res.etype[i] ELSE res.wtype[i]
ExtTransparent == Done => \A i \in 1..N :
  /\ ReadType(i) = ll[i].type
  /\ i \in res.retyped => res.wtype[i] = ExtType
  /\ i \notin res.retyped => res.wtype[i] # ExtType

\* within the bounds of the model the encoder never refuses
CodeInvNoPanic == pc # "panic"

---------------------------------------------------------------------------
(* What the property demands of the bytes.                                 *)
(* DemandSubOffsets is NOT implied by the code model: lookup.go:386-394    *)
(* writes subtablePos - base with byte(x>>8), byte(x) and neither          *)
(* isTooLarge nor tryReorder look at it (DESIGN section 4, finding 28).    *)
SubOffsetsFit == \A i \in 1..N : \A j \in 1..Len(ll[i].subs) : res.rpos[i][j] - res.tpos[i] <= Max16
HeaderOffsetsFit == \A k \in 1..3 : res.hdr[k] <= Max16

DemandSubOffsets == Done => SubOffsetsFit
DemandHeader     == Done => HeaderOffsetsFit        \* gtab.go:189-193 (finding 22)
DemandNoNeedlessRefusal == pc = "panic" => ~Representable(ll)

---------------------------------------------------------------------------
(* Replay cases: every terminal state, with the model's prediction.        *)
Verdict == IF pc = "panic" THEN "panic"
           ELSE IF ~SubOffsetsFit THEN "subwrap"
           ELSE IF ~HeaderOffsetsFit THEN "hdrwrap" ELSE "ok"
Emit == (EmitCases /\ pc \in {"done", "panic"}) =>
  PrintT(<<"CASE", ToJson([ ll |-> ll, S |-> S, F |-> F,
                            model |-> Verdict,
                            representable |-> Representable(ll) /\ HeaderFits(S, F),
                            tooLarge |-> tooLarge, big |-> big,
                            nrepl |-> Cardinality(repl),
                            total |-> IF pc = "done" THEN res.total ELSE 0 ])>>)
=============================================================================
