CONSTANTS
  N = 2
  K = 2
  Ops = {"Write", "AsCFFWrite", "Subset", "MakeGlyphNames", "Layout", "ExplainGsub"}
  Variant = "headpatch"
  MaxPar = 2
  MaxOps = 0
  Gen = FALSE
INIT Init
NEXT Next
VIEW view
INVARIANT NoRace
INVARIANT SeqEquiv
INVARIANT SharedUnchanged
CHECK_DEADLOCK FALSE
