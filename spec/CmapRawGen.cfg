CONSTANTS
  MaxCode = 65535
INIT Init
NEXT Next
INVARIANT RawOK
INVARIANT Emit
CHECK_DEADLOCK FALSE
