------------------------------ MODULE C02Seeds ------------------------------
(***************************************************************************)
(* The seed list of the C02 fault plan.  This file is a small stand-in so  *)
(* that the modules parse on their own; checks/C02.py overwrites it in the *)
(* scratch directory with the list the harness built (c02 seeds).          *)
(***************************************************************************)
SeedsVal == <<
  [id |-> 1, dec |-> "sfnt", len |-> 40, mlen |-> 40, ntab |-> 2, ngid |-> 3, ndict |-> 0, ncnt |-> 0, ncpair |-> 0],
  [id |-> 2, dec |-> "header", len |-> 40, mlen |-> 28, ntab |-> 0, ngid |-> 0, ndict |-> 0, ncnt |-> 0, ncpair |-> 0],
  [id |-> 3, dec |-> "cff", len |-> 9, mlen |-> 9, ntab |-> 0, ngid |-> 0, ndict |-> 2, ncnt |-> 0, ncpair |-> 0],
  [id |-> 4, dec |-> "cmap", len |-> 12, mlen |-> 12, ntab |-> 0, ngid |-> 0, ndict |-> 0, ncnt |-> 0, ncpair |-> 0],
  [id |-> 5, dec |-> "glyf", len |-> 10, mlen |-> 10, ntab |-> 0, ngid |-> 0, ndict |-> 0, ncnt |-> 0, ncpair |-> 0],
  [id |-> 6, dec |-> "GSUB", len |-> 10, mlen |-> 10, ntab |-> 0, ngid |-> 0, ndict |-> 0, ncnt |-> 0, ncpair |-> 0],
  [id |-> 7, dec |-> "GPOS", len |-> 10, mlen |-> 10, ntab |-> 0, ngid |-> 0, ndict |-> 0, ncnt |-> 3, ncpair |-> 2],
  [id |-> 8, dec |-> "GDEF", len |-> 12, mlen |-> 12, ntab |-> 0, ngid |-> 0, ndict |-> 0, ncnt |-> 0, ncpair |-> 0],
  [id |-> 9, dec |-> "coverage", len |-> 6, mlen |-> 6, ntab |-> 0, ngid |-> 0, ndict |-> 0, ncnt |-> 0, ncpair |-> 0],
  [id |-> 10, dec |-> "coverset", len |-> 6, mlen |-> 6, ntab |-> 0, ngid |-> 0, ndict |-> 0, ncnt |-> 0, ncpair |-> 0],
  [id |-> 11, dec |-> "classdef", len |-> 8, mlen |-> 8, ntab |-> 0, ngid |-> 0, ndict |-> 0, ncnt |-> 0, ncpair |-> 0],
  [id |-> 12, dec |-> "name", len |-> 6, mlen |-> 6, ntab |-> 0, ngid |-> 0, ndict |-> 0, ncnt |-> 0, ncpair |-> 0],
  [id |-> 13, dec |-> "head", len |-> 54, mlen |-> 54, ntab |-> 0, ngid |-> 0, ndict |-> 0, ncnt |-> 0, ncpair |-> 0],
  [id |-> 14, dec |-> "hmtx", len |-> 40, mlen |-> 40, ntab |-> 0, ngid |-> 0, ndict |-> 0, ncnt |-> 0, ncpair |-> 0],
  [id |-> 15, dec |-> "maxp", len |-> 6, mlen |-> 6, ntab |-> 0, ngid |-> 0, ndict |-> 0, ncnt |-> 0, ncpair |-> 0],
  [id |-> 16, dec |-> "os2", len |-> 78, mlen |-> 78, ntab |-> 0, ngid |-> 0, ndict |-> 0, ncnt |-> 0, ncpair |-> 0],
  [id |-> 17, dec |-> "post", len |-> 32, mlen |-> 32, ntab |-> 0, ngid |-> 0, ndict |-> 0, ncnt |-> 0, ncpair |-> 0],
  [id |-> 18, dec |-> "kern", len |-> 18, mlen |-> 17, ntab |-> 0, ngid |-> 0, ndict |-> 0, ncnt |-> 0, ncpair |-> 0] >>
=============================================================================
