CONSTANTS
  MaxTok = 1
  MaxStr = 2
  MaxRunes = 2
  MaxPeek = 2
  RuneKinds = {"p"}
  DecMode = "buffered"
  LineMode = "tracked"
  WithComments = TRUE
  CommentMode = "newlineonly"
  Pres = {"ok"}
  SpawnMode = "afterchecks"
SPECIFICATION FairSpec
PROPERTY Termination
CHECK_DEADLOCK TRUE
