\* C05: short programs dedicated to one operator each, simulation
CONSTANTS
  Unit = 1
  MaxV = 32000
  MaxPos = 1000000
  Vals <- CoarseVals
  SVals <- CoarseSVals
  Sizes <- AllSizes
  DWs <- CoarseDWs
  NWs <- CoarseNWs
  MaskBytes <- SomeBytes
  GenOps <- AllGenOps
  MaxOps = 4
  MaxArgs = 48
  MaxArith = 2
  MaxCalls = 2
  Sim = TRUE
  Feats <- AllFeats
  Excluded <- NoExcl
  Faults <- NoFaults
  NGs <- OneGlyph
INIT Init
NEXT Next
INVARIANT StackOK
INVARIANT StatusOK
INVARIANT Emit
CHECK_DEADLOCK FALSE
