CONSTANTS
  Source = "tables"
  Scale = "small"
  Reader = "asis"
INIT Init
NEXT Next
INVARIANT Convergent
CHECK_DEADLOCK FALSE
