CONSTANTS
  Source = "tables"
  Scale = "small"
  Reader = "repaired"
INIT Init
NEXT Next
INVARIANT Convergent
CHECK_DEADLOCK FALSE
