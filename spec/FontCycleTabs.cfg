CONSTANTS
  Source = "tables"
  Scale = "small"
INIT Init
NEXT Next
INVARIANT Convergent
CHECK_DEADLOCK FALSE
