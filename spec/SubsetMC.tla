------------------------------ MODULE SubsetMC ------------------------------
(* Default instance of SubsetGen: every family at four glyphs (checks/C10.py  *)
(* generates the other instances: FamT(4, 4, 0), FamQ(5), FamT(5, 3, 1), ...).       *)
EXTENDS SubsetGen
MCFonts == FamQ(4)
=============================================================================
