SPECIFICATION Spec
CONSTANT Diag = FALSE
POSTCONDITION Accepted
CHECK_DEADLOCK FALSE
