\* C04 GlyphGen, systematic stack-limit sweep: enumerated (not simulated); every terminal state is
\* one font = empty .notdef + one glyph with one sweep (operator form x run length x variant x
\* delta x stem plan x width operand present / absent)
CONSTANTS
  GUnit = 1
  MaxG = 32000
  D <- CoarseD
  SD <- TinySD
  WPats <- SweepW
  StemPlans <- SweepPlans
  MaxGlyphs = 2
  MaxSteps = 1
  LineRuns <- NoRuns
  CurveRuns <- NoRuns
  FarJumps = FALSE
  SweepOnly = TRUE
  SweepA <- SweepAs
  SweepB <- SweepBs
  SweepKinds <- AllSweeps
  ValuePos <- AllPos
  Sim = FALSE
INIT SweepInit
NEXT Next
INVARIANT CoordsOK
INVARIANT MasksOK
INVARIANT MoveFirst
INVARIANT StemsOK
INVARIANT Emit
CHECK_DEADLOCK FALSE
