------------------------------ MODULE Container ------------------------------
(***************************************************************************)
(* C03.  Writing and reading back an sfnt container.                       *)
(*                                                                         *)
(* One action per API call of the Go code:                                 *)
(*   Put(opt)   the caller fills the map  tag -> nil | byte slice          *)
(*              (the argument of header.Write)                             *)
(*   Write      header.Write: file := Build(scaler, map, physical order)   *)
(*   Refuse     header.Write returns an error (table count not accepted)   *)
(*   Read       header.Read + ReadTableBytes for every directory entry     *)
(*                                                                         *)
(* TLC checks exhaustively, for every map over the chosen tags (absent /   *)
(* nil / every length 0..MaxLen, head: HeadLens), every scaler type and    *)
(* several physical orders, that the layout function produces a file that  *)
(* satisfies every clause of ContainerOps!WellFormed and that reading it   *)
(* back yields exactly the non-nil entries (head modulo the adjustment).   *)
(* In generation mode (ContainerGen.cfg) every explored map is printed as  *)
(* a CASE for replay against the real header.Write.                        *)
(*                                                                         *)
(* Table contents are position coded with mostly large byte values so that *)
(* both 16-bit halves of the checksums wrap around.                        *)
(***************************************************************************)
EXTENDS ContainerOps, TLC, Json

CONSTANTS UseTags,   \* subset of 1..9: indices into TagList
          MaxLen,    \* lengths 0..MaxLen for tables other than head
          HeadLens,  \* lengths of the head table (>= 12: shorter is not a head table)
          UseNil,    \* BOOLEAN: entries with nil data occur
          Scalers,   \* subset of {"ttf", "otto", "true"}
          Orders,    \* subset of {"recommended", "tag", "revtag"}
          Limit      \* most tables a container may have (280 in header/tables.go, scaled down):
                     \* the law is  Write accepts n  <=>  Read accepts n  <=>  n \in 1..Limit

VARIABLES phase, q, scaler, order, inp, file, toc
vars == <<phase, q, scaler, order, inp, file, toc>>

TagList == << <<65, 65, 65, 65>>,      \* 1 AAAA
              <<79, 83, 47, 50>>,      \* 2 OS/2
              <<99, 109, 97, 112>>,    \* 3 cmap
              <<103, 108, 121, 102>>,  \* 4 glyf
              HEAD,                    \* 5 head
              <<122, 122, 122, 122>>,  \* 6 zzzz
              <<67, 70, 70, 32>>,      \* 7 "CFF "
              <<110, 97, 109, 101>>,   \* 8 name
              <<112, 111, 115, 116>> >>\* 9 post
\* "Optimized table ordering" of the OpenType recommendations (TrueType): larger = earlier
Prio(t) == CASE t = HEAD -> 95 [] t = TagList[2] -> 80 [] t = TagList[3] -> 55 [] t = TagList[4] -> 30
             [] t = TagList[8] -> 20 [] t = TagList[9] -> 15 [] OTHER -> 0

ScalerWord(s) == CASE s = "ttf" -> <<1, 0>> [] s = "otto" -> <<20308, 21583>> [] s = "true" -> <<29810, 30053>>

TagSeq == SetToSortSeq(UseTags, <)
Content(t, n) == [i \in 1..n |-> IF i % 5 = 4 THEN 0 ELSE 255 - ((t * 7 + i * 3) % 64)]
Options(t) == {-2} \cup (IF UseNil THEN {-1} ELSE {}) \cup (IF t = 5 THEN HeadLens ELSE 0..MaxLen)

PhysOrder(i, o) ==
  LET T(a) == i[a].tag IN
  SetToSortSeq(Present(i),
    LAMBDA a, b : CASE o = "recommended" -> Prio(T(a)) > Prio(T(b)) \/ (Prio(T(a)) = Prio(T(b)) /\ TagLess(T(a), T(b)))
                    [] o = "tag"    -> TagLess(T(a), T(b))
                    [] o = "revtag" -> TagLess(T(b), T(a)))

Init == /\ phase = "put" /\ q = 1 /\ inp = <<>> /\ file = <<>> /\ toc = {}
        /\ scaler \in {ScalerWord(s) : s \in Scalers}
        /\ order \in Orders

Put == /\ phase = "put" /\ q <= Len(TagSeq)
       /\ \E opt \in Options(TagSeq[q]) :
            inp' = IF opt = -2 THEN inp
                   ELSE Append(inp, [tag |-> TagList[TagSeq[q]], nil |-> (opt = -1),
                                     data |-> IF opt = -1 THEN <<>> ELSE Content(TagSeq[q], opt)])
       /\ q' = q + 1
       /\ UNCHANGED <<phase, scaler, order, file, toc>>

\* what both sides accept: at least one table (the format has no container without tables) and
\* no more than Limit
Accepts(n) == n \in 1..Limit

Write == /\ phase = "put" /\ q > Len(TagSeq) /\ Accepts(Cardinality(Present(inp)))
         /\ file' = Build(scaler, inp, PhysOrder(inp, order))
         /\ phase' = "written"
         /\ UNCHANGED <<q, scaler, order, inp, toc>>

\* Write returns an error and produces nothing
Refuse == /\ phase = "put" /\ q > Len(TagSeq) /\ ~Accepts(Cardinality(Present(inp)))
          /\ phase' = "refused"
          /\ UNCHANGED <<q, scaler, order, inp, file, toc>>

Read == /\ phase = "written" /\ Accepts(NumTables(file))
        /\ toc' = TablesOf(file)
        /\ phase' = "done"
        /\ UNCHANGED <<q, scaler, order, inp, file>>

Next == Put \/ Write \/ Refuse \/ Read
Spec == Init /\ [][Next]_vars

---------------------------------------------------------------------------
W == phase = "written"
NPresent == Cardinality(Present(inp))
InvHeader       == W => HeaderOK(file) /\ Scaler(file) = scaler
InvCount        == W => NumTables(file) = NPresent
InvSearchFields == W => SearchFieldsOK(file)
InvSorted       == W => SortedOK(file)
InvExtent       == W => ExtentOK(file)
InvNoOverlap    == W => NoOverlap(file)
InvChecksums    == W => ChecksumsOK(file)
InvFileSum      == W => FileSumOK(file)
InvWellFormed   == W => WellFormed(file) /\ WhyNot(file) = ""
\* the file is the directory followed by the padded tables, nothing else; padding is zero
InvLength       == W => Len(file) = 12 + 16 * NPresent
                          + FoldLeft(LAMBDA a, i : a + (IF inp[i].nil THEN 0 ELSE Pad4(Len(inp[i].data))),
                                     0, [i \in 1..Len(inp) |-> i])
InvPadZero      == W => \A i \in 1..NumTables(file) : LET r == RecAt(file, i) IN
                          \A p \in (Int32(r.off) + Int32(r.len) + 1)..(Int32(r.off) + Pad4(Int32(r.len))) : file[p] = 0
\* reading back returns exactly the tables written, byte for byte (head: modulo checkSumAdjustment)
InvRoundTrip    == phase = "done" => Masked(toc) = Expected(inp) /\ Cardinality(toc) = NPresent

\* Write and Read agree on the table counts they accept: every written file is read (no deadlock in
\* "written"), and what Write refuses Read would refuse as well
InvAgree        == /\ phase \in {"written", "done"} => Accepts(NumTables(file))
                   /\ phase = "refused" => ~Accepts(Cardinality(Present(inp)))
                   /\ phase = "written" => ENABLED Read

Emit == phase = "done" => PrintT(<<"CASE", ToJson([scaler |-> scaler, tabs |-> inp])>>)
=============================================================================
