---------------------------- MODULE CmapTableGen ----------------------------
(***************************************************************************)
(* C09, table level.  TLC enumerates every subset of a pool of             *)
(* (platform, encoding, language) keys together with a sharing pattern     *)
(* (which keys carry the same subtable) and a storage order, builds the    *)
(* cmap table with the reference encoder TableEnc and checks on the model  *)
(* that the directory is well formed, decodes to exactly the keys and      *)
(* subtables put in, and that records share an offset iff their subtables  *)
(* are identical.  Each configuration is printed as a CASE line: the       *)
(* harness builds the same cmap.Table, and feeds the spec-encoded bytes to *)
(* cmap.Decode; `best` is the set of glyphs (one per content) that the     *)
(* best-subtable choice may return for the probe code 0x41.                *)
(***************************************************************************)
EXTENDS Cmap, Json

CONSTANTS NC,         \* number of different contents
          NoUnicode   \* TRUE: no Unicode subtable at all (old Macintosh-only / symbol fonts): the legacy fallback
VARIABLES sel,        \* per key of the pool: 0 = absent, else the content id
          rec, done
vars == <<sel, rec, done>>

Pool == << <<0, 3, 0>>, <<0, 4, 0>>, <<1, 0, 0>>, <<1, 0, 2>>, <<3, 0, 0>>, <<3, 1, 0>>, <<3, 10, 0>> >>

\* the subtable of key k with content c: probe code 0x41 -> glyph c; codes >= 0x80 so that a Macintosh
\* Roman subtable read as Mac Roman differs from the same subtable read as raw codes (access paths must agree)
ContentMap(c) == << <<60 + c, 7>>, <<65, c>>, <<66, c + 10>>, <<128 + c, 30 + c>>, <<219, 40 + c>> >>
SubWords(k, c) ==
  IF <<k[1], k[2]>> \in FullKeys THEN Enc12(ContentMap(c) \o << <<66000 + c, 20>> >>, k[3])
  ELSE IF k[1] = 1 /\ c = 1 THEN Enc0(ContentMap(c), k[3])          \* byte encoding table under the Macintosh key
  ELSE IF c = 2 THEN Enc6(ContentMap(c), k[3])
  ELSE Build4(RefSegs(ContentMap(c)), k[3])

Present == SelectSeq(RangeSeq(1, Len(Pool)), LAMBDA i : sel[i] # 0)
Distinct(s) == FoldLeft(LAMBDA acc, y : IF \E i \in 1..Len(acc) : acc[i] = y THEN acc ELSE Append(acc, y), <<>>, s)

Record(order) ==
  LET ks   == Present
      subs == [j \in 1..Len(ks) |-> SubWords(Pool[ks[j]], sel[ks[j]])]
      recs == [j \in 1..Len(ks) |-> <<Pool[ks[j]][1], Pool[ks[j]][2], WordsToBytes(subs[j])>>]
      d    == Distinct([j \in 1..Len(ks) |-> recs[j][3]])
      store == IF order = "fwd" THEN d ELSE Reverse(d)
      keys0 == {<<Pool[ks[j]][1], Pool[ks[j]][2]>> : j \in {i \in 1..Len(ks) : Pool[ks[i]][3] = 0}}
      bc   == BestClass(keys0)
  IN [keys |-> [j \in 1..Len(ks) |-> <<Pool[ks[j]][1], Pool[ks[j]][2], Pool[ks[j]][3], sel[ks[j]]>>],
      subs |-> subs, order |-> order,
      tb   |-> TableEnc(recs, store),
      best |-> {sel[ks[j]] : j \in {i \in 1..Len(ks) : Pool[ks[i]][3] = 0 /\ <<Pool[ks[i]][1], Pool[ks[i]][2]>> \in bc}}]

Init == sel = <<>> /\ rec = <<>> /\ done = FALSE
Choose == /\ ~done /\ Len(sel) < Len(Pool)
          /\ \E c \in 0..NC :
               /\ (NoUnicode /\ <<Pool[Len(sel) + 1][1], Pool[Len(sel) + 1][2]>> \in FullKeys \cup BmpKeys) => c = 0
               /\ sel' = Append(sel, c)
          /\ UNCHANGED <<rec, done>>
Finish == /\ ~done /\ Len(sel) = Len(Pool)
          /\ \E o \in {"fwd", "rev"} : rec' = Record(o)
          /\ done' = TRUE /\ UNCHANGED sel
Next == Choose \/ Finish
Spec == Init /\ [][Next]_vars

\* the directory rules on the model
TableOK == done =>
  LET b == rec.tb
      n == Len(rec.keys)
      t == TableDec(b)
  IN /\ WFTable(b)
     /\ NumTables(b) = n
     /\ \A j \in 1..n : /\ <<t[j][1], t[j][2], t[j][3]>> = <<rec.keys[j][1], rec.keys[j][2], rec.keys[j][3]>>
                        /\ t[j][4] = WordsToBytes(rec.subs[j])
     /\ \A i, j \in 1..n : (t[i][5] = t[j][5]) <=> (rec.subs[i] = rec.subs[j])
     /\ \A j \in 1..n : LET w == rec.subs[j] IN
                          CASE W(w, 0) = 0  -> WF0(w, rec.keys[j][3]) /\ Dec0(w, 65) = rec.keys[j][4]
                            [] W(w, 0) = 4  -> WF4(w, rec.keys[j][3]) /\ Dec4(w, 65) = rec.keys[j][4]
                            [] W(w, 0) = 6  -> WF6(w, rec.keys[j][3]) /\ Dec6(w, 65) = rec.keys[j][4]
                            [] W(w, 0) = 12 -> WF12(w, rec.keys[j][3]) /\ Dec12(w, 65) = rec.keys[j][4]
\* full Unicode beats BMP beats legacy
BestOK == done =>
  LET ks == {<<rec.keys[j][1], rec.keys[j][2]>> : j \in {i \in 1..Len(rec.keys) : rec.keys[i][3] = 0}}
      bc == BestClass(ks)
  IN /\ bc \subseteq ks
     /\ (ks \cap FullKeys # {}) => bc \subseteq FullKeys /\ bc # {}
     /\ (ks \cap FullKeys = {} /\ ks \cap BmpKeys # {}) => bc \subseteq BmpKeys /\ bc # {}
     /\ (bc = {}) <=> (ks \cap (FullKeys \cup BmpKeys \cup LegacyKeys) = {})

Emit == done => PrintT(<<"CASE", ToJson(rec)>>)
=============================================================================
