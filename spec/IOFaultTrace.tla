---------------------------- MODULE IOFaultTrace ----------------------------
(***************************************************************************)
(* C18, trace specification.  Recorded fault-injection runs of the real    *)
(* writers and of sfnt.Read (harness/cmd/c18) are judged against the       *)
(* accounting / propagation rules that IOFault.tla establishes for the     *)
(* model.  Many runs are concatenated:                                     *)
(*                                                                         *)
(*   (reset of a stand-alone reader -- cff.Read, cmap.Decode, ... on the   *)
(*   stream its own writer produced: total = dataEnd = length of that      *)
(*   stream, opt = positions at which the format allows the stream to end, *)
(*   IOFault!SCutRejected)                                                 *)
(*   reset   a new (font, operation, mode): total = length of the file the *)
(*           operation produces without a fault, dataEnd = end of the last *)
(*           byte of table data (reads; measured by the independent        *)
(*           directory walker that C03 validates)                          *)
(*   w       one faulted write, summarised: k, count returned (if the      *)
(*           operation has one), error?, bytes the destination accepted    *)
(*   r       one faulted sfnt.Read, summarised: k, error?, number of       *)
(*           source accesses that failed                                   *)
(*   wb wc* wr   the same write call by call (sampled k): every call of    *)
(*           the destination with offered / accepted bytes                 *)
(*   rb ra* rr   the same read access by access (ReaderAt sources)         *)
(*                                                                         *)
(* Every line is consumed; a failing check prints                          *)
(* <<"FAILED", line, group, k, clause>>.  Clauses starting with HARNESS    *)
(* indicate a fault of the recording harness, not of the library.          *)
(* Checks use IF (TLC would explore both sides of a disjunction).          *)
(***************************************************************************)
EXTENDS Integers, Sequences, TLC, Json

Trace == ndJsonDeserialize("trace.ndjson")

VARIABLES l,
          total, dataEnd,     \* of the current group
          opt,                \* ... positions at which the stream may legitimately end (stand-alone readers)
          dmode, dk,          \* detailed run in progress: mode and fault point
          dacc,               \* ... bytes accepted so far
          dhit,               \* ... some call/access failed
          dheal               \* ... a fail-once destination has had its failure
vars == <<l, total, dataEnd, opt, dmode, dk, dacc, dhit, dheal>>

E == Trace[l]
Is(ev) == l <= Len(Trace) /\ E.ev = ev
Consume == l' = l + 1 /\ TLCSet(1, l)
Fail(clause) == /\ PrintT(<<"FAILED", l, E.g, E.k, clause>>)
                /\ TLCSet(2, TLCGet(2) + 1)
                /\ IF TLCGet(3) = 0 THEN TLCSet(3, l) ELSE TRUE
Check(v) == IF v = "" THEN TRUE ELSE Fail(v)
Min2(a, b) == IF a < b THEN a ELSE b

Init == /\ l = 1 /\ total = 0 /\ dataEnd = 0 /\ opt = {} /\ dmode = "" /\ dk = 0 /\ dacc = 0 /\ dhit = FALSE /\ dheal = FALSE
        /\ TLCSet(1, 0) /\ TLCSet(2, 0) /\ TLCSet(3, 0)

Reset == /\ Is("reset")
         /\ total' = E.total /\ dataEnd' = E.dataEnd /\ opt' = {E.opt[i] : i \in 1..Len(E.opt)}
         /\ dmode' = "" /\ dk' = 0 /\ dacc' = 0 /\ dhit' = FALSE /\ dheal' = FALSE
         /\ Consume

---------------------------------------------------------------------------
(* writes *)
\* IOFault!ErrIffHit, WErrIffShort, WCountAccepted, WSuccessTotal.  dfail = the destination reported
\* a failure to some call (possibly together with a full count).  The destination itself is checked
\* last, and only for runs the library handled correctly (it presupposes that the code stops at the
\* first error and offers the whole file otherwise).
EagerMode(m) == m \in {"eager", "eonce"}
OnceMode(m)  == m \in {"once", "eonce"}
WVerdict ==
  IF E.panic THEN "write-panic" ELSE
  IF E.dfail /\ ~E.err THEN "write-error-lost" ELSE
  IF ~E.dfail /\ E.err THEN "HARNESS-intact-write-failed" ELSE
  IF E.hasn /\ E.n # E.acc THEN "write-count" ELSE
  IF ~E.err /\ E.acc # total THEN "write-success-short" ELSE
  IF E.dfail # (E.k < total \/ EagerMode(E.mode)) THEN "HARNESS-destination" ELSE
  IF E.acc > Min2(E.k, total) \/ (E.mode \in {"exact", "eager", "once", "eonce"} /\ E.acc # Min2(E.k, total))
    THEN "HARNESS-destination" ELSE ""

W == /\ Is("w") /\ Check(WVerdict)
     /\ UNCHANGED <<total, dataEnd, opt, dmode, dk, dacc, dhit, dheal>> /\ Consume

WB == /\ Is("wb")
      /\ dmode' = E.mode /\ dk' = E.k /\ dacc' = 0 /\ dhit' = FALSE /\ dheal' = FALSE
      /\ UNCHANGED <<total, dataEnd, opt>> /\ Consume

\* one call of the destination: IOFault!Accepts
WCVerdict ==
  LET room == dk - dacc
      ok(c) == IF c THEN "" ELSE "HARNESS-destination" IN
  IF dheal THEN ok(E.a = E.m /\ ~E.fail)
  ELSE IF EagerMode(dmode)
    THEN (IF E.m > 0 /\ E.m >= room THEN ok(E.fail /\ E.a = Min2(E.m, room)) ELSE ok(E.a = E.m /\ ~E.fail))
  ELSE IF E.m <= room THEN ok(E.a = E.m /\ ~E.fail)
  ELSE IF ~E.fail THEN "HARNESS-destination"
  ELSE CASE dmode \in {"exact", "once"} -> ok(E.a = room)
         [] dmode = "atomic" -> ok(E.a = 0)
         [] OTHER            -> ok(E.a >= 0 /\ E.a <= room)

WC == /\ Is("wc") /\ Check(WCVerdict)
      /\ dacc' = dacc + E.a /\ dhit' = (dhit \/ E.fail)
      /\ dheal' = (dheal \/ (E.fail /\ OnceMode(dmode)))
      /\ UNCHANGED <<total, dataEnd, opt, dmode, dk>> /\ Consume

\* IOFault!ErrIffHit, WCountAccepted, WSuccessTotal at the return of the call
WRVerdict ==
  IF E.panic THEN "write-panic" ELSE
  IF dhit /\ ~E.err THEN "write-error-lost" ELSE
  IF ~dhit /\ E.err THEN "HARNESS-intact-write-failed" ELSE
  IF E.hasn /\ E.n # dacc THEN "write-count" ELSE
  IF ~E.err /\ dacc # total THEN "write-success-short" ELSE
  IF dhit # (dk < total \/ EagerMode(dmode)) THEN "HARNESS-destination" ELSE ""

WR == /\ Is("wr") /\ Check(WRVerdict)
      /\ UNCHANGED <<total, dataEnd, opt, dmode, dk, dacc, dhit, dheal>> /\ Consume

---------------------------------------------------------------------------
(* reads *)
\* IOFault!RTruncRejected, RStreamFail (inside the table data), RFailNeeded (=>), RIntactOK
RVerdict ==
  IF E.panic THEN "read-panic" ELSE
  IF E.k >= total /\ E.err THEN "HARNESS-intact-read-failed" ELSE
  IF E.mode \in {"trunc", "strunc", "sfail"} /\ E.k < dataEnd /\ E.k \notin opt /\ ~E.err THEN "read-truncation-accepted" ELSE
  IF E.mode = "failat" /\ E.nfail > 0 /\ ~E.err THEN "read-error-lost" ELSE ""

R == /\ Is("r") /\ Check(RVerdict)
     /\ UNCHANGED <<total, dataEnd, opt, dmode, dk, dacc, dhit, dheal>> /\ Consume

RB == /\ Is("rb")
      /\ dmode' = E.mode /\ dk' = E.k /\ dacc' = 0 /\ dhit' = FALSE /\ dheal' = FALSE
      /\ UNCHANGED <<total, dataEnd, opt>> /\ Consume

\* one ReadAt: IOFault!Fails for the failing source; the cut file fails (EOF) beyond its end
RAVerdict ==
  LET beyond == E.len > 0 /\ E.off + E.len > dk IN
  IF dmode = "failat" THEN (IF E.fail = (beyond /\ dk < total) THEN "" ELSE "HARNESS-source")
  ELSE IF beyond /\ ~E.fail THEN "HARNESS-source" ELSE ""

RA == /\ Is("ra") /\ Check(RAVerdict)
      /\ dhit' = (dhit \/ E.fail) /\ dacc' = dacc + 1
      /\ UNCHANGED <<total, dataEnd, opt, dmode, dk, dheal>> /\ Consume

RRVerdict ==
  IF E.panic THEN "read-panic" ELSE
  IF dk >= total /\ E.err THEN "HARNESS-intact-read-failed" ELSE
  IF dmode = "failat" /\ dhit /\ ~E.err THEN "read-error-lost" ELSE
  IF dmode = "trunc" /\ dk < dataEnd /\ ~E.err THEN "read-truncation-accepted" ELSE ""

RR == /\ Is("rr") /\ Check(RRVerdict)
      /\ UNCHANGED <<total, dataEnd, opt, dmode, dk, dacc, dhit, dheal>> /\ Consume

Next == Reset \/ W \/ WB \/ WC \/ WR \/ R \/ RB \/ RA \/ RR
Spec == Init /\ [][Next]_vars

Accepted == IF TLCGet(1) = Len(Trace) /\ TLCGet(2) = 0 THEN TRUE
            ELSE PrintT(<<"REJECTED_AT_LINE", IF TLCGet(3) > 0 THEN TLCGet(3) ELSE TLCGet(1) + 1>>) /\ FALSE
=============================================================================
