CONSTANTS
  Source = "tables"
  Scale = "full"
  Reader = "asis"
INIT Init
NEXT Next
INVARIANT G2IsG1
INVARIANT B3IsB2
CHECK_DEADLOCK FALSE
