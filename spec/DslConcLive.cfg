CONSTANTS
  MaxTok = 2
  MaxStr = 2
  MaxRunes = 2
  MaxPeek = 2
  RuneKinds = {"p"}
  DecMode = "buffered"
  LineMode = "tracked"
SPECIFICATION FairSpec
PROPERTY Termination
CHECK_DEADLOCK TRUE
