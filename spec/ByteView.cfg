CONSTANTS
  B = 4
  MaxFile = 10
  HistLen = 0
INIT Init
NEXT Next
VIEW view
INVARIANT WindowIsFileSlice
INVARIANT ReaderPositioned
INVARIANT CursorAgrees
INVARIANT Bounds
INVARIANT ReplyOK
INVARIANT Progress
CHECK_DEADLOCK FALSE
