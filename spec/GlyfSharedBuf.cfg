\* MUST FAIL: a writer whose results share one scratch buffer violates HistInv (an earlier Encode
\* result is overwritten by a later Encode of another glyph set).  The check requires the violation.
CONSTANTS
  Kind = "ops"
  Salt = 1
  MaxRuns = 0
  MaxComps = 0
  MaxGlyphs = 0
  MaxSteps = 4
  FinishFull = TRUE
  With256 = FALSE
  Targets = {}
  SharedBuf = TRUE
INIT Init
NEXT Next
INVARIANT HistInv
CHECK_DEADLOCK FALSE
