------------------------------ MODULE FontCycle ------------------------------
(***************************************************************************)
(* C01.  The whole-font cycle  Font --Write--> file --Read--> Font  of     *)
(* go-sfnt, at the level of the fields that interact: the style flags, the *)
(* weight/width classes, the family and sub-family names, the italic       *)
(* angle, version, time stamps and underline metrics.                      *)
(*                                                                         *)
(*   WriteSpec(F)  the abstract tables the writer derives from a font      *)
(*                 (write.go makeHead / makeOS2 / makeName / makePost /    *)
(*                 makeCFF; bit layouts from the OpenType specification:   *)
(*                 head.macStyle bits 0,1; OS/2.fsSelection bits 0,5,6,9;  *)
(*                 OS/2 sFamilyClass high byte; post.italicAngle 16.16)    *)
(*   ReadSpec(T)   the precedence rules by which the reader merges the     *)
(*                 tables that are present (read.go, "Merge the            *)
(*                 information from the various tables")                   *)
(*   NF(F) = ReadSpec(WriteSpec(F))   the normal form                      *)
(*   Prec(F)       the per-field precision of the file format only         *)
(*   Dom           the representable domain: fonts whose style flags are   *)
(*                 a fixed point of the flag normalisation and that carry  *)
(*                 a time stamp                                            *)
(*                                                                         *)
(* State machine (the generations of the property):                        *)
(*   g0 -Write-> b1 -Read-> g1 -Write-> b2 -Read-> g2 -Write-> b3          *)
(* Source "built": g0 ranges over ALL abstract fonts.                      *)
(* Source "tables": b1 ranges over ALL abstract table sets (files that the *)
(* writer would never produce, but that the reader accepts).               *)
(*                                                                         *)
(* Checked by TLC: NF is idempotent, Dom is closed under NF, on Dom the    *)
(* cycle changes nothing but precision, the written tables are stable      *)
(* from generation 1 on (sources "built"); for source "tables" the same    *)
(* fixed-point clauses are evaluated and every table set is emitted with   *)
(* the model's prediction, to be replayed against the real reader/writer.  *)
(***************************************************************************)
EXTENDS FontCycleOps

CONSTANTS Source,   \* "built" | "tables"
          Scale,    \* "small" | "full": size of the enumerated domains
          Reader    \* "repaired": the reader of the current tree (proposed-fixes/C01-2 applied)
                    \* "asis": the reader before that repair (kept for FontCycleTabsFP.cfg)

---------------------------------------------------------------------------
(* Enumerated domains *)

Full == Scale = "full"
\* weight and width classes include the ends of their ranges in the full scale
Weights == IF Full THEN {0, 1, 250, 400, 600, 650, 700, 800, 1000} ELSE {0, 400, 650, 700}
Widths  == IF Full THEN {0, 1, 5, 9} ELSE {5}
Angles  == IF Full THEN {0, -12582912, 5, 1605} ELSE {0, -12582912, 1605}
                                        \* 0, -12 deg (exact), rounds to 0, inexact in 16.16
Kinds   == {"glyf", "cff"}
Fams    == {"plain", "bold", "italic", "semibold"}
\* The pass-through scalars <<version 16.16, created, modified, underline in quarter units>> do not interact with
\* the flags; they are varied together (every value occurs, not every combination): version 0, 1.001007, 1.0625
\* (tie), 30.99998 (carry); time stamps absent / whole / fractional; underline at the int16 ends, 0, fractional.
Aux == IF Full
         THEN { <<0, "zero", "t", -131072>>, <<65602, "t+ns", "zero", -263>>, <<69632, "t+ns", "t", 0>>,
                <<65536, "zero", "zero", 131068>>, <<2031615, "t", "t", -262>>, <<65602, "zero", "t", 2>>,
                <<69632, "t", "zero", -400>>, <<98304, "t+ns", "t", 130>> }
         ELSE { <<65602, "zero", "zero", -263>>, <<65602, "zero", "t", -263>>,
                <<65602, "t+ns", "zero", -263>>, <<65602, "t+ns", "t", -263>> }

\* an abstract font is chosen in two steps (so that TLC explores in parallel)
Fonts1 == [fam : Fams, width : Widths, weight : Weights, kind : Kinds]
Fonts2 == { [reg |-> f[1], bold |-> f[2], ital |-> f[3], obl |-> f[4], serif |-> f[5], script |-> f[6],
             angle |-> an, ver |-> x[1], created |-> x[2], modified |-> x[3], ul |-> x[4]]
            : f \in [1..6 -> BOOLEAN], an \in Angles, x \in Aux }
Join(a, b) == [k \in DOMAIN a \cup DOMAIN b |-> IF k \in DOMAIN a THEN a[k] ELSE b[k]]

Subs == { <<"Regular">>, <<"Bold">>, <<"Italic">>, <<"Bold", "Italic">>, <<"Semi", "Bold">>, <<"Heavy">> }
NameTabs == {NoT} \cup [fam : IF Full THEN {"plain", "bold", "none"} ELSE {"plain", "none"},
                        sub : Subs, ver : {1500}, verok : BOOLEAN]
Os2Tabs  == {NoT} \cup [v4 : BOOLEAN, weight : IF Full THEN {0, 400, 650, 700} ELSE {0, 650}, width : {5}, famclass : {0},
                        sel : SUBSET {"ITALIC", "BOLD", "REGULAR", "OBLIQUE"}]
HeadTabs == [rev : {98304}, created : {"t"}, modified : {"zero"}, bold : BOOLEAN, ital : BOOLEAN]
PostTabs == {NoT} \cup [angle : {0, -12582912}, ul : {-100}]
CffTabs  == [fam : {"plain"}, weight : IF Full THEN {<<"Bold">>, <<"Normal">>, <<"650">>} ELSE {<<"Bold">>, <<"Normal">>}, ver : {1500},
             angle : {0, -12582912}, ul : {-100}]

\* files: a TrueType file always has head; a CFF file may lack it.  Chosen in two steps.
Tabs1 == [os2 : Os2Tabs, kind : Kinds]
Tabs2(k) == IF k = "glyf"
              THEN [head : HeadTabs, name : NameTabs, post : PostTabs, cff : {NoT}]
              ELSE [head : HeadTabs \cup {NoT}, name : NameTabs, post : PostTabs, cff : CffTabs]

---------------------------------------------------------------------------
(* The generations *)

VARIABLES stage,   \* -2, -1: choosing; 0: g0 in hand, 1: b1, 2: g1, 3: b2, 4: g2, 5: b3
          font, file,
          g1, b2   \* history
vars == <<stage, font, file, g1, b2>>

Nil == [nil |-> TRUE]

Init == stage = -2 /\ font = Nil /\ file = Nil /\ g1 = Nil /\ b2 = Nil

Choose1 == /\ stage = -2 /\ stage' = -1
           /\ IF Source = "built" THEN font' \in Fonts1 /\ file' = file
                                  ELSE file' \in Tabs1 /\ font' = font
           /\ UNCHANGED <<g1, b2>>
Choose2 == /\ stage = -1
           /\ IF Source = "built"
                THEN /\ \E x \in Fonts2 : font' = Join(font, x)
                     /\ file' = file /\ stage' = 0
                ELSE /\ \E x \in Tabs2(file.kind) : file' = Join(file, x)
                     /\ font' = font /\ stage' = 1
           /\ UNCHANGED <<g1, b2>>

Write == /\ stage \in {0, 2, 4}
         /\ file' = WriteSpec(font) /\ stage' = stage + 1
         /\ b2' = IF stage = 2 THEN file' ELSE b2
         /\ UNCHANGED <<font, g1>>

Read == /\ stage \in {1, 3}
        /\ font' = (IF Reader = "repaired" THEN ReadSpecRepaired(file) ELSE ReadSpec(file))   \* = RS(file)
        /\ stage' = stage + 1
        /\ g1' = IF stage = 1 THEN font' ELSE g1
        /\ UNCHANGED <<file, b2>>

Next == Choose1 \/ Choose2 \/ Write \/ Read
Spec == Init /\ [][Next]_vars

---------------------------------------------------------------------------
(* Properties *)

\* the fixed-point clauses of the property
G2IsG1          == stage = 4 => font = g1
B3IsB2          == stage = 5 => file = b2

\* design-level facts about the normal form, evaluated at generation 0
Idempotent      == stage = 0 => NF(NF(font)) = NF(font)
WriteStable     == stage = 0 => WriteSpec(NF(font)) = WriteSpec(NF(NF(font)))
DomClosed       == stage = 0 /\ HasTime(font) => InDom(NF(font))
OnlyPrecision   == stage = 0 /\ InDom(font) => NF(font) = Prec(font)
PrecIdempotent  == stage = 0 => Prec(Prec(font)) = Prec(font)

\* source "tables": whatever the reader makes of a file, one more cycle reaches a fixed point
Convergent      == stage = 2 => NF(NF(font)) = NF(font)

\* source "tables": emit the table set with the model's prediction (generation runs)
RS(T) == IF Reader = "repaired" THEN ReadSpecRepaired(T) ELSE ReadSpec(T)
FixedPointOf(T) == LET a == RS(T) IN RS(WriteSpec(a)) = a
\* (at stage 2, which has a single predecessor per behaviour; Read leaves the file in place)
EmitTables == (Source = "tables" /\ stage = 2) =>
                 PrintT(<<"CASE", ToJson([tab |-> file, fixed |-> FixedPointOf(file)])>>)
=============================================================================
