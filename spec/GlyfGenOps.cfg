\* generation (R binding): call histories Decode, then 3 of Fix / Put / Components / Encode / Decode
CONSTANTS
  Kind = "ops"
  Salt = 1
  MaxRuns = 0
  MaxComps = 0
  MaxGlyphs = 0
  MaxSteps = 4
  FinishFull = TRUE
  With256 = FALSE
  Targets = {}
  SharedBuf = FALSE
INIT Init
NEXT Next
INVARIANT EncodeDecode
INVARIANT LocaInv
INVARIANT RoundTrip
INVARIANT FixInv
INVARIANT HistInv
INVARIANT EmitOps
CHECK_DEADLOCK FALSE
