\* generation (R binding): simple glyphs: every flag byte x run form x contour split x instructions x padding x loca version
CONSTANTS
  Kind = "simple"
  Salt = 1
  MaxRuns = 1
  MaxComps = 0
  MaxGlyphs = 0
  MaxSteps = 0
  FinishFull = TRUE
  With256 = TRUE
  Targets = {}
  SharedBuf = FALSE
INIT Init
NEXT Next
INVARIANT EncodeDecode
INVARIANT PointsMeaning
INVARIANT LocaInv
INVARIANT Emit
CHECK_DEADLOCK FALSE
