CONSTANTS
  Sizes = {100, 30000, 40000}
  MaxLookups = 2
  MaxSubs = 3
  MfsChoices = {FALSE, TRUE}
  ScriptSizes = {20}
  FeatSizes = {14}
  EmitCases = TRUE
  Types = {0}
  ExtType = 7
  Recognised = {0}
  Fix28 = FALSE
INIT Init
NEXT Next
INVARIANT CodeInvChunks
INVARIANT CodeInvTotal
INVARIANT CodeInvLookupOffsets
INVARIANT CodeInvExt
INVARIANT CodeInvRetyped
INVARIANT CodeInvOtherSubOffsets
INVARIANT CodeInvNoPanic
INVARIANT DemandNoNeedlessRefusal
INVARIANT Emit
CHECK_DEADLOCK FALSE
