CONSTANT Strict = TRUE
SPECIFICATION Spec
POSTCONDITION Accepted
CHECK_DEADLOCK FALSE
