CONSTANTS
  Gen = TRUE
  MaxG = 3
  MaxW = 6
  MaxRuns = 2
  BigRuns = TRUE
  CaretR = 12
SPECIFICATION Spec
INVARIANT TypeOK
INVARIANT RoundTrip
INVARIANT JudgeAccepts
INVARIANT Emit
CHECK_DEADLOCK FALSE
