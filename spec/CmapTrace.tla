----------------------------- MODULE CmapTrace -----------------------------
(***************************************************************************)
(* C09, trace specification (V).  harness/cmd/c09 records one event per    *)
(* exercised library call group; this module judges every event with the   *)
(* operators of Cmap.tla (written from the OpenType text).  Events are     *)
(* independent of each other; every event is consumed, and for an event    *)
(* that breaks a clause TLC prints <<"FAIL", line, case, kind, clause>>.   *)
(*                                                                         *)
(*  enc    a map was handed to cmap.Format4 / cmap.Format12 .Encode(lang): *)
(*         w = the emitted 16-bit words.  Clauses:                         *)
(*           wf     the words are a well-formed subtable (WF4 / WF12)      *)
(*           agree  decoded by the rules of the format, the table gives    *)
(*                  the glyph of the map at every mapped code and 0 at     *)
(*                  every other code of the whole code space (Agree4/12)   *)
(*           probe  the literal search rule Dec4 / Dec12 at every segment  *)
(*                  boundary +-1, (sampled) segment codes and mapped codes *)
(*           lib    the library's own decode of w, queried by Lookup,      *)
(*                  equals the map on the codes the format can express     *)
(*           lib_hi ... and is 0 on the code points beyond (format 4)      *)
(*           ximg   golang.org/x/image/font/sfnt GlyphIndex on a font      *)
(*                  carrying w equals the map (sampled events)             *)
(*  dec    a subtable encoded by the SPEC (formats 0, 4, 6, 12) was given  *)
(*         to the library decoder: clauses specwf (sanity of the spec's    *)
(*         own table), lib, lib_hi against Pairs<n>(w).                    *)
(*  mac    one byte map as formats 0, 6 and 4 under the Macintosh key:     *)
(*         each decode is the raw code map or its Mac-Roman-to-Unicode     *)
(*         translation (mac0, mac6, mac4), the three decodes agree with    *)
(*         each other (mac_06, mac_64), nothing beyond 0xFFFF (mac_hi).    *)
(*  tenc   cmap.Table.Encode: bytes form a well-formed directory that      *)
(*         decodes (TableDec) to the keys and subtables put in (dir),      *)
(*         records share an offset iff subtables are identical (share),    *)
(*         cmap.Decode gives the table back (libdec), GetBest picks a      *)
(*         subtable of the best class present (best).                      *)
(*  tdec   a spec-encoded table through cmap.Decode (libdec) and again     *)
(*         through Encode (redir, reshare).                                *)
(*  renc/rdec  like tenc/tdec with RAW subtable bodies (bytes): every       *)
(*         format number a Table can hold, odd and even lengths; tile =     *)
(*         offsets are the running sum of the emitted lengths (a note).     *)
(*  enc with dom = 0: size families just beyond the 64 KiB limit (note).    *)
(*  hE/hG/hT/hD  one call of a call HISTORY (CmapHist.tla): an encoder, a   *)
(*         Table.Get, a Table.Encode, a cmap.Decode.  The harness kept the  *)
(*         real result and recorded it when it was handed out (1), after    *)
(*         all later calls of the history (2) and, for decoded subtables,   *)
(*         after the bytes they were decoded from had been overwritten (3). *)
(*         Clauses: correct (value 1 is what the format defines), stable    *)
(*         (2 = 1), indep (3 = 1), input (the arguments are untouched).     *)
(*  sel    selection with ties (CmapSel.tla): per call site the set of      *)
(*         DISTINCT answers over >= 50 calls, all processes: get,           *)
(*         nolang_member, nolang_det, best (+ after Encode/Decode: d...);   *)
(*         nolang_first (lowest language) is a note, not a verdict.         *)
(***************************************************************************)
EXTENDS Cmap, Json

Trace == ndJsonDeserialize("trace.ndjson")

VARIABLE l
E == Trace[l]
Init == l = 1 /\ TLCSet(1, 0)
Consume == l' = l + 1 /\ TLCSet(1, l)

MaxCP == 1114111
Sweep(c, g) == ZipP(c, g)                      \* the non-zero Lookup results, in code order
Below(p, lim) == SelectSeq(p, LAMBDA x : x[1] <= lim)
Above(p, lim) == SelectSeq(p, LAMBDA x : x[1] > lim)

\* ------------------------------------------------------------------ enc
In == ZipP(E.ic, E.ig)
P  == NonZero(In)

ProbeSegs(sc) == IF sc <= 32 THEN 0..sc - 1 ELSE {i \in 0..sc - 1 : i % (sc \div 16) = 0} \cup {sc - 1}
Probes4(w) ==
  LET sc == SegCount4(w) IN
  UNION {({Start4(w, i) - 1, Start4(w, i), Start4(w, i) + 1, End4(w, i) - 1, End4(w, i), End4(w, i) + 1}
          \cup (IF End4(w, i) - Start4(w, i) <= 64 THEN Start4(w, i)..End4(w, i) ELSE {})) \cap (0..MaxCode)
         : i \in ProbeSegs(sc)}
MapProbes(p) == IF Len(p) <= 256 THEN 1..Len(p) ELSE {j \in 1..Len(p) : j % (Len(p) \div 128) = 0}
Probe4(w, p) == /\ \A c \in Probes4(w) : Dec4(w, c) = LookupP(p, c)
                /\ \A j \in MapProbes(p) : Dec4(w, p[j][1]) = p[j][2]
Probes12(w) ==
  LET n == NGroups12(w) IN
  UNION {({GStart12(w, k) - 1, GStart12(w, k), GStart12(w, k) + 1, GEnd12(w, k) - 1, GEnd12(w, k), GEnd12(w, k) + 1}
          \cup (IF GEnd12(w, k) - GStart12(w, k) <= 64 THEN GStart12(w, k)..GEnd12(w, k) ELSE {})) \cap (0..MaxCP)
         : k \in ProbeSegs(n)}
Probe12(w, p) == /\ \A c \in Probes12(w) : Dec12(w, c) = LookupP(p, c)
                 /\ \A j \in MapProbes(p) : Dec12(w, p[j][1]) = p[j][2]

EncWF == E.odd = 0 /\ E.nbytes = 2 * Len(E.w)
         /\ IF E.fmt = 4 THEN WF4(E.w, E.lang) ELSE WF12(E.w, E.lang)
\* x/image does not add idDelta to glyphIdArray entries: it is a conforming decoder only for
\* tables whose explicit arrays have idDelta = 0 (what the library writes today; other choices are legal).
XConforms == E.fmt = 12 \/ (EncWF /\ \A i \in 0..SegCount4(E.w) - 1 : RO4(E.w, i) # 0 => Delta4(E.w, i) = 0)
\* dom = 1: the map is in the domain (some encoding has at most 65535 bytes).  dom = 0 (size families just
\* beyond the limit): nothing is demanded; "nowrap" -- the encoder refuses (panics) or writes a well-formed
\* table, it never writes a wrapped length field -- is reported as a note only.
EncClauseD(n) ==
  CASE n = "map"    -> IsMap(In, IF E.fmt = 4 THEN MaxCode ELSE MaxCP)
    [] n = "wf"     -> EncWF
    [] n = "agree"  -> EncWF => IF E.fmt = 4 THEN Agree4(E.w, P) ELSE Agree12(E.w, P)
    [] n = "probe"  -> EncWF => IF E.fmt = 4 THEN Probe4(E.w, P) ELSE Probe12(E.w, P)
    [] n = "lib"    -> E.lok = 1 /\ Below(Sweep(E.lc, E.lg), IF E.fmt = 4 THEN MaxCode ELSE MaxCP) = P
    [] n = "lib_hi" -> Above(Sweep(E.lc, E.lg), IF E.fmt = 4 THEN MaxCode ELSE MaxCP) = <<>>
    [] n = "ximg"   -> E.xi = 1 /\ XConforms => E.xok = 1 /\ Sweep(E.xc, E.xg) = P
    \* the map installed with Font.InstallCMap on a font that already carries other subtables (E.prior: none, a full
    \* Unicode pair, a BMP pair, Macintosh subtables, a symbol subtable, ...) is what the font's best subtable says
    [] n = "inst"   -> E.pan = "" => (E.bok = 1 /\ Sweep(E.bc, E.bg) = P)
    [] n = "nowrap" -> TRUE
\* A size-family map (tight > 0) sits at the boundary: the repository does not promise a minimal encoding, so
\* a loud refusal (panic) is accepted there; a table with a wrapped length field is not.
EncClause(n) ==
  IF E.dom = 1 /\ E.tight > 0 /\ E.pan # "" THEN TRUE
  ELSE IF E.dom = 1 THEN EncClauseD(n)
  ELSE IF n = "nowrap" THEN E.pan # "" \/ (EncWF /\ Agree4(E.w, P))
  ELSE TRUE
EncNames == {"map", "wf", "agree", "probe", "lib", "lib_hi", "ximg", "inst", "nowrap"}

\* ------------------------------------------------------------------ dec
SpecWF(w, f, lang) == CASE f = 0 -> WF0(w, lang) [] f = 4 -> WF4(w, lang) [] f = 6 -> WF6(w, lang) [] f = 12 -> WF12(w, lang)
SpecPairs(w, f) == CASE f = 0 -> Pairs0(w) [] f = 4 -> Pairs4(w) [] f = 6 -> Pairs6(w) [] f = 12 -> Pairs12(w)
Lim(f) == IF f = 12 THEN MaxCP ELSE MaxCode
DecClause(n) ==
  CASE n = "specwf" -> SpecWF(E.w, E.fmt, E.lang) /\ E.nbytes = 2 * Len(E.w)
    [] n = "lib"    -> E.lok = 1 /\ Below(Sweep(E.lc, E.lg), Lim(E.fmt)) = SpecPairs(E.w, E.fmt)
    [] n = "lib_hi" -> Above(Sweep(E.lc, E.lg), Lim(E.fmt)) = <<>>
DecNames == {"specwf", "lib", "lib_hi"}

\* ------------------------------------------------------------------ mac
MacP == Pairs0(E.w0)
Reading(ok, c, g) == ok = 1 /\ (Below(Sweep(c, g), MaxCode) = MacP \/ Below(Sweep(c, g), MaxCode) = MacToUnicode(MacP))
MacClause(n) ==
  CASE n = "specwf"   -> /\ WF0(E.w0, E.lang) /\ WF6(E.w6, E.lang) /\ WF4(E.w4, E.lang)
                         /\ Pairs6(E.w6) = MacP /\ Pairs4(E.w4) = MacP
                         /\ \A i \in 1..Len(MacP) : MacP[i][1] < 256
    [] n = "mac0"     -> Reading(E.ok0, E.c0, E.g0)
    [] n = "mac6"     -> Reading(E.ok6, E.c6, E.g6)
    [] n = "mac4"     -> Reading(E.ok4, E.c4, E.g4)
    [] n = "mac_06"   -> Below(Sweep(E.c0, E.g0), MaxCode) = Below(Sweep(E.c6, E.g6), MaxCode)
    [] n = "mac_64"   -> Below(Sweep(E.c6, E.g6), MaxCode) = Below(Sweep(E.c4, E.g4), MaxCode)
    [] n = "mac_hi"   -> /\ Above(Sweep(E.c0, E.g0), MaxCode) = <<>> /\ Above(Sweep(E.c6, E.g6), MaxCode) = <<>>
                         /\ Above(Sweep(E.c4, E.g4), MaxCode) = <<>>
MacNames == {"specwf", "mac0", "mac6", "mac4", "mac_06", "mac_64", "mac_hi"}

\* ---------------------------------------------------------------- tables
\* keys: <<platform, encoding, language, content id>>, subs: the subtable words of each key
KeyOf(k) == <<k[1], k[2], k[3]>>
DirMatches(b, keys, subs) ==
  /\ WFTable(b)
  /\ NumTables(b) = Len(keys)
  /\ LET t == TableDec(b) IN
     \A j \in 1..Len(keys) : <<t[j][1], t[j][2], t[j][3]>> = KeyOf(keys[j]) /\ t[j][4] = WordsToBytes(subs[j])
ShareMatches(b, subs) ==
  WFTable(b) /\ NumTables(b) = Len(subs) =>
    LET t == TableDec(b) IN \A i, j \in 1..Len(subs) : (t[i][5] = t[j][5]) <=> (subs[i] = subs[j])
\* the library's decoded table: dk = <<platform, encoding, language>> per entry (sorted), db = its bytes
LibDecMatches(ok, dk, db, keys, subs) ==
  /\ ok = 1 /\ Len(dk) = Len(keys) /\ Len(db) = Len(keys)
  /\ \A j \in 1..Len(keys) : dk[j] = KeyOf(keys[j]) /\ db[j] = WordsToBytes(subs[j])
\* Access paths (API agreement).  gs[j] = <<ok, codes, glyphs>>: Lookup swept on Get(key j);
\* nl[x] = <<platform, encoding, ok, codes, glyphs>>: GetNoLang; bs = <<ok, codes, glyphs>>: GetBest.
\* Get and GetBest denote the map the platform's encoding defines: Macintosh Roman codes are read as Mac Roman
\* (or, uniformly, as raw codes -- the two-readings rule of the mac events); GetNoLang is only tested by the
\* repository as the raw reading, so either reading is accepted there.  GetBest must be THE SAME map as Get
\* on a key of the best class.
SubPairs(w) == SpecPairs(w, W(w, 0))
IsReading(sw, w, pid) == sw = SubPairs(w) \/ (pid = 1 /\ W(w, 0) # 12 /\ sw = MacToUnicode(SubPairs(w)))
GetMapOK(keys, subs, gs) ==
  /\ Len(gs) = Len(keys)
  /\ \A j \in 1..Len(keys) :
       IF keys[j][1] = 1 /\ keys[j][2] # 0 THEN TRUE                          \* only Mac Roman is supported
       ELSE gs[j][1] = 1 /\ IsReading(Sweep(gs[j][2], gs[j][3]), subs[j], keys[j][1])
NoLangMapOK(keys, subs, nl) ==
  \A x \in 1..Len(nl) :
    LET c == {j \in 1..Len(keys) : keys[j][1] = nl[x][1] /\ keys[j][2] = nl[x][2]}
    IN c # {} => nl[x][3] = 1 /\ \E j \in c : IsReading(Sweep(nl[x][4], nl[x][5]), subs[j], keys[j][1])
BestKeys(keys) ==
  LET k0 == {<<keys[j][1], keys[j][2]>> : j \in {i \in 1..Len(keys) : keys[i][3] = 0}}
  IN {j \in 1..Len(keys) : keys[j][3] = 0 /\ <<keys[j][1], keys[j][2]>> \in BestClass(k0)}
BestGetOK(keys, gs, bs) ==
  BestKeys(keys) # {} /\ Len(gs) = Len(keys) =>
    bs[1] = 1 /\ \E j \in BestKeys(keys) : gs[j][1] = 1 /\ bs[2] = gs[j][2] /\ bs[3] = gs[j][3]

TencClause(n) ==
  CASE n = "dir"    -> DirMatches(E.tb, E.keys, E.subs)
    [] n = "get_map"    -> GetMapOK(E.keys, E.subs, E.gs)
    [] n = "nolang_map" -> NoLangMapOK(E.keys, E.subs, E.nl)
    [] n = "best_get"   -> BestGetOK(E.keys, E.gs, E.bs)
    [] n = "share"  -> ShareMatches(E.tb, E.subs)
    [] n = "libdec" -> LibDecMatches(E.dok, E.dk, E.db, E.keys, E.subs)
    [] n = "best"   -> IF E.best = <<>> THEN TRUE       \* no Unicode or Macintosh Roman subtable: nothing is promised
                       ELSE E.bok = 1 /\ \E i \in 1..Len(E.best) : E.best[i] = E.bg
TencNames == {"dir", "share", "libdec", "best", "get_map", "nolang_map", "best_get"}

TdecClause(n) ==
  CASE n = "specwf"  -> DirMatches(E.tb, E.keys, E.subs)
    [] n = "get_map"    -> E.dok = 1 => GetMapOK(E.keys, E.subs, E.gs)
    [] n = "nolang_map" -> E.dok = 1 => NoLangMapOK(E.keys, E.subs, E.nl)
    [] n = "best_get"   -> E.dok = 1 => BestGetOK(E.keys, E.gs, E.bs)
    [] n = "libdec"  -> LibDecMatches(E.dok, E.dk, E.db, E.keys, E.subs)
    [] n = "redir"   -> E.dok = 1 => DirMatches(E.rb, E.keys, E.subs)
    [] n = "reshare" -> E.dok = 1 => ShareMatches(E.rb, E.subs)
    [] n = "best"    -> IF E.best = <<>> \/ E.dok # 1 THEN TRUE
                        ELSE E.bok = 1 /\ \E i \in 1..Len(E.best) : E.best[i] = E.bg
TdecNames == {"specwf", "libdec", "redir", "reshare", "best", "get_map", "nolang_map", "best_get"}

\* ------------------------------------------------------- raw subtable bodies
\* keys: <<platform, encoding, language>>, subs: BYTES of every format number and length parity
DirMatchesB(b, keys, subs) ==
  /\ WFTable(b)
  /\ NumTables(b) = Len(keys)
  /\ LET t == TableDec(b) IN
     \A j \in 1..Len(keys) : <<t[j][1], t[j][2], t[j][3]>> = keys[j] /\ t[j][4] = subs[j]
LibDecMatchesB(ok, dk, db, keys, subs) ==
  /\ ok = 1 /\ Len(dk) = Len(keys) /\ Len(db) = Len(keys)
  /\ \A j \in 1..Len(keys) : dk[j] = keys[j] /\ db[j] = subs[j]
\* offsets are the running sum of the emitted lengths: the distinct subtables tile the table
TiledB(b) ==
  WFTable(b) =>
    LET t    == TableDec(b)
        offs == SortSeq(FoldLeft(LAMBDA acc, y : IF \E i \in 1..Len(acc) : acc[i] = y THEN acc ELSE Append(acc, y),
                                 <<>>, [j \in 1..Len(t) |-> t[j][5]]), LAMBDA x, y : x < y)
    IN offs # <<>> => /\ offs[1] = 4 + 8 * NumTables(b)
                      /\ \A i \in 1..Len(offs) - 1 : offs[i + 1] = offs[i] + SubLen(b, offs[i])
                      /\ Last(offs) + SubLen(b, Last(offs)) = Len(b)
RencClause(n) ==
  CASE n = "dir"    -> DirMatchesB(E.tb, E.keys, E.subs)
    [] n = "share"  -> ShareMatches(E.tb, E.subs)
    [] n = "libdec" -> LibDecMatchesB(E.dok, E.dk, E.db, E.keys, E.subs)
    [] n = "tile"   -> TiledB(E.tb)
RdecClause(n) ==
  CASE n = "specwf"  -> DirMatchesB(E.tb, E.keys, E.subs) /\ TiledB(E.tb)
    [] n = "libdec"  -> LibDecMatchesB(E.dok, E.dk, E.db, E.keys, E.subs)
    [] n = "redir"   -> E.dok = 1 => DirMatchesB(E.rb, E.keys, E.subs)
    [] n = "reshare" -> E.dok = 1 => ShareMatches(E.rb, E.subs)
    [] n = "tile"    -> E.dok = 1 => TiledB(E.rb)
RawNames == {"dir", "share", "libdec", "tile", "specwf", "redir", "reshare"}

\* -------------------------------------------------------------- histories
\* a subtable is well formed for its own language field
WFAny(w) ==
  /\ Len(w) >= 3
  /\ CASE W(w, 0) = 0  -> WF0(w, W(w, 2))
       [] W(w, 0) = 4  -> WF4(w, W(w, 2))
       [] W(w, 0) = 6  -> WF6(w, W(w, 2))
       [] W(w, 0) = 12 -> Len(w) >= 6 /\ WF12(w, W(w, 5))
       [] OTHER -> FALSE
HP == NonZero(ZipP(E.ic, E.ig))
HEClause(n) ==
  CASE n = "correct" -> /\ E.n1 = 2 * Len(E.w1)
                        /\ (CASE E.fmt = 4  -> WF4(E.w1, E.lang) /\ Agree4(E.w1, HP)
                              [] E.fmt = 12 -> WF12(E.w1, E.lang) /\ Agree12(E.w1, HP)
                              [] E.fmt = 0  -> WF0(E.w1, E.lang) /\ Pairs0(E.w1) = HP)
    [] n = "stable"  -> E.w2 = E.w1 /\ E.n2 = E.n1
    [] n = "input"   -> E.ic2 = E.ic /\ E.ig2 = E.ig
HNames == {"correct", "stable", "input"}

HGExpected(got) ==
  LET p == SpecPairs(E.w, E.fmt) IN
  IF E.pid = 1 /\ E.fmt # 12 THEN got = p \/ got = MacToUnicode(p) ELSE got = p
HGClause(n) ==
  CASE n = "correct" -> WFAny(E.w) /\ W(E.w, 0) = E.fmt =>
                          /\ E.ok1 = 1
                          /\ HGExpected(Below(Sweep(E.c1, E.g1), Lim(E.fmt)))
                          /\ Above(Sweep(E.c1, E.g1), Lim(E.fmt)) = <<>>
    [] n = "stable"  -> E.ok2 = E.ok1 /\ E.c2 = E.c1 /\ E.g2 = E.g1
    [] n = "indep"   -> E.ok3 = E.ok1 /\ E.c3 = E.c1 /\ E.g3 = E.g1
    [] n = "input"   -> E.wa = E.w
HGNames == {"correct", "stable", "indep", "input"}

HTClause(n) ==
  CASE n = "correct" -> (\A j \in 1..Len(E.subs) : WFAny(E.subs[j])) =>
                          DirMatches(E.tb1, E.keys, E.subs) /\ ShareMatches(E.tb1, E.subs)
    [] n = "stable"  -> E.tb2 = E.tb1
    [] n = "input"   -> E.subs2 = E.subs
\* cmap.Decode: keys in directory order, language 0 outside the Macintosh platform
HDExpect(b) == LET t == TableDec(b) IN
  [j \in 1..Len(t) |-> << <<t[j][1], t[j][2], IF t[j][1] = 1 THEN t[j][3] ELSE 0>>, t[j][4] >>]
HDClause(n) ==
  CASE n = "correct" -> WFTable(E.tb) =>
                          /\ E.ok1 = 1 /\ Len(E.dk1) = NumTables(E.tb) /\ Len(E.db1) = NumTables(E.tb)
                          /\ \A j \in 1..Len(E.dk1) : <<E.dk1[j], E.db1[j]>> = HDExpect(E.tb)[j]
    [] n = "stable"  -> E.ok2 = E.ok1 /\ E.dk2 = E.dk1 /\ E.db2 = E.db1
    [] n = "input"   -> E.tba = E.tb

\* -------------------------------------------------------------- selection
\* keys: <<platform, encoding, language, id>>; an answer is the id (probe glyph) or 9999 = error
SelCands(p, e) == {E.keys[j][4] : j \in {i \in 1..Len(E.keys) : E.keys[i][1] = p /\ E.keys[i][2] = e}}
SelFirst(p, e) ==
  LET c == {i \in 1..Len(E.keys) : E.keys[i][1] = p /\ E.keys[i][2] = e}
  IN E.keys[CHOOSE i \in c : \A j \in c : E.keys[i][3] <= E.keys[j][3]][4]
SelStored(p, e, lg) == {E.keys[j][4] : j \in {i \in 1..Len(E.keys) : <<E.keys[i][1], E.keys[i][2], E.keys[i][3]>> = <<p, e, lg>>}}
SelBest == LET k0 == {<<E.keys[j][1], E.keys[j][2]>> : j \in {i \in 1..Len(E.keys) : E.keys[i][3] = 0}}
               bc == BestClass(k0)
           IN {E.keys[j][4] : j \in {i \in 1..Len(E.keys) : E.keys[i][3] = 0 /\ <<E.keys[i][1], E.keys[i][2]>> \in bc}}
GetsOK(gets) == \A x \in 1..Len(gets) :
  LET g == gets[x]
      st == SelStored(g[1], g[2], g[3])
  IN IF st = {} THEN g[4] = <<9999>>
     ELSE IF g[1] = 1 /\ g[2] # 0 THEN Len(g[4]) = 1 /\ (g[4][1] \in st \/ g[4][1] = 9999)   \* only Mac Roman is promised
     ELSE Len(g[4]) = 1 /\ g[4][1] \in st
NoLangMember(nl) == \A x \in 1..Len(nl) :
  LET c == SelCands(nl[x][1], nl[x][2])
  IN IF c = {} THEN nl[x][3] = <<9999>> ELSE \A i \in 1..Len(nl[x][3]) : nl[x][3][i] \in c
NoLangDet(nl) == \A x \in 1..Len(nl) : Len(nl[x][3]) = 1
NoLangFirst(nl) == \A x \in 1..Len(nl) :
  SelCands(nl[x][1], nl[x][2]) # {} => nl[x][3] = <<SelFirst(nl[x][1], nl[x][2])>>
BestSelOK(b) == Len(b) = 1 /\ (SelBest = {} \/ b[1] \in SelBest)
SelClause(n) ==
  CASE n = "get"            -> GetsOK(E.gets)
    [] n = "nolang_member"  -> NoLangMember(E.nolang)
    [] n = "nolang_det"     -> NoLangDet(E.nolang)
    [] n = "nolang_first"   -> NoLangFirst(E.nolang)
    [] n = "best"           -> BestSelOK(E.best)
    [] n = "dok"            -> E.dok = 1
    [] n = "dget"           -> E.dok = 1 => GetsOK(E.dgets)
    [] n = "dnolang_member" -> E.dok = 1 => NoLangMember(E.dnolang)
    [] n = "dnolang_det"    -> E.dok = 1 => NoLangDet(E.dnolang)
    [] n = "dnolang_first"  -> E.dok = 1 => NoLangFirst(E.dnolang)
    [] n = "dbest"          -> E.dok = 1 => BestSelOK(E.dbest)
    [] n = "calls"          -> E.calls >= 50 /\ E.procs >= 1
SelNames == {"get", "nolang_member", "nolang_det", "nolang_first", "best", "dok", "dget", "dnolang_member",
             "dnolang_det", "dnolang_first", "dbest", "calls"}

\* ------------------------------------------------------------------ step
Fails == CASE E.ev = "enc"  -> {n \in EncNames : ~EncClause(n)}
           [] E.ev = "dec"  -> {n \in DecNames : ~DecClause(n)}
           [] E.ev = "mac"  -> {n \in MacNames : ~MacClause(n)}
           [] E.ev = "tenc" -> {n \in TencNames : ~TencClause(n)}
           [] E.ev = "tdec" -> {n \in TdecNames : ~TdecClause(n)}
           [] E.ev = "renc" -> {n \in {"dir", "share", "libdec", "tile"} : ~RencClause(n)}
           [] E.ev = "rdec" -> {n \in {"specwf", "libdec", "redir", "reshare", "tile"} : ~RdecClause(n)}
           [] E.ev = "hE"   -> {n \in HNames : ~HEClause(n)}
           [] E.ev = "hG"   -> {n \in HGNames : ~HGClause(n)}
           [] E.ev = "hT"   -> {n \in HNames : ~HTClause(n)}
           [] E.ev = "hD"   -> {n \in HNames : ~HDClause(n)}
           [] E.ev = "sel"  -> {n \in SelNames : ~SelClause(n)}

Step == /\ l <= Len(Trace)
        /\ \A n \in Fails : PrintT(<<"FAIL", l, E.case, E.ev, n>>)      \* one short line per clause
        /\ Consume
Next == Step
Spec == Init /\ [][Next]_l

Accepted == IF TLCGet(1) = Len(Trace) THEN TRUE
            ELSE PrintT(<<"REJECTED_AT_LINE", TLCGet(1) + 1>>) /\ FALSE
=============================================================================
