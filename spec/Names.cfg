SPECIFICATION Spec
CHECK_DEADLOCK FALSE
INVARIANT RefLaw
INVARIANT RefLawSimple
INVARIANT RefStable
INVARIANT Refuses
INVARIANT Emit
CONSTANTS
  MinN = 1
  MinRules = 0
  MaxN = 3
  PoolSel = "tiny"
  Codes = {65, 307}
  MaxRules = 0
  RuleTypes = {1}
  LigLens = {2}
  Kinds = {"ttf"}
  CmapFormats = {"4"}
  LigFirst = 0
  TextSel = "none"
  Flags = FALSE
  Quiet = TRUE
