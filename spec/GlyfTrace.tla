----------------------------- MODULE GlyfTrace -----------------------------
(***************************************************************************)
(* C11, trace specification.  A recorded execution of package glyf (one    *)
(* event per API call, harness/cmd/c11) must be explained by the format    *)
(* functions of GlyfOps.tla.  TLC decodes the logged glyf/loca bytes with  *)
(* the SPEC's decoder and compares:                                        *)
(*                                                                         *)
(*   reset      the case's input tables (bytes printed by TLC from Glyf.tla)*)
(*   resetlib   the case's input glyph set (built through the library API) *)
(*   decode     glyf.Decode: must succeed on a valid encoding, every glyph *)
(*              must represent its record; after an encode: equal to the   *)
(*              glyph set that was encoded (round trip, bit for bit)       *)
(*   encode     Glyphs.Encode: loca in the announced version, offsets      *)
(*              non-decreasing, even, inside glyf; every record decodes    *)
(*              (by the spec) to the glyph that was encoded                *)
(*   simple     SimpleGlyph.Decode: contours/points/on-curve bits and      *)
(*              instructions as the spec decodes them; no panic            *)
(*   comps      Glyph.Components: the glyphIndex list                      *)
(*   fix        Glyph.FixComponents: ids rewritten by the map, rest equal  *)
(*   resetbig / encodebig / decodebig   the same round trip for glyph sets *)
(*              whose glyf table is too large to log (> 16 MiB): glyphs    *)
(*              are logged as digests (kind, contours, box, body length    *)
(*              and checksum), Encode as the raw loca bytes and the glyf   *)
(*              length; TLC recomputes every offset from the four raw      *)
(*              bytes and demands the loca invariants, record lengths that *)
(*              fit the glyphs, and Decode = the digests that went in      *)
(*   put        the caller stores an earlier Fix result in the glyph set   *)
(*   observe    after every call of a call history: the glyph set, the     *)
(*              Components() lists of all its glyphs and all earlier Fix   *)
(*              results are re-read and must be what they were             *)
(*   recheck    the same for the one glyph FixComponents was applied to    *)
(*                                                                         *)
(* A failed check does not stop the run: TLC prints <<"BAD", line, clause>>*)
(* and goes on, so one run judges every event.  Events on which the        *)
(* property makes no demand (invalid input) are counted as NODEMAND.       *)
(* Registers: 1 = lines consumed, 2 = failed checks, 3 = no-demand events. *)
(***************************************************************************)
EXTENDS GlyfOps, TLC, Json

Trace == ndJsonDeserialize("trace.ndjson")

VARIABLES l,     \* next line
          enc,   \* current encoded tables [fmt, loca, glyf], fmt = -1: none
          gs,    \* current in-memory glyph set as logged (sequence of glyph values)
          have,  \* gs is defined
          rt,    \* the next decode is the second half of a round trip
          res,   \* the results of the Fix calls of this case that the harness keeps (expected values)
          bigok, \* digest mode: the last encodebig event passed every check
          encs   \* call histories: the Encode results handed out so far, as logged when handed out
vars == <<l, enc, gs, have, rt, res, bigok, encs>>

E == Trace[l]
NoEnc == [fmt |-> -1, loca |-> <<>>, glyf |-> <<>>]
Init == l = 1 /\ enc = NoEnc /\ gs = <<>> /\ have = FALSE /\ rt = FALSE /\ res = <<>> /\ bigok = FALSE /\ encs = <<>>
        /\ TLCSet(1, 0) /\ TLCSet(2, 0) /\ TLCSet(3, 0)
Consume == l' = l + 1 /\ TLCSet(1, l)
Is(ev) == l <= Len(Trace) /\ E.ev = ev

Check(c, why) == IF c THEN TRUE ELSE PrintT(<<"BAD", l, why, "-">>) /\ TLCSet(2, TLCGet(2) + 1)
\* the same with a class of the input, computed by TLC, for the report
CheckC(c, why, cls) == IF c THEN TRUE ELSE PrintT(<<"BAD", l, why, cls>>) /\ TLCSet(2, TLCGet(2) + 1)
NoDemand == TLCSet(3, TLCGet(3) + 1)
\* all indices for which a check fails are reported through one line (the first)
CheckAll(n, P(_), why) ==
  LET bad == {i \in 1..n : ~P(i)} IN
  IF bad = {} THEN TRUE
  ELSE PrintT(<<"BAD", l, why, "-", (CHOOSE i \in bad : \A j \in bad : i <= j) - 1>>) /\ TLCSet(2, TLCGet(2) + 1)

\* input classes named in reports
SetClass(d) ==
  IF \E i \in 1..Len(d) : d[i].k = "s" /\ d[i].nc = 0 /\ Len(d[i].full) < 2 THEN "zero-contour-glyph-header-only"
  ELSE IF \E i \in 1..Len(d) : d[i].k = "s" /\ d[i].nc = 0 THEN "zero-contour-glyph"
  ELSE "other"
GlyphClass(g) ==
  IF g.k = "s" /\ g.nc = 0 THEN (IF Len(g.body) < 2 THEN "zero-contour-glyph-header-only" ELSE "zero-contour-glyph")
  ELSE IF g.k = "s" THEN "simple-glyph" ELSE IF g.k = "c" THEN "composite-glyph" ELSE "empty-glyph"

\* Large glyph sets are logged run-length encoded: runs [n, g] of n equal glyph values.
ExpandRLE(rle) ==
  LET ends  == FoldLeft(LAMBDA a, r : Append(a, a[Len(a)] + r.n), <<0>>, rle)
      total == ends[Len(ends)]
      f     == [i \in 1..total |-> rle[CHOOSE r \in 1..Len(rle) : ends[r] < i /\ i <= ends[r + 1]].g]
  IN SubSeq(f, 1, total)
GlyphsOf(e) == IF e.isrle THEN ExpandRLE(e.rle) ELSE e.glyphs

Reset ==
  /\ Is("reset")
  /\ enc' = [fmt |-> E.fmt, loca |-> E.loca, glyf |-> E.glyf]
  /\ gs' = <<>> /\ have' = FALSE /\ rt' = FALSE /\ res' = <<>> /\ encs' = <<>>
  /\ UNCHANGED bigok /\ Consume

ResetLib ==
  /\ Is("resetlib")
  /\ enc' = NoEnc /\ gs' = GlyphsOf(E) /\ have' = TRUE /\ rt' = FALSE /\ res' = <<>> /\ encs' = <<>>
  /\ UNCHANGED bigok /\ Consume

(* The checks are state-level operators compared with TRUE inside the actions: TLC then evaluates   *)
(* them as expressions (LET values are cached) and not as actions (where they are recomputed at     *)
(* every mention, which is quadratic for large glyph sets).                                          *)
DecodeOK ==
  LET d  == DecodeSet(enc.fmt, enc.loca, enc.glyf)
      eg == GlyphsOf(E)
  IN
  IF enc.fmt < 0 \/ ~d.ok
    THEN NoDemand            \* not a valid encoding by the format: nothing is demanded
    ELSE /\ CheckC(~E.panic, "decode:panic", SetClass(d.d))
         /\ E.panic \/ CheckC(E.ok, "decode:error", SetClass(d.d))
         /\ E.ok =>
              /\ Check(Len(eg) = Len(d.d), "decode:count")
              /\ Len(eg) = Len(d.d) =>
                   CheckAll(Len(d.d), LAMBDA i : Represents(eg[i], d.d[i]), "decode:glyph")
              /\ rt => Check(CanonSet(eg) = CanonSet(gs), "roundtrip:glyphs-differ")

Decode ==
  /\ Is("decode")
  /\ DecodeOK = TRUE
  /\ gs' = IF E.ok THEN GlyphsOf(E) ELSE <<>>
  /\ have' = E.ok /\ rt' = FALSE
  /\ UNCHANGED <<enc, res, bigok, encs>> /\ Consume

RecordOK(rec, g) == LET d == DecodeGlyph(rec) IN d.ok /\ Represents(g, d)
\* E.rev: the glyphs were encoded in reverse order (another glyph set, call histories);
\* E.keep: the harness keeps the result and looks at it again after every later call
EncodeOK ==
  IF ~have THEN NoDemand
  ELSE LET src == IF E.rev THEN Reverse(gs) ELSE gs IN
       /\ Check(~E.panic, "encode:panic")
       /\ ~E.panic =>
           LET p    == ParseLoca(E.fmt, E.loca)
               offs == IF p.ok THEN [i \in 1..Len(p.offs) |-> p.offs[i]] ELSE <<>>   \* materialised once
               glyf == E.glyf
           IN /\ Check(p.ok, "encode:loca-format")
              /\ p.ok =>
                   /\ Check(Len(offs) = Len(src) + 1, "encode:loca-count")
                   /\ Check(Monotone(offs), "encode:loca-order")
                   /\ Check(AllEven(offs), "encode:loca-even")
                   /\ Check(Inside(offs, Len(glyf)), "encode:loca-inside")
                   /\ (Len(offs) = Len(src) + 1 /\ Monotone(offs) /\ Inside(offs, Len(glyf))) =>
                        CheckAll(Len(src), LAMBDA i : RecordOK(SubSeq(glyf, offs[i] + 1, offs[i + 1]), src[i]),
                                 "encode:glyph-data")

Encode ==
  /\ Is("encode")
  /\ EncodeOK = TRUE
  /\ enc' = IF E.rev THEN enc ELSE IF E.panic THEN NoEnc ELSE [fmt |-> E.fmt, loca |-> E.loca, glyf |-> E.glyf]
  /\ rt' = IF E.rev THEN rt ELSE have
  /\ encs' = IF E.keep /\ ~E.panic THEN Append(encs, [fmt |-> E.fmt, loca |-> E.loca, glyf |-> E.glyf]) ELSE encs
  /\ UNCHANGED <<gs, have, res, bigok>> /\ Consume

\* SimpleGlyph.Decode on glyph E.i (0-based)
SimpleOK ==
  IF ~have \/ E.i + 1 > Len(gs) \/ gs[E.i + 1].k # "s" THEN NoDemand
  ELSE LET g == gs[E.i + 1]
           s == DecodeSimple(g.nc, g.body)
       IN IF ~s.ok THEN NoDemand
          ELSE /\ CheckC(~E.panic, "simple:panic", GlyphClass(g))
               /\ ~E.panic => CheckC(E.ok, "simple:error", GlyphClass(g))
               /\ (~E.panic /\ E.ok) =>
                    /\ Check(Len(E.contours) = g.nc, "simple:contour-count")
                    /\ Check(E.contours = Contours(s.ends, s.pts), "simple:points")
                    /\ Check(E.instr = s.instr, "simple:instructions")

Simple ==
  /\ Is("simple")
  /\ SimpleOK = TRUE
  /\ UNCHANGED <<enc, gs, have, rt, res>> /\ UNCHANGED <<bigok, encs>> /\ Consume

CompsOK ==
  IF ~have \/ E.i + 1 > Len(gs) THEN NoDemand
  ELSE LET g == gs[E.i + 1] IN
       /\ Check(~E.panic, "components:panic")
       /\ ~E.panic =>
            IF g.k = "c" THEN Check(E.ids = ComponentIds(g), "components:list")
            ELSE Check(E.ids = <<>>, "components:not-composite")

Comps ==
  /\ Is("comps")
  /\ CompsOK = TRUE
  /\ UNCHANGED <<enc, gs, have, rt, res>> /\ UNCHANGED <<bigok, encs>> /\ Consume

FixOK ==
  IF ~have \/ E.i + 1 > Len(gs) THEN NoDemand
  ELSE LET g == gs[E.i + 1] IN
       IF g.k = "c" /\ \E j \in 1..Len(g.comps) : MapId(E.map, g.comps[j].gid) < 0
         THEN NoDemand          \* an id without image: the property does not say
         ELSE /\ Check(~E.panic, "fixcomponents:panic")
              /\ ~E.panic => Check(E.glyph = FixValue(g, E.map), "fixcomponents:result")

\* E.keep: the harness keeps the result (call histories); its expected value is remembered
FixDemand == have /\ E.i + 1 <= Len(gs)
             /\ ~(gs[E.i + 1].k = "c" /\ \E j \in 1..Len(gs[E.i + 1].comps) : MapId(E.map, gs[E.i + 1].comps[j].gid) < 0)
Fix ==
  /\ Is("fix")
  /\ FixOK = TRUE
  /\ res' = IF ~E.keep THEN res
            ELSE Append(res, IF FixDemand THEN FixValue(gs[E.i + 1], E.map) ELSE E.glyph)
  /\ UNCHANGED <<enc, gs, have, rt>> /\ UNCHANGED <<bigok, encs>> /\ Consume

\* the caller stores result E.k (0-based) as glyph E.i (0-based): an input step, nothing to check
Put ==
  /\ Is("put")
  /\ gs' = IF have /\ E.i + 1 <= Len(gs) /\ E.k + 1 <= Len(res) THEN [gs EXCEPT ![E.i + 1] = res[E.k + 1]] ELSE gs
  /\ UNCHANGED <<enc, have, rt, res>> /\ UNCHANGED <<bigok, encs>> /\ Consume

\* History: FixComponents (and every other call) leaves the glyph set it was applied to and all
\* earlier results unchanged -- "component lists are reported and rewritten exactly, component
\* records preserved bit for bit" holds for the glyphs the caller still holds, not only for the
\* value returned last.
RedecOK(r, e) ==
  LET d == DecodeSet(e.fmt, e.loca, e.glyf) IN
  d.ok => /\ r.ok /\ Len(r.glyphs) = Len(d.d)
          /\ \A i \in 1..Len(d.d) : Represents(r.glyphs[i], d.d[i])
ObserveOK ==
  IF ~have THEN NoDemand
  ELSE /\ Check(E.glyphs = gs, "history:glyph-set-changed-by-a-call")
       /\ Check(E.results = res, "history:earlier-fixcomponents-result-changed")
       /\ Check(Len(E.comps) = Len(gs) /\ \A i \in 1..Len(gs) : E.comps[i] = ComponentIds(gs[i]),
                "history:components-list-changed")
       \* every Encode result handed out: the same bytes as when it was handed out, and a fresh
       \* Decode of it returns what the spec decodes from those bytes
       /\ Check(E.encs = encs, "history:earlier-encode-result-changed")
       /\ Len(E.redec) = Len(encs) =>
            CheckAll(Len(encs), LAMBDA k : RedecOK(E.redec[k], encs[k]), "history:earlier-encode-result-decodes-differently")
Observe ==
  /\ Is("observe")
  /\ ObserveOK = TRUE
  /\ UNCHANGED <<enc, gs, have, rt, res>> /\ UNCHANGED <<bigok, encs>> /\ Consume

RecheckOK ==
  IF ~have \/ E.i + 1 > Len(gs) THEN NoDemand
  ELSE /\ Check(E.glyph = gs[E.i + 1], "history:glyph-changed-by-fixcomponents")
       /\ Check(E.ids = ComponentIds(gs[E.i + 1]), "history:components-list-changed")
Recheck ==
  /\ Is("recheck")
  /\ RecheckOK = TRUE
  /\ UNCHANGED <<enc, gs, have, rt, res>> /\ UNCHANGED <<bigok, encs>> /\ Consume

\* ---- digest mode (glyf tables beyond what can be logged) ----
\* a digest: [k, nc, bbox, blen, bsum]; the record of a non-empty glyph has 10 + blen bytes plus padding
ResetBig ==
  /\ Is("resetbig")
  /\ enc' = NoEnc /\ gs' = E.glyphs /\ have' = TRUE /\ rt' = FALSE /\ res' = <<>> /\ bigok' = FALSE /\ encs' = <<>>
  /\ l' = l + 1 /\ TLCSet(1, l)

BigOffs == LET p == ParseLoca(E.fmt, E.loca) IN IF p.ok THEN SubSeq(p.offs, 1, Len(p.offs)) ELSE <<>>
RecLenOK(n, g) == IF g.k = "nil" THEN n = 0 ELSE n >= 10 + g.blen /\ n < 10 + g.blen + 4
EncodeBigGood ==
  LET offs == BigOffs IN
  /\ ~E.panic /\ ParseLoca(E.fmt, E.loca).ok
  /\ Len(offs) = Len(gs) + 1 /\ Monotone(offs) /\ AllEven(offs) /\ Inside(offs, E.glyflen)
  /\ \A i \in 1..Len(gs) : RecLenOK(offs[i + 1] - offs[i], gs[i])
EncodeBigOK ==
  LET p    == ParseLoca(E.fmt, E.loca)        \* every offset from its raw bytes: b0*2^24 + b1*2^16 + b2*2^8 + b3
      offs == BigOffs
  IN /\ Check(~E.panic, "encode:panic")
     /\ ~E.panic =>
          /\ Check(p.ok, "encode:loca-format")
          /\ p.ok =>
               /\ Check(Len(offs) = Len(gs) + 1, "encode:loca-count")
               /\ Check(Monotone(offs), "encode:loca-order")
               /\ Check(AllEven(offs), "encode:loca-even")
               /\ Check(Inside(offs, E.glyflen), "encode:loca-inside")
               /\ Len(offs) = Len(gs) + 1 =>
                    CheckAll(Len(gs), LAMBDA i : RecLenOK(offs[i + 1] - offs[i], gs[i]), "encode:record-length")
EncodeBig ==
  /\ Is("encodebig")
  /\ (IF have THEN EncodeBigOK ELSE NoDemand) = TRUE
  /\ bigok' = (have /\ EncodeBigGood)
  /\ UNCHANGED <<enc, gs, have, rt, res, encs>>
  /\ l' = l + 1 /\ TLCSet(1, l)

\* the encoder's tables passed every check and hold library-encoded glyphs: decoding them must
\* succeed and return the glyphs that went in
DecodeBigOK ==
  IF ~bigok THEN NoDemand
  ELSE /\ Check(~E.panic, "decode:panic")
       /\ E.panic \/ Check(E.ok, "decode:error")
       /\ E.ok => Check(E.glyphs = gs, "roundtrip:glyphs-differ")
DecodeBig ==
  /\ Is("decodebig")
  /\ DecodeBigOK = TRUE
  /\ UNCHANGED <<enc, gs, have, rt, res, bigok, encs>>
  /\ l' = l + 1 /\ TLCSet(1, l)

Next == ResetBig \/ EncodeBig \/ DecodeBig \/ Reset \/ ResetLib \/ Decode \/ Encode \/ Simple \/ Comps \/ Fix \/ Put \/ Observe \/ Recheck
Spec == Init /\ [][Next]_vars

Accepted == /\ PrintT(<<"STATS", TLCGet(1), TLCGet(2), TLCGet(3)>>)
            /\ IF TLCGet(1) = Len(Trace) THEN TRUE
               ELSE PrintT(<<"REJECTED_AT_LINE", TLCGet(1) + 1>>) /\ FALSE
=============================================================================
