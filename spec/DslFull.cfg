CONSTANTS
  Fonts = {"nc", "c", "np", "cp", "n", "x", "e"}
  MaxSub = 3
  Full = TRUE
INIT Init
NEXT Next
INVARIANT TypeOK
INVARIANT Emit
CHECK_DEADLOCK FALSE
