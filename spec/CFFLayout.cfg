\* quick: all layouts, offsets aimed at every DICT-integer size class boundary and the 64 KiB mark
CONSTANTS
  Thr = {108, 1132, 32768, 65536}
  JBack = 3
  J3Back = 10
  Far = {400}
  PdBases = {9, 104}
  PdRest = {104}
  FdBases = {0, 79}
  MaxFD = 3
  MaxIter = 6
INIT Init
NEXT Next
INVARIANT Terminates
INVARIANT Consistent
INVARIANT HeaderFits
PROPERTY Monotone
CHECK_DEADLOCK FALSE
