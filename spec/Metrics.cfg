CONSTANTS
  Gen = FALSE
  MaxG = 3
  MaxW = 5
  MaxRuns = 3
  BigRuns = FALSE
  CaretR = 3
SPECIFICATION Spec
INVARIANT TypeOK
INVARIANT RoundTrip
INVARIANT JudgeAccepts
INVARIANT NumLongLaw
INVARIANT RunLaw
CHECK_DEADLOCK FALSE
