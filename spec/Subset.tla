------------------------------- MODULE Subset -------------------------------
(***************************************************************************)
(* C10 -- subsetting keeps every selected glyph intact and consistently     *)
(* re-indexed.  This module is the *relation*: an abstract font F, a glyph  *)
(* list and a projection P of a candidate result are related iff            *)
(* Failed(F, list, P) = {}.  It is written from the property text and the   *)
(* OpenType / CFF data model, not from subset.go:                           *)
(*                                                                         *)
(*   glyphs     opaque tokens: glyph g of F has an outline token out[g],    *)
(*              advance w[g] (injective: it identifies the glyph), name     *)
(*              token, CID, and FD token fd[g] (private dictionary and      *)
(*              font matrix of CID-keyed fonts);                           *)
(*   comp[g]    component list of a TrueType composite (glyph ids);         *)
(*   cmap       code |-> gid, split into subtables by cmapcfg;              *)
(*   enc        built-in encoding of a simple CFF font, code |-> gid;       *)
(*   ligs       GSUB 4.1 rules <<in_1, ..., in_k, out>>, in lookup order;   *)
(*   subs       GSUB 1.1 rules <<in, out>> (constant delta);                *)
(*   pairs      GPOS 2.1 entries <<left, right, value>>.                    *)
(*                                                                         *)
(* A lookup may consist of several subtables that overlap on their keys;    *)
(* OpenType applies the first subtable that matches.  The model carries a   *)
(* second subtable for each kind -- pairs2 (second GPOS 2.1 subtable), subs2 *)
(* (second GSUB 1.1 subtable, own delta), and ligsplit (the first ligsplit  *)
(* rules of ligs form the first GSUB 4.1 subtable, the rest the second) --  *)
(* and the relation is stated on the *effective* rules: EffPairs, EffSubs   *)
(* (first subtable wins per key) and ligs in priority order.  A subsetter   *)
(* is free to merge or keep subtables as long as the effect is the same.    *)
(*                                                                         *)
(* Glyph ids are 0-based, sequences 1-based: At(s, g) == s[g + 1].          *)
(*                                                                         *)
(* Two readings of "any extra glyphs needed by composites or ligatures" are *)
(* accepted (soundness rule 1): the retained set S must contain Min (the    *)
(* ligature closure of the list, then closed under components), must be     *)
(* closed under component references, and must stay inside Max (the joint   *)
(* least fixed point under components, ligature and single substitution     *)
(* rules whose inputs are all retained).  Everything else is determined by  *)
(* S and the order of the result.                                           *)
(***************************************************************************)
EXTENDS Integers, Sequences, FiniteSets, TLC, SequencesExt

At(s, g) == s[g + 1]
Gids(F)  == 0 .. (F.n - 1)

Comps(F, g)  == ToSet(At(F.comp, g))
RuleGlyphs(r) == ToSet(r)
RuleIn(r)    == ToSet(SubSeq(r, 1, Len(r) - 1))
RuleOut(r)   == r[Len(r)]
LigRules(F)  == ToSet(F.ligs)
SubRules(F)  == ToSet(F.subs) \cup ToSet(F.subs2)      \* raw (for the upper bound MaxSet)

\* effective rules of a lookup with two subtables: the first subtable that has the key wins
EffPairs(F) == F.pairs \o SelectSeq(F.pairs2, LAMBDA e :
                 \A i \in 1..Len(F.pairs) : <<F.pairs[i][1], F.pairs[i][2]>> # <<e[1], e[2]>>)
EffSubs(F)  == F.subs \o SelectSeq(F.subs2, LAMBDA e : \A i \in 1..Len(F.subs) : F.subs[i][1] # e[1])

(***************************************************************************)
(* Closures.                                                                *)
(***************************************************************************)
CompStep(F, S)     == S \cup UNION { Comps(F, g) : g \in S }
RuleStep(S, rules) == S \cup { RuleOut(r) : r \in { q \in rules : RuleIn(q) \subseteq S } }

RECURSIVE Fix(_, _, _, _)
Fix(F, S, rules, withComps) ==
  LET T == RuleStep(IF withComps THEN CompStep(F, S) ELSE S, rules)
  IN  IF T = S THEN S ELSE Fix(F, T, rules, withComps)

RECURSIVE CompClose(_, _)
CompClose(F, S) == LET T == CompStep(F, S) IN IF T = S THEN S ELSE CompClose(F, T)

MaxSet(F, list) == Fix(F, ToSet(list), LigRules(F) \cup SubRules(F), TRUE)
MinSet(F, list) == CompClose(F, Fix(F, ToSet(list), LigRules(F), FALSE))

(***************************************************************************)
(* The abstract font: well-formedness (the domain of the property).         *)
(***************************************************************************)
Inj(s) == \A i, j \in 1..Len(s) : i # j => s[i] # s[j]

Acyclic(F)  == \A g \in Gids(F) : g \notin CompClose(F, Comps(F, g))

\* cmap subtables in key order (platform, encoding): the code |-> gid pairs of each
Subtables(F) ==
  CASE F.cmapcfg = "none" -> << >>
    [] F.cmapcfg = "4"    -> << F.cmap, F.cmap >>           \* (0,3) and (3,1), format 4
    [] F.cmapcfg = "12"   -> << F.cmap, F.cmap >>           \* (0,4) and (3,10), format 12
    [] F.cmapcfg = "4+12" -> << SelectSeq(F.cmap, LAMBDA e : e[1] < 65536), F.cmap >>   \* (3,1), (3,10)
    [] F.cmapcfg = "4|12" -> << SelectSeq(F.cmap, LAMBDA e : e[1] < 65536),               \* (3,1): BMP only
                                SelectSeq(F.cmap, LAMBDA e : e[1] >= 65536) >>            \* (3,10): astral only

WellFormed(F) ==
  /\ F.n >= 1
  /\ F.kind \in {"ttf", "cff", "cid"}
  /\ F.cmapcfg \in {"none", "4", "12", "4+12", "4|12"}
  \* nameset only selects the concrete glyph names of the name tokens ("std": StandardEncoding names,
  \* "expert": ExpertEncoding names); a simple CFF font without an Encoding means "standard encoding",
  \* which maps such names -- those fonts state their encoding explicitly
  /\ F.nameset \in {"plain", "std", "expert"}
  /\ (F.kind = "cff" /\ F.nameset # "plain" => F.hasenc)
  /\ Len(F.out) = F.n /\ Len(F.w) = F.n /\ Len(F.name) = F.n
  /\ Len(F.cid) = F.n /\ Len(F.fd) = F.n /\ Len(F.comp) = F.n
  /\ Inj(F.w)
  /\ \A g \in Gids(F) : Comps(F, g) \subseteq Gids(F)
  /\ Acyclic(F)
  /\ (F.kind # "ttf" => \A g \in Gids(F) : At(F.comp, g) = << >>)
  /\ Inj([i \in 1..Len(F.cmap) |-> F.cmap[i][1]])
  /\ \A i \in 1..Len(F.cmap) : F.cmap[i][2] \in Gids(F) \ {0}
  /\ (F.cmapcfg = "4" => \A i \in 1..Len(F.cmap) : F.cmap[i][1] < 65536)
  /\ Inj([i \in 1..Len(F.enc) |-> F.enc[i][1]])
  /\ \A i \in 1..Len(F.enc) : F.enc[i][2] \in Gids(F) \ {0} /\ F.enc[i][1] \in 0..255
  /\ (F.enc # << >> => F.kind = "cff" /\ F.hasenc)
  /\ \A i \in 1..Len(F.ligs) : Len(F.ligs[i]) >= 2 /\ RuleGlyphs(F.ligs[i]) \subseteq Gids(F)
  /\ Inj(F.ligs)
  /\ \A i \in 1..Len(F.subs) : Len(F.subs[i]) = 2 /\ RuleGlyphs(F.subs[i]) \subseteq Gids(F)
  /\ \A i, j \in 1..Len(F.subs) : F.subs[i][2] - F.subs[i][1] = F.subs[j][2] - F.subs[j][1]
  /\ Inj([i \in 1..Len(F.subs) |-> F.subs[i][1]])
  /\ \A i \in 1..Len(F.pairs) : {F.pairs[i][1], F.pairs[i][2]} \subseteq Gids(F)
  /\ Inj([i \in 1..Len(F.pairs) |-> <<F.pairs[i][1], F.pairs[i][2]>>])
  /\ \A i \in 1..Len(F.subs2) : Len(F.subs2[i]) = 2 /\ RuleGlyphs(F.subs2[i]) \subseteq Gids(F)
  /\ \A i, j \in 1..Len(F.subs2) : F.subs2[i][2] - F.subs2[i][1] = F.subs2[j][2] - F.subs2[j][1]
  /\ Inj([i \in 1..Len(F.subs2) |-> F.subs2[i][1]])
  /\ \A i \in 1..Len(F.pairs2) : {F.pairs2[i][1], F.pairs2[i][2]} \subseteq Gids(F)
  /\ Inj([i \in 1..Len(F.pairs2) |-> <<F.pairs2[i][1], F.pairs2[i][2]>>])
  /\ F.ligsplit \in 0..Len(F.ligs)
  /\ (F.subs2 # << >> => F.subs # << >>) /\ (F.pairs2 # << >> => F.pairs # << >>)
  /\ F.gsub \in {"none", "l", "s", "ls", "sl"}
  /\ (F.ligs # << >> => F.gsub \in {"l", "ls", "sl"})
  /\ (F.subs # << >> => F.gsub \in {"s", "ls", "sl"})
  /\ (F.pairs # << >> => F.gpos)

GoodList(F, list) ==
  /\ Len(list) >= 1 /\ list[1] = 0
  /\ ToSet(list) \subseteq Gids(F)
  /\ Inj(list)

(***************************************************************************)
(* Projections.  A projection P of a concrete font is                       *)
(*   [ok, glyphs, cmaps, hasenc, enc, ligs, subs, pairs]                    *)
(* glyphs[i] = [out, w, name, cid, pd, mat, comps] (comps = new glyph ids), *)
(* cmaps = one sequence of <<code, gid>> per subtable in key order,         *)
(* enc = <<code, gid>> for the non-zero entries, ligs = <<feat, in.., out>>,*)
(* subs = <<feat, in, out>>, pairs = <<feat, left, right, value>> where     *)
(* feat is the tag list of the features that reach the rule's lookup.       *)
(* subs and pairs are the effective rules of each lookup (the first         *)
(* subtable that has the key wins), ligs the rules of each first glyph in   *)
(* priority order (subtable order, then order within the ligature set).     *)
(***************************************************************************)
GlyphOf(F, g) ==
  [out |-> At(F.out, g), w |-> At(F.w, g), name |-> At(F.name, g), cid |-> At(F.cid, g),
   pd |-> At(F.fd, g), mat |-> IF F.kind = "cid" THEN At(F.fd, g) ELSE -1]

SameAttrs(gl, e) ==
  /\ gl.out = e.out /\ gl.w = e.w /\ gl.name = e.name
  /\ gl.cid = e.cid /\ gl.pd = e.pd /\ gl.mat = e.mat

HasOld(F, gl) == \E g \in Gids(F) : At(F.w, g) = gl.w
OldOf(F, gl)  == CHOOSE g \in Gids(F) : At(F.w, g) = gl.w

MapSeq(s, Op(_)) == [i \in 1..Len(s) |-> Op(s[i])]
Strip(t)         == SubSeq(t, 2, Len(t))          \* a rule without its feature tag
Subsequence(a, b) ==                             \* a (duplicate-free, inside b) keeps b's order
  \A i, j \in 1..Len(a) : i < j =>
     \E p, q \in 1..Len(b) : p < q /\ b[p] = a[i] /\ b[q] = a[j]

Clauses == {"prefix", "closure", "attrs", "comps", "cmap", "cmap-extras", "enc",
            "pairs", "pairs-extras", "ligs", "ligs-extras", "ligs-order", "subs", "features"}

\* old : new index (1-based) |-> old gid;  S : retained set;  m : old gid |-> new gid
Holds(c, F, list, P, old, S, m) ==
  LET N      == Len(P.glyphs)
      L      == ToSet(list) \cap S      \* (a listed glyph missing from S is reported by "prefix")
      Re(t)  == MapSeq(t, LAMBDA g : m[g])                       \* re-key a tuple of glyph ids
      In(t, X) == ToSet(t) \subseteq X
      \* --- cmap
      subt   == Subtables(F)
      CmExp(k, X) == { <<e[1], m[e[2]]>> : e \in { x \in ToSet(subt[k]) : x[2] \in X } }
      \* --- pairs
      PrExp(X) == { <<m[e[1]], m[e[2]], e[3]>> : e \in { x \in ToSet(EffPairs(F)) : {x[1], x[2]} \subseteq X } }
      prGot  == { Strip(t) : t \in ToSet(P.pairs) }
      \* --- ligatures
      lgKept == SelectSeq(F.ligs, LAMBDA r : In(r, S))
      lgExp  == MapSeq(lgKept, Re)                                  \* in original rule order
      lgGot  == MapSeq(P.ligs, Strip)
      LgExpSet(X) == { Re(r) : r \in { q \in ToSet(F.ligs) : In(q, X) } }
      \* --- single substitutions
      sbExp  == { Re(r) : r \in { q \in ToSet(EffSubs(F)) : In(q, S) } }
  IN
  CASE c = "prefix"  -> /\ N >= Len(list)
                        /\ \A i \in 1..Len(list) : i <= N => old[i] = list[i]
    [] c = "closure" -> /\ MinSet(F, list) \subseteq S
                        /\ S \subseteq MaxSet(F, list)
                        /\ CompStep(F, S) = S
    [] c = "attrs"   -> \A i \in 1..N : SameAttrs(P.glyphs[i], GlyphOf(F, old[i]))
    [] c = "comps"   -> \A i \in 1..N :
                          LET cs == P.glyphs[i].comps
                              oc == At(F.comp, old[i])
                          IN  /\ Len(cs) = Len(oc)
                              /\ \A k \in 1..Len(cs) :
                                    /\ cs[k] \in 0..(N - 1)
                                    /\ k <= Len(oc) => old[cs[k] + 1] = oc[k]
    [] c = "cmap"    -> /\ Len(P.cmaps) = Len(subt)
                        /\ \A k \in 1..Len(P.cmaps) : k <= Len(subt) =>
                              /\ ToSet(P.cmaps[k]) \subseteq CmExp(k, S)
                              /\ CmExp(k, L) \subseteq ToSet(P.cmaps[k])
                              /\ Len(P.cmaps[k]) = Cardinality(ToSet(P.cmaps[k]))
    [] c = "cmap-extras" -> \A k \in 1..Len(P.cmaps) : k <= Len(subt) =>
                              CmExp(k, S) \subseteq ToSet(P.cmaps[k])
    [] c = "enc"     -> /\ ToSet(P.enc) = { <<e[1], m[e[2]]>> : e \in { x \in ToSet(F.enc) : x[2] \in S } }
                        /\ Len(P.enc) = Cardinality(ToSet(P.enc))
                        /\ (F.hasenc => P.hasenc)
    [] c = "pairs"   -> /\ prGot \subseteq PrExp(S)
                        /\ PrExp(L) \subseteq prGot
                        /\ Len(P.pairs) = Cardinality(prGot)
    [] c = "pairs-extras" -> PrExp(S) \subseteq prGot
    [] c = "ligs"    -> /\ ToSet(lgGot) \subseteq LgExpSet(S)
                        /\ LgExpSet(L) \subseteq ToSet(lgGot)
                        /\ Len(lgGot) = Cardinality(ToSet(lgGot))
    [] c = "ligs-extras" -> LgExpSet(S) \subseteq ToSet(lgGot)
    [] c = "ligs-order" ->    \* rules with the same first glyph keep their relative order
                        \A f \in { r[1] : r \in ToSet(lgGot) } :
                          Subsequence(SelectSeq(lgGot, LAMBDA r : r[1] = f /\ r \in ToSet(lgExp)),
                                      SelectSeq(lgExp, LAMBDA r : r[1] = f))
    [] c = "subs"    -> { Strip(t) : t \in ToSet(P.subs) } \subseteq sbExp
    [] c = "features" -> /\ \A t \in ToSet(P.ligs)  : t[1] = "liga"
                         /\ \A t \in ToSet(P.subs)  : t[1] = "smcp"
                         /\ \A t \in ToSet(P.pairs) : t[1] = "kern"

\* The relation: the set of violated clauses (empty = P is a correct subset of F for list).
FailedIn(cs, F, list, P) ==
  IF ~P.ok THEN {"panic"}
  ELSE LET N == Len(P.glyphs) IN
    IF \/ \E i \in 1..N : ~HasOld(F, P.glyphs[i])
       \/ \E i, j \in 1..N : i < j /\ P.glyphs[i].w = P.glyphs[j].w
    THEN {"identity"}
    ELSE LET old == [i \in 1..N |-> OldOf(F, P.glyphs[i])]
             S   == { old[i] : i \in 1..N }
             m   == [g \in S |-> (CHOOSE i \in 1..N : old[i] = g) - 1]
         IN  { c \in cs : ~Holds(c, F, list, P, old, S, m) }

Failed(F, list, P) == FailedIn(Clauses, F, list, P)
SubsetOK(F, list, P) == Failed(F, list, P) = {}

\* Outlines.Subset of package cff: exactly the listed glyphs, attributes and encoding; no closure.
FailedOutlines(F, list, P) ==
  LET f == FailedIn({"prefix", "attrs", "enc"}, F, list, P)
  IN  f \cup (IF P.ok /\ Len(P.glyphs) # Len(list) THEN {"exact"} ELSE {})

(***************************************************************************)
(* Write + Read of the subset.  Outside the representable domain nothing    *)
(* is demanded of Write: a simple CFF font can only store an encoding whose *)
(* encoded glyphs are 1..k (CFF spec, Encoding formats 0/1 give codes to    *)
(* glyphs 1..k in order; supplements only add codes to those glyphs).       *)
(* (A TrueType subset in which every glyph is blank IS demanded: an empty   *)
(* "glyf" table is a valid table.)                                          *)
(***************************************************************************)
Writable(F, P) ==
  F.kind = "cff" => LET used == { e[2] : e \in ToSet(P.enc) } IN used = 1..Cardinality(used)

Same(P, Q) ==
  /\ Q.ok
  /\ Q.glyphs = P.glyphs
  /\ Q.cmaps = P.cmaps
  /\ ToSet(Q.enc) = ToSet(P.enc)
  /\ Q.ligs = P.ligs /\ Q.subs = P.subs /\ Q.pairs = P.pairs

FailedReread(F, P, st, Q) ==
  IF ~P.ok THEN {}
  ELSE IF st = "ok" THEN (IF Same(P, Q) THEN {} ELSE {"reread-differs"})
  ELSE IF Writable(F, P) THEN {"write-read"} ELSE {}

(***************************************************************************)
(* The result a correct subsetter builds from the final glyph sequence gs   *)
(* (old ids, duplicate-free, list as prefix).  Used by SubsetGen to show    *)
(* that the relation is satisfiable and to generate expectations.           *)
(***************************************************************************)
Build(F, gs) ==
  LET S  == ToSet(gs)
      m  == [g \in S |-> (CHOOSE i \in 1..Len(gs) : gs[i] = g) - 1]
      Re(t) == MapSeq(t, LAMBDA g : m[g])
      In(t) == ToSet(t) \subseteq S
      subt == Subtables(F)
  IN [ ok     |-> TRUE,
       glyphs |-> [i \in 1..Len(gs) |->
                    LET e == GlyphOf(F, gs[i]) IN
                    [out |-> e.out, w |-> e.w, name |-> e.name, cid |-> e.cid, pd |-> e.pd, mat |-> e.mat,
                     comps |-> Re(At(F.comp, gs[i]))]],
       cmaps  |-> [k \in 1..Len(subt) |->
                    MapSeq(SelectSeq(subt[k], LAMBDA e : e[2] \in S), LAMBDA e : <<e[1], m[e[2]]>>)],
       hasenc |-> F.hasenc,
       enc    |-> MapSeq(SelectSeq(F.enc, LAMBDA e : e[2] \in S), LAMBDA e : <<e[1], m[e[2]]>>),
       ligs   |-> MapSeq(SelectSeq(F.ligs, In), LAMBDA r : <<"liga">> \o Re(r)),
       subs   |-> MapSeq(SelectSeq(EffSubs(F), In), LAMBDA r : <<"smcp">> \o Re(r)),
       pairs  |-> MapSeq(SelectSeq(EffPairs(F), LAMBDA e : {e[1], e[2]} \subseteq S),
                         LAMBDA e : <<"kern", m[e[1]], m[e[2]], e[3]>>) ]

\* the content of a result in *old* glyph ids (independent of the order of the extras)
Canon(F, P) ==
  LET N   == Len(P.glyphs)
      old == [i \in 1..N |-> OldOf(F, P.glyphs[i])]
      Un(t) == MapSeq(t, LAMBDA j : old[j + 1])
  IN [ set   |-> { old[i] : i \in 1..N },
       comps |-> { <<old[i], Un(P.glyphs[i].comps)>> : i \in 1..N },
       cmaps |-> MapSeq(P.cmaps, LAMBDA s : { <<e[1], old[e[2] + 1]>> : e \in ToSet(s) }),
       enc   |-> { <<e[1], old[e[2] + 1]>> : e \in ToSet(P.enc) },
       ligs  |-> { Un(Strip(t)) : t \in ToSet(P.ligs) },
       subs  |-> { Un(Strip(t)) : t \in ToSet(P.subs) },
       pairs |-> { <<old[t[2] + 1], old[t[3] + 1], t[4]>> : t \in ToSet(P.pairs) } ]

CanonOf(F, S) ==
  [ set   |-> S,
    comps |-> { <<g, At(F.comp, g)>> : g \in S },
    cmaps |-> MapSeq(Subtables(F), LAMBDA s : { e \in ToSet(s) : e[2] \in S }),
    enc   |-> { e \in ToSet(F.enc) : e[2] \in S },
    ligs  |-> { r \in ToSet(F.ligs) : ToSet(r) \subseteq S },
    subs  |-> { r \in ToSet(EffSubs(F)) : ToSet(r) \subseteq S },
    pairs |-> { e \in ToSet(EffPairs(F)) : {e[1], e[2]} \subseteq S } ]
=============================================================================
