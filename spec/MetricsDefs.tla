---------------------------- MODULE MetricsDefs ----------------------------
(***************************************************************************)
(* C12.  Definitions of the metrics / header tables, written from the      *)
(* OpenType chapters hhea, hmtx, head, maxp, OS/2 and post (not from the   *)
(* Go code).  Constant-level operators only; used by                       *)
(*   Metrics.tla       (reference encoder/decoder, model-checked laws,     *)
(*                      generator of the replayed cases) and               *)
(*   MetricsTrace.tla  (judge of what the real library emitted).           *)
(*                                                                         *)
(* A table is a sequence of big-endian 16-bit words (0..65535); W(t, k) is *)
(* the word at byte offset 2k of the OpenType field list.                  *)
(***************************************************************************)
EXTENDS Integers, Sequences, FiniteSets, SequencesExt

Min2(a, b) == IF a < b THEN a ELSE b
Max2(a, b) == IF a > b THEN a ELSE b
Abs(a)     == IF a < 0 THEN -a ELSE a
SetMin(S)  == CHOOSE x \in S : \A y \in S : x <= y
SetMax(S)  == CHOOSE x \in S : \A y \in S : x >= y
SeqSum(s)  == FoldLeft(LAMBDA a, b : a + b, 0, s)

S16(u)   == IF u >= 32768 THEN u - 65536 ELSE u      \* FWORD / int16 reading of a word
U16(s)   == IF s < 0 THEN s + 65536 ELSE s
IsU16(u) == u >= 0 /\ u <= 65535
IsS16(s) == s >= -32768 /\ s <= 32767
Bit(x, i) == (x \div (2 ^ i)) % 2 = 1                \* x >= 0
BitVal(b, i) == IF b THEN 2 ^ i ELSE 0
W(t, k)  == t[k + 1]
SW(t, k) == S16(t[k + 1])
AllWords(t) == \A i \in 1..Len(t) : IsU16(t[i])

---------------------------------------------------------------------------
(* hmtx: numberOfHMetrics long records (advanceWidth, lsb), then lsb only;  *)
(* the advance width of the remaining glyphs is that of the last record.   *)

ConstFrom(w, k) == \A i \in k..Len(w) : w[i] = w[k]
\* shortest prefix such that the tail repeats the last long width
NumLong(w) == CHOOSE k \in 1..Len(w) : ConstFrom(w, k) /\ \A j \in 1..(k - 1) : ~ConstFrom(w, j)

HmtxDecode(k, long, tail) ==
  LET n == k + Len(tail) IN
  [w   |-> [i \in 1..n |-> IF i <= k THEN long[i][1] ELSE long[k][1]],
   lsb |-> [i \in 1..n |-> IF i <= k THEN long[i][2] ELSE tail[i - k]]]

HmtxShape(n, k, hm) == k >= 1 /\ k <= n /\ Len(hm) = 2 * k + (n - k)
HmtxLong(k, hm)     == [i \in 1..k |-> <<hm[2 * i - 1], S16(hm[2 * i])>>]
HmtxTail(n, k, hm)  == [j \in 1..(n - k) |-> S16(hm[2 * k + j])]
HmtxOfWords(n, k, hm) == HmtxDecode(k, HmtxLong(k, hm), HmtxTail(n, k, hm))

\* the words written for (ws, lsbs) with k long records
HmtxWords(ws, lsbs, k) ==
  LET n == Len(ws) IN
  [j \in 1..(2 * k + (n - k)) |->
     IF j <= 2 * k THEN (IF j % 2 = 1 THEN ws[(j + 1) \div 2] ELSE U16(lsbs[j \div 2]))
                   ELSE U16(lsbs[j - k])]

\* Judge: the table must decode (by the rule above) to the given vectors.  Any k that
\* achieves this is legal ("however trailing equal widths are compressed"); k = NumLong is
\* the smallest one.
JudgeHmtx(ws, lsbs, k, hm) ==
  /\ HmtxShape(Len(ws), k, hm)
  /\ AllWords(hm)
  /\ HmtxOfWords(Len(ws), k, hm) = [w |-> ws, lsb |-> lsbs]

(* run-length descriptors <<value, count>> for long vectors *)
RunsLen(r)  == FoldLeft(LAMBDA a, b : a + b[2], 0, r)
Canon(r)    == FoldLeft(LAMBDA acc, b :
                 IF b[2] = 0 THEN acc
                 ELSE IF Len(acc) > 0 /\ acc[Len(acc)][1] = b[1]
                        THEN [acc EXCEPT ![Len(acc)] = <<b[1], acc[Len(acc)][2] + b[2]>>]
                        ELSE Append(acc, b), <<>>, r)
IsCanon(r)  == /\ \A i \in 1..Len(r) : r[i][2] >= 1
               /\ \A i \in 1..(Len(r) - 1) : r[i][1] # r[i + 1][1]
Expand(r)   == FoldLeft(LAMBDA acc, b : acc \o [i \in 1..b[2] |-> b[1]], <<>>, r)
\* the first k elements of the vector described by r
TruncRuns(r, k) == FoldLeft(LAMBDA acc, b :
                     LET have == RunsLen(acc) IN
                     IF have >= k THEN acc ELSE Append(acc, <<b[1], Min2(b[2], k - have)>>), <<>>, r)
NumLongRL(r) == LET c == Canon(r) IN RunsLen(c) - c[Len(c)][2] + 1

---------------------------------------------------------------------------
(* hhea (byte offsets / 2): version 0-1, ascender 2, descender 3, lineGap 4,  *)
(* advanceWidthMax 5, minLeftSideBearing 6, minRightSideBearing 7,           *)
(* xMaxExtent 8, caretSlopeRise 9, caretSlopeRun 10, caretOffset 11,         *)
(* reserved 12-15, metricDataFormat 16, numberOfHMetrics 17.                 *)
HheaWords == 18
EmptyBox(b) == b = <<0, 0, 0, 0>>
NonEmptyIdx(box) == {i \in 1..Len(box) : ~EmptyBox(box[i])}
RsbOf(aw, lsb, b) == aw - (lsb + b[3] - b[1])        \* aw - (lsb + xMax - xMin)
ExtOf(lsb, b)     == lsb + (b[3] - b[1])             \* lsb + (xMax - xMin)

AdvMaxDef(aw) == SetMax({aw[i] : i \in 1..Len(aw)})
MinLsbDef(lsb, box) == SetMin({lsb[i] : i \in NonEmptyIdx(box)})
MinRsbDef(aw, lsb, box) == SetMin({RsbOf(aw[i], lsb[i], box[i]) : i \in NonEmptyIdx(box)})
MaxExtDef(lsb, box) == SetMax({ExtOf(lsb[i], box[i]) : i \in NonEmptyIdx(box)})
Representable(aw, lsb, box) ==
  \A i \in NonEmptyIdx(box) : IsS16(RsbOf(aw[i], lsb[i], box[i])) /\ IsS16(ExtOf(lsb[i], box[i]))

\* aggregates of hhea table t for advance widths aw, bearings lsb and glyph boxes box;
\* glyphs without contours (empty box) are ignored, and nothing is demanded when every glyph
\* is empty or when a bearing/extent is not a 16-bit number
JudgeAdvMax(aw, t) == W(t, 5) = AdvMaxDef(aw)
JudgeMinLsb(lsb, box, t) == NonEmptyIdx(box) # {} => SW(t, 6) = MinLsbDef(lsb, box)
JudgeMinRsb(aw, lsb, box, t) ==
  (NonEmptyIdx(box) # {} /\ Representable(aw, lsb, box)) => SW(t, 7) = MinRsbDef(aw, lsb, box)
JudgeMaxExt(aw, lsb, box, t) ==
  (NonEmptyIdx(box) # {} /\ Representable(aw, lsb, box)) => SW(t, 8) = MaxExtDef(lsb, box)
JudgeAgg(aw, lsb, box, t) ==
  /\ JudgeAdvMax(aw, t) /\ JudgeMinLsb(lsb, box, t)
  /\ JudgeMinRsb(aw, lsb, box, t) /\ JudgeMaxExt(aw, lsb, box, t)

\* union of the non-empty glyph boxes <<xMin, yMin, xMax, yMax>>
UnionBox(box) ==
  LET ne == NonEmptyIdx(box) IN
  <<SetMin({box[i][1] : i \in ne}), SetMin({box[i][2] : i \in ne}),
    SetMax({box[i][3] : i \in ne}), SetMax({box[i][4] : i \in ne})>>

\* caret slope rise/run compared as a rational with direction.  rise = 0 (a horizontal caret)
\* has no distinguished direction in the slope itself.
SlopeSame(r1, n1, r2, n2) ==
  /\ r1 * n2 = r2 * n1
  /\ (r2 # 0 \/ n2 # 0)
  /\ r1 > 0 => r2 > 0
  /\ r1 < 0 => r2 < 0
  /\ r1 = 0 => r2 = 0

---------------------------------------------------------------------------
(* 64-bit numbers as four 16-bit limbs, least significant first (TLC has   *)
(* 32-bit integers).  LONGDATETIME = seconds since 1904-01-01T00:00:00Z.   *)
IsLimbs(a) == Len(a) = 4 /\ \A i \in 1..4 : IsU16(a[i])
Add64(a, b) ==
  LET s1 == a[1] + b[1]
      s2 == a[2] + b[2] + s1 \div 65536
      s3 == a[3] + b[3] + s2 \div 65536
      s4 == a[4] + b[4] + s3 \div 65536
  IN <<s1 % 65536, s2 % 65536, s3 % 65536, s4 % 65536>>
Neg64(a) == Add64(<<65535 - a[1], 65535 - a[2], 65535 - a[3], 65535 - a[4]>>, <<1, 0, 0, 0>>)
Sub64(a, b) == Add64(a, Neg64(b))
\* 2082844800 s from 1904-01-01 to 1970-01-01 (66 years, 17 of them leap years)
EpochDays  == 66 * 365 + 17
EpochLimbs == <<(EpochDays * 86400) % 65536, (EpochDays * 86400) \div 65536, 0, 0>>
ToMacTime(unix)  == Add64(unix, EpochLimbs)
FromMacTime(raw) == Sub64(raw, EpochLimbs)
Limbs4(t, k) == <<W(t, k + 3), W(t, k + 2), W(t, k + 1), W(t, k)>>   \* big-endian words -> limbs
Zero64 == <<0, 0, 0, 0>>

---------------------------------------------------------------------------
(* head: version 0-1, fontRevision 2-3, checksumAdjustment 4-5, magic 6-7,  *)
(* flags 8, unitsPerEm 9, created 10-13, modified 14-17, xMin 18, yMin 19, *)
(* xMax 20, yMax 21, macStyle 22, lowestRecPPEM 23, fontDirectionHint 24,   *)
(* indexToLocFormat 25, glyphDataFormat 26.                                 *)
(* flags: bit 0 baseline at y=0, bit 1 lsb point at x=0, bit 2 instructions *)
(* depend on point size, bit 4 instructions alter advance width.            *)
(* macStyle: bit 0 bold, 1 italic, 2 underline, 3 outline, 4 shadow,        *)
(* 5 condensed, 6 extended.                                                 *)
HeadWords == 27
MacStyleOf(f) == BitVal(f.bold, 0) + BitVal(f.italic, 1) + BitVal(f.shadow, 4)
                 + BitVal(f.cond, 5) + BitVal(f.ext, 6)
JudgeHeadBits(f, t) ==
  /\ Bit(W(t, 8), 0) = f.ybase
  /\ Bit(W(t, 8), 1) = f.xbase
  /\ (Bit(W(t, 8), 2) \/ Bit(W(t, 8), 4)) = f.nonlin      \* either non-linear-scaling bit
  /\ Bit(W(t, 22), 0) = f.bold
  /\ Bit(W(t, 22), 1) = f.italic
  /\ Bit(W(t, 22), 4) = f.shadow
  /\ Bit(W(t, 22), 5) = f.cond
  /\ Bit(W(t, 22), 6) = f.ext
JudgeTime(zero, unix, t, k) ==
  IF zero THEN TRUE                           \* "unset": the property fixes no encoding
  ELSE Limbs4(t, k) = ToMacTime(unix)
JudgeHead(f, t) ==
  /\ Len(t) = HeadWords /\ AllWords(t)
  /\ W(t, 0) = 1 /\ W(t, 1) = 0                             \* version 1.0
  /\ W(t, 6) = 24335 /\ W(t, 7) = 15605                     \* magic 0x5F0F3CF5
  /\ W(t, 2) = f.rev[1] /\ W(t, 3) = f.rev[2]
  /\ JudgeHeadBits(f, t)
  /\ W(t, 9) = f.upm
  /\ JudgeTime(f.czero, f.c, t, 10)
  /\ JudgeTime(f.mzero, f.m, t, 14)
  /\ <<SW(t, 18), SW(t, 19), SW(t, 20), SW(t, 21)>> = f.bbox
  /\ W(t, 23) = f.ppem
  /\ SW(t, 25) = f.loca
  /\ W(t, 26) = 0

---------------------------------------------------------------------------
(* maxp: version 0-1 (0.5 = 0x00005000 without, 1.0 with the TrueType       *)
(* maxima), numGlyphs 2, then maxPoints, maxContours, maxCompositePoints,   *)
(* maxCompositeContours, maxZones, maxTwilightPoints, maxStorage,           *)
(* maxFunctionDefs, maxInstructionDefs, maxStackElements,                   *)
(* maxSizeOfInstructions, maxComponentElements, maxComponentDepth (3..15).  *)
MaxpNames == <<"MaxPoints", "MaxContours", "MaxCompositePoints", "MaxCompositeContours", "MaxZones",
               "MaxTwilightPoints", "MaxStorage", "MaxFunctionDefs", "MaxInstructionDefs",
               "MaxStackElements", "MaxSizeOfInstructions", "MaxComponentElements", "MaxComponentDepth">>
JudgeMaxp(f, t) ==
  /\ AllWords(t)
  /\ W(t, 2) = f.n /\ f.n >= 1
  /\ IF f.ttf
       THEN /\ Len(t) = 16 /\ W(t, 0) = 1 /\ W(t, 1) = 0
            /\ \A i \in 1..13 : W(t, 2 + i) = f.t[MaxpNames[i]]
       ELSE /\ Len(t) = 3 /\ W(t, 0) = 0 /\ W(t, 1) = 20480

---------------------------------------------------------------------------
(* OS/2 (version 4): version 0, xAvgCharWidth 1, usWeightClass 2,           *)
(* usWidthClass 3, fsType 4, ... sFamilyClass 15, panose 16-20,             *)
(* ulUnicodeRange 21-28, achVendID 29-30, fsSelection 31,                   *)
(* usFirstCharIndex 32, usLastCharIndex 33, sTypoAscender 34,               *)
(* sTypoDescender 35, sTypoLineGap 36, usWinAscent 37, usWinDescent 38,     *)
(* ulCodePageRange1 39-40, ulCodePageRange2 41-42, sxHeight 43,             *)
(* sCapHeight 44, usDefaultChar 45, usBreakChar 46, usMaxContext 47.        *)
(* fsSelection: bit 0 ITALIC, 5 BOLD, 6 REGULAR, 9 OBLIQUE (version >= 4);  *)
(* REGULAR excludes ITALIC and BOLD.                                        *)
(* fsType: usage in bits 0-3 (0 installable, 2 restricted, 4 preview &      *)
(* print, 8 editable), bit 8 no subsetting, bit 9 bitmap embedding only.    *)
UsageOf(p) == CASE p = "install" -> 0 [] p = "restricted" -> 2 [] p = "view" -> 4 [] p = "edit" -> 8
StyleConsistent(f) == f.regular => (~f.bold /\ ~f.italic)
SelWellFormed(sel) == Bit(sel, 6) => (~Bit(sel, 0) /\ ~Bit(sel, 5))
JudgeSel(f, sel) ==
  /\ SelWellFormed(sel)
  /\ Bit(sel, 9) = f.oblique
  /\ StyleConsistent(f) => /\ Bit(sel, 0) = f.italic
                           /\ Bit(sel, 5) = f.bold
                           /\ Bit(sel, 6) = f.regular
JudgeType(f, ty) ==
  /\ ty % 16 = UsageOf(f.perm)
  /\ Bit(ty, 8) = f.nosub
  /\ Bit(ty, 9) = f.bmp
\* code page bit i (0..63): bits 0-31 in ulCodePageRange1, 32-63 in ulCodePageRange2; each
\* ULONG is two words, high word first
CodePageWord(i) == IF i < 16 THEN 40 ELSE IF i < 32 THEN 39 ELSE IF i < 48 THEN 42 ELSE 41
CodePagesOf(t)  == {i \in 0..63 : Bit(W(t, CodePageWord(i)), i % 16)}
JudgeOS2(f, t) ==
  /\ Len(t) >= 48 /\ AllWords(t)
  /\ W(t, 0) >= 2 /\ (f.oblique => W(t, 0) >= 4)        \* code pages need version 2, OBLIQUE version 4
  /\ JudgeSel(f, W(t, 31))
  /\ JudgeType(f, W(t, 4))
  /\ CodePagesOf(t) = f.cp
  /\ SW(t, 1) = f.avg
  /\ W(t, 32) = f.first /\ W(t, 33) = f.last
  /\ SW(t, 34) = f.asc /\ SW(t, 35) = f.desc /\ SW(t, 36) = f.gap

---------------------------------------------------------------------------
(* post: version 0-1, italicAngle 2-3 (16.16), underlinePosition 4,         *)
(* underlineThickness 5, isFixedPitch 6-7 (non-zero = monospaced).          *)
JudgePost(f, t) ==
  /\ Len(t) >= 16 /\ AllWords(t)
  /\ W(t, 2) = f.ahi /\ W(t, 3) = f.alo
  /\ SW(t, 4) = f.upos /\ SW(t, 5) = f.uthick
  /\ (W(t, 6) # 0 \/ W(t, 7) # 0) = f.fixed

---------------------------------------------------------------------------
(* Derived fields of a whole font and the font's metric queries.           *)

\* xAvgCharWidth: arithmetic average of the advance widths of all glyphs of non-zero width
\* (rounding of the average is not fixed: anything strictly within one unit).  wlo/whi = lower
\* and upper bounds of the advance widths; for a written file both are the integers of its hmtx.
\* Float widths of a font value (CFF): hmtx holds integers, the library truncates (write.go
\* makeHmtx and makeOS2 alike); the property fixes no rounding mode, so floor or ceil is accepted
\* in hmtx - but advanceWidthMax, the side bearing aggregates and xAvgCharWidth are all judged
\* against the hmtx words of the same file, and a second write/read cycle must not change them.
\* Advance widths are unsigned in the file format: negative widths are outside the domain.
AvgOK(avg, wlo, whi) ==
  LET n   == Len(whi)
      cnt == SeqSum([i \in 1..n |-> IF whi[i] > 0 THEN 1 ELSE 0])
      sLo == SeqSum([i \in 1..n |-> IF whi[i] > 0 THEN wlo[i] ELSE 0])
      sHi == SeqSum([i \in 1..n |-> IF whi[i] > 0 THEN whi[i] ELSE 0])
  IN cnt > 0 => (avg * cnt > sLo - cnt /\ avg * cnt < sHi + cnt)

\* usFirstCharIndex / usLastCharIndex: smallest / largest mapped code, 0xFFFF when beyond the BMP
FirstCharDef(codes) == Min2(SetMin(codes), 65535)
LastCharDef(codes)  == Min2(SetMax(codes), 65535)

\* floor(x * 10^6 / upm) for x >= 0 given in half units x2 = 2x, without leaving 32 bits
MicroN(x2, upm) == LET a == x2 * 500 IN (a \div upm) * 1000 + ((a % upm) * 1000) \div upm
Micro(x2, upm)  == IF x2 >= 0 THEN MicroN(x2, upm) ELSE -MicroN(-x2, upm)
\* the same for x >= 0 given in units of 1/20 (xq = 20x)
MicroQ(xq, upm) == LET a == xq * 50 IN (a \div upm) * 1000 + ((a % upm) * 1000) \div upm
Near(a, b) == Abs(a - b) <= 1

\* sandwich: a glyph box must contain every on-curve point (on = box of the on-curve points
\* rounded outward) and lie inside the box of all points including control points
Sandwich(b, on, all) ==
  /\ b[1] <= on[1] /\ b[2] <= on[2] /\ b[3] >= on[3] /\ b[4] >= on[4]
  /\ b[1] >= all[1] /\ b[2] >= all[2] /\ b[3] <= all[3] /\ b[4] <= all[4]
\* the same in micro units (q = reported box times 10^6/upm, rounded): onin = on-curve box
\* rounded inward, all = all-points box rounded outward
SandwichMicro(q, onin, all, upm) ==
  /\ q[1] <= Micro(2 * onin[1], upm) + 1 /\ q[2] <= Micro(2 * onin[2], upm) + 1
  /\ q[3] >= Micro(2 * onin[3], upm) - 1 /\ q[4] >= Micro(2 * onin[4], upm) - 1
  /\ q[1] >= Micro(2 * all[1], upm) - 1 /\ q[2] >= Micro(2 * all[2], upm) - 1
  /\ q[3] <= Micro(2 * all[3], upm) + 1 /\ q[4] <= Micro(2 * all[4], upm) + 1

\* General affine font matrix, written as six integers N over a common denominator D (decimal
\* matrices: D = 10^6; plain scaling by 1/unitsPerEm: N = <<1,0,0,1,0,0>>, D = unitsPerEm):
\*   (x, y) |-> ((N[1] x + N[3] y + N[5]) / D, (N[2] x + N[4] y + N[6]) / D)     (text space)
\* Query results are logged in units of 10^-6 of text space (= 10^-3 PDF glyph space units).
ImgX(N, x, y) == N[1] * x + N[3] * y + N[5]
ImgY(N, x, y) == N[2] * x + N[4] * y + N[6]
\* T * 10^6 / D, rounded toward zero, inside 32 bits
Scale6N(T, D) == IF 1000000 % D = 0 THEN T * (1000000 \div D)
                 ELSE LET a == T * 1000 IN (a \div D) * 1000 + ((a % D) * 1000) \div D
Scale6(T, D)  == IF T >= 0 THEN Scale6N(T, D) ELSE -Scale6N(-T, D)
\* bounding box (micro units) of the images of a set of points <<x, y>>
ImgBoxOf(N, D, P) ==
  <<Scale6(SetMin({ImgX(N, p[1], p[2]) : p \in P}), D), Scale6(SetMin({ImgY(N, p[1], p[2]) : p \in P}), D),
    Scale6(SetMax({ImgX(N, p[1], p[2]) : p \in P}), D), Scale6(SetMax({ImgY(N, p[1], p[2]) : p \in P}), D)>>
Corners(b) == {<<b[1], b[2]>>, <<b[1], b[4]>>, <<b[3], b[2]>>, <<b[3], b[4]>>}
ImgBox(N, D, b) == ImgBoxOf(N, D, Corners(b))       \* image of a box = box of its corner images
Sheared(N) == N[2] # 0 \/ N[3] # 0
\* sandwich in PDF units: the reported box q contains the image of every on-curve point (inner) and
\* lies inside the image of the box of all points (outer).  Without shear the image of the on-curve
\* box is exact; with shear/rotation the on-curve points themselves (onpts) are mapped.
SandwichPDF(q, inner, outer) ==
  /\ q[1] <= inner[1] + 1 /\ q[2] <= inner[2] + 1 /\ q[3] >= inner[3] - 1 /\ q[4] >= inner[4] - 1
  /\ q[1] >= outer[1] - 1 /\ q[2] >= outer[2] - 1 /\ q[3] <= outer[3] + 1 /\ q[4] <= outer[4] + 1
\* advance width w (wq = 20 w) in text space: the horizontal scale N[1]/D times w
WidthMicro(N, D, wq) ==
  IF D = 1000000 THEN (IF N[1] * wq >= 0 THEN (N[1] * wq) \div 20 ELSE -((-(N[1] * wq)) \div 20))
  ELSE LET a == N[1] * wq * 50 IN (a \div D) * 1000 + ((a % D) * 1000) \div D

\* fixed pitch ("all glyphs have the same advance width"), widths wq in units of 1/20:
\* certainly fixed when all widths are equal and non-zero, certainly not when two non-zero widths
\* differ by a whole unit or more - however the glyphs are ordered and however small the steps
\* between neighbours are; in between (zero-width marks among equal widths, spread below one
\* unit) the property fixes no answer
AllEqual(wq) == \A i \in 1..Len(wq) : wq[i] = wq[1]
ClearlyProportional(wq) ==
  \E i, j \in 1..Len(wq) : wq[i] > 0 /\ wq[j] > 0 /\ wq[j] - wq[i] >= 20
FixedPitchOK(fixed, wq) ==
  /\ AllEqual(wq) /\ wq[1] > 0 => fixed
  /\ ClearlyProportional(wq) => ~fixed
=============================================================================
