\* the layout function on size vectors around 64 KiB / 128 KiB (real sizes)
CONSTANTS
  Kind = "loca"
  Salt = 1
  MaxRuns = 0
  MaxComps = 0
  MaxGlyphs = 4
  MaxSteps = 0
  FinishFull = TRUE
  With256 = FALSE
  Targets = {}
  SharedBuf = FALSE
INIT Init
NEXT Next
INVARIANT LocaLayout
CHECK_DEADLOCK FALSE
