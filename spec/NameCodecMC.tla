----------------------------- MODULE NameCodecMC -----------------------------
(***************************************************************************)
(* C14.  Model values for NameCodec.tla (tuples cannot be written in a cfg). *)
(***************************************************************************)
EXTENDS NameCodec

\* two Macintosh and two Windows records; strings chosen so that encoded forms are equal
\* across platforms, prefixes and suffixes of each other
MCKeys    == {<<1, 0, 1>>, <<1, 0, 2>>, <<3, 1033, 1>>, <<3, 1033, 2>>}
MCMacStrs == {<<65>>, <<65, 66>>, <<66>>, <<196, 66>>}          \* "A", "AB" (41 42), "B", A-dieresis "B" (80 42)
MCWinStrs == {<<65>>, <<16706>>, <<65, 66>>, <<128512>>}        \* 00 41 | 41 42 | 00 41 00 42 | D8 3D DE 00
\* thorough tier: a third Windows record (second language), three strings per platform
MCKeys3    == MCKeys \cup {<<3, 1031, 1>>}
MCMacStrs3 == {<<65>>, <<65, 66>>, <<66>>}
MCWinStrs3 == {<<65>>, <<16706>>, <<65, 66>>}

MCPStd    == <<<<1>>, <<2>>, <<1, 2>>>>
MCPNames  == {<<1>>, <<2>>, <<1, 2>>, <<>>, <<3>>, <<2, 1>>}

MCUnits   == {0, 65, 55295, 55296, 56319, 56320, 57343, 57344, 65533, 65535}
MCCps     == {0, 65, 127, 128, 255, 55295, 57344, 65533, 65535, 65536, 65537, 66559, 66560, 1113088, 1114111}

MCPairs   == {<<"beng", "BEN ">>, <<"bng2", "BEN ">>, <<"beng", "">>, <<"bng2", "">>, <<"latn", "DEU ">>, <<"DFLT", "">>}
MCBaseOf  == [p \in MCPairs |->
               CASE p[1] \in {"beng", "bng2"} /\ p[2] = "BEN " -> "bn-Beng"
                 [] p[1] \in {"beng", "bng2"} -> "und-Beng"
                 [] p[1] = "latn" -> "de-Latn"
                 [] OTHER -> "und-Zzzz"]
=============================================================================
