CONSTANTS
  MaxTok = 2
  MaxStr = 1
  MaxRunes = 3
  MaxPeek = 1
  RuneKinds = {"p"}
  DecMode = "unbuffered"
  LineMode = "tracked"
  WithComments = FALSE
  CommentMode = "eofsafe"
  Pres = {"ok"}
  SpawnMode = "afterchecks"
SPECIFICATION Spec
INVARIANT TypeOK
INVARIANT SinkGood
CHECK_DEADLOCK TRUE
