CONSTANTS
  MaxTok = 2
  MaxStr = 1
  MaxRunes = 3
  MaxPeek = 1
  DecMode = "unbuffered"
  LineMode = "tracked"
SPECIFICATION Spec
INVARIANT TypeOK
INVARIANT SinkGood
CHECK_DEADLOCK TRUE
