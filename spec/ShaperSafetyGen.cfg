CONSTANTS
  NIn = 8
  MaxHist = 10
  Results = {"r"}
INIT InitGen
NEXT Next
INVARIANT Emit
CHECK_DEADLOCK FALSE
