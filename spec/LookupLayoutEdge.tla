-------------------------- MODULE LookupLayoutEdge --------------------------
(***************************************************************************)
(* C08, the 16-bit boundary of the lookup list layout, to the byte.         *)
(*                                                                         *)
(* LookupLayout.tla is model-checked over coarse subtable sizes (10, 100,   *)
(* 30000, 40000, ...): that decides the design, but a size estimate of the  *)
(* encoder that is off by one field (the markFilteringSet word, an offset   *)
(* per subtable, an extension record) only shows when a Lookup table or a   *)
(* subtable offset lands within a few bytes of 65536.  Here one subtable    *)
(* size s runs through EdgeSizes in steps of two bytes (all other           *)
(* subtables have a size from Sizes); TLC lays every plan out with the code *)
(* model and prints the plans in which a Lookup table position or a         *)
(* subtable offset of the final layout, or the running estimate the         *)
(* reordering loop compares with 0xFFFF, lies within Within bytes of 65536, *)
(* on either side.  The harness realises exactly those with real subtables  *)
(* of the planned sizes; LookupLayoutTrace judges the bytes.                *)
(***************************************************************************)
EXTENDS LookupLayout

CONSTANTS EdgeSizes,    \* the swept subtable sizes (even numbers)
          Within        \* report plans with a position / offset at most this far from 65536

LookupsOver(Z) == UNION {[mfs : MfsChoices, subs : [1..k -> Z], type : Types] : k \in 1..MaxSubs}
PlansOver(Z)   == UNION {[1..n -> LookupsOver(Z)] : n \in 1..MaxLookups}

EdgeInit == /\ \E s \in EdgeSizes :
                 /\ ll \in PlansOver(Sizes \cup {s})
                 /\ \E i \in DOMAIN ll : \E j \in DOMAIN ll[i].subs : ll[i].subs[j] = s
            /\ S \in ScriptSizes /\ F \in FeatSizes
            /\ pc = "start" /\ chunks = <<>> /\ order = <<>> /\ lastPos = 0
            /\ repl = {} /\ big = 0 /\ tooLarge = FALSE /\ res = NoRes

Dist(v) == IF v > 65536 THEN v - 65536 ELSE 65536 - v
NearSet == {Dist(res.tpos[i]) : i \in 1..N}
             \cup UNION {{Dist(res.rpos[i][j] - res.tpos[i]) : j \in 1..Len(ll[i].subs)} : i \in 1..N}
NearVal == CHOOSE d \in NearSet : \A e \in NearSet : d <= e

\* (a) the final layout has a position or offset next to 65536; (b) while reordering, the encoder's running
\* estimate of the position of the biggest lookup (lastPos, compared with 0xFFFF to decide whether one more lookup
\* must give way to extension records) is next to 65536 -- the final layout of such a plan may be far from it
EmitEdge ==
  /\ (pc = "done" /\ NearVal <= Within) =>
       PrintT(<<"CASE", ToJson([ ll |-> ll, S |-> S, F |-> F, model |-> Verdict,
                                 representable |-> Representable(ll) /\ HeaderFits(S, F),
                                 tooLarge |-> tooLarge, big |-> big, nrepl |-> Cardinality(repl),
                                 total |-> res.total, near |-> NearVal, at |-> "layout" ])>>)
  /\ (pc = "loop" /\ Dist(lastPos) <= Within) =>
       PrintT(<<"CASE", ToJson([ ll |-> ll, S |-> S, F |-> F, model |-> "ok",
                                 representable |-> Representable(ll) /\ HeaderFits(S, F),
                                 tooLarge |-> TRUE, big |-> big, nrepl |-> Cardinality(repl),
                                 total |-> 0, near |-> Dist(lastPos), at |-> "estimate" ])>>)
=============================================================================
