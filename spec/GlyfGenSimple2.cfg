\* generation (R binding): simple glyphs: all pairs of flag runs, one finish per shape (selected by Salt)
CONSTANTS
  Kind = "simple"
  Salt = 1
  MaxRuns = 2
  MaxComps = 0
  MaxGlyphs = 0
  MaxSteps = 0
  FinishFull = FALSE
  With256 = TRUE
  Targets = {}
  SharedBuf = FALSE
INIT Init
NEXT Next
INVARIANT EncodeDecode
INVARIANT PointsMeaning
INVARIANT LocaInv
INVARIANT Emit
CHECK_DEADLOCK FALSE
