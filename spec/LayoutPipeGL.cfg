CONSTANTS
  Mode = "layout"
  Gen = TRUE
  CmapMenu <- GLCmapMenu
  WidthMenu <- GLWidthMenu
  MarkMenu <- GLMarkMenu
  PlanMenu <- GLPlanMenu
  GsubMenu <- GLGsubMenu
  GposMenu <- GLGposMenu
  FeatTagsG <- GLFeatTagsG
  FeatTagsP <- GLFeatTagsP
  LkMenu <- GLLkMenu
  ReqMenu <- GLReqMenu
  OptMenu <- GLOptMenu
  TagPool <- SmallPool
  ReqPool <- GLReqPool
  SwMenuG <- GLSwMenuG
  SwMenuP <- GLSwMenuP
  FlagMenu <- NoFlags
  PairsMenu <- NoPairs
  Chars <- GLChars
  Words <- GLWords
  MaxStr = 6
  MaxCalls = 5
INIT Init
NEXT Next
INVARIANT SelectionOK
INVARIANT Conserved
INVARIANT WidthsOK
INVARIANT Composition
INVARIANT Stable
INVARIANT KernOK
INVARIANT KernExact
INVARIANT Emit
CHECK_DEADLOCK FALSE
