CONSTANT Seeds <- SeedsVal
INIT Init
NEXT Next
INVARIANT PlanOK
INVARIANT WalkIsPlan
INVARIANT Emit
CHECK_DEADLOCK FALSE
