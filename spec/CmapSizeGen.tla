---------------------------- MODULE CmapSizeGen ----------------------------
(***************************************************************************)
(* C09, the size law of format 4 at the 16-bit length boundary.  A format 4 *)
(* subtable stores its length in 16 bits, so a map is in the domain of the  *)
(* property iff SOME encoding of it has at most 65535 bytes.  Families of   *)
(* maps whose tightest encoding is known in closed form:                    *)
(*                                                                         *)
(*   pairs(n, d)    n pairs of codes {c, c+d}, pairs 12 apart, glyphs not   *)
(*                  delta-consistent: per pair min(two delta segments = 16, *)
(*                  one array over d+1 codes = 8 + 2(d+1)) bytes            *)
(*   singles(n, k)  n codes k >= 5 apart: 8 bytes each                      *)
(*   runs(n, L)     n runs of L permuted codes, 6 apart: 8 + 2L bytes each  *)
(*                                                                         *)
(* plus 16 bytes of header and 8 for the final 0xFFFF segment.  Tight(f)    *)
(* is that closed form; TightOK has TLC compare it, for small n, with the   *)
(* size of the spec's reference encoding Build4(RefSegs(m)) and with every  *)
(* pair-wise alternative (array instead of deltas).  For each family TLC    *)
(* picks the largest n with Tight <= 65535 (in the domain: the encoder must *)
(* produce a well-formed table -- length field = real length -- that        *)
(* decodes to the map) and the next n beyond it (outside the domain: only   *)
(* a note when the length field wraps silently).  Minimality of the         *)
(* library's output is NOT demanded (the repository does not promise it).   *)
(***************************************************************************)
EXTENDS Cmap, Json

CONSTANTS SmallN,         \* TightOK: families up to this many items
          Steps           \* how far below the largest fitting n (0 = the largest)
VARIABLES fam, rec, done
vars == <<fam, rec, done>>

Gid(c) == ((7 * c + 3) % 65535) + 1            \* never 0, never delta-consistent on neighbours
PermGid(c, i, L) == 1000 + 40 * ((c \div 16) % 1000) + (L - i)   \* a run of L codes, glyphs descending

Families == [k : {"pairs"}, p : {3, 4, 5}] \cup [k : {"singles"}, p : {5, 8}] \cup [k : {"runs"}, p : {6, 8}]

PerItem(f) == CASE f.k = "pairs"   -> IF 8 + 2 * (f.p + 1) < 16 THEN 8 + 2 * (f.p + 1) ELSE 16
                 [] f.k = "singles" -> 8
                 [] f.k = "runs"    -> 8 + 2 * f.p
Stride(f)  == CASE f.k = "pairs" -> f.p + 7 [] f.k = "singles" -> f.p [] f.k = "runs" -> f.p + 6
Tight(f, n) == 16 + 8 + n * PerItem(f)
MaxN(f) == (65535 - 24) \div PerItem(f)

\* the map as closed forms of the entry index t (1-based), first item at code 32
Per(f) == CASE f.k = "pairs" -> 2 [] f.k = "singles" -> 1 [] f.k = "runs" -> f.p
CodeAt(f, t) ==
  LET j == (t - 1) \div Per(f)
      i == (t - 1) % Per(f)
      c == 32 + j * Stride(f)
  IN IF f.k = "pairs" THEN c + i * f.p ELSE c + i
GidAt(f, t) ==
  LET j == (t - 1) \div Per(f)
      i == (t - 1) % Per(f)
      c == 32 + j * Stride(f)
  IN IF f.k = "runs" THEN PermGid(c, i + 1, f.p) ELSE Gid(CodeAt(f, t))
Codes(f, n) == [t \in 1..n * Per(f) |-> CodeAt(f, t)]
Gids(f, n)  == [t \in 1..n * Per(f) |-> GidAt(f, t)]
MapOf(f, n) == [t \in 1..n * Per(f) |-> <<CodeAt(f, t), GidAt(f, t)>>]
Fits(f, n) == 32 + n * Stride(f) < 65535

Init == fam \in Families /\ rec = <<>> /\ done = FALSE
Finish == /\ ~done
          /\ \E dn \in Steps : \E beyond \in {FALSE, TRUE} :
               LET n == IF beyond THEN MaxN(fam) + 1 + dn ELSE MaxN(fam) - dn
               IN /\ Fits(fam, n) /\ (beyond => dn <= 1)
                  /\ rec' = [kind |-> "size", family |-> fam.k, p |-> fam.p, n |-> n, tight |-> Tight(fam, n),
                             dom |-> IF Tight(fam, n) <= 65535 THEN 1 ELSE 0,
                             ic |-> Codes(fam, n), ig |-> Gids(fam, n)]
          /\ done' = TRUE /\ UNCHANGED fam
Next == Finish
Spec == Init /\ [][Next]_vars

\* the closed form is the size of the reference encoding, for small members of every family
TightOK == \A n \in 1..SmallN :
  LET m == MapOf(fam, n)
      w == Build4(RefSegs(m), 0)
      alt == Build4(ArrSegs(m, 0), 0)
  IN /\ WF4(w, 0) /\ Agree4(w, m)
     /\ 2 * Len(w) = Tight(fam, n)
     /\ 2 * Len(alt) >= Tight(fam, n)
SizeOK == done => /\ (rec.dom = 1 <=> rec.tight <= 65535)
                  /\ Len(rec.ic) = Len(rec.ig) /\ \A i \in 2..Len(rec.ic) : rec.ic[i - 1] < rec.ic[i]
                  /\ rec.ic[Len(rec.ic)] < 65535

Emit == done => PrintT(<<"CASE", ToJson(rec)>>)
=============================================================================
