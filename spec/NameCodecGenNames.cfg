CONSTANTS
  Parts = {"names"}
  MaxE = 6
  MaxUnits = 0
  MaxGlyphs = 0
INIT Init
NEXT Next
INVARIANT Emit
CHECK_DEADLOCK FALSE
