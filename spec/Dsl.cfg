CONSTANTS
  Fonts = {"nc", "c", "np", "cp", "n", "x", "e"}
  MaxSub = 2
  Full = FALSE
INIT Init
NEXT Next
INVARIANT TypeOK
INVARIANT Emit
CHECK_DEADLOCK FALSE
