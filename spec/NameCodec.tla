------------------------------ MODULE NameCodec ------------------------------
(***************************************************************************)
(* C14.  Names, glyph names and language tags survive their encodings.     *)
(*                                                                         *)
(* Four small machines over the operators of NameCodecOps, selected by     *)
(* the constant Part (one TLC run each; checks/C14.py):                    *)
(*                                                                         *)
(*  "name"   name.Info -> records + string storage -> name.Info            *)
(*           (name/name.go Encode 145-266, Decode 44-142).  One action per *)
(*           string added to the storage (nameBuilder.Add), with EVERY     *)
(*           placement the format allows: appended, shared with equal      *)
(*           bytes already present anywhere in the storage, or overlapping *)
(*           its tail.  Sharing is by content, allowed and never required. *)
(*           Then one action per record read back.                         *)
(*  "post"   glyph-name list -> format 1 / 2 / 3 bytes -> list             *)
(*           (post/post.go Encode 118-170, Read 46-115), format 2 with the *)
(*           choice of re-using an equal Pascal string or writing it again.*)
(*  "posth"  the same table as an OBJECT with a history: the list handed to  *)
(*           Encode may come from an earlier Read and alias storage the    *)
(*           package owns (post.Read returns its shared standard-name      *)
(*           slice for version 1 tables, post/post.go 62).  Actions Fresh  *)
(*           (Init), Encode, Read, Slice(i, j), Append, Mutate; state =    *)
(*           the VALUE of the caller's list and WHICH STORAGE it aliases.  *)
(*           What Encode writes is a function of the value alone.  Every   *)
(*           history of MaxOps calls is printed for replay (HistEmit).     *)
(*  "codech" the codec API as an object with a history: mac.Encode returns a *)
(*           byte slice, name.Info.Encode a table, the decoders strings:   *)
(*           a result handed out by an earlier call must keep its value    *)
(*           whatever is called later (no result may live in storage a     *)
(*           later call writes).  Actions ME / MD / NE / ND with lengths   *)
(*           around a plausible scratch-buffer size; every history of      *)
(*           CMaxOps calls is printed for replay (CodecHistEmit).          *)
(*  "codec"  every short sequence of boundary code units / code points and *)
(*           every byte: the codecs invert each other on their domains.    *)
(*  "tags"   OpenType (script, language) pairs -> BCP 47 tag with a        *)
(*           private-use part carrying the pair -> pair                    *)
(*           (opentype/gtab/locale.go 26-106), and why the private-use     *)
(*           part is needed: the base tag alone is not injective.          *)
(***************************************************************************)
EXTENDS Integers, Sequences, FiniteSets, TLC, Json, SequencesExt, NameCodecOps

CONSTANTS Part,
          Keys,      \* "name": set of <<platform, language id, name id>>
          FieldMax,  \* "name": largest value of the offset and length fields, 2^W - 1 (W = 16 in the format,
                     \*         W = 3 in the model: the laws below are laws of the field width)
          DecWraps,  \* "name": the reader computes offset+length in W bits (the design this machine rules out)
          MacStrs,   \* "name": strings available to Macintosh records
          WinStrs,   \* "name": strings available to Windows records
          PStd,      \* "post": the standard list of the model
          PNames,    \* "post": names a glyph can have
          PMaxLen,   \* "post": longest glyph list
          CUnits,    \* "codec": boundary code units
          CCps,      \* "codec": boundary code points
          MaxOps,    \* "posth": length of the call histories
          AllowSharedMutation,  \* "posth": may the caller write into storage the package owns? (contract: no)
          CMaxOps,   \* "codech": length of the call histories
          AllowScratchReuse,    \* "codech": may a short result live in a buffer the next call overwrites? (no)
          Pairs,     \* "tags": set of <<script, language>> (model values)
          BaseOf     \* "tags": function Pairs -> base tag (not injective)

VARIABLES
  src,    \* name: [Keys -> string], <<>> = absent
  todo,   \* name: keys not yet written
  recs,   \* name: records written, each [p, e, l, n, off, len]
  stor,   \* name: string storage
  dec,    \* name: [Keys -> string] read back
  ph,     \* phase of the selected machine
  gl,     \* post: [nil, names]: the glyph-name list (nil = the font has no glyph names)
  pidx,   \* post: glyphNameIndex built so far
  pstr,   \* post: Pascal strings written so far
  pbytes, \* post: the encoded table
  pdec,   \* post: [nil, names] read back
  cw      \* codec / tags: the value under test

vars == <<src, todo, recs, stor, dec, ph, gl, pidx, pstr, pbytes, pdec, cw>>

EncOf(k) == IF k[1] = 1 THEN 0 ELSE 1          \* encoding id written for platform k[1]

---------------------------------------------------------------------------
(* "name" *)

NameInit ==
  /\ src \in [Keys -> {<<>>} \cup MacStrs \cup WinStrs]
  /\ \A k \in Keys : src[k] = <<>> \/ (IF k[1] = 1 THEN src[k] \in MacStrs ELSE src[k] \in WinStrs)
  /\ todo = {k \in Keys : src[k] # <<>>}
  /\ recs = <<>> /\ stor = <<>> /\ dec = [k \in Keys |-> <<>>] /\ ph = "enc"

\* nameBuilder.Add: bytes b placed at offset off; the part of b inside the storage must
\* already be there (content!), the rest is appended.  Offset and length are W-bit fields:
\* a placement whose offset or length does not fit the field does not exist.  (offset + length
\* may well exceed the field range: a string may start below 2^W and end beyond it.)
Inside(b, off) == IF off + Len(b) <= Len(stor) THEN Len(b) ELSE Len(stor) - off
CanPlace(b, off) ==
  /\ off <= FieldMax /\ Len(b) <= FieldMax
  /\ SubSeq(stor, off + 1, off + Inside(b, off)) = SubSeq(b, 1, Inside(b, off))
Place(b, off) ==
  /\ CanPlace(b, off)
  /\ stor' = stor \o SubSeq(b, Inside(b, off) + 1, Len(b))

EncAdd ==
  /\ ph = "enc"
  /\ \E k \in todo :
       LET b == Payload(k[1], src[k]) IN
       \E off \in 0..Len(stor) :
         /\ Place(b, off)
         /\ recs' = Append(recs, [p |-> k[1], e |-> EncOf(k), l |-> k[2], n |-> k[3],
                                  off |-> off, len |-> Len(b)])
         /\ todo' = todo \ {k}
  /\ UNCHANGED <<src, dec, ph>>

\* a string that cannot be placed anywhere within the field range: the encoder refuses the whole
\* table (it must not write an offset modulo 2^W)
EncRefuse ==
  /\ ph = "enc"
  /\ \E k \in todo : \A off \in 0..Len(stor) : ~CanPlace(Payload(k[1], src[k]), off)
  /\ ph' = "refused"
  /\ UNCHANGED <<src, todo, recs, stor, dec>>

EncDone == ph = "enc" /\ todo = {} /\ ph' = "dec" /\ UNCHANGED <<src, todo, recs, stor, dec>>

\* Decode: records are read in order; only understood platform/encoding pairs are kept
DecStep ==
  /\ ph = "dec" /\ Len(recs) > 0
  /\ LET r    == Head(recs)
         \* the end of the string is offset + length as a NUMBER (up to 2 * FieldMax), not as a field
         end  == IF DecWraps THEN (r.off + r.len) % (FieldMax + 1) ELSE r.off + r.len
         b    == SubSeq(stor, r.off + 1, end)
     IN  IF end < r.off \/ end > Len(stor)
           THEN ph' = "panic" /\ UNCHANGED <<dec, recs>>          \* slice bounds out of range
           ELSE /\ dec' = IF Understood(r.p, r.e)
                            THEN [dec EXCEPT ![<<r.p, r.l, r.n>>] = DecodeBytes(r.p, b)]
                            ELSE dec
                /\ recs' = Tail(recs)
                /\ ph' = ph
  /\ UNCHANGED <<src, todo, stor>>

DecDone == ph = "dec" /\ recs = <<>> /\ ph' = "done" /\ UNCHANGED <<src, todo, recs, stor, dec>>

NameNext == EncAdd \/ EncRefuse \/ EncDone \/ DecStep \/ DecDone

\* offsets and lengths fit their fields; nothing is ever written modulo 2^W
FieldsFit == \A i \in 1..Len(recs) : recs[i].off <= FieldMax /\ recs[i].len <= FieldMax
\* the reader never slices out of range (it would, if it added offset and length in W bits)
NoPanic == ph # "panic"
\* the encoder refuses only what no placement can hold: the next free offset is beyond the field
RefusalJustified == ph = "refused" => Len(stor) > FieldMax
\* every record lies inside the storage area
RecordsInside == \A i \in 1..Len(recs) : recs[i].off >= 0 /\ recs[i].off + recs[i].len <= Len(stor)
\* the bytes a record points at are the encoding of the string it stands for
RecordsFaithful ==
  ph \in {"enc", "dec"} =>
    \A i \in 1..Len(recs) :
      LET r == recs[i] IN
      DecodesTo(r.p, r.e, SubSeq(stor, r.off + 1, r.off + r.len), src[<<r.p, r.l, r.n>>])
\* no byte of the storage is unused, and sharing never makes it longer than no sharing
StorageTight ==
  ph = "enc" =>
    /\ \A j \in 1..Len(stor) : \E i \in 1..Len(recs) : recs[i].off < j /\ j <= recs[i].off + recs[i].len
    /\ Len(stor) <= FoldLeft(LAMBDA a, r : a + r.len, 0, recs)
\* strings survive
NameRoundTrip == ph = "done" => dec = src

---------------------------------------------------------------------------
(* "post" *)

Seqs(S, n) == UNION {[1..m -> S] : m \in 0..n}
NoNames == [nil |-> TRUE, names |-> <<>>]
NStd == Len(PStd)
StdIndex(nm) == CHOOSE q \in 1..NStd : PStd[q] = nm
IsStd(nm) == \E q \in 1..NStd : PStd[q] = nm

PostInit ==
  /\ gl \in {NoNames} \cup {[nil |-> FALSE, names |-> s] : s \in Seqs(PNames, PMaxLen) \cup {PStd}}
  /\ pidx = <<>> /\ pstr = <<>> /\ pbytes = <<>> /\ pdec = NoNames /\ ph = "enc"

\* format choice of the "post" chapter: 3 carries no names, 1 is exactly the standard list
FormatOf(g) == IF g.nil THEN 3 ELSE IF g.names = PStd THEN 1 ELSE 2

Header(v) == <<0, v, 0, 0>>          \* version 16.16; the other 28 header bytes are not modelled
PascalFrame(strs) == FoldLeft(LAMBDA acc, s : acc \o <<Len(s)>> \o s, <<>>, strs)

\* one glyph of a format-2 table: standard index, or a string (re-used or new)
PostAdd ==
  /\ ph = "enc" /\ FormatOf(gl) = 2 /\ Len(pidx) < Len(gl.names)
  /\ LET nm == gl.names[Len(pidx) + 1] IN
       IF IsStd(nm)
         THEN pidx' = Append(pidx, StdIndex(nm) - 1) /\ pstr' = pstr
         ELSE \/ \E k \in 1..Len(pstr) : pstr[k] = nm /\ pidx' = Append(pidx, NStd + k - 1) /\ pstr' = pstr
              \/ pidx' = Append(pidx, NStd + Len(pstr)) /\ pstr' = Append(pstr, nm)
  /\ UNCHANGED <<gl, pbytes, pdec, ph>>

PostEmit ==
  /\ ph = "enc" /\ (FormatOf(gl) = 2 => Len(pidx) = Len(gl.names))
  /\ pbytes' = IF FormatOf(gl) = 2
                 THEN Header(2) \o BE(<<Len(pidx)>>) \o BE(pidx) \o PascalFrame(pstr)
                 ELSE Header(FormatOf(gl))
  /\ ph' = "dec"
  /\ UNCHANGED <<gl, pidx, pstr, pdec>>

\* reader: parse the Pascal-string area (small model: recursion is fine here)
RECURSIVE PascalParse(_)
PascalParse(b) == IF b = <<>> THEN <<>>
                  ELSE IF Len(b) < 1 + b[1] THEN <<"bad">>
                  ELSE <<SubSeq(b, 2, 1 + b[1])>> \o PascalParse(SubSeq(b, 2 + b[1], Len(b)))

PostRead ==
  /\ ph = "dec"
  /\ LET v == pbytes[2] IN
       IF v = 2
         THEN LET n     == UnBE(SubSeq(pbytes, 5, 6))[1]
                  index == UnBE(SubSeq(pbytes, 7, 6 + 2 * n))
                  strs  == PascalParse(SubSeq(pbytes, 7 + 2 * n, Len(pbytes)))
              IN  /\ PostIndexOK(PStd, index, strs)
                  /\ pdec' = [nil |-> FALSE, names |-> PostNames(PStd, index, strs)]
         ELSE pdec' = IF v = 1 THEN [nil |-> FALSE, names |-> PStd] ELSE NoNames
  /\ ph' = "done"
  /\ UNCHANGED <<gl, pidx, pstr, pbytes>>

PostNext == PostAdd \/ PostEmit \/ PostRead

PostRoundTrip == ph = "done" => pdec = gl
\* custom names get indices from Len(std) upwards, in the order of their strings
PostIndexRule ==
  \A i \in 1..Len(pidx) : IF IsStd(gl.names[i]) THEN pidx[i] < NStd
                          ELSE pidx[i] >= NStd /\ pstr[pidx[i] - NStd + 1] = gl.names[i]
\* the reader never gets stuck on what the encoder wrote
PostReadable == ph = "dec" => ENABLED PostRead
\* the table has exactly the size the chapter says
PostSize == (ph = "dec" /\ FormatOf(gl) = 2) => Len(pbytes) = 4 + 2 + 2 * Len(gl.names) + PascalSize(pstr)

---------------------------------------------------------------------------
(* "posth": glyph-name lists with a history.                                  *)
(*   gl      the value of the list the caller holds                           *)
(*   cw.alias  which storage that list aliases: "fresh" (the caller's own),   *)
(*           "shared" (the package's standard-name slice, handed out by Read  *)
(*           of a version 1 table), "read" (allocated by Read of a version 2  *)
(*           table; the caller's from then on)                                *)
(*   cw.sh   content of the package's shared standard-name storage           *)
(*   cw.last value given to the last Encode; pbytes its result                *)
(*   cw.ops  the calls so far                                                 *)

\* deterministic spec-level encoder (no string re-use): a function of the VALUE of the list
EncIdx(names) ==
  FoldLeft(LAMBDA acc, nm : IF IsStd(nm) THEN [idx |-> Append(acc.idx, StdIndex(nm) - 1), strs |-> acc.strs]
                            ELSE [idx |-> Append(acc.idx, NStd + Len(acc.strs)), strs |-> Append(acc.strs, nm)],
           [idx |-> <<>>, strs |-> <<>>], names)
EncDet(g) == IF FormatOf(g) = 2
               THEN LET e == EncIdx(g.names) IN Header(2) \o BE(<<Len(e.idx)>>) \o BE(e.idx) \o PascalFrame(e.strs)
               ELSE Header(FormatOf(g))
\* reader; std is the content of the standard-name storage it looks names up in
DecWith(b, std) ==
  IF b[2] = 2
    THEN LET n     == UnBE(SubSeq(b, 5, 6))[1]
             index == UnBE(SubSeq(b, 7, 6 + 2 * n))
             strs  == PascalParse(SubSeq(b, 7 + 2 * n, Len(b)))
         IN  [nil |-> FALSE, names |-> PostNames(std, index, strs)]
    ELSE IF b[2] = 1 THEN [nil |-> FALSE, names |-> std] ELSE NoNames

HOp(o, a) == [op |-> o, a |-> a]
HInits == [std  |-> [nil |-> FALSE, names |-> PStd],
           stdp |-> [nil |-> FALSE, names |-> SubSeq(PStd, 1, NStd - 1)],
           cust |-> [nil |-> FALSE, names |-> <<<<3>>, <<2, 1>>>>],
           mix  |-> [nil |-> FALSE, names |-> <<PStd[2], <<3>>, PStd[1]>>],
           nil  |-> NoNames]

HistInit ==
  /\ \E i \in DOMAIN HInits :
       /\ gl = HInits[i]
       /\ cw = [k |-> "hist", alias |-> "fresh", sh |-> PStd, last |-> NoNames, init |-> i, ops |-> <<>>]
  /\ pbytes = <<>> /\ ph = "hist"

HCan == Part = "posth" /\ Len(cw.ops) < MaxOps
HLog(o, a) == Append(cw.ops, HOp(o, a))

\* Encode: the bytes depend on the value of the list only, not on what it aliases
HEncode == /\ HCan
           /\ pbytes' = EncDet(gl)
           /\ cw' = [cw EXCEPT !.last = gl, !.ops = HLog("E", 0)]
           /\ UNCHANGED gl
\* Read of the table written last: version 1 hands out the shared storage itself
HRead == /\ HCan /\ pbytes # <<>>
         /\ gl' = DecWith(pbytes, cw.sh)
         /\ cw' = [cw EXCEPT !.alias = IF pbytes[2] = 1 THEN "shared" ELSE IF pbytes[2] = 2 THEN "read" ELSE "fresh",
                             !.ops = HLog("R", 0)]
         /\ UNCHANGED pbytes
\* re-slicing keeps the alias: 1 = [:1], 2 = [:len-1], 3 = [1:len-1], 4 = [1:]
HSlice == /\ HCan /\ ~gl.nil /\ Len(gl.names) >= 2
          /\ \E kind \in 1..4 :
               LET n == Len(gl.names)
                   lo == IF kind \in {1, 2} THEN 1 ELSE 2
                   hi == IF kind = 1 THEN 1 ELSE IF kind = 4 THEN n ELSE n - 1
               IN  /\ gl' = [gl EXCEPT !.names = SubSeq(gl.names, lo, hi)]
                   /\ cw' = [cw EXCEPT !.ops = HLog("S", kind)]
          /\ UNCHANGED pbytes
\* append (with a full slice expression: never writes into the aliased storage): 1 = the next
\* standard name, 2 = a custom name
HAppend == /\ HCan /\ ~gl.nil /\ Len(gl.names) <= NStd
           /\ \E kind \in 1..2 :
                LET nm == IF kind = 1 THEN PStd[(Len(gl.names) % NStd) + 1] ELSE <<3, 3>>
                IN  /\ gl' = [gl EXCEPT !.names = Append(gl.names, nm)]
                    /\ cw' = [cw EXCEPT !.alias = "fresh", !.ops = HLog("A", kind)]
           /\ UNCHANGED pbytes
\* the caller overwrites the first name; if the list aliases the package's storage, that storage changes
HMutate == /\ HCan /\ ~gl.nil /\ Len(gl.names) >= 1
           /\ (cw.alias = "shared" => AllowSharedMutation)
           /\ gl' = [gl EXCEPT !.names[1] = <<2, 1>>]
           /\ cw' = [cw EXCEPT !.ops = HLog("M", 0),
                               !.sh = IF cw.alias = "shared" /\ gl.names[1] = cw.sh[1]
                                        THEN [cw.sh EXCEPT ![1] = <<2, 1>>] ELSE cw.sh]
           /\ UNCHANGED pbytes

HistNext == HEncode \/ HRead \/ HSlice \/ HAppend \/ HMutate

\* names read back = names written, whatever the history of the list was
HistRoundTrip == (Part = "posth" /\ pbytes # <<>>) => DecWith(pbytes, PStd) = cw.last
\* a Read returns what the last Encode was given
HistReadFaithful == (Part = "posth" /\ Len(cw.ops) > 0 /\ cw.ops[Len(cw.ops)].op = "R") => gl = cw.last
\* the package's storage is never changed by a caller who keeps the contract
SharedIntact == Part = "posth" => cw.sh = PStd
HistEmit == (Part = "posth" /\ Len(cw.ops) = MaxOps) =>
              PrintT(<<"CASE", ToJson([part |-> "posthist", init |-> cw.init, ops |-> cw.ops])>>)

---------------------------------------------------------------------------
(* "codech": results with a history.  A result is identified by the call that  *)
(* produced it; it lives either in storage of its own or (the design this      *)
(* machine rules out) in the package's scratch buffer, whose content is the    *)
(* result of the LAST call that used it.                                       *)
(*   cw.ops   the calls so far: [op, a] with a = length class of the argument  *)
(*   cw.outs  per call, where its result lives: "own" | "buf"                  *)
(*   cw.buf   the call whose result the scratch buffer holds now (0 = none)    *)

CodecOps  == {"ME", "MD", "NE", "ND"}     \* mac.Encode, mac.Decode, name.Info.Encode, name.Decode
CodecLens == {0, 1, 63, 64, 65, 200}      \* around a 64-byte buffer, empty, long
ScratchSize == 64

CodecHistInit == cw = [k |-> "ch", ops |-> <<>>, outs |-> <<>>, buf |-> 0] /\ ph = "hist"

CodecCall ==
  /\ Part = "codech" /\ Len(cw.ops) < CMaxOps
  /\ \E o \in CodecOps, n \in CodecLens :
       LET me    == Len(cw.ops) + 1
           inbuf == AllowScratchReuse /\ o = "ME" /\ n <= ScratchSize
       IN  cw' = [cw EXCEPT !.ops = Append(cw.ops, [op |-> o, a |-> n]),
                            !.outs = Append(cw.outs, IF inbuf THEN "buf" ELSE "own"),
                            !.buf = IF inbuf THEN me ELSE cw.buf]

\* the value a retained result has NOW: its own, or whatever the buffer holds
ValueNow(i) == IF cw.outs[i] = "buf" THEN cw.buf ELSE i
\* none of the results handed out so far has changed
ResultsStable == Part = "codech" => \A i \in 1..Len(cw.outs) : ValueNow(i) = i
CodecHistEmit == (Part = "codech" /\ Len(cw.ops) = CMaxOps) =>
                   PrintT(<<"CASE", ToJson([part |-> "codechist", ops |-> cw.ops])>>)

---------------------------------------------------------------------------
(* "codec": one state per value *)

CodecInit ==
  /\ cw \in    {[k |-> "units", v |-> u] : u \in Seqs(CUnits, 3)}
         \cup  {[k |-> "cps", v |-> s] : s \in Seqs(CCps, 2)}
         \cup  {[k |-> "byte", v |-> <<b>>] : b \in 0..255}
  /\ ph = "done"

CodecLaws ==
  /\ cw.k = "units" =>
       LET u == cw.v IN
       /\ UnBE(BE(u)) = u
       /\ ScalarString(U16Dec(u))
       /\ WellFormed16(u) => U16Enc(U16Dec(u)) = u                    \* encode . decode = id on the domain
       /\ ~WellFormed16(u) => 65533 \in Range(U16Dec(u))               \* everything else is marked
       /\ Len(U16Dec(u)) <= Len(u)
  /\ cw.k = "cps" =>
       LET s == cw.v IN
       /\ WellFormed16(U16Enc(s))
       /\ U16Dec(U16Enc(s)) = s                                        \* decode . encode = id
       /\ Len(U16Enc(s)) = Units(s)
       /\ DecodesTo(3, 1, Payload(3, s), s)
       /\ \A t \in Seqs(CCps, 2) : U16Enc(t) = U16Enc(s) => t = s      \* injective
  /\ cw.k = "byte" =>
       LET b == cw.v[1] IN
       /\ MacDecByte(b) \in MacRepertoire
       /\ MacEncCP(MacDecByte(b)) = b                                  \* encode . decode = id
       /\ \A c \in 0..255 : MacDecByte(c) = MacDecByte(b) => c = b     \* the table is injective
       /\ IsScalar(MacDecByte(b))
       /\ DecodesTo(1, 0, Payload(1, <<MacDecByte(b)>>), <<MacDecByte(b)>>)
MacTableSize == Cardinality(MacRepertoire) = 256 /\ Len(MacRomanHigh) = 128 /\ Len(StdGlyphNames) = 258
StdNamesDistinct == \A i, j \in 1..Len(StdGlyphNames) : StdGlyphNames[i] = StdGlyphNames[j] => i = j

---------------------------------------------------------------------------
(* "tags": forth adds the pair as private-use part; back prefers it *)

NoPriv == <<>>
Forth(p)     == [base |-> BaseOf[p], priv |-> p]
ForthBare(p) == [base |-> BaseOf[p], priv |-> NoPriv]
BackSet(t)   == IF t.priv # NoPriv THEN {t.priv} ELSE {q \in Pairs : BaseOf[q] = t.base}

TagsInit == cw \in {[k |-> "pair", v |-> p] : p \in Pairs} /\ ph = "done"

\* with the private-use part the mapping back is a function and returns the pair
TagLossless == cw.k = "pair" => BackSet(Forth(cw.v)) = {cw.v}
\* the tag is still a tag of the pair's language/script
TagBase     == cw.k = "pair" => Forth(cw.v).base = BaseOf[cw.v]
\* without it, the pair is among the candidates but need not be the only one: any choice
\* among siblings that depends on anything but the tag makes "back" a non-function
TagBareSound == cw.k = "pair" => cw.v \in BackSet(ForthBare(cw.v))
TagBareLossless == cw.k = "pair" => BackSet(ForthBare(cw.v)) = {cw.v}   \* NOT an invariant (NameCodecTagsBare.cfg)

---------------------------------------------------------------------------
Idle == /\ src = <<>> /\ todo = {} /\ recs = <<>> /\ stor = <<>> /\ dec = <<>>
NoPost == gl = NoNames /\ pidx = <<>> /\ pstr = <<>> /\ pbytes = <<>> /\ pdec = NoNames

Init == CASE Part = "name"  -> NameInit /\ NoPost /\ cw = [k |-> "none"]
          [] Part = "post"  -> PostInit /\ Idle /\ cw = [k |-> "none"]
          [] Part = "posth" -> HistInit /\ Idle /\ pidx = <<>> /\ pstr = <<>> /\ pdec = NoNames
          [] Part = "codech" -> CodecHistInit /\ Idle /\ NoPost
          [] Part = "codec" -> CodecInit /\ Idle /\ NoPost
          [] Part = "tags"  -> TagsInit /\ Idle /\ NoPost

Next == CASE Part = "name" -> NameNext /\ UNCHANGED <<gl, pidx, pstr, pbytes, pdec, cw>>
          [] Part = "post" -> PostNext /\ UNCHANGED <<src, todo, recs, stor, dec, cw>>
          [] Part = "posth" -> HistNext /\ UNCHANGED <<src, todo, recs, stor, dec, ph, pidx, pstr, pdec>>
          [] Part = "codech" -> CodecCall /\ UNCHANGED <<src, todo, recs, stor, dec, ph, gl, pidx, pstr, pbytes, pdec>>
          [] OTHER -> FALSE

Spec == Init /\ [][Next]_vars
=============================================================================
