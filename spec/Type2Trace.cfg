\* C04 trace validation, integer glyphs (exact)
SPECIFICATION Spec
CONSTANTS
  Unit = 1
  MaxV = 1000000
  MaxPos = 1000000
  GUnit = 1
INVARIANT StackOK
POSTCONDITION Accepted
CHECK_DEADLOCK FALSE
