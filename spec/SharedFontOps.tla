--------------------------- MODULE SharedFontOps ---------------------------
(***************************************************************************)
(* C16.  The footprint table: every read-only operation of the property's  *)
(* quantifier as a sequence of abstract memory accesses.  Constant-free,   *)
(* shared by SharedFont.tla (model checking, schedule generation) and      *)
(* SharedFontTrace.tla (validation of recorded executions).                *)
(*                                                                         *)
(* A location is a pair <<name, owner>>; owner 0 = shared by everybody     *)
(* that holds the font, owner g > 0 = private to the operation that        *)
(* goroutine g is running (allocated by the call, dead after it).          *)
(*                                                                         *)
(* Shared locations (what is reachable from a *sfnt.Font, plus what the    *)
(* packages hand out):                                                     *)
(*   scalars  the plain fields of sfnt.Font (names, metrics, flags, times) *)
(*   outl     Font.Outlines: glyphs, widths, names, private dicts, tables  *)
(*   cmap     Font.CMapTable (encoded subtables)                           *)
(*   gdef, gsub, gpos   the layout tables incl. their lookup lists         *)
(*   pkg      package-level tables: post.macRoman (handed out by           *)
(*            post.Read as Outlines.Names), gtab.GsubDefaultFeatures,      *)
(*            gtab.GposDefaultFeatures                                     *)
(*   closure  what the function values stored in the font have captured   *)
(*            (Outlines.FDSelect as installed by cff.readFDSelect: range   *)
(*            tables).  Reflection cannot measure it (Unmeasurable): it is *)
(*            bound by the race detector and by result comparison only.    *)
(* Per-call locations (the design claim of the anchors: "all output paths  *)
(* allocate their tables, buffers and string tables per call"):            *)
(*   tab   the table map of one Write incl. the head bytes that            *)
(*         header.Write patches (header/write.go:62-65, 97-101)            *)
(*   str   the cffStrings of one cff.Font.Write with its lazily built      *)
(*         reverse index (cff/strings.go:55-73, cff/write.go:36)           *)
(*   ctx   the buffers of one Layouter / gtab.Context (layout.go:28-34,    *)
(*         gtab/layout.go:27-43)                                           *)
(*   idx   lookup tables a call builds for itself from package constants   *)
(*         (post.Info.Encode: name -> index of the 258 Mac glyph names;    *)
(*         must not live in a package variable)                            *)
(*   res   the value under construction that the call returns              *)
(*                                                                         *)
(* Access kinds:  R  read, the value read becomes part of the result       *)
(*                T  test: read into the operation's flag ("is it nil?")   *)
(*                W  write the given value                                 *)
(*                Wc write the given value if the flag is set              *)
(* The value "tok" stands for a value that is specific to the call (its    *)
(* input text, its table bytes): the token of operation i of goroutine g.  *)
(***************************************************************************)
EXTENDS Integers, Sequences, FiniteSets

SharedNames  == {"scalars", "outl", "cmap", "gdef", "gsub", "gpos", "pkg", "closure"}
Unmeasurable == {"closure"}                      \* not reachable by reflection
Measured     == SharedNames \ Unmeasurable        \* fingerprinted by binding V1
LocalNames   == {"tab", "str", "ctx", "res", "idx"}

R(n)     == [k |-> "R",  n |-> n, v |-> "-"]
T(n)     == [k |-> "T",  n |-> n, v |-> "-"]
W(n, v)  == [k |-> "W",  n |-> n, v |-> v]
Wc(n, v) == [k |-> "Wc", n |-> n, v |-> v]

\* building blocks
HeadPatch == << W("tab", "tok"), W("tab", "zero"), R("tab"), W("tab", "patched"), R("tab") >>
    \* makeHead; clearChecksum; checksum over all tables; patchChecksum; w.Write(body)
Strings   == << T("str"), Wc("str", "built"), R("str") >>
    \* cffStrings.lookup: if rev == nil { build }; use rev
Index     == << T("idx"), Wc("idx", "built"), R("idx") >>
    \* post.Info.Encode: build the name index (from pkg), use it
FDSel     == << R("closure") >>
    \* Outlines.FDSelect(gid): a pure function of the captured range table
Result    == << W("res", "tok"), R("res") >>

OpNames == {"Write", "WriteTrueTypePDF", "WriteOpenTypeCFFPDF", "AsCFFWrite", "Subset", "Clone",
            "FontBBox", "Widths", "WidthsPDF", "WidthsMapPDF", "GlyphWidths",
            "GlyphBBoxes", "GlyphBBox", "GlyphBBoxPDF", "MakeGlyphNames", "GetFontInfo", "Names",
            "Layout", "GsubApply", "GposApply", "ExplainGsub", "ExplainGpos"}

\* The footprint claim: NO OPERATION WRITES TO ANY LOCATION REACHABLE FROM THE FONT, WHATEVER THE FONT
\* CONTAINS -- no access W/Wc to a shared name anywhere in this table.  The table has no column for the
\* contents of the font: the claim is about every value a program can build (explicit zero entries in
\* map-typed tables, unsorted or duplicate entries where the types allow them, empty-but-not-nil slices,
\* malformed and over-budget lookup lists), not only about what sfnt.Read produces.  Binding V1
\* therefore measures every operation also on such fonts (harness/cmd/c16/degenerate.go).
BaseFootprint(op) ==
  CASE op = "Write" ->
         << R("scalars"), R("outl"), R("cmap"), R("gdef"), R("gsub"), R("gpos"), R("pkg") >>
         \o Index \o FDSel \o Strings \o HeadPatch
    [] op = "WriteTrueTypePDF" ->
         << R("scalars"), R("outl"), R("cmap") >> \o HeadPatch
    [] op = "WriteOpenTypeCFFPDF" ->
         << R("scalars"), R("outl"), R("cmap") >> \o FDSel \o Strings \o << W("tab", "tok"), R("tab") >>
    [] op = "AsCFFWrite" ->
         << R("scalars"), R("outl") >> \o FDSel \o Strings \o Result
    [] op = "Subset" ->
         << R("scalars"), R("outl"), R("cmap"), R("gdef"), R("gsub"), R("gpos") >> \o FDSel \o Result
    [] op = "Clone"          -> << R("scalars") >> \o Result
    [] op = "FontBBox"       -> << R("scalars"), R("outl") >> \o FDSel
    [] op = "Widths"         -> << R("outl") >> \o Result
    [] op = "WidthsPDF"      -> << R("scalars"), R("outl") >> \o FDSel \o Result
    [] op = "WidthsMapPDF"   -> << R("scalars"), R("outl") >> \o Result
    [] op = "GlyphWidths"    -> << R("scalars"), R("outl") >> \o FDSel
    [] op = "GlyphBBoxes"    -> << R("outl") >> \o Result
    [] op = "GlyphBBox"      -> << R("outl") >>
    [] op = "GlyphBBoxPDF"   -> << R("scalars"), R("outl") >> \o FDSel
    [] op = "MakeGlyphNames" -> << R("outl"), R("cmap"), R("gsub"), R("pkg") >> \o Result
    [] op = "GetFontInfo"    -> << R("scalars"), R("outl") >> \o Result
    [] op = "Names"          -> << R("scalars"), R("outl"), R("pkg") >>
    [] op = "Layout" ->
         << R("cmap"), R("pkg"), R("gsub"), R("gpos"), R("gdef"),   \* NewLayouter: GetBest, FindLookups, NewContext
            W("ctx", "tok"), R("ctx"),                               \* Layout: l.buf <- cmap(text); gsub.Apply
            R("outl"), W("ctx", "tok"), R("ctx") >>                  \* advances; gpos.Apply; result = l.buf
    [] op = "GsubApply"      -> << R("gsub"), R("gdef"), W("ctx", "tok"), R("ctx") >>
    [] op = "GposApply"      -> << R("gpos"), R("gdef"), W("ctx", "tok"), R("ctx") >>
    [] op = "ExplainGsub"    -> << R("outl"), R("cmap"), R("gsub") >> \o Result
    [] op = "ExplainGpos"    -> << R("outl"), R("cmap"), R("gpos") >> \o Result

(***************************************************************************)
(* Deliberately wrong variants (anti-vacuity): each one is a hidden write  *)
(* of the kind the property worries about.  A variant either leaks a       *)
(* per-call location into the shared font or adds a write to a shared      *)
(* location.                                                               *)
(***************************************************************************)
Range(s) == { s[j] : j \in 1..Len(s) }
\* replace the pure closure call by: remember my range (a value specific to the call), then answer from it
RECURSIVE SubstFDSel(_)
SubstFDSel(fp) == IF fp = << >> THEN << >>
                  ELSE (IF Head(fp) = FDSel[1] THEN << W("closure", "tok"), R("closure") >> ELSE << Head(fp) >>)
                       \o SubstFDSel(Tail(fp))

Variants == {"ok", "headpatch", "lazyrev", "scratch", "sortinplace", "pkgwrite",
             "pkglazy", "closurecache", "inplacerestore"}

\* names that are shared under a variant
Leaked(variant) ==
  CASE variant = "headpatch" -> {"tab"}     \* head bytes kept in a buffer on the font and patched there
    [] variant = "lazyrev"   -> {"str"}     \* one cffStrings instance stored with the outlines
    [] variant = "scratch"   -> {"ctx"}     \* layouters sharing one scratch buffer
    [] variant = "pkglazy"   -> {"idx"}     \* the name index hoisted into a package variable, built on first use
    [] OTHER                 -> {}

Footprint(op, variant) ==
  CASE variant = "sortinplace" /\ op \in {"Subset", "ExplainGsub"} ->
         \* sorts a slice of the shared lookup list in place (same content afterwards)
         << W("gsub", "perm"), W("gsub", "v0") >> \o BaseFootprint(op)
    [] variant = "pkgwrite" /\ op = "MakeGlyphNames" ->
         \* completes the names in the slice it got from the font (= post.macRoman)
         BaseFootprint(op) \o << W("pkg", "tok") >>
    [] variant = "inplacerestore" /\ op \in {"ExplainGsub", "ExplainGpos"} ->
         \* reverses a backtrack sequence of the shared lookup list in place, prints it, reverses it back
         LET n == IF op = "ExplainGsub" THEN "gsub" ELSE "gpos" IN
         << R("outl"), R("cmap"), W(n, "perm"), R(n), W(n, "v0") >> \o Result
    [] variant = "closurecache" /\ FDSel[1] \in Range(BaseFootprint(op)) ->
         \* the FDSelect closure remembers the range of the previous call in a captured variable
         SubstFDSel(BaseFootprint(op))
    [] OTHER -> BaseFootprint(op)

IsShared(name, variant) == name \in SharedNames \cup Leaked(variant)
IsWrite(a) == a.k \in {"W", "Wc"}

\* the shared names an operation may write: the declared shared-write footprint
SharedWrites(op, variant) ==
  { Footprint(op, variant)[j].n : j \in { j \in 1..Len(Footprint(op, variant)) :
        IsWrite(Footprint(op, variant)[j]) /\ IsShared(Footprint(op, variant)[j].n, variant) } }
=============================================================================
