------------------------------- MODULE Shaper -------------------------------
(***************************************************************************)
(* C06 / C07 / C15.  Reference semantics of OpenType lookup application    *)
(* (GSUB 1,2,3,4,5,6,8 and GPOS 1,2,4,6,7,8) with the step structure of    *)
(* gtab.Context.Apply (opentype/gtab/layout.go):                           *)
(*                                                                         *)
(*   Scan     one iteration of the outer loop of Apply: next lookup /      *)
(*            skip an ignored glyph / first matching subtable at pos       *)
(*   Nested   one iteration of the nested-action loop of                   *)
(*            applyAtRecursively: pop / run one action / give up (budget)  *)
(*                                                                         *)
(* The semantics are written from the OpenType chapter 2 / GSUB / GPOS     *)
(* rules and the repository's documented decisions (DESIGN.md App. A),     *)
(* not from the Go code.  Positions are 1-based; b is an exclusive bound.  *)
(*                                                                         *)
(* A glyph is [g, t, x, y, adv]: glyph id, the ids of the input characters *)
(* it represents, x/y offset, advance.                                     *)
(***************************************************************************)
EXTENDS Integers, Sequences, FiniteSets, TLC, Json, SequencesExt

CONSTANTS Catalogue,  \* set of [id, ll, order, gdef, inputs, expect]: inputs = set of glyph-id strings
                      \*   (AllInputs for exhaustive families), expect = [has, out]: output recorded from the real engine (V mode)
          Alphabet,   \* set of glyph ids used for AllInputs
          MaxLen,     \* AllInputs = strings of length 0..MaxLen over Alphabet
          Budget      \* nested-action budget per outer match (64 in the code)

VARIABLES cid,     \* id of the catalogue entry
          expect,  \* V mode: [has |-> TRUE, out |-> output recorded from the real engine]
          ll,      \* lookup list: sequence of lookups
          order,   \* sequence of 1-based lookup indices to apply
          gd,      \* GDEF data [present, class, att, sets]
          input,   \* input glyph ids
          seq,     \* current glyph sequence
          oi,      \* index into order
          pos,     \* scan position
          todo,    \* glyphs remaining when the current outer step started (progress guard)
          stack,   \* nested-action stack: sequence of [ip, acts, ep]
          budget,  \* actions used by the current outer match
          pc,      \* "scan" | "nested" | "done"
          defined  \* FALSE once the behaviour left the region where the outcome is defined

vars == <<cid, expect, ll, order, gd, input, seq, oi, pos, todo, stack, budget, pc, defined>>

Nil == [nil |-> TRUE, dx |-> 0, dy |-> 0, da |-> 0]     \* absent value record
InitAdv(g) == 10 * (g % 300)                                    \* advance of input glyph g

Concat(ss) == FoldLeft(LAMBDA a, b : a \o b, <<>>, ss)

---------------------------------------------------------------------------
(* A.2 lookup flags *)
ClassOf(g) == IF gd.present /\ g \in DOMAIN gd.class THEN gd.class[g] ELSE "none"
FlagsZero(L) == L.flags = {} /\ ~L.useSet /\ L.attach = 0 /\ ~L.rtl
Keep(L, g) ==
  IF ~gd.present \/ FlagsZero(L) THEN TRUE
  ELSE CASE ClassOf(g) = "base" -> ~("base" \in L.flags)
         [] ClassOf(g) = "lig"  -> ~("lig" \in L.flags)
         [] ClassOf(g) = "mark" ->
              IF "mark" \in L.flags THEN FALSE
              ELSE IF L.useSet THEN (L.markSet \in DOMAIN gd.sets /\ g \in gd.sets[L.markSet])
              ELSE IF L.attach # 0 THEN (g \in DOMAIN gd.att /\ gd.att[g] = L.attach)
              ELSE TRUE
         [] OTHER -> TRUE
\* malformed: mark filtering set index outside the GDEF list (the code must not panic; C07)
SetMalformed(L) == gd.present /\ L.useSet /\ ~("mark" \in L.flags) /\ ~(L.markSet \in DOMAIN gd.sets)

---------------------------------------------------------------------------
(* A.4 matching helpers *)
RECURSIVE NextKept(_, _, _, _)
NextKept(s, p, b, L) ==
  IF p >= b THEN b ELSE IF Keep(L, s[p].g) THEN p ELSE NextKept(s, p + 1, b, L)

RECURSIVE PrevKept(_, _, _)
PrevKept(s, p, L) ==
  IF p < 1 THEN 0 ELSE IF Keep(L, s[p].g) THEN p ELSE PrevKept(s, p - 1, L)

\* input patterns pats[i..] matched by kept glyphs from position p on, all before b
RECURSIVE MatchFrom(_, _, _, _, _, _, _)
MatchFrom(s, acc, p, b, L, pats, i) ==
  IF i > Len(pats) THEN acc
  ELSE LET q == NextKept(s, p, b, L) IN
       IF q >= b \/ ~(s[q].g \in pats[i]) THEN <<>>
       ELSE MatchFrom(s, Append(acc, q), q + 1, b, L, pats, i + 1)

\* positions of the matched input glyphs (first one is a), or <<>>
MatchInput(s, a, b, L, pats) ==
  IF pats = <<>> \/ ~(s[a].g \in pats[1]) THEN <<>>
  ELSE MatchFrom(s, <<a>>, a + 1, b, L, pats, 2)

\* lookahead: kept glyphs after position p, over the whole sequence
RECURSIVE MatchAhead(_, _, _, _, _)
MatchAhead(s, p, L, pats, i) ==
  IF i > Len(pats) THEN TRUE
  ELSE LET q == NextKept(s, p + 1, Len(s) + 1, L) IN
       q <= Len(s) /\ s[q].g \in pats[i] /\ MatchAhead(s, q, L, pats, i + 1)

\* backtrack: kept glyphs before position p, nearest first
RECURSIVE MatchBack(_, _, _, _, _)
MatchBack(s, p, L, pats, i) ==
  IF i > Len(pats) THEN TRUE
  ELSE LET q == PrevKept(s, p - 1, L) IN
       q >= 1 /\ s[q].g \in pats[i] /\ MatchBack(s, q, L, pats, i + 1)

---------------------------------------------------------------------------
(* A.4 subtable kinds.  Result: [ok, seq, next, push, ins, mrg, und]       *)
NoMatch == [ok |-> FALSE]
Res(s, n, touch) == [ok |-> TRUE, seq |-> s, next |-> n, push |-> <<>>, ins |-> <<>>, mrg |-> <<>>,
                     und |-> FALSE, touch |-> touch]

AddVR(gl, vr) == IF vr.nil THEN gl
                 ELSE [gl EXCEPT !.x = gl.x + vr.dx, !.y = gl.y + vr.dy, !.adv = gl.adv + vr.da]

ApplySingle(st, s, a) ==
  IF s[a].g \in DOMAIN st.m THEN Res([s EXCEPT ![a].g = st.m[s[a].g]], a + 1, {a}) ELSE NoMatch

ApplyMulti(st, s, a) ==
  IF ~(s[a].g \in DOMAIN st.m) THEN NoMatch
  ELSE LET r == st.m[s[a].g] IN
       IF r = <<>> THEN [Res(s, a + 1, {a}) EXCEPT !.und = TRUE]     \* empty replacement: malformed
       ELSE LET new == [i \in 1..Len(r) |->
                          IF i = 1 THEN [s[a] EXCEPT !.g = r[1]]
                          ELSE [g |-> r[i], t |-> <<>>, x |-> 0, y |-> 0, adv |-> 0]]
            IN [Res(SubSeq(s, 1, a - 1) \o new \o SubSeq(s, a + 1, Len(s)), a + Len(r), {a})
                  EXCEPT !.ins = <<a, Len(r)>>]

ApplyAlt(st, s, a) ==
  IF s[a].g \in DOMAIN st.m /\ st.m[s[a].g] # <<>>
    THEN Res([s EXCEPT ![a].g = st.m[s[a].g][1]], a + 1, {a}) ELSE NoMatch

RECURSIVE FirstLig(_, _, _, _, _, _)
FirstLig(rules, i, s, a, b, L) ==
  IF i > Len(rules) THEN NoMatch
  ELSE LET pats == <<{s[a].g}>> \o [j \in 1..Len(rules[i].in) |-> {rules[i].in[j]}]
           mp == MatchInput(s, a, b, L, pats)
       IN IF mp = <<>> THEN FirstLig(rules, i + 1, s, a, b, L)
          ELSE LET last == mp[Len(mp)]
                   inM == Range(mp)
                   skipped == SelectSeq([j \in 1..(last - a) |-> a + j], LAMBDA q : ~(q \in inM))
                   text == Concat([j \in 1..Len(mp) |-> s[mp[j]].t])
                   lig == [g |-> rules[i].out, t |-> text, x |-> 0, y |-> 0, adv |-> 0]
                   moved == [j \in 1..Len(skipped) |-> s[skipped[j]]]
               IN [Res(SubSeq(s, 1, a - 1) \o <<lig>> \o moved \o SubSeq(s, last + 1, Len(s)),
                       a + 1 + Len(skipped), inM) EXCEPT !.mrg = mp]

ApplyLig(st, s, a, b, L) ==
  IF s[a].g \in DOMAIN st.m THEN FirstLig(st.m[s[a].g], 1, s, a, b, L) ELSE NoMatch

\* contextual and chaining contextual rules (formats 1, 2, 3 differ only in how the glyph sets
\* are written down; `in` includes the first glyph)
RECURSIVE FirstCtx(_, _, _, _, _, _)
FirstCtx(rules, i, s, a, b, L) ==
  IF i > Len(rules) THEN NoMatch
  ELSE LET r  == rules[i]
           mp == MatchInput(s, a, b, L, r.in)
       IN IF mp = <<>> \/ ~MatchBack(s, a, L, r.back, 1) \/ ~MatchAhead(s, mp[Len(mp)], L, r.ahead, 1)
            THEN FirstCtx(rules, i + 1, s, a, b, L)
            ELSE LET e == NextKept(s, mp[Len(mp)] + 1, b, L) IN
                 [Res(s, e, Range(mp)) EXCEPT !.push = << [ip |-> mp, acts |-> r.acts, ep |-> e] >>]

\* reverse chaining single substitution.  The code applies it left to right (documented TODO);
\* the outcome is order-insensitive, hence defined, iff no substitute occurs in a context set
ApplyRev(st, s, a, L) ==
  IF s[a].g \in DOMAIN st.m /\ MatchBack(s, a, L, st.back, 1) /\ MatchAhead(s, a, L, st.ahead, 1)
    THEN [Res([s EXCEPT ![a].g = st.m[s[a].g]], a + 1, {a})
            EXCEPT !.und = (Range(st.m) \cap (UNION Range(st.back) \cup UNION Range(st.ahead)) # {})]
    ELSE NoMatch

ApplySPos(st, s, a) ==
  IF s[a].g \in DOMAIN st.m THEN Res([s EXCEPT ![a] = AddVR(s[a], st.m[s[a].g])], a + 1, {a}) ELSE NoMatch

\* pair adjustment: `first` = coverage, adj = partial function <<g1, g2>> -> [first, second];
\* allPairs = TRUE for the class-based format (every pair with a covered first glyph applies)
ApplyPair(st, s, a, b, L) ==
  IF ~(s[a].g \in st.first) THEN NoMatch
  ELSE LET p == NextKept(s, a + 1, b, L) IN
       IF p >= b THEN NoMatch
       ELSE LET key == <<s[a].g, s[p].g>> IN
            IF ~(key \in DOMAIN st.adj) THEN NoMatch
            ELSE LET adj == st.adj[key]
                     s1 == [s EXCEPT ![a] = AddVR(s[a], adj.first)]
                 IN IF adj.second.nil THEN Res(s1, p, {a, p})
                    ELSE Res([s1 EXCEPT ![p] = AddVR(s1[p], adj.second)], p + 1, {a, p})

\* mark-to-base / mark-to-mark attachment.  marks: gid -> [cls, x, y]; bases: gid -> seq of
\* anchors [nil, x, y] indexed by class.  Attachment glyph = nearest preceding covered glyph.
RECURSIVE PrevIn(_, _, _)
PrevIn(s, p, S) == IF p < 1 THEN 0 ELSE IF s[p].g \in S THEN p ELSE PrevIn(s, p - 1, S)

SumAdv(s, p, a) == FoldLeft(LAMBDA acc, i : acc + s[i].adv, 0, [j \in 1..(a - p) |-> p + j - 1])

ApplyAttach(st, s, a, assign) ==
  IF ~(s[a].g \in DOMAIN st.marks) THEN NoMatch
  ELSE LET mk == st.marks[s[a].g]
           p  == PrevIn(s, a - 1, DOMAIN st.bases)
       IN IF p = 0 THEN NoMatch
          ELSE IF ~(mk.cls \in DOMAIN st.bases[s[p].g]) THEN [Res(s, a + 1, {a}) EXCEPT !.und = TRUE]
          ELSE LET an == st.bases[s[p].g][mk.cls] IN
               IF an.nil THEN NoMatch
               ELSE LET dx == an.x - mk.x - SumAdv(s, p, a)
                        dy == an.y - mk.y
                        between == {s[i].g : i \in (p + 1)..(a - 1)}
                        \* outside the region: something that is not a mark stands between the
                        \* attachment glyph and the mark, or the mark was already moved
                        und == (\E g \in between : ClassOf(g) # "mark") \/ s[a].x # 0 \/ s[a].y # 0
                        gl == IF assign THEN [s[a] EXCEPT !.x = dx, !.y = dy]
                              ELSE [s[a] EXCEPT !.x = s[a].x + dx, !.y = s[a].y + dy]
                    IN [Res([s EXCEPT ![a] = gl], a + 1, {a, p}) EXCEPT !.und = und]

ApplySub(st, s, a, b, L) ==
  CASE st.k = "single" -> ApplySingle(st, s, a)
    [] st.k = "multi"  -> ApplyMulti(st, s, a)
    [] st.k = "alt"    -> ApplyAlt(st, s, a)
    [] st.k = "lig"    -> ApplyLig(st, s, a, b, L)
    [] st.k = "ctx"    -> FirstCtx(st.rules, 1, s, a, b, L)
    [] st.k = "rev"    -> ApplyRev(st, s, a, L)
    [] st.k = "spos"   -> ApplySPos(st, s, a)
    [] st.k = "pair"   -> ApplyPair(st, s, a, b, L)
    [] st.k = "mbase"  -> ApplyAttach(st, s, a, FALSE)
    [] st.k = "mmark"  -> ApplyAttach(st, s, a, TRUE)
    [] OTHER           -> NoMatch          \* unimplemented kinds never apply

\* A.3: the first subtable (list order) that applies
RECURSIVE FirstSub(_, _, _, _, _, _)
FirstSub(subs, i, s, a, b, L) ==
  IF i > Len(subs) THEN NoMatch
  ELSE LET r == ApplySub(subs[i], s, a, b, L) IN
       IF r.ok THEN r ELSE FirstSub(subs, i + 1, s, a, b, L)

---------------------------------------------------------------------------
(* A.5 declarative position tracking for the entries on the nested stack *)
FixIns(e, p, n) ==
  IF e.ep <= p THEN e
  ELSE [e EXCEPT !.ip = Concat([j \in 1..Len(e.ip) |->
                           IF e.ip[j] < p THEN <<e.ip[j]>>
                           ELSE IF e.ip[j] = p THEN [x \in 1..n |-> p + x - 1]
                           ELSE <<e.ip[j] + n - 1>>]),
                  !.ep = e.ep + n - 1]

NewIdx(mp, q) ==
  LET a == mp[1]
      last == mp[Len(mp)]
      inM == Range(mp)
      nSkBefore == Cardinality({x \in (a + 1)..(q - 1) : ~(x \in inM)})
  IN IF q < a THEN q
     ELSE IF q \in inM THEN a
     ELSE IF q < last THEN a + 1 + nSkBefore
     ELSE q - (Len(mp) - 1)

FixMrg(e, mp) ==
  IF e.ep <= mp[1] THEN e
  ELSE [e EXCEPT !.ip = SetToSortSeq({NewIdx(mp, e.ip[j]) : j \in 1..Len(e.ip)}, <),
                 !.ep = e.ep - (Len(mp) - 1)]

FixStack(stk, r) ==
  IF r.ins # <<>> THEN [j \in 1..Len(stk) |-> FixIns(stk[j], r.ins[1], r.ins[2])]
  ELSE IF Len(r.mrg) > 1 THEN [j \in 1..Len(stk) |-> FixMrg(stk[j], r.mrg)]
  ELSE stk

\* A.6(a): region of defined behaviour for rewrites made by nested lookups.  The repository documents
\* (testcases sections 2 and 3) that a child may match and rewrite glyphs the parent ignored, that
\* positions are interpreted when the child runs, and that removed/added glyphs shift later positions.
\* What stays undefined (testcases section 4) is whether a *replacement of a glyph that is not in the
\* parent's input sequence* joins that input sequence - which only matters while the parent still has
\* actions to run.  For an entry e with pending actions a rewrite is therefore inside the region iff
\*   - it is a contextual match only (nothing rewritten yet), or
\*   - a ligature whose components are all outside e's input sequence (pure shift), or whose whole
\*     span (components and the glyphs skipped between them) consists of input glyphs of e, or which
\*     starts at an input glyph of e and has contiguous components, or
\*   - any other rewrite that touches input glyphs of e only.
\* First position from which membership in e's input sequence is ambiguous after rewrite r (0 = none).
\* Pending actions of e that address input glyphs before that position are unaffected (testcases 2_09).
AmbigFrom(e, r) ==
  IF r.push # <<>> THEN 0
  ELSE IF Len(r.mrg) > 1
    THEN IF Range(r.mrg) \cap Range(e.ip) = {} THEN 0
         \* every glyph of the span (components and the glyphs skipped between them) is an input
         \* glyph of e: plain section-3 rule, positions are interpreted after the removal
         ELSE IF (r.mrg[1]..r.mrg[Len(r.mrg)]) \subseteq Range(e.ip) THEN 0
         \* the ligature starts at an input glyph of e and its components are contiguous (testcases 2_08)
         ELSE IF r.mrg[1] \in Range(e.ip) /\ r.mrg[Len(r.mrg)] - r.mrg[1] + 1 = Len(r.mrg) THEN 0
         ELSE r.mrg[1]
    ELSE IF r.touch \subseteq Range(e.ip) THEN 0
         ELSE CHOOSE q \in r.touch \ Range(e.ip) : \A x \in r.touch \ Range(e.ip) : q <= x

TouchOK(stk, r) ==
  \A j \in 1..Len(stk) :
     LET e == stk[j]
         q == AmbigFrom(e, r)
         k == Cardinality({x \in Range(e.ip) : x < q})
     IN q = 0 \/ \A i \in 1..Len(e.acts) : e.acts[i].idx < k

---------------------------------------------------------------------------
(* State machine *)
RECURSIVE SeqsOf(_, _)
SeqsOf(S, n) == IF n = 0 THEN {<<>>} ELSE {Append(s, x) : s \in SeqsOf(S, n - 1), x \in S}
AllInputs == UNION {SeqsOf(Alphabet, n) : n \in 0..MaxLen}

MkSeq(in) == [i \in 1..Len(in) |-> [g |-> in[i], t |-> <<i>>, x |-> 0, y |-> 0, adv |-> InitAdv(in[i])]]

Init == /\ \E c \in Catalogue : /\ cid = c.id /\ ll = c.ll /\ order = c.order /\ gd = c.gdef
                              /\ expect = c.expect /\ input \in c.inputs
        /\ seq = MkSeq(input)
        /\ oi = 1 /\ pos = 1 /\ todo = 0 /\ stack = <<>> /\ budget = 0
        /\ pc = "scan" /\ defined = TRUE

CurIdx == order[oi]
Cur == ll[CurIdx]

\* leaving the nested loop: the progress guard of layout.go:86-91
Advance(newSeq, next) ==
  LET newTodo == Len(newSeq) - (next - 1) IN       \* glyphs remaining (0-based arithmetic of the code)
  IF newTodo >= todo THEN Len(newSeq) - todo + 2 ELSE next

Scan ==
  /\ pc = "scan"
  /\ IF oi > Len(order)
       THEN /\ pc' = "done" /\ UNCHANGED <<seq, oi, pos, todo, stack, budget, defined>>
     ELSE IF ~(CurIdx \in 1..Len(ll))                 \* out-of-range lookup index: skipped
       THEN /\ oi' = oi + 1 /\ pos' = 1 /\ UNCHANGED <<seq, todo, stack, budget, pc, defined>>
     ELSE IF pos > Len(seq)
       THEN /\ oi' = oi + 1 /\ pos' = 1 /\ UNCHANGED <<seq, todo, stack, budget, pc, defined>>
     ELSE IF ~Keep(Cur, seq[pos].g)
       THEN /\ pos' = pos + 1
            /\ defined' = (defined /\ ~SetMalformed(Cur))
            /\ UNCHANGED <<seq, oi, todo, stack, budget, pc>>
     ELSE LET r == FirstSub(Cur.subs, 1, seq, pos, Len(seq) + 1, Cur) IN
          IF ~r.ok
            THEN /\ pos' = pos + 1
                 /\ defined' = (defined /\ ~SetMalformed(Cur))
                 /\ UNCHANGED <<seq, oi, todo, stack, budget, pc>>
            ELSE /\ seq' = r.seq
                 /\ todo' = Len(seq) - (pos - 1)
                 /\ stack' = r.push
                 /\ budget' = 1
                 /\ defined' = (defined /\ ~r.und /\ ~SetMalformed(Cur))
                 /\ IF r.push = <<>>
                      THEN /\ pos' = r.next /\ pc' = "scan"      \* progress is immediate here
                      ELSE /\ pos' = r.next /\ pc' = "nested"
                 /\ UNCHANGED oi
  /\ UNCHANGED <<cid, expect, ll, order, gd, input>>

Nested ==
  /\ pc = "nested"
  /\ LET k == Len(stack) IN
     IF k = 0
       THEN /\ pc' = "scan" /\ pos' = Advance(seq, pos)
            /\ UNCHANGED <<seq, stack, budget, defined>>
     ELSE IF stack[k].acts = <<>>
       THEN /\ stack' = SubSeq(stack, 1, k - 1)                 \* pop
            /\ pos' = IF k = 1 THEN stack[1].ep ELSE pos
            /\ UNCHANGED <<seq, budget, pc, defined>>
     ELSE IF budget >= Budget
       THEN \* budget exhausted: remaining actions are dropped and the stack is cleared
            /\ stack' = <<>> /\ defined' = FALSE
            /\ UNCHANGED <<seq, pos, budget, pc>>
     ELSE LET act  == Head(stack[k].acts)
              stk1 == [stack EXCEPT ![k].acts = Tail(stack[k].acts)]
          IN IF act.idx + 1 > Len(stack[k].ip) \/ ~(act.lk \in 1..Len(ll))
               THEN \* malformed index: the action is consumed, nothing happens
                    /\ stack' = stk1 /\ budget' = budget + 1 /\ defined' = FALSE
                    /\ UNCHANGED <<seq, pos, pc>>
               ELSE LET p  == stack[k].ip[act.idx + 1]
                        lk == ll[act.lk]
                    IN IF ~Keep(lk, seq[p].g)
                         THEN /\ stack' = stk1 /\ budget' = budget + 1
                              /\ defined' = (defined /\ ~SetMalformed(lk))
                              /\ UNCHANGED <<seq, pos, pc>>
                         ELSE \* a child match cannot extend beyond the parent match (testcases 2_07)
                              LET r == FirstSub(lk.subs, 1, seq, p, stack[k].ep, lk) IN
                              IF ~r.ok
                                THEN /\ stack' = stk1 /\ budget' = budget + 1
                                     /\ defined' = (defined /\ ~SetMalformed(lk))
                                     /\ UNCHANGED <<seq, pos, pc>>
                                ELSE /\ seq' = r.seq
                                     /\ stack' = FixStack(stk1, r) \o r.push
                                     /\ budget' = budget + 1
                                     /\ defined' = (defined /\ ~r.und /\ TouchOK(stk1, r) /\ ~SetMalformed(lk))
                                     /\ UNCHANGED <<pos, pc>>
  /\ UNCHANGED <<cid, expect, ll, order, gd, input, oi, todo>>

Done == pc = "done"
Next == Scan \/ Nested
Spec == Init /\ [][Next]_vars /\ WF_vars(Next)

---------------------------------------------------------------------------
(* Properties of the design *)
AllText(s) == Concat([i \in 1..Len(s) |-> s[i].t])
TextConserved == LET t == AllText(seq) IN
   /\ Len(t) = Len(input)
   /\ Range(t) = 1..Len(input)

StackOK == \A j \in 1..Len(stack) :
   /\ \A i \in 1..(Len(stack[j].ip) - 1) : stack[j].ip[i] < stack[j].ip[i + 1]
   /\ Len(stack[j].ip) > 0 => (stack[j].ip[1] >= 1 /\ stack[j].ip[Len(stack[j].ip)] < stack[j].ep)
   /\ stack[j].ep <= Len(seq) + 1

StackEmptyAtEnd == (pc \in {"scan", "done"}) => stack = <<>>
PosOK == pos >= 1 /\ (pc = "scan" => pos <= Len(seq) + 2)
BudgetOK == budget <= Budget
Terminates == <>Done

Glyph(i) == [g |-> seq[i].g, t |-> seq[i].t, x |-> seq[i].x, y |-> seq[i].y, adv |-> seq[i].adv]
Out == [i \in 1..Len(seq) |-> Glyph(i)]
\* R: print the expectation for the conformance harness
Emit == Done => PrintT(<<"CASE", ToJson([cid |-> cid, input |-> input, defined |-> defined, out |-> Out])>>)
\* V: the recorded real output must be the reference output (inside the defined region)
Agrees == (Done /\ defined /\ expect.has) => Out = expect.out
EmitV == (Done /\ expect.has) =>
            PrintT(<<"CASE", ToJson([cid |-> cid, defined |-> defined, agree |-> (Out = expect.out), out |-> Out])>>)
=============================================================================
