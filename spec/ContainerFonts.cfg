CONSTANTS
  Shift = 0
  Pairs = FALSE
SPECIFICATION Spec
INVARIANT InRange
INVARIANT Emit
CHECK_DEADLOCK FALSE
