----------------------------- MODULE CFFLayout -----------------------------
(***************************************************************************)
(* C13, part (a): laying out a CFF font whose sections contain their own    *)
(* positions.  A CFF file is a sequence of sections; the Top DICT, the Font *)
(* DICTs and the Private DICTs store absolute (or self-relative) offsets of *)
(* other sections as DICT integers, whose encoded length (1, 2, 3 or 5      *)
(* bytes, TN5176 Table 3) depends on the value, and the INDEXes holding the *)
(* DICTs have an offSize that depends on their body length.  So the size of *)
(* a section depends on the offsets stored in it.  The writer iterates:     *)
(* encode every dynamic section with the current guess of the offsets,      *)
(* recompute the positions, stop when no section start moved                *)
(* (cff/write.go:175-229).  One action, Iterate, is one pass of that loop.  *)
(*                                                                         *)
(* Section order (simple | CID-keyed):                                      *)
(*   header, Name INDEX, Top DICT INDEX+, String INDEX+, Global Subr INDEX, *)
(*   [Encoding] | -, charset, - | FDSelect, CharStrings INDEX,              *)
(*   - | Font DICT INDEX+, Private DICT+ x nfd, Local Subr INDEX            *)
(* (+ marks sections encoded inside the loop; before the first pass their  *)
(* size is 0).                                                             *)
(*                                                                         *)
(* TLC checks, for every choice of section sizes that puts the stored       *)
(* offsets next to the size-class boundaries (Near), for simple layouts     *)
(* with and without a custom encoding and CID-keyed layouts with 1..MaxFD   *)
(* font DICTs:                                                              *)
(*   Terminates    the loop needs at most MaxIter passes                    *)
(*   Mono          no offset ever decreases (the termination argument)      *)
(*   Consistent    at exit every stored offset / size is the real position  *)
(*                 / size in the file that is written, also the end of the  *)
(*                 file, which the exit test does not look at               *)
(*   HeaderFits    at exit the header's offSize can hold every offset       *)
(***************************************************************************)
EXTENDS CFFLayoutOps

CONSTANTS Thr,        \* size-class boundaries to aim at
          JBack,      \* jitter around a boundary: -JBack..1
          J3Back,     \* same for the Private DICT position (wider: the end of the file follows)
          Far,        \* some positions away from every boundary
          PdBases,    \* sizes of the first Private DICT without its Subrs entry
          PdRest,     \* same, for the other Private DICTs (they share one value)
          FdBases,    \* sizes of a Font DICT without its Private entry
          MaxFD, MaxIter

VARIABLES L,       \* the layout: kind and the sizes of the fixed sections
          offs,    \* current guess of the section positions
          dyn,     \* sizes of the dynamic sections as last encoded
          stored,  \* the offsets / sizes written into the DICTs by the last pass
          hdrOff,  \* header offSize byte
          iter, pc
vars == <<L, offs, dyn, stored, hdrOff, iter, pc>>

Pre == 17        \* header (4) + Name INDEX of one 8-byte name
GS == 2          \* empty Global Subr INDEX
SubrsSz == 2     \* empty Local Subr INDEX
TopBase == 14    \* Top DICT entries that hold no offsets
EncSz == 11      \* a custom encoding, when there is one
FdsSz == 8       \* FDSelect

Jit == (-JBack)..1
Jit3 == (-J3Back)..1
Near(J) == UNION {{t + j : j \in J} : t \in Thr} \cup Far

FDs(l) == 1..l.nfd

\* positions of all sections given the sizes of the dynamic ones
Cumsum(l, d) ==
  LET top == Pre
      str == top + d.top
      gs  == str + d.str
      enc == gs + GS
      chs == enc + (IF l.enc THEN EncSz ELSE 0)
      fds == chs + l.chs
      cs  == fds + (IF l.cid THEN FdsSz ELSE 0)
      fda == cs + l.cs
      pd  == [i \in FDs(l) |-> fda + d.fda + Sum(SubSeq(d.pd, 1, i - 1))]
      subrs == fda + d.fda + Sum(d.pd)
  IN [top |-> top, str |-> str, gs |-> gs, enc |-> enc, chs |-> chs, fds |-> fds, cs |-> cs,
      fda |-> fda, pd |-> pd, subrs |-> subrs, end |-> subrs + SubrsSz]

\* one pass of encoding with the guess o: what is stored and how large it comes out
Encode(l, o) ==
  LET rel == [i \in FDs(l) |-> o.subrs - o.pd[i]]                     \* Subrs: self-relative
      pdS == [i \in FDs(l) |-> l.pdBase[i] + IntLen(rel[i]) + 1]
      fdS == [i \in FDs(l) |-> l.fdBase + IntLen(pdS[i]) + IntLen(o.pd[i]) + 1]
      fda == IF l.cid THEN IndexSize(fdS) ELSE 0
      body == TopBase + IntLen(o.chs) + 1 + (IF l.enc THEN IntLen(o.enc) + 1 ELSE 0)
              + IntLen(o.cs) + 1
              + (IF l.cid THEN IntLen(o.fds) + 2 + IntLen(o.fda) + 2
                 ELSE IntLen(pdS[1]) + IntLen(o.pd[1]) + 1)
  IN [d |-> [top |-> IndexSize(<<body>>), str |-> l.strs, fda |-> fda, pd |-> pdS],
      s |-> [chs |-> o.chs, enc |-> o.enc, cs |-> o.cs, fds |-> o.fds, fda |-> o.fda,
             pd |-> o.pd, pdSize |-> pdS, rel |-> rel]]

Dyn0(l) == [top |-> 0, str |-> 0, fda |-> 0, pd |-> [i \in FDs(l) |-> 0]]

\* section sizes that put charset / CharStrings / first Private DICT at o1 / o2 / o3 if no
\* offset crossed a boundary: the dynamic sizes are estimated from the targets themselves
Layout(cid, enc, nfd, pb, fb, o1, o2, o3) ==
  LET pdE  == [i \in 1..nfd |-> pb[i] + 2]
      fdE  == [i \in 1..nfd |-> fb + IntLen(pdE[i]) + IntLen(o3) + 1]
      fdaE == IF cid THEN IndexSize(fdE) ELSE 0
      body == TopBase + IntLen(o1) + 1 + (IF enc THEN IntLen(o1) + 1 ELSE 0) + IntLen(o2) + 1
              + (IF cid THEN 2 * IntLen(o2) + 4 ELSE IntLen(pdE[1]) + IntLen(o3) + 1)
      topE == IndexSize(<<body>>)
  IN [cid |-> cid, enc |-> enc, nfd |-> nfd, pdBase |-> pb, fdBase |-> fb,
      strs |-> o1 - Pre - topE - GS - (IF enc THEN EncSz ELSE 0),
      chs  |-> o2 - o1 - (IF cid THEN FdsSz ELSE 0),
      cs   |-> o3 - o2 - fdaE]

Kinds == {<<FALSE, FALSE, 1>>, <<FALSE, TRUE, 1>>} \cup {<<TRUE, FALSE, n>> : n \in 1..MaxFD}

Init ==
  /\ \E k \in Kinds, o1 \in Near(Jit), o2 \in Near(Jit), o3 \in Near(Jit3) :
       \E p1 \in PdBases, pr \in (IF k[3] > 1 THEN PdRest ELSE {0}),
          fb \in (IF k[1] THEN FdBases ELSE {0}) :
         /\ o1 < o2 /\ o2 < o3
         /\ L = Layout(k[1], k[2], k[3], [i \in 1..k[3] |-> IF i = 1 THEN p1 ELSE pr], fb, o1, o2, o3)
  /\ L.strs >= 3 /\ L.chs >= 1 /\ L.cs >= 5
  /\ dyn = Dyn0(L)
  /\ offs = Cumsum(L, dyn)
  /\ stored = Encode(L, offs).s
  /\ hdrOff = 4
  /\ iter = 0
  /\ pc = "loop"

Starts(o) == <<o.top, o.str, o.gs, o.enc, o.chs, o.fds, o.cs, o.fda, o.pd, o.subrs>>  \* not o.end

Iterate ==
  /\ pc = "loop"
  /\ LET e == Encode(L, offs)
         n == Cumsum(L, e.d)
     IN /\ hdrOff' = OffSizeFor(offs.end)
        /\ dyn' = e.d
        /\ stored' = e.s
        /\ iter' = iter + 1
        /\ IF Starts(n) = Starts(offs)
             THEN pc' = "done" /\ UNCHANGED offs
             ELSE pc' = "loop" /\ offs' = n
  /\ UNCHANGED L

Next == Iterate
Spec == Init /\ [][Next]_vars /\ WF_vars(Next)

(* ------------------------------ properties ----------------------------- *)

Terminates == iter <= MaxIter
Termination == <>(pc = "done")

Mono == /\ offs'.end >= offs.end /\ offs'.subrs >= offs.subrs
        /\ offs'.chs >= offs.chs /\ offs'.cs >= offs.cs /\ offs'.fda >= offs.fda
        /\ \A i \in FDs(L) : offs'.pd[i] >= offs.pd[i]
Monotone == [][Mono]_vars

\* the file that is written consists of the fixed sections and the dynamic sections as last encoded
Real == Cumsum(L, dyn)
Consistent ==
  pc = "done" =>
    /\ stored.chs = Real.chs /\ stored.cs = Real.cs
    /\ L.enc => stored.enc = Real.enc
    /\ L.cid => stored.fds = Real.fds /\ stored.fda = Real.fda
    /\ \A i \in FDs(L) : /\ stored.pd[i] = Real.pd[i]
                         /\ stored.pdSize[i] = dyn.pd[i]
                         /\ Real.pd[i] + stored.rel[i] = Real.subrs
    /\ Real.end = offs.end
HeaderFits == pc = "done" => OffSizeFor(Real.subrs) <= hdrOff /\ hdrOff <= 4

\* the targets were really reached: some stored offset sits exactly on / just below a boundary
\* (reported through TLCSet counters; see CFFLayout.cfg: these are sanity counters, not properties)
OnBoundary == pc = "done" /\ \E t \in Thr : stored.chs \in {t - 1, t} \/ stored.cs \in {t - 1, t}
                                              \/ stored.pd[1] \in {t - 1, t} \/ Real.end \in {t - 1, t}

view == <<L, offs, dyn, hdrOff, pc>>

(* ----------------- self-test of the operators of part (b) --------------- *)
\* examples of TN5176 Table 3 / Table 5 and round trips at every size-class boundary
Bnd == {0, 1, -1, 107, 108, -107, -108, 1131, 1132, -1131, -1132, 32767, 32768, -32768, -32769,
        65535, 65536, 100000, -100000, 2147483647, -2147483647}
ASSUME \A v \in Bnd : LET d == DecodeDict(IntBytes(v) \o <<17>>) IN
          d.ok /\ Len(IntBytes(v)) = IntLen(v) /\ DictArgs(d, 17) = <<Tok("i", v, 0)>>
ASSUME DecodeDict(<<139, 239, 39, 250, 124, 254, 124, 28, 39, 16, 28, 216, 240,
                    29, 0, 1, 134, 160, 29, 255, 254, 121, 96, 6>>).ents
         = <<[op |-> 6, args |-> <<Tok("i", 0, 0), Tok("i", 100, 0), Tok("i", -100, 0), Tok("i", 1000, 0),
                                   Tok("i", -1000, 0), Tok("i", 10000, 0), Tok("i", -10000, 0),
                                   Tok("i", 100000, 0), Tok("i", -100000, 0)>>]>>
ASSUME DecodeDict(<<30, 226, 162, 95, 30, 10, 20, 5, 65, 195, 255, 12, 7>>).ents
         = <<[op |-> 1207, args |-> <<Tok("r", -225, -2), Tok("r", 140541, -9)>>]>>
ASSUME ~DecodeDict(<<30, 255, 17>>).ok /\ ~DecodeDict(<<139>>).ok /\ ~DecodeDict(<<30, 26, 223, 17>>).ok
ASSUME RealTo16(<<5005, -1>>) = <<500, 32768>> /\ RealTo16(<<-25, -2>>) = <<-1, 49152>>
       /\ RealTo16(<<500000015, -6>>) = <<500, 1>>
ASSUME LET h == T2Head(<<255, 1, 244, 128, 0, 239, 139, 21, 14>>) IN
         h.ok /\ h.op = 21 /\ h.args = <<<<500, 32768>>, <<100, 0>>, <<0, 0>>>> /\ WidthArg(h).has
ASSUME DecodeCharset(<<1, 0, 5, 2, 1, 135, 0>>, 5) = [ok |-> TRUE, sids |-> <<0, 5, 6, 7, 391>>]
ASSUME DecodeCharset(<<2, 0, 5, 0, 2, 1, 135, 0, 0>>, 5).sids = <<0, 5, 6, 7, 391>>
ASSUME DecodeCharset(<<0, 0, 5, 1, 135>>, 3).sids = <<0, 5, 391>>
ASSUME DecodeFDSelect(<<3, 0, 2, 0, 0, 1, 0, 3, 0, 0, 5>>, 5).fds = <<1, 1, 1, 0, 0>>
ASSUME DecodeEncoding(<<129, 1, 65, 1, 1, 90, 0, 5>>, <<0, 5, 9>>).enc[66] = 1
       /\ DecodeEncoding(<<129, 1, 65, 1, 1, 90, 0, 5>>, <<0, 5, 9>>).enc[67] = 2
       /\ DecodeEncoding(<<129, 1, 65, 1, 1, 90, 0, 5>>, <<0, 5, 9>>).enc[91] = 1
=============================================================================
