CONSTANTS
  Part = "codec"
  Keys <- MCKeys
  MacStrs <- MCMacStrs
  WinStrs <- MCWinStrs
  PStd <- MCPStd
  PNames <- MCPNames
  PMaxLen = 4
  CUnits <- MCUnits
  CCps <- MCCps
  Pairs <- MCPairs
  BaseOf <- MCBaseOf
INIT Init
NEXT Next
CHECK_DEADLOCK FALSE
INVARIANT CodecLaws
INVARIANT MacTableSize
INVARIANT StdNamesDistinct
