\* C04 trace validation, fractional glyphs: G in units of 2^-18, machine in 16.16
SPECIFICATION Spec
CONSTANTS
  Unit = 65536
  MaxV = 500000000
  MaxPos = 500000000
  GUnit = 262144
INVARIANT StackOK
POSTCONDITION Accepted
CHECK_DEADLOCK FALSE
