---------------------------- MODULE LayoutPipeMC ----------------------------
(***************************************************************************)
(* Constants of LayoutPipe for TLC (cfg files cannot hold tuples).         *)
(* X... = small domains for the exhaustive runs, G... = generation.        *)
(*                                                                         *)
(* Glyph ids: 0 .notdef, 1 space, 2..5 A..D, 6 f, 7 i, 8 l, 9 fi, 10 fl,   *)
(* 11 acute, 12 grave (marks), 13 ff, 14 ffi, 15 ffl.                      *)
(* Characters: 65..68 A..D, 102 f, 105 i, 108 l, 769/768 combining marks,  *)
(* 64256.. ligature characters, 90 "Z" never mapped, 128512 outside the    *)
(* BMP (only a full-Unicode subtable can map it).                          *)
(***************************************************************************)
EXTENDS LayoutPipe

Base == << <<32, 1>>, <<65, 2>>, <<66, 3>>, <<67, 4>>, <<68, 5>>, <<102, 6>>, <<105, 7>>, <<108, 8>> >>
Marks == << <<769, 11>>, <<768, 12>> >>

K(p, e, ok, kind, m) == [p |-> p, e |-> e, ok |-> ok, kind |-> kind, m |-> m]
Bmp1  == Base \o Marks \o << <<64257, 9>>, <<64258, 10>> >>
Bmp2  == Base \o Marks \o << <<64256, 13>>, <<64257, 9>>, <<64258, 10>>, <<64259, 14>>, <<64260, 15>> >>
\* a full-Unicode mapping that disagrees with the BMP ones on "D" and on the ligatures
Full3 == << <<65, 2>>, <<66, 3>>, <<67, 4>>, <<68, 4>>, <<102, 6>>, <<105, 7>>, <<108, 8>>,
            <<128512, 5>>, <<64256, 13>>, <<64257, 9>>, <<769, 11>> >>
Full4 == << <<65, 2>>, <<66, 3>>, <<102, 6>>, <<105, 7>>, <<108, 8>>, <<64259, 14>>, <<64260, 15>>, <<128512, 3>> >>
Bad(p, e) == K(p, e, FALSE, "bad", <<>>)     \* the harness stores one of the undecodable forms here

Cm1 == << K(3, 1, TRUE, "f4", Bmp1), K(0, 3, TRUE, "f4", Bmp1) >>
Cm2 == << K(3, 1, TRUE, "f4", Bmp2) >>
Cm3 == << K(3, 10, TRUE, "f12", Full3), K(0, 4, TRUE, "f12", Full3), K(3, 1, TRUE, "f4", Bmp1), K(0, 3, TRUE, "f4", Bmp1) >>
Cm4 == << K(0, 4, TRUE, "f12", Full4) >>
Cm5 == << K(0, 3, TRUE, "f4", Base) >>
\* preferred subtables that cannot be decoded must not hide the usable ones
Cm6 == << Bad(3, 10), K(3, 1, TRUE, "f4", Bmp2) >>
Cm7 == << Bad(3, 10), K(0, 4, TRUE, "f12", Full3), K(3, 1, TRUE, "f4", Bmp1) >>
Cm8 == << Bad(3, 10), Bad(0, 4), Bad(3, 1), K(0, 3, TRUE, "f4", Bmp2) >>
Cm9 == << Bad(0, 4), K(3, 1, TRUE, "f12", Full3), K(1, 0, FALSE, "bad", <<>>) >>

\* a legacy Macintosh subtable as the only usable one: 196 (A dieresis) is Mac code 0x80, 233 (e acute) 0x8E
MacMap == << <<65, 2>>, <<66, 3>>, <<102, 6>>, <<105, 7>>, <<108, 8>>, <<196, 4>>, <<233, 5>> >>
Cm10 == << K(1, 0, TRUE, "f0mac", MacMap) >>
Cm11 == << Bad(3, 1), K(1, 0, TRUE, "f0mac", MacMap), Bad(0, 4) >>

W1 == <<500, 250, 600, 620, 640, 660, 300, 280, 270, 550, 560, 10, 20, 570, 800, 810>>
W2 == <<1000, 0, 722, 667, 667, 722, 333, 278, 278, 556, 556, 0, 333, 600, 830, 830>>
W3 == <<600, 600, 600, 600, 600, 600, 600, 600, 600, 600, 600, 600, 600, 600, 600, 600>>
\* exactly one glyph differs: .notdef, the last glyph, one in the middle; zero widths beside
W4 == <<500, 600, 600, 600, 600, 600, 600, 600, 600, 600, 600, 600, 600, 600, 600, 600>>
W5 == <<600, 600, 600, 600, 600, 600, 600, 600, 600, 600, 600, 600, 600, 600, 600, 601>>
W6 == <<600, 0, 600, 600, 600, 600, 600, 599, 600, 600, 600, 0, 0, 600, 600, 600>>
W7 == <<600, 0, 600, 600, 600, 600, 600, 600, 600, 600, 600, 0, 0, 600, 600, 600>>

---------------------------------------------------------------------------
(* lookups *)
GL1 == Lk(1, <<>>, << <<2, 3>>, <<3, 4>> >>)                     \* A->B, B->C
GL2 == Lk(1, <<>>, << <<4, 6>>, <<2, 5>>, <<2, 4>> >>)           \* C->f, A->D (A->C shadowed)
GL3 == Lk(4, <<>>, << <<9, 6, 7>>, <<10, 6, 8>> >>)              \* f i -> fi, f l -> fl
GL4 == Lk(4, <<>>, << <<4, 2, 2, 2>>, <<3, 2, 2>>, <<5, 2, 3>> >>) \* AAA->C, AA->B, AB->D
GL5 == Lk(4, <<>>, << <<3, 2, 2>>, <<4, 2, 2, 2>>, <<2, 2, 11>> >>) \* AA->B first; A acute->A
GL6 == Lk(1, <<>>, << <<5, 0>>, <<0, 2>>, <<11, 12>> >>)         \* D->.notdef, .notdef->A, acute->grave
GL7 == Lk(4, <<>>, << <<14, 6, 6, 7>>, <<13, 6, 6>>, <<9, 6, 7>> >>) \* ffi, ff, fi

GL8 == Lk(2, <<>>, << <<3, 2, 2>>, <<6, 6, 7>>, <<5, 4>> >>)              \* B->A A, f->f i, D->C (multiple)
GL9 == Lk(2, <<>>, << <<2, 2, 3, 11>> >>)                           \* A->A B acute

GP1 == Lk(2, <<>>, << <<2, 3, -50, 0, 0, 0>>, <<2, 4, -30, 0, 0, 0>>, <<3, 2, 25, 0, 0, 0>> >>)
GP2 == Lk(2, <<>>, << <<2, 2, -10, 0, 1, -20>>, <<3, 3, 5, 3, 0, 0>> >>)
GP3 == Lk(2, <<>>, << <<9, 2, -15, 0, 0, 0>>, <<2, 11, 7, 0, 0, 0>>, <<11, 2, 9, -4, 0, 0>>,
                               <<0, 0, 11, 0, 0, 0>> >>)
GP4 == Lk(2, <<>>, << <<2, 3, -70, 0, 0, 0>>, <<2, 3, -1, 0, 0, 0>>, <<6, 7, -8, 0, 1, 6>> >>)

GP5 == Lk(1, <<>>, << <<2, -40, 0>>, <<9, 13, 5>>, <<3, -45, -2>>, <<2, 99, 0>>, <<11, 6, 0>> >>)  \* single adjustment
GP6 == Lk(1, <<>>, << <<2, -25, 0>>, <<4, -25, 0>>, <<13, -25, 0>>, <<0, -25, 0>> >>)             \* one value for all

\* lookups with flags (GDEF classes), class-based pairs, mark attachment
GLa == Lk(4, <<"mark">>, << <<9, 6, 7>>, <<5, 2, 3>> >>)            \* f [marks] i -> fi, A [marks] B -> D: marks move behind
GLb == Lk(1, <<"base">>, << <<2, 3>>, <<11, 12>>, <<9, 10>> >>)     \* base glyphs ignored: only acute->grave, fi->fl
GLc == Lk(2, <<"lig">>, << <<9, 6, 7>>, <<2, 2, 11>> >>)            \* ligatures ignored: fi stays; A -> A acute
ClsA == [cov |-> <<2, 3>>, c1 |-> << <<3, 1>> >>, c2 |-> << <<4, 1>>, <<6, 2>> >>, two |-> 0,
         m |-> << << <<-30, 0, 0>>, <<-20, 0, 0>>, <<1, 2, 0>> >>, << <<7, 0, 0>>, <<-50, 0, 0>>, <<0, 3, 0>> >> >>]
ClsB == [cov |-> <<2, 4, 9>>, c1 |-> << <<4, 1>>, <<9, 1>> >>, c2 |-> << <<2, 1>> >>, two |-> 1,
         m |-> << << <<-5, 0, 9>>, <<-15, 0, 3>> >>, << <<6, 1, -2>>, <<8, 0, -4>> >> >>]
LkC(flags, rules, cls) == [ty |-> 2, flags |-> flags, rules |-> rules, cls |-> cls, bases |-> <<>>]
GPa == Lk(2, <<"mark">>, << <<2, 3, -50, 0, 0, 0>>, <<2, 2, -10, 0, 1, -20>>, <<6, 7, -8, 0, 0, 0>> >>)  \* kerning across marks
GPb == LkC(<<>>, << <<2, 3, -77, 0, 0, 0>>, <<5, 2, 4, 0, 0, 0>> >>, <<ClsA>>)     \* class 0 counts; glyph pairs behind
GPc == LkC(<<"mark">>, << <<2, 2, 33, 0, 0, 0>> >>, <<ClsB, ClsA>>)
GPd == [ty |-> 4, flags |-> <<>>, rules |-> << <<11, 0, 10, 20>>, <<12, 1, -5, 0>> >>, cls |-> <<>>,
        bases |-> << <<2, 100, 200, 7, 8>>, <<3, 50, 60, 40, 30>>, <<9, 1, 1, 2, 2>> >>]   \* marks onto A, B, fi
GPe == Lk(1, <<>>, << <<11, 6, 0>>, <<12, 4, 0>>, <<3, 2, 0>> >>)       \* no flags: acts on marks whatever came before
GPf == Lk(1, <<"mark">>, << <<2, 5, 1>>, <<11, 50, 0>> >>)              \* marks ignored: only A

Dummy == Lk(1, <<>>, <<>>)

---------------------------------------------------------------------------
(* language tags (script list keys as the library spells them) *)
T(tag, sc, lg) == [tag |-> tag, script |-> sc, lang |-> lg]
Pool == <<
  T("und-Zzzz-x-dflt", "DFLT", ""),
  T("und-Latn-x-latn", "latn", ""), T("de-Latn-x-latn-deu", "latn", "DEU"), T("fr-Latn-x-latn-fra", "latn", "FRA"),
  T("tr-Latn-x-latn-trk", "latn", "TRK"), T("en-Latn-x-latn-eng", "latn", "ENG"), T("nl-Latn-x-latn-nld", "latn", "NLD"),
  T("es-Latn-x-latn-esp", "latn", "ESP"), T("it-Latn-x-latn-ita", "latn", "ITA"), T("pl-Latn-x-latn-plk", "latn", "PLK"),
  T("ro-Latn-x-latn-rom", "latn", "ROM"), T("sv-Latn-x-latn-sve", "latn", "SVE"), T("cs-Latn-x-latn-csy", "latn", "CSY"),
  T("und-Cyrl-x-cyrl", "cyrl", ""), T("ru-Cyrl-x-cyrl-rus", "cyrl", "RUS"), T("bg-Cyrl-x-cyrl-bgr", "cyrl", "BGR"),
  T("uk-Cyrl-x-cyrl-ukr", "cyrl", "UKR"), T("sr-Cyrl-x-cyrl-srb", "cyrl", "SRB"),
  T("und-Grek-x-grek", "grek", ""), T("el-Grek-x-grek-ell", "grek", "ELL"),
  T("und-Arab-x-arab", "arab", ""), T("ar-Arab-x-arab-ara", "arab", "ARA"), T("fa-Arab-x-arab-far", "arab", "FAR"),
  T("ur-Arab-x-arab-urd", "arab", "URD"),
  T("und-Hebr-x-hebr", "hebr", ""), T("he-Hebr-x-hebr-iwr", "hebr", "IWR"),
  T("und-Deva-x-deva", "deva", ""), T("hi-Deva-x-deva-hin", "deva", "HIN"), T("mr-Deva-x-deva-mar", "deva", "MAR"),
  T("und-Deva-x-dev2", "dev2", "") >>

\* requests: plain BCP 47 tags (no OpenType script known: "") and some script-list spellings
Plain == << T("de", "latn", "DEU"), T("en-US", "latn", "ENG"), T("ru", "cyrl", "RUS"), T("ja", "", ""),
            T("und", "", ""), T("tr", "latn", "TRK"), T("ar-EG", "arab", "ARA"), T("hi", "deva", "HIN") >>

SmallPool == SubSeq(Pool, 1, 5) \o <<Pool[14], Pool[15]>>

Sw(n, on) == [nil |-> n, on |-> on]

Pl(a, b, c, d, e, f, k) == [gl |-> a, gf |-> b, gs |-> c, pl |-> d, pf |-> e, ps |-> f, k |-> k]

---------------------------------------------------------------------------
(* generation: layout *)
GLCmapMenu  == <<Cm1, Cm2, Cm3, Cm4, Cm5, Cm6, Cm7, Cm8, Cm9, Cm10, Cm11>>
GLWidthMenu == <<W1, W2, W3, W4, W5, W6, W7>>
GLMarkMenu  == << <<>>, <<11, 12>> >>
GLPlanMenu  == << Pl(0, 0, 0, 0, 0, 0, 0), Pl(0, 0, 0, 0, 0, 0, 0), Pl(0, 0, 0, 0, 0, 0, 0), Pl(2, 2, 1, 0, 0, 0, 0), Pl(3, 3, 2, 0, 0, 0, 0),
                  Pl(0, 0, 0, 2, 2, 1, 0), Pl(0, 0, 0, 3, 2, 2, 0), Pl(2, 2, 1, 2, 2, 1, 0), Pl(3, 3, 3, 2, 2, 2, 0),
                  Pl(4, 3, 2, 3, 3, 2, 0), Pl(1, 1, 1, 1, 1, 1, 0), Pl(3, 2, 3, 1, 1, 1, 0) >>
GLGsubMenu  == <<GL1, GL2, GL3, GL4, GL5, GL6, GL7, GL8, GL9, GLa, GLb, GLc, GLa>>
GLGposMenu  == <<GP1, GP2, GP3, GP4, GP5, GP6, GPa, GPb, GPc, GPd, GPe, GPf, GPa, GPd>>
GLFeatTagsG == <<"liga", "smcp", "ccmp", "test">>
GLFeatTagsP == <<"kern", "mark", "cpsp">>
GLLkMenu    == << <<0>>, <<1>>, <<2>>, <<1, 0>>, <<0, 0, 2>>, <<7, 1>>, <<3, 0>> >>
GLReqMenu   == <<65535, 65535, 0, 1, 9>>
GLOptMenu   == << <<>>, <<0>>, <<1>>, <<0, 1>>, <<2, 0>>, <<1, 2, 0>>, <<0, 5>> >>
GLReqPool   == SmallPool \o SubSeq(Plain, 1, 5)
GLSwMenuG   == << Sw(TRUE, <<>>), Sw(TRUE, <<>>), Sw(FALSE, <<>>), Sw(FALSE, <<"liga">>), Sw(FALSE, <<"smcp">>),
                  Sw(FALSE, <<"liga", "smcp", "test">>), Sw(FALSE, <<"ccmp", "test">>) >>
GLSwMenuP   == << Sw(TRUE, <<>>), Sw(TRUE, <<>>), Sw(FALSE, <<>>), Sw(FALSE, <<"kern">>), Sw(FALSE, <<"cpsp", "kern">>),
                  Sw(FALSE, <<"mark">>) >>
GLChars     == {65, 66, 67, 68, 102, 105, 108, 769, 90, 128512, 196, 233}
GLWords     == << <<102, 102, 105>>, <<102, 102, 108>>, <<102, 102>>, <<102, 105>>, <<102, 108>>, <<65, 65, 65>>,
                  <<65, 769>>, <<65, 66>>, <<102, 102, 105>>, <<102, 102, 108>>, <<65, 196, 233>>, <<233, 102, 105>> >>
NoWords     == <<>>
NoFlags     == << [horiz |-> TRUE, min |-> FALSE, cross |-> FALSE, over |-> FALSE] >>
NoPairs     == << <<>> >>

(* generation: feature selection alone, script lists with 1..20 language systems *)
GFPlanMenu  == [n \in 1..24 |-> Pl(6, 8, IF n <= 20 THEN n ELSE (n - 20) * 5, 0, 0, 0, 0)]
GFGsubMenu  == <<Dummy>>
GFFeatTags  == <<"liga", "smcp", "ccmp", "test", "liga", "locl">>
GFLkMenu    == << <<0>>, <<1>>, <<5, 2>>, <<1, 0>>, <<0, 0, 2>>, <<7, 1>>, <<3, 0, 6, 4>>, <<>>, <<4>>, <<65535, 2>> >>
GFReqMenu   == <<65535, 0, 3, 7, 200>>
GFOptMenu   == << <<>>, <<1>>, <<2, 0>>, <<0, 5>>, <<7, 6, 5, 4>>, <<3, 3, 9>>, <<0, 1, 2, 3, 4, 5, 6, 7>> >>
GFReqPool   == <<Pool[1], Pool[2], Pool[3], Pool[14], Pool[19], Pool[21], Pool[27], Pool[30]>> \o SubSeq(Plain, 1, 5)
GFSwMenu    == << Sw(FALSE, <<>>), Sw(FALSE, <<"liga">>), Sw(FALSE, <<"liga", "smcp", "test">>),
                  Sw(FALSE, <<"ccmp", "test", "locl">>), Sw(FALSE, <<"liga", "smcp", "ccmp", "test", "locl">>) >>

(* generation: kern-only files *)
GKPlanMenu  == << Pl(0, 0, 0, 0, 0, 0, 1), Pl(0, 0, 0, 0, 0, 0, 2), Pl(0, 0, 0, 0, 0, 0, 3), Pl(0, 0, 0, 0, 0, 0, 4) >>
Fl(h, m, c, o) == [horiz |-> h, min |-> m, cross |-> c, over |-> o]
GKFlagMenu  == << Fl(TRUE, FALSE, FALSE, FALSE), Fl(TRUE, FALSE, FALSE, FALSE), Fl(TRUE, TRUE, FALSE, FALSE),
                  Fl(TRUE, FALSE, FALSE, TRUE), Fl(TRUE, TRUE, FALSE, TRUE), Fl(FALSE, FALSE, FALSE, FALSE),
                  Fl(TRUE, FALSE, TRUE, FALSE), Fl(FALSE, FALSE, FALSE, TRUE) >>
GKPairsMenu == << << <<2, 3, -50>>, <<2, 4, -30>>, <<3, 2, 25>> >>,
                  << <<2, 3, 20>>, <<4, 4, -5>> >>,
                  << <<2, 3, -80>>, <<3, 2, -10>>, <<6, 7, -9>>, <<6, 2, 14>> >>,
                  << <<2, 3, -60>>, <<2, 4, 40>>, <<3, 2, 30>>, <<4, 4, -100>>, <<5, 2, 1>> >>,
                  << <<0, 2, 33>>, <<2, 0, -33>>, <<9, 2, 12>> >>,
                  << <<2, 3, 0>>, <<3, 2, 0>>, <<2, 4, -30>>, <<4, 4, 0>> >>,       \* zero is a value (override / minimum)
                  <<>> >>
GKChars     == {65, 66, 67, 68, 102, 105, 90}
GKSwMenuP   == << Sw(TRUE, <<>>), Sw(TRUE, <<>>), Sw(FALSE, <<"kern">>), Sw(FALSE, <<"cpsp", "kern">>) >>
GKWidthMenu == <<W1, W2>>
GKSwMenuG   == << Sw(TRUE, <<>>) >>

---------------------------------------------------------------------------
(* exhaustive: layout *)
XCm1 == << Bad(0, 4), K(3, 1, TRUE, "f4", << <<65, 2>>, <<66, 3>>, <<102, 6>>, <<105, 7>>, <<769, 11>>, <<64257, 9>> >>) >>
XCm3 == << K(3, 10, TRUE, "f12", << <<65, 3>>, <<66, 3>>, <<102, 6>>, <<105, 7>>, <<769, 11>> >>),
           K(3, 1, TRUE, "f4", << <<65, 2>>, <<66, 3>>, <<102, 6>>, <<105, 7>>, <<64257, 9>> >>) >>
XLCmapMenu  == <<XCm1, XCm3>>
XLWidthMenu == <<W1>>
XLMarkMenu  == << <<>>, <<11, 12>> >>
XLPlanMenu  == << Pl(0, 0, 0, 0, 0, 0, 0), Pl(1, 1, 1, 0, 0, 0, 0), Pl(0, 0, 0, 1, 1, 1, 0), Pl(2, 1, 1, 0, 0, 0, 0) >>
XLPlanMenuT == XLPlanMenu \o << Pl(1, 1, 1, 1, 1, 1, 0), Pl(1, 1, 2, 0, 0, 0, 0) >>
XLGsubMenu  == <<GL1, GLa, GL5, GL8>>
XLGposMenu  == <<GPa, GPd, GPe>>
XLFeatTagsG == <<"liga", "smcp">>
XLFeatTagsP == <<"kern">>
XLLkMenu    == << <<0>>, <<1, 0>> >>
XLReqMenu   == <<65535, 0>>
XLOptMenu   == << <<>>, <<0>> >>
XLTagPool   == <<Pool[1], Pool[2]>>
XLReqPool   == <<Pool[2], Plain[1]>>
XLSwMenuG   == << Sw(TRUE, <<>>), Sw(FALSE, <<>>), Sw(FALSE, <<"smcp">>) >>
XLSwMenuP   == << Sw(TRUE, <<>>), Sw(FALSE, <<>>) >>
XLChars     == {65, 102, 105, 769, 90}

\* quick tier: fewer requests, switches and characters
XLPlanMenuQ == SubSeq(XLPlanMenu, 1, 3)
XLReqPoolQ  == <<Plain[1]>>
XLSwMenuGQ  == << Sw(TRUE, <<>>), Sw(FALSE, <<"smcp">>) >>
XLCharsQ    == {65, 102, 105, 769}
XLGsubMenuQ == <<GLa, GL8>>          \* f i -> fi (a string that shrinks to ONE glyph), f -> f i (one that grows)
XLGposMenuQ == <<GPa, GP5, GPb>>     \* pair across marks, single adjustment, class pairs
XLLkMenuQ   == << <<0>> >>

(* exhaustive: feature selection, all script lists with <= 3 language systems *)
XFPlanMenu  == << Pl(3, 2, 1, 0, 0, 0, 0), Pl(3, 2, 2, 0, 0, 0, 0) >>
XFPlanMenuT == XFPlanMenu \o << Pl(3, 2, 3, 0, 0, 0, 0) >>
XFFeatTags  == <<"liga", "smcp">>
XFLkMenu    == << <<2, 0, 2>>, <<1, 5>> >>
XFReqMenu   == <<65535, 0, 5>>
XFOptMenu   == << <<>>, <<1>>, <<1, 0, 7>> >>
XFTagPool   == <<Pool[1], Pool[2], Pool[3]>>
XFReqPool   == <<Pool[2], Plain[1]>>
XFSwMenu    == << Sw(FALSE, <<>>), Sw(FALSE, <<"smcp">>), Sw(FALSE, <<"liga", "smcp">>) >>

XFFeatTagsQ == <<"smcp">>

(* exhaustive: kern *)
XKPlanMenu  == << Pl(0, 0, 0, 0, 0, 0, 1), Pl(0, 0, 0, 0, 0, 0, 2) >>
XKPlanMenuT == XKPlanMenu \o << Pl(0, 0, 0, 0, 0, 0, 3) >>
XKFlagMenu  == << Fl(TRUE, FALSE, FALSE, FALSE), Fl(TRUE, TRUE, FALSE, FALSE), Fl(TRUE, FALSE, FALSE, TRUE),
                  Fl(TRUE, TRUE, FALSE, TRUE), Fl(FALSE, FALSE, FALSE, FALSE), Fl(TRUE, FALSE, TRUE, FALSE) >>
XKPairsMenu == << << <<2, 3, -50>>, <<3, 2, 25>> >>, << <<2, 3, 20>> >>, << <<2, 3, -80>>, <<6, 7, -9>> >> >>
XKChars     == {65, 66, 102, 105}
XKFlagMenuQ == << Fl(TRUE, FALSE, FALSE, FALSE), Fl(TRUE, TRUE, FALSE, FALSE), Fl(TRUE, FALSE, FALSE, TRUE),
                  Fl(TRUE, TRUE, FALSE, TRUE), Fl(FALSE, FALSE, FALSE, FALSE) >>
XKFlagMenuT == << Fl(TRUE, FALSE, FALSE, FALSE), Fl(TRUE, TRUE, FALSE, FALSE), Fl(TRUE, FALSE, FALSE, TRUE),
                  Fl(TRUE, TRUE, FALSE, TRUE), Fl(TRUE, FALSE, TRUE, FALSE) >>
XKPairsMenuQ == << << <<2, 3, -50>>, <<3, 2, 25>> >>, << <<2, 3, 20>>, <<6, 7, -9>> >> >>
XKCharsQ    == {65, 66, 102}
XKCmapMenu  == <<XCm1>>
=============================================================================
