SPECIFICATION Spec
CONSTANTS
  Unit = 4
  MaxV = 4000000
  MaxPos = 4000000
  GUnit = 4
INVARIANT StackOK
POSTCONDITION Accepted
CHECK_DEADLOCK FALSE
