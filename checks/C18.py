"""C18 -- I/O faults and truncation surface as errors with accurate byte counts.

1. TLC, exhaustive: IOFault.tla (writer plan against a destination that fails after k bytes in exact /
   atomic / short-write mode; reader plan against a cut or failing source, seekable and streaming)
   satisfies the accounting and propagation invariants for every small layout, every k, every mode and
   every set of needed tables.
2. Fault enumeration on the real code: for every corpus font and EVERY k in 0..len(file):
   Write, WriteTrueTypePDF, WriteOpenTypeCFFPDF, (*cff.Font).Write against the faulting destination (six
   modes: exact, atomic, short, eager = (full count, error), fail-once variants) and sfnt.Read against the cut file / failing io.ReaderAt / cut and failing plain io.Reader.
   sfnt.Read is also given the same tables re-assembled by an independent writer with every table in
   turn physically last and with an unknown last table of length 0..3 (mod 4), and the Go fonts shipped
   with golang.org/x/image (last table copied undecoded): k in windows around every table boundary in
   the quick tier, every k for the small files and Go Regular in the thorough tier.
   Every public stand-alone reader (cff.Read, cmap.Decode, gtab.Read, ...) is run the same way on the
   stream its own writer produced (cut at every k; failing from k on where it takes a reader).
   Every run is recorded as one event (sampled k also call by call) and judged by TLC against
   IOFaultTrace.tla.  A failing run is re-run alone and re-validated before it counts.
"""
import json
import os
import re
import threading

import vlib

LEVEL = "fault_enumeration"
MANIFEST = {
    "text": "For every font of a constructed corpus (TrueType, simple CFF, CID-keyed CFF; with/without "
            "GSUB/GPOS/GDEF, composites; 0.2-17 KB) and every fault point k in 0..len(file): Write, WriteTrueTypePDF, "
            "WriteOpenTypeCFFPDF and (*cff.Font).Write run against a destination that accepts k bytes and then fails "
            "(exact, all-or-nothing, short-write, eager = error reported together with the full count of the call "
            "that consumes byte k, and fail-once variants), sfnt.Read runs against the file cut at k, a ReaderAt "
            "failing from k on, and the same through a plain io.Reader. TLC judges every recorded run against "
            "IOFaultTrace.tla (error iff the destination reported a failure, count = bytes accepted, success count = file length, cut inside "
            "table data rejected, failed access never swallowed, no panic); the rules are established on the model "
            "IOFault.tla (tables decoded / copied raw / skipped; a must-fail run without the end-of-table probe), "
            "which TLC checks exhaustively for all small layouts, all k and all modes. Read files include every table "
            "in turn as physically last table (independent re-assembly) and the shipped Go fonts; the stand-alone readers "
            "(cff.Read on the (*cff.Font).Write stream, header.Read, cmap/glyf/gtab/gdef/name/post/os2/head/maxp/hmtx/kern "
            "readers) get the same enumeration on the streams their own writers produced.",
    "note": "Exhaustive over k for the files written from the corpus fonts (re-assembled variants and Go fonts: windows "
            "around table boundaries in the quick tier). A cut that removes only trailing padding may be accepted. "
            "For the failing ReaderAt the oracle is 'an access failed => error' (accesses are what the reader needs). "
            "Trusted: TLC, the fault-injecting writer/readers of the harness (their behaviour is itself checked "
            "against the destination/source model on the sampled call-by-call traces), the directory walker "
            "validated by C03.",
    "technique": "fault enumeration over every byte position, runs validated by TLC against IOFaultTrace.tla; model "
                 "IOFault.tla model-checked exhaustively",
}

_INV = """SPECIFICATION Spec
INVARIANT WErrIffShort
INVARIANT WCountAccepted
INVARIANT WSuccessTotal
INVARIANT WExactAccepts
INVARIANT ErrIffHit
INVARIANT RTruncRejected
INVARIANT RStreamFail
INVARIANT RIntactOK
INVARIANT RFailNeeded
INVARIANT SCutRejected
INVARIANT SCutOptional
INVARIANT SFailRejected
INVARIANT SIntactOK
INVARIANT Bounds
CHECK_DEADLOCK FALSE
"""


def _cfg(maxtables, maxlen, wmodes, rmodes, chunk, probe=True, smax=0):
    q = lambda xs: "{%s}" % ", ".join('"%s"' % x for x in xs)
    return ("CONSTANTS\n  MaxTables = %d\n  MaxLen = %d\n  WModes = %s\n  RModes = %s\n  Chunk = %d\n  Probe = %s\n  SMaxLen = %d\n"
            % (maxtables, maxlen, q(wmodes), q(rmodes), chunk, "TRUE" if probe else "FALSE", smax)) + _INV


W3 = ["exact", "atomic", "short", "eager", "once", "eonce"]
R4 = ["trunc", "failat", "strunc", "sfail"]
_FAILED = re.compile(r'^<<"FAILED", (\d+), (\d+), (-?\d+), "([^"]*)">>')


def _tlc_trace(ctx, trace, label):
    res = ctx.tlc("IOFaultTrace", trace_file=trace, timeout=1500, label=label, heap="3g", count=False)
    fails = []
    for p in res.prints:
        m = _FAILED.match(p)
        if m:
            fails.append((int(m.group(1)), int(m.group(2)), int(m.group(3)), m.group(4)))
    clean = res.rc == 0 and res.violated is None and res.rejected_line is None
    if not clean and not fails:
        raise vlib.Infra("IOFaultTrace did not consume the trace %s (line %s):\n%s"
                         % (label, res.rejected_line, res.error_text[-2000:]))
    return fails, res


def _sig(group, clause):
    kind = group["name"].split("-")[0]
    return {"op": group["op"], "mode": group["mode"], "clause": clause, "outlines": kind,
            "file": (group.get("variant") or "written").split(":")[0]}


def _replay_case(ctx, case, count=1, strict=True):
    binp = ctx.build("c18")
    d = ctx.subdir("replay")
    cp = os.path.join(d, "case.json")
    json.dump(case, open(cp, "w"))
    tp = os.path.join(d, "trace.ndjson")
    ctx.run([binp, "one", cp, tp], env={"VERIF_SEED": str(case.get("seed", ctx.seed))})
    fails, _ = _tlc_trace(ctx, tp, "replay of one run")
    harness = [f for f in fails if f[3].startswith("HARNESS")]
    if harness:
        raise vlib.Infra("harness fault in replay: %s" % harness[0][3])
    if not fails:
        if not strict:
            ctx.log("the run is accepted by IOFaultTrace on this tree (nothing to report)")
            return
        raise vlib.Infra("failure of run %s/%s k=%d did not reproduce in isolation" % (case["op"], case["mode"], case["k"]))
    events = vlib.read_ndjson(tp)
    line, _, k, clause = fails[0]
    what = ("%s of font %s%s with source/destination mode '%s' and fault point k=%d (file length %d, table data ends "
            "at %d): clause '%s' of IOFaultTrace rejects the run: %s; %d run(s) fail with this signature" % (
                case["op"], case["name"], (" [file variant %s]" % case["variant"]) if case.get("variant") else "",
                case["mode"], k, events[0]["total"], events[0]["dataEnd"], clause,
                json.dumps(events[line - 1])[:400], count))
    ctx.violation(what, sig=_sig(case, clause), case=case)


def run(ctx):
    ctx.assumptions += [
        "destinations and sources obey io.Writer / io.ReaderAt / io.Reader (n < len(p) only together with an error)",
        "a file cut inside the trailing padding of its last table may be accepted (no table data is lost)",
        "failing ReaderAt: every access that failed is taken as needed (the reader asked for it)",
        "writing the same font twice yields files of the same length (checked by the harness for every operation)",
        "stand-alone readers (cff.Read on the stream of (*cff.Font).Write; header.Read+ReadTableBytes, cmap.Decode, "
        "glyf.Decode, gtab.Read, gdef.Read, name.Decode, post.Read, os2.Read, head.Read, maxp.Read, hmtx.Decode, "
        "kern.Read on the tables Font.Write / kern.Info.Encode produced): a cut strictly inside the writer's extent "
        "must be rejected, except at ends that are complete for a stream with these header fields: an OS/2 table may "
        "end after its 68-byte core whatever version it declares (the reader's documented leniency for short Apple "
        "tables); with the version word set to 0 or 1 it is decoded up to byte 78 only, with 2..5 it is complete only at "
        "96 bytes (streams of every version 0..5 are run); a loca table is complete after every whole entry (2 or 4 "
        "bytes by head.indexToLocFormat) and nowhere inside one; a container may lose its trailing padding",
    ]
    # 1. the model
    if ctx.quick():
        models = [("writers: 3 tables, lengths 0..4", _cfg(3, 4, W3, [], 3)),
                  ("readers: 2 tables, lengths 0..5", _cfg(2, 5, [], R4, 3)),
                  ("readers: 3 tables, lengths 0..2", _cfg(3, 2, [], R4, 2)),
                  ("stand-alone streams of 1..8 bytes, every set of optional ends", _cfg(1, 1, [], [], 3, smax=8))]
        bounds = {"model": "writers: 1..3 tables, lengths 0..4; readers: 1..2 tables, lengths 0..5 and 1..3 tables, "
                           "lengths 0..2; every k, every mode, every classification decoded/raw/skipped of the tables"}
    else:
        models = [("writers: 4 tables, lengths 0..5", _cfg(4, 5, W3, [], 3)),
                  ("readers: 3 tables, lengths 0..4", _cfg(3, 4, [], R4, 3)),
                  ("readers: 4 tables, lengths 0..1", _cfg(4, 1, [], R4, 1)),
                  ("stand-alone streams of 1..11 bytes, every set of optional ends", _cfg(1, 1, [], [], 4, smax=11))]
        bounds = {"model": "writers: 1..4 tables, lengths 0..5; readers: 1..3 tables, lengths 0..4 and 1..4 tables, "
                           "lengths 0..1; every k, every mode, every classification decoded/raw/skipped of the tables"}
    for label, cfg in models:
        res = ctx.tlc("IOFault", cfg="IOX.cfg", files={"IOX.cfg": cfg}, timeout=2400, label="IOFault exhaustive: " + label)
        if not res.ok:
            raise vlib.Infra("IOFault.tla violates %s on the model (%s) -- the spec is wrong, not the code:\n%s"
                             % (res.violated, label, res.error_text[:1500]))

    # must-fail: without the end-of-last-table probe the model has to accept a cut inside a raw/skipped
    # last table (otherwise RTruncRejected would say nothing about the probe)
    res = ctx.tlc("IOFault", cfg="IONP.cfg", files={"IONP.cfg": _cfg(2, 3, [], ["trunc", "strunc"], 2, probe=False)},
                  timeout=600, label="IOFault without the probe (must violate RTruncRejected)")
    if res.violated != "RTruncRejected":
        raise vlib.Infra("IOFault.tla without the probe does not violate RTruncRejected (got %s): the model is vacuous"
                         % res.violated)
    ctx.notes.append("must-fail model run: IOFault with Probe = FALSE violates RTruncRejected, as required")

    # 2. fault enumeration on the real code
    binp = ctx.build("c18")
    d = ctx.subdir("c18")
    _, out = ctx.run([binp, "all", d], timeout=2400)
    info = json.loads(out.strip().splitlines()[-1])
    groups = {g["id"]: g for g in vlib.read_ndjson(os.path.join(d, "groups.ndjson"))}
    parts = sorted(f for f in os.listdir(d) if f.startswith("part-"))
    ctx.log("recorded %d runs in %d groups, %d trace files" % (info["runs"], info["groups"], len(parts)))

    # the trace files are validated by several TLC processes at a time
    lock = threading.Lock()
    orig_subdir = ctx.subdir

    def locked_subdir(name=None):
        with lock:
            return orig_subdir(name)
    ctx.subdir = locked_subdir
    results = {}
    errors = []
    sem = threading.Semaphore(max(1, min(4, ctx.workers // 2)))

    def work(p):
        with sem:
            try:
                results[p] = _tlc_trace(ctx, os.path.join(d, p), "IOFaultTrace: " + p)
            except Exception as ex:  # reported below, in the main thread
                errors.append(ex)
    threads = [threading.Thread(target=work, args=(p,)) for p in parts]
    for t in threads:
        t.start()
    for t in threads:
        t.join()
    ctx.subdir = orig_subdir
    if errors:
        raise errors[0]

    runs = nontrivial = events = 0
    failing = {}
    per_op = {}
    for p in parts:
        fails, res = results[p]
        ctx.cov["states"] += res.distinct
        ctx.cov["transitions"] += res.generated
        ctx.cov["tlc_runs"].append({"label": "IOFaultTrace: " + p, "cmd": res.cmd, "generated": res.generated,
                                    "distinct": res.distinct, "diameter": res.diameter, "wall_s": round(res.wall, 2),
                                    "cases": 0, "violated": res.violated})
        failed_runs = set()
        for line, g, k, clause in fails:
            if clause.startswith("HARNESS"):
                raise vlib.Infra("harness fault: %s in %s line %d (group %s, k=%d)" % (clause, p, line, groups.get(g), k))
            failed_runs.add((g, k))
            key = json.dumps(_sig(groups[g], clause), sort_keys=True)
            f = failing.setdefault(key, {"n": 0, "g": g, "k": k})
            f["n"] += 1
            if (groups[g]["total"], -k) < (groups[f["g"]]["total"], -f["k"]):
                f["g"], f["k"] = g, k
        with open(os.path.join(d, p)) as fh:
            for ln in fh:
                events += 1
                if '"ev":"w",' in ln or '"ev":"r",' in ln or '"ev":"wr",' in ln or '"ev":"rr",' in ln:
                    e = json.loads(ln)
                    if e["ev"] in ("w", "r", "wr", "rr"):
                        runs += 1
                        g = groups[e["g"]]
                        if e["ev"] in ("w", "r"):
                            if e["k"] < g["total"]:
                                nontrivial += 1
                            per_op[g["op"]] = per_op.get(g["op"], 0) + 1
                            if e["k"] in (0, g["total"] // 2, g["total"]) and g["mode"] in ("exact", "trunc", "failat"):
                                ctx.sample({"font": g["name"], "op": g["op"], "total": g["total"], "dataEnd": g["dataEnd"],
                                            "run": e}, limit=8)
    n_failed = sum(f["n"] for f in failing.values())
    ctx.cov["evaluations"] = runs
    ctx.cov["distinct_nontrivial"] = nontrivial
    ctx.cov["traces_validated_against_impl"] += runs - n_failed
    ctx.cov["rule"] = ("evaluations = executions of a real write/read operation under an injected fault (one per font x "
                       "operation x mode x k, plus call-by-call re-runs for sampled k); distinct_nontrivial = distinct "
                       "(font, operation, mode, k) with the fault point inside the file (k < len(file))")
    ctx.cov["exhaustive"] = True
    nfonts = len(set(g["fi"] for g in groups.values() if g["fi"] >= 0))
    nwin = len(set((g["fi"], g["variant"]) for g in groups.values() if g["ksel"] == "win"))
    nall = len(set((g["fi"], g["variant"]) for g in groups.values() if g["ksel"] == "all" and g["variant"]))
    bounds.update({"fault_points": "every k in 0..len(file) for each of %d corpus fonts (%s) and for %d re-assembled/Go-font "
                                   "files; windows of +-6 bytes around every table boundary, the directory and the file "
                                   "end for %d more files (each table in turn physically last, unknown last table of "
                                   "length 0..3 mod 4, Go fonts as shipped)" % (
                       nfonts, ", ".join(sorted(set("%d B" % g["total"] for g in groups.values() if g["op"] == "Write"))),
                       nall, nwin),
                   "operations": per_op, "destination_modes": W3, "source_modes": R4,
                   "trace_events_validated": events})
    ctx.cov["bounds"] = bounds

    for key in sorted(failing)[:10]:
        f = failing[key]
        case = dict(groups[f["g"]])
        case["k"] = f["k"]
        case["seed"] = ctx.seed
        _replay_case(ctx, case, f["n"])
    if len(failing) > 10:
        ctx.notes.append("%d more failure signatures were not replayed" % (len(failing) - 10))
    for key, f in sorted(failing.items()):
        ctx.notes.append("%d runs failed with signature %s" % (f["n"], key))


def replay(ctx, obj):
    _replay_case(ctx, obj["case"], strict=False)
