"""C08 -- GSUB/GPOS/GDEF binary encoding round-trips with consistent offsets and sizes.

1. TLC, exhaustive on small constants: LookupLayout.tla (the chunk layout of lookup.go:304-532 and the
   header of gtab.go:165-199) satisfies what the code guarantees (CodeInv...), and TLC is asked for
   counterexamples to what the property demands beyond that (DemandSubOffsets, DemandHeader).
2. R: every terminal state of the model is a replay case (lookups x subtables x sizes, script/feature
   list sizes).  A stratified sample is realised with REAL subtables of exactly the planned sizes,
   encoded by (*gtab.Info).Encode, walked by the independent walker (harness/internal/gtabwalk),
   decoded by gtab.Read.  LookupLayoutShapes.tla enumerates subtable shapes for every lookup type and
   format, GDEF tables and script/feature lists; LookupLayoutCov.tla enumerates coverage / class
   definition run structures and computes both encodings word by word.
3. V: the recorded events are judged by TLC against LookupLayoutTrace.tla (in-range offsets, no
   unclaimed or doubly claimed byte, planned sizes, extension types, smaller format, decoded =
   original, refusal only of unrepresentable data).  Every rejected case is re-run alone and
   re-validated under the strict configuration before it is reported.
"""
import json
import os
import random
import re
import threading
from concurrent.futures import ThreadPoolExecutor

import vlib

LEVEL = "model_checking"
MANIFEST = {
    "text": "TLC exhaustively checks LookupLayout.tla, a model of the lookup-list chunk layout (reordering, extension "
            "records, 16-bit offsets) and of the GSUB/GPOS header, against the guarantees of the code and searches it "
            "for counterexamples to the demands of the property; every terminal state is a replay case that is "
            "realised with real subtables of exactly the planned sizes, encoded by the library, walked by an "
            "independent structural walker that follows every offset, and decoded again. TLC also enumerates "
            "subtable shapes for all supported GSUB/GPOS lookup types and formats, GDEF tables, script/feature "
            "lists, and coverage/class-definition run structures over the 16-bit glyph range (computing both "
            "encodings word by word). All recorded runs are judged by TLC against LookupLayoutTrace.tla.",
    "note": "Trusted: TLC, the independent walker (harness/internal/gtabwalk), the canonical projection used to "
            "compare decoded with original values (nil and empty slices/maps identified). Not covered: GPOS 5.1 "
            "(the library refuses to encode it), device tables, FeatureVariations, language tags outside the "
            "x-extension form the reader produces, value records that are nil in one pair and non-nil in another "
            "of the same subtable (the format cannot represent them), class matrices beyond the reader's 65535 "
            "record limit. Realised lookup lists are a stratified sample of the exhaustively model-checked plans.",
    "technique": "TLA+ model checking (TLC) of LookupLayout.tla + replay of TLC-generated layouts/shapes into the real "
                 "encoders + trace validation of the walked bytes against LookupLayoutTrace.tla",
}

INV = """INVARIANT CodeInvChunks
INVARIANT CodeInvTotal
INVARIANT CodeInvLookupOffsets
INVARIANT CodeInvExt
INVARIANT CodeInvRetyped
INVARIANT CodeInvOtherSubOffsets
INVARIANT CodeInvNoPanic
INVARIANT DemandNoNeedlessRefusal
INVARIANT ExtTransparent
INVARIANT Emit
"""


def _set(xs):
    return "{" + ", ".join(str(x).upper() if isinstance(x, bool) else str(x) for x in xs) + "}"


def _layout_cfg(sizes, ml, ms, mfs=(False,), ss=(20,), fs=(14,), emit=True, inv=INV, fix=False, types=(0,), ext=7):
    return ("CONSTANTS\n  Sizes = %s\n  MaxLookups = %d\n  MaxSubs = %d\n  MfsChoices = %s\n  ScriptSizes = %s\n"
            "  FeatSizes = %s\n  EmitCases = %s\n  Fix28 = %s\n  Types = %s\n  ExtType = %d\n  Recognised = %s\n"
            "INIT Init\nNEXT Next\n%sCHECK_DEADLOCK FALSE\n" % (
                _set(sizes), ml, ms, _set(mfs), _set(ss), _set(fs), "TRUE" if emit else "FALSE",
                "TRUE" if fix else "FALSE", _set(types), ext, _set(types), inv))


def _cfg_replace(name, **kv):
    text = open(os.path.join(vlib.SPEC_DIR, name)).read()
    for k, v in kv.items():
        text, n = re.subn(r"(\n\s*%s\s*=\s*)[^\n]*" % k, lambda m: m.group(1) + v, text)
        if n != 1:
            raise vlib.Infra("cannot set %s in %s" % (k, name))
    return text


class Jobs:
    """TLC runs executed by a few threads; accounting is done in the main thread."""

    def __init__(self, ctx, par):
        self.ctx = ctx
        self.par = par
        self.jobs = []
        lock = threading.Lock()
        orig = ctx.subdir

        def locked(name=None):
            with lock:
                return orig(name)
        ctx.subdir = locked

    def add(self, key, module, cfgname, cfgtext, label, timeout=600, coverage=False, simulate=None):
        self.jobs.append((key, module, cfgname, cfgtext, label, timeout, coverage, simulate))

    def run(self):
        w = max(2, self.ctx.workers // self.par)
        out = {}

        def one(job):
            key, module, cfgname, cfgtext, label, timeout, coverage, simulate = job
            files = {cfgname: cfgtext} if cfgtext else None
            if simulate:
                return key, label, self.ctx.tlc(module, cfg=cfgname, files=files, workers=1, timeout=timeout,
                                                label=label, count=False, simulate=simulate, depth=20)
            return key, label, self.ctx.tlc(module, cfg=cfgname, files=files, workers=w, timeout=timeout,
                                            label=label, count=False, coverage=coverage)
        with ThreadPoolExecutor(max_workers=self.par) as ex:
            for key, label, res in ex.map(one, self.jobs):
                out[key] = res
                self.ctx.cov["states"] += res.distinct
                self.ctx.cov["transitions"] += res.generated
                self.ctx.cov["tlc_runs"].append({
                    "label": label, "cmd": res.cmd, "generated": res.generated, "distinct": res.distinct,
                    "diameter": res.diameter, "wall_s": round(res.wall, 2), "cases": len(res.cases),
                    "violated": res.violated})
        self.jobs = []
        return out


# ------------------------------------------------------------------------------------------------
def _plan_class(p):
    return (p["model"], p["tooLarge"], min(p["nrepl"], 3), len(p["ll"]),
            any(l["mfs"] for l in p["ll"]), max(len(l["subs"]) for l in p["ll"]))


def _select_plans(rng, plans, per_class, cap):
    groups = {}
    for p in plans:
        groups.setdefault(_plan_class(p), []).append(p)
    chosen = []
    for k in sorted(groups, key=repr):
        g = groups[k]
        rng.shuffle(g)
        chosen += g[:per_class]
    rng.shuffle(chosen)
    # keep every class represented, then fill up to the cap
    seen, first, rest = set(), [], []
    for p in chosen:
        k = _plan_class(p)
        (rest if k in seen else first).append(p)
        seen.add(k)
    return (first + rest)[:max(cap, len(first))], len(groups)


def _bad_cases(res):
    bad = {}
    for line in res.prints:
        m = re.match(r'<<"BAD", (\d+), (\d+), "([^"]+)">>', line)
        if m:
            cid, ln, tag = int(m.group(1)), int(m.group(2)), m.group(3)
            if (ln, tag) not in bad.setdefault(cid, []):
                bad[cid].append((ln, tag))
    for cid in bad:
        bad[cid].sort()
    return bad


def _case_sig(case, tag):
    sig = {"kind": case["kind"], "tab": case["tab"], "tag": tag, "class": case.get("class", "")}
    if case["kind"] == "plan":
        types = set(l["type"] for l in case["lookups"])
        ctx_types = {5, 6} if case["tab"] == "GSUB" else {7, 8}
        sig["types"] = "contextual-only" if types <= ctx_types else "mixed"
        sig["big_header"] = case["S"] + case["F"] + 10 > 65535
    return sig


def _describe(case):
    if case["kind"] in ("plan", "shape"):
        parts = []
        for l in case["lookups"]:
            subs = ", ".join(("%s=%d bytes" % (s["kind"], s["size"])) if s["kind"] != "shape"
                             else "shape %s" % json.dumps(s["shape"], sort_keys=True) for s in l["subs"])
            parts.append("type %d flags 0x%04x [%s]" % (l["type"], l["flags"], subs))
        return "%s with script list %s, feature list %s, lookups: %s" % (
            case["tab"], case["S"] if case["S"] >= 0 else "small", case["F"] if case["F"] >= 0 else "small",
            "; ".join(parts))
    if case["kind"] == "gdef":
        return "GDEF %s" % json.dumps(case["gdef"], sort_keys=True)
    return "%s script/feature lists %s" % (case["tab"], json.dumps(case["lists"], sort_keys=True)[:400])


_acct = threading.Lock()


def _vt(ctx, trace, cfg, label):
    """Trace validation that is safe to call from several threads (accounting under a lock)."""
    res = ctx.tlc("LookupLayoutTrace", cfg=cfg, trace_file=trace, timeout=1200, label=label, count=False)
    with _acct:
        ctx.cov["states"] += res.distinct
        ctx.cov["transitions"] += res.generated
        ctx.cov["tlc_runs"].append({"label": label, "cmd": res.cmd, "generated": res.generated,
                                    "distinct": res.distinct, "diameter": res.diameter,
                                    "wall_s": round(res.wall, 2), "cases": 0, "violated": res.violated})
    return res


def _replay_run_case(ctx, case, tags=None):
    """Re-record one concrete case alone and validate it under the strict configuration."""
    binp = ctx.build("c08")
    d = ctx.subdir("replay")
    cp = os.path.join(d, "in.ndjson")
    vlib.write_ndjson(cp, [{"what": "case", "case": case}])
    tp = os.path.join(d, "trace.ndjson")
    ctx.run([binp, "run", cp, tp], env={"VERIF_REPO": ctx.repo})
    res = _vt(ctx, tp, "LookupLayoutTraceStrict.cfg", "strict replay of one case")
    if res.rc == 0 and res.violated is None and res.rejected_line is None:
        return None
    line = res.rejected_line
    if line is None:
        raise vlib.Infra("strict replay failed without a rejected line:\n" + res.error_text[-1500:])
    events = vlib.read_ndjson(tp)
    bad = events[line - 1]
    if not tags:
        # find the clause: run the lenient configuration on the same trace
        res2 = _vt(ctx, tp, "LookupLayoutTrace.cfg", "clause of the rejected line")
        tags = [t for (ln, t) in _bad_cases(res2).get(case["id"], []) if ln == line]
    return bad, (tags or ["rejected"])


def _report_run_case(ctx, case, bad, tags):
    tag = tags[0]
    if tag == "infra":
        raise vlib.Infra("harness-level inconsistency in case %s: %s" % (case["id"], json.dumps(bad)[:500]))
    detail = {k: bad[k] for k in ("outcome", "msg", "err", "diff", "gaps", "overlaps", "len", "hdr", "n", "npairs", "nread", "missing") if k in bad}
    what = ("%s encoding violates the property at the %s step (%s): %s. Input: %s" % (
        case["tab"], bad["ev"], ", ".join(tags), json.dumps(detail)[:500], _describe(case)[:900]))
    ctx.violation(what, sig=_case_sig(case, tag), case={"mode": "run", "case": case})


def _validate_batch(ctx, trace, label):
    """Lenient validation of a batch; returns {case id: [(line, tag)]}."""
    cases = vlib.read_ndjson(trace + ".cases")
    nev = sum(1 for _ in open(trace))
    res = _vt(ctx, trace, "LookupLayoutTrace.cfg", label)
    if not (res.rc == 0 and res.violated is None and res.rejected_line is None):
        raise vlib.Infra("lenient trace validation stopped at line %s:\n%s" % (res.rejected_line, res.error_text[-2000:]))
    with _acct:
        ctx.cov["evaluations"] += nev
        ctx.cov["traces_validated_against_impl"] += len(cases)
    return cases, _bad_cases(res)


def _run_harness_parallel(ctx, binp, lines, d, name, nproc):
    """Split generator lines over several harness processes; returns the trace paths."""
    nproc = max(1, min(nproc, len(lines) // 50 + 1))
    chunks = [lines[i::nproc] for i in range(nproc)]
    paths = []

    def one(k):
        ip = os.path.join(d, "%s-in%d.ndjson" % (name, k))
        tp = os.path.join(d, "%s-trace%d.ndjson" % (name, k))
        vlib.write_ndjson(ip, chunks[k])
        ctx.run([binp, "run", ip, tp], env={"VERIF_REPO": ctx.repo, "VERIF_SEED": str(ctx.seed * 100 + k)},
                timeout=1500)
        return tp
    with ThreadPoolExecutor(max_workers=nproc) as ex:
        paths = list(ex.map(one, range(nproc)))
    return paths


def run(ctx):
    rng = random.Random(ctx.seed)
    quick = ctx.quick()
    ctx.assumptions += [
        "decoded = original is judged on a canonical projection that identifies nil and empty slices/maps",
        "script lists use the tags the library's reader produces (BCP 47 tags with the -x-<script>-<lang> extension)",
        "a lookup list is representable iff it fits with every lookup stored through extension records "
        "(LookupLayoutDefs!Representable); header offsets must fit with the lists in the order script, feature, lookup",
        "subtables whose natural layout overflows an Offset16 may be refused or encoded correctly (either is accepted)",
        "GPOS 5.1 is not encodable by the library (panics 'not implemented') and is left out",
    ]
    jobs = Jobs(ctx, par=4)
    # ---------------------------------------------------------------- 1. the model
    if quick:
        layouts = {
            "main": _layout_cfg([10, 100, 40000, 66000], 3, 2),
            "sub3": _layout_cfg([100, 30000, 40000], 2, 3, mfs=(False, True)),
            "deep": _layout_cfg([100, 40000], 4, 2),
            "deep6": _layout_cfg([100, 40000], 6, 2),      # simulated in the quick tier
        }
    else:
        layouts = {
            "main": _layout_cfg([10, 100, 30000, 40000, 65000, 66000], 3, 2),
            "mfs": _layout_cfg([100, 40000, 66000], 3, 2, mfs=(False, True)),
            "sub3": _layout_cfg([100, 30000, 40000], 3, 3),
            "deep": _layout_cfg([100, 40000], 6, 2),
            "deep3": _layout_cfg([100, 40000, 66000], 4, 2),
            "four": _layout_cfg([10, 100, 30000, 40000, 65000, 66000], 4, 1, mfs=(False, True)),
        }
    layouts["hdr"] = _layout_cfg([100], 1, 1, ss=(20, 30000, 66000), fs=(14, 40000, 66000))
    # extension wrapping is transparent for every lookup type: three lookups of 40000 bytes with given types
    TYPES = {"types_gsub": ((1, 2, 3, 4, 5, 6, 8), 7), "types_gpos": ((1, 2, 3, 4, 6, 7, 8), 9)}
    for k, (tys, ext) in TYPES.items():
        layouts[k] = _layout_cfg([40000], 3, 1, types=tys, ext=ext)
    for k, text in layouts.items():
        if quick and k == "deep6":
            jobs.add(k, "LookupLayout", "LL_%s.cfg" % k, text, "LookupLayout simulation (1-6 lookups)", timeout=600,
                     simulate=1200)
        else:
            jobs.add(k, "LookupLayout", "LL_%s.cfg" % k, text, "LookupLayout exhaustive (%s)" % k, timeout=1500)
    # the 16-bit boundary to the byte (LookupLayoutEdge.tla): one subtable size runs through 65406..65544 in steps of
    # two; TLC prints the plans in which a Lookup table or a subtable offset lands within 4 bytes of 65536
    edge_cfg = (_layout_cfg([10], 3, 2, mfs=(False, True), emit=False, fix=True,
                            inv=INV.replace("INVARIANT Emit\n", "INVARIANT EmitEdge\n").replace("INVARIANT DemandNoNeedlessRefusal\n", ""))
                .replace("INIT Init", "INIT EdgeInit")
                .replace("CONSTANTS\n", "CONSTANTS\n  EdgeSizes = %s\n  Within = 4\n" % _set(range(65536 - 130, 65536 + 10, 2))))
    jobs.add("edge", "LookupLayoutEdge", "LL_edge.cfg", edge_cfg, "LookupLayoutEdge: plans that land within 4 bytes of 65536",
             timeout=1500)
    # the same next to lookups that are too big anyway: some lookups are replaced by extension records, a lookup of the
    # swept size stays as it is and pushes the biggest lookup to the boundary
    jobs.add("edge2", "LookupLayoutEdge", "LL_edge2.cfg", edge_cfg.replace("Sizes = {10}", "Sizes = {66000}"),
             "LookupLayoutEdge: plans that land within 4 bytes of 65536 (next to lookups of 66000 bytes)", timeout=1500)
    # the design of proposed-fixes/C08-1.diff satisfies the demand on every plan
    jobs.add("fixdesign", "LookupLayout", "LL_fix.cfg",
             _layout_cfg([100, 30000, 40000], ctx.pick(2, 3), 3, mfs=(False, True) if quick else (False,), emit=False, fix=True,
                         inv=INV.replace("INVARIANT Emit\n", "") + "INVARIANT FixInvSubOffsets\nINVARIANT DemandSubOffsets\n"),
             "LookupLayout with the proposed fix (Fix28): DemandSubOffsets holds", timeout=1500)
    jobs.add("demand", "LookupLayout", "LookupLayoutDemand.cfg", None, "LookupLayout: search for DemandSubOffsets counterexample")
    jobs.add("hdrdemand", "LookupLayout", "LookupLayoutHdrDemand.cfg", None, "LookupLayout: search for DemandHeader counterexample")
    # generators
    if quick:
        shape_cfg = _cfg_replace("LookupLayoutShapes_all.cfg", Ms="{0, 1, 2, 4}", Fs="{0, 1, 2}")
    else:
        shape_cfg = _cfg_replace("LookupLayoutShapes_all.cfg", Ns="{0, 1, 2, 3, 5}", Ms="{0, 1, 2, 3, 4}")
    jobs.add("shapes", "LookupLayoutShapes", "LLS_all.cfg", shape_cfg, "LookupLayoutShapes (shapes, huge, GDEF, lists)")
    segs = "3" if quick else "4"
    jobs.add("cov", "LookupLayoutCov", "LLC_cov.cfg",
             _cfg_replace("LookupLayoutCov.cfg", MaxSegs=segs, Runs="{1, 2, 4}" if quick else "{1, 2, 3, 4}"),
             "LookupLayoutCov (coverage)", timeout=1500)
    jobs.add("cdef", "LookupLayoutCov", "LLC_cdef.cfg",
             _cfg_replace("LookupLayoutCDef.cfg", MaxSegs=segs, Runs="{1, 3}", Gaps="{0, 1, 50}" if quick else "{0, 2, 50}"),
             "LookupLayoutCov (class definitions, dense)", timeout=1500)
    if not quick:
        jobs.add("vacuity", "LookupLayout", "LL_vac.cfg", _layout_cfg([100, 30000, 40000], 3, 2, emit=False),
                 "LookupLayout action coverage", coverage=True)
    R = jobs.run()

    plans = []
    typed = []
    for k in layouts:
        r = R[k]
        if not r.ok:
            raise vlib.Infra("LookupLayout.tla (%s) violates %s on the model -- the spec is wrong, not the code:\n%s"
                             % (k, r.violated, r.error_text[:1500]))
        if not r.cases:
            raise vlib.Infra("LookupLayout.tla (%s) emitted no plan" % k)
        if k in TYPES:
            tys, ext = TYPES[k]
            for p in r.cases:
                ts = [l["type"] for l in p["ll"]]
                nxt = lambda a: tys[(tys.index(a) + 1) % len(tys)]
                # quick: every type alone and mixed with one other type (before and after); thorough: all triples
                if len(ts) == 3 and (not quick or len(set(ts)) == 1 or (ts[0] == ts[1] and ts[2] == nxt(ts[0]))
                                     or (ts[1] == ts[2] and ts[0] == nxt(ts[1]))):
                    q = dict(p)
                    q.update(what="plan", ext=ext)
                    q.pop("big", None)
                    typed.append(q)
            continue
        plans += r.cases
    if not R["fixdesign"].ok:
        raise vlib.Infra("the model of the proposed fix violates %s:\n%s" % (R["fixdesign"].violated, R["fixdesign"].error_text[:1500]))
    ctx.notes.append("the model with Fix28 = TRUE (design of proposed-fixes/C08-1.diff) satisfies DemandSubOffsets on %d states"
                     % R["fixdesign"].distinct)
    for k, inv in (("demand", "DemandSubOffsets"), ("hdrdemand", "DemandHeader")):
        r = R[k]
        if r.violated == inv:
            ll = [x.strip() for x in r.counterexample if x.startswith("/\\ ll =") or x.startswith("/\\ S =")
                  or x.startswith("/\\ F =")]
            ctx.notes.append("TLC counterexample on the code model: %s is violated, e.g. %s" % (inv, " ".join(ll[-3:])))
        elif r.violated:
            raise vlib.Infra("demand run %s violated %s" % (k, r.violated))
        else:
            ctx.notes.append("the code model satisfies %s within the bounds" % inv)
    if not quick:
        z = [a for a in R["vacuity"].coverage_zero]
        if z:
            raise vlib.Infra("vacuous actions in LookupLayout.tla: %s" % z)
    for k in ("shapes", "cov", "cdef"):
        if not R[k].ok or not R[k].cases:
            raise vlib.Infra("generator %s failed: %s %s" % (k, R[k].violated, R[k].error_text[:800]))
    gen = {"shape": [], "boundary": [], "leaf": [], "huge": [], "off": [], "field": [], "gdef": [], "lists": [], "geom": []}
    for c in R["shapes"].cases:
        if c["what"] == "shape" and c["k"] == "leaf":
            gen["leaf"].append(c)           # value sweeps on scalar leaves: realised in every run
        elif c["what"] == "shape" and c["k"].startswith("huge"):
            gen["huge"].append(c)
        elif c["what"] == "shape" and c["k"] == "off":
            gen["off"].append(c)
        elif c["what"] == "shape" and (max(c["n"], c["m"]) >= 255 or
                                       (c["m"] == 0 and c["n"] == 2 and c["c"] == 0 and c["f"] == 0) or
                                       (c["k"].endswith("z") and c["m"] == 1 and c["c"] == 0 and c["f"] == 0)):
            # counts at the 8-bit carry, and the structural variants "empty but non-nil" (m = 0) next to nil
            # (v = 1) rule sets / sequences / rows, class definitions with explicit class-0 entries (kinds ...z),
            # each followed by more data: realised in every run
            gen["boundary"].append(c)
        else:
            gen[c["what"]].append(c)
    if not all(gen.values()):
        raise vlib.Infra("generator produced no %s" % [k for k, v in gen.items() if not v])
    ctx.cov["bounds"] = {
        "layout_model": "exhaustive: " + "; ".join("%s: %d plans" % (k, len(R[k].cases)) for k in layouts),
        "sizes": "abstract sizes {10,100,30000,40000,65000,66000}, 1-6 lookups, 1-3 subtables, with/without mark filtering set",
        "realised": "stratified seeded sample of the plans (every class of model verdict x reordering x replaced lookups x "
                    "lookup count), plus contextual-only variants",
        "always_realised": "%d shapes with counts 255/256/257 or empty-but-non-nil next to nil parts (each followed by a second subtable and a second lookup), %d reader-geometry lookup lists (40/100/300 lookups behind 6 "
                           "paddings; 255/256/257 lookups; 2/255/256/257/509/510/511/600 subtables), every script and language "
                           "tag of the built-in tables, lists with 255/256/257(/300) language systems, features, feature "
                           "lookups, optional features, coverage/classdef with 255/256/257 glyphs or ranges; degenerate "
                           "populations (explicit class-0 entries, all-zero tables, nil vs empty, false set members, glyph 0 / "
                           "65535) of classdef.Table, coverage.Set, GDEF and class-based subtables; %d value sweeps "
                           "(each scalar leaf at 0, 1, -1, min, max with the other leaves non-zero / zero); %d lookup lists "
                           "forced into extension lookups for every GSUB type 1-6, 8 and GPOS type 1-4, 6-8, alone and mixed"
                           % (len(gen["boundary"]), len(gen["geom"]), len(gen["leaf"]), len(typed)),
        "shapes": "%d subtable shapes, %d GDEF, %d script/feature list shapes, %d coverage and %d classdef run structures"
                  % (len(gen["shape"]) + len(gen["boundary"]) + len(gen["huge"]) + len(gen["off"]), len(gen["gdef"]), len(gen["lists"]),
                     len(R["cov"].cases), len(R["cdef"].cases)),
    }
    model_gap = sum(1 for p in plans if p["model"] != "ok")
    ctx.notes.append("%d of %d model plans are predicted by the code model to break a demand of the property "
                     "(subwrap/hdrwrap); they are replayed against the real encoder" % (model_gap, len(plans)))

    # ---------------------------------------------------------------- 2. realise plans
    binp = ctx.build("c08")
    d = ctx.subdir("c08")
    chosen, nclasses = _select_plans(rng, plans, ctx.pick(3, 60), ctx.pick(150, 4000))
    # the script/feature list size plans are few: all of them, always
    chosen += [p for p in R["hdr"].cases if p not in chosen]
    lines = []
    for p in chosen:
        q = dict(p)
        q["what"] = "plan"
        q.pop("big", None)      # index of the biggest lookup in the model; "big" means something else for shapes
        lines.append(q)
    # plans at the 16-bit boundary: a seeded sample of every class (reordering, number of replaced lookups, which
    # lookups carry a markFilteringSet word, subtable counts, distance to 65536) in the quick tier, all of them otherwise
    ecases = []
    for k in ("edge", "edge2"):
        er = R[k]
        if not er.ok or not er.cases:
            raise vlib.Infra("LookupLayoutEdge.tla (%s) failed or found no plan at the boundary: %s"
                             % (k, er.violated or er.error_text[:500]))
        ecases += er.cases
    eclass = {}
    seen_ll = set()
    for p in sorted(ecases, key=lambda c: (c["near"], json.dumps(c, sort_keys=True))):
        key_ll = (json.dumps(p["ll"], sort_keys=True), p["at"])
        if key_ll in seen_ll:
            continue
        seen_ll.add(key_ll)
        # class: where the boundary is met (final layout / running estimate), reordering, number of replaced lookups,
        # which lookups carry a markFilteringSet word, subtable counts, next to over-sized lookups or not
        k = (p["at"], p["tooLarge"], p["nrepl"], tuple(l["mfs"] for l in p["ll"]), tuple(len(l["subs"]) for l in p["ll"]),
             max(x for l in p["ll"] for x in l["subs"]) > 65600)
        eclass.setdefault(k, []).append(p)
    nedge = 0
    for k in sorted(eclass, key=repr):
        g = eclass[k]            # nearest to 65536 first; the quick tier takes, per class, one plan at every distance
        dist_seen = set()
        for p in g:
            if quick and (p["near"] in dist_seen or (k[0] == "layout" and p["near"] > 0)):
                continue
            dist_seen.add(p["near"])
            q = dict(p)
            q["what"] = "plan"
            for f in ("big", "near", "at"):
                q.pop(f, None)
            lines.append(q)
            nedge += 1
    ctx.cov["bounds"]["edge_plans"] = {"model_plans_within_4_bytes_of_65536": len(ecases), "classes": len(eclass), "realised": nedge}
    # contextual-only lookup lists (the encoder must still know whether 7 or 9 is the extension type)
    ctxv = [p for p in chosen if p["tooLarge"] and p["nrepl"] > 0][:ctx.pick(6, 60)]
    for i, p in enumerate(ctxv):
        q = dict(p)
        q.update(what="plan", pref="ctx", tab=("GSUB", "GPOS")[i % 2])
        q.pop("big", None)
        lines.append(q)
    lines += sorted(typed, key=lambda c: json.dumps(c, sort_keys=True))
    ctx.sample({"plan_from_TLC": chosen[0]})
    gap = [p for p in chosen if p["model"] != "ok"]
    if gap:
        ctx.sample({"model_level_counterexample": gap[0]})
    ctx.log("realising %d plans (%d classes, %d predicted to break a demand)" % (len(lines), nclasses, len(gap)))
    traces = _run_harness_parallel(ctx, binp, lines, d, "plans", ctx.pick(4, 12))

    # ---------------------------------------------------------------- 3. shapes, GDEF, lists
    shapes = sorted(gen["shape"], key=lambda c: json.dumps(c, sort_keys=True))
    rng.shuffle(shapes)
    if quick:
        shapes = shapes[:2500]
    # one component beyond 64 KiB, for every subtable format and every component (all of them in both tiers:
    # about 90 cases, a few seconds)
    offs = sorted(gen["off"], key=lambda c: (c["t"], c["big"]))
    byjson = lambda c: json.dumps(c, sort_keys=True)
    slines = (shapes + sorted(gen["boundary"], key=byjson) + sorted(gen["leaf"], key=byjson) + gen["huge"] + offs + gen["gdef"]
              + sorted(gen["lists"], key=byjson) + sorted(gen["geom"], key=byjson))
    ctx.sample({"shape_from_TLC": shapes[0]})
    traces += _run_harness_parallel(ctx, binp, slines, d, "shapes", ctx.pick(2, 8))

    # ---------------------------------------------------------------- 4. judge the traces
    agree = [0, 0]
    nbad = 0
    reported = {}
    distinct = set()
    with ThreadPoolExecutor(max_workers=4) as ex:
        validated = list(ex.map(lambda tp: _validate_batch(ctx, tp, "LookupLayoutTrace: " + os.path.basename(tp)), traces))
    for tp, (cases, bad) in zip(traces, validated):
        for c in cases:
            distinct.add(json.dumps({k: v for k, v in c.items() if k != "id"}, sort_keys=True))

        byid = {c["id"]: c for c in cases}
        for c in cases:
            if c["kind"] == "plan" and c.get("class") in ("ok", "subwrap", "hdrwrap", "panic"):
                types = set(l["type"] for l in c["lookups"])
                if types <= ({5, 6} if c["tab"] == "GSUB" else {7, 8}):
                    continue        # the model does not know about lookup types
                agree[0] += 1 if (c["class"] != "ok") == (c["id"] in bad) else 0
                agree[1] += 1
        for cid in sorted(bad):
            nbad += 1
            case = byid[cid]
            tag = bad[cid][0][1]
            if tag == "infra":
                raise vlib.Infra("harness-level inconsistency in case %s of %s" % (cid, tp))
            key = json.dumps(_case_sig(case, tag), sort_keys=True)
            first_line = bad[cid][0][0]
            case["_tags"] = [t for (ln, t) in bad[cid] if ln == first_line]
            reported.setdefault(key, []).append(case)
    # which (format, Offset16 field) pairs were pushed beyond 0xFFFF, and how the encoder answered
    outcome = {}
    for tp, (cases, bad) in zip(traces, validated):
        offcase = {c["id"]: c for c in cases if c.get("class", "").startswith("off:")}
        if not offcase:
            continue
        for e in vlib.read_ndjson(tp):
            if e["ev"] == "encode" and e["case"] in offcase:
                c = offcase[e["case"]]
                outcome[c["class"]] = ("corrupt" if c["id"] in bad else
                                       "refused" if e["outcome"] == "panic" else "encoded correctly")
    fields = {}
    for c in gen["off"]:
        o = outcome.get("off:%s:%s" % (c["t"], c["big"]))
        if o is None:
            raise vlib.Infra("offset case %s/%s was not run" % (c["t"], c["big"]))
        for f in c["fields"]:
            fields.setdefault((c["t"], f), {}).setdefault(o, []).append(c["big"])
    table = []
    for fr in sorted(gen["field"], key=lambda r: (r["t"], r["field"])):
        got = fields.get((fr["t"], fr["field"]), {})
        table.append({"format": fr["t"], "field": fr["field"],
                      "pushed_beyond_16_bits": bool(got.get("refused") or got.get("corrupt")),
                      "by_big_component": got,
                      "note": "" if fr["pushable"] else "no variable-size component precedes the coverage table: cannot overflow"})
    ctx.cov["bounds"]["offset16_fields"] = table
    npush = sum(1 for r in table if r["pushed_beyond_16_bits"])
    ctx.notes.append("Offset16 fields: %d (format, field) pairs listed by LookupLayoutShapes.tla, %d pushed beyond 0xFFFF by at "
                     "least one big-component shape and answered by refusal (or reported), %d cannot overflow or were "
                     "encoded correctly in every arrangement tried: %s" % (
                         len(table), npush, len(table) - npush,
                         ", ".join("%s.%s" % (r["format"], r["field"]) for r in table if not r["pushed_beyond_16_bits"])))
    ctx.log("%d cases rejected in %d signatures" % (nbad, len(reported)))
    ctx.notes.append("diagnostic: the verdict predicted by the code model (ok / breaks a demand) agrees with the judgement of the "
                     "real encoder's bytes on %d of %d realised plans (contextual-only variants excluded)" % (agree[0], agree[1]))
    todo = [(key, cs[0]) for key, cs in sorted(reported.items())][:16]

    def rep(item):
        key, case = item
        tags = case.pop("_tags", None)
        return case, _replay_run_case(ctx, case, tags)
    with ThreadPoolExecutor(max_workers=4) as ex:
        results = list(ex.map(rep, todo))
    for case, r in results:
        if r is None:
            raise vlib.Infra("rejection of case %s did not reproduce in isolation" % case["id"])
        _report_run_case(ctx, case, r[0], r[1])
    if len(reported) > len(todo):
        ctx.notes.append("%d further rejection signatures were not replayed individually" % (len(reported) - len(todo)))
    if nbad:
        ctx.notes.append("%d recorded cases rejected by LookupLayoutTrace (%d signatures): %s" % (
            nbad, len(reported), "; ".join("%s x%d" % (k, len(v)) for k, v in sorted(reported.items()))[:1500]))

    # ---------------------------------------------------------------- 5. coverage / classdef (R)
    cov_cases = R["cov"].cases + R["cdef"].cases
    for i, c in enumerate(cov_cases):
        c["id"] = i + 1
    ctx.sample({"coverage_case_from_TLC": R["cov"].cases[len(R["cov"].cases) // 2]})
    cin = os.path.join(d, "cov-in.ndjson")
    cout = os.path.join(d, "cov-out.ndjson")
    vlib.write_ndjson(cin, cov_cases)
    ctx.run([binp, "cov", cin, cout])
    verdicts = vlib.read_ndjson(cout)
    if len(verdicts) != len(cov_cases):
        raise vlib.Infra("coverage driver returned %d verdicts for %d cases" % (len(verdicts), len(cov_cases)))
    ctx.cov["evaluations"] += len(verdicts)
    seen = set()
    nfail = 0
    for v, c in zip(verdicts, cov_cases):
        if v["ok"]:
            continue
        nfail += 1
        key = (c["what"], re.sub(r"\d+", "N", v["why"])[:60])
        if key in seen or len(seen) >= 6:
            continue
        seen.add(key)
        _replay_cov(ctx, c)
    if nfail:
        ctx.notes.append("%d coverage/classdef cases disagree with the encodings computed by TLC" % nfail)

    ctx.cov["distinct_nontrivial"] = len(distinct) + len(cov_cases)
    ctx.cov["rule"] = ("distinct concrete cases (lookup lists realised with real subtables, subtable shapes, GDEF tables, "
                       "script/feature lists) plus coverage/classdef run structures; evaluations = recorded events "
                       "validated by TLC plus coverage/classdef verdicts against TLC-computed encodings")
    ctx.cov["exhaustive"] = False


def _replay_cov(ctx, c):
    binp = ctx.build("c08")
    d = ctx.subdir("covreplay")
    cin = os.path.join(d, "in.ndjson")
    cout = os.path.join(d, "out.ndjson")
    vlib.write_ndjson(cin, [c])
    ctx.run([binp, "cov", cin, cout])
    v = vlib.read_ndjson(cout)[0]
    if v["ok"]:
        raise vlib.Infra("coverage/classdef disagreement did not reproduce in isolation (case %s)" % c.get("id"))
    comp = {"cov": "coverage", "cdef": "classdef", "dense": "classdef", "cdefdeg": "classdef", "setdeg": "coverage"}[c["what"]]
    inp = {k: c[k] for k in ("glyphs", "pairs", "a", "b", "span", "representable", "keys", "falses", "isnil")
           if k in c and c[k] not in ([], None)}
    what = "%s table: %s. Input %s; allowed formats %s" % (comp, v["why"][:600], json.dumps(inp)[:400], c.get("allowed"))
    ctx.violation(what, sig={"kind": comp, "what": c["what"], "why": re.sub(r"\d+", "N", v["why"])[:80]},
                  case={"mode": "cov", "case": c})


def replay(ctx, obj):
    c = obj["case"]
    if c["mode"] == "cov":
        _replay_cov(ctx, c["case"])
        return
    r = _replay_run_case(ctx, c["case"])
    if r is None:
        ctx.log("the case is accepted by LookupLayoutTrace (strict)")
        return
    _report_run_case(ctx, c["case"], r[0], r[1])
