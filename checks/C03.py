"""C03 -- written files are well-formed sfnt containers an independent parser accepts.

1. TLC, exhaustive: Container.tla (Put* -> Write -> Read over every small tag map) satisfies every
   clause of ContainerOps!WellFormed (directory count/search fields/sorting, alignment, extents,
   no overlap, per-table checksums, head adjustment) and the read-back round trip.
2. R: the same state graph is enumerated in generation mode; every map is replayed into the real
   header.Write; an independent walker logs the directory and the raw bytes; header.Read +
   ReadTableBytes read the file back.
3. V: seeded random maps (random tags, up to 40 tables, longer data; plus a sweep with every printable
   character 0x20..0x7E at every tag position; every map with a head table is written twice, the
   second time with the adjustment patched in by the first) and whole fonts written with
   (*sfnt.Font).Write (also parsed by golang.org/x/image/font/sfnt) are recorded the same way: the
   corpus fonts and the fonts described by TLC from ContainerFonts.tla (units per em 16..16384, glyph
   counts 1..1000, advances 0/1/32767, cmap codes U+0020/U+FFFF/astral, names absent/short/long), fonts of
   particular shapes (> 258 glyphs named in the standard Macintosh order, cmap tables with duplicate
   subtables around distinct ones) and the font configurations of C01's exhaustive cover (FontCycleGen.tla:
   layout tables, glyf sizes at the loca boundaries, composite instruction forms, tuned CFF INDEX sizes,
   window-crossing tables, scalar sweeps), realised by harness/cmd/c01 in its "c03fonts" mode.
All recorded traces are judged by TLC against ContainerTrace.tla, which parses the raw bytes itself.
A failed line is re-recorded in isolation and re-validated before it counts.
"""
import json
import os
import re

import vlib

LEVEL = "model_checking"
MANIFEST = {
    "text": "TLC exhaustively checks the layout function of Container.tla/ContainerOps.tla (all maps over small tag "
            "sets incl. nil entries, zero-length tables, with/without head; 3 scaler types; several physical orders) "
            "against the well-formedness clauses written from the OpenType specification and against the read-back "
            "round trip. Every map of the generation run, seeded random maps and whole corpus fonts are written by the "
            "real header.Write / (*sfnt.Font).Write (corpus fonts plus a TLC-generated product over units per em, glyph count, "
            "advance, cmap and name extremes, ContainerFonts.tla); TLC (ContainerTrace.tla) parses the produced bytes itself and "
            "accepts or rejects count, search fields, sorting, alignment, extents, overlap, checksums (32-bit "
            "wrap-around on 16-bit halves), head adjustment, the result of header.Read+ReadTableBytes, and the "
            "agreement of golang.org/x/image/font/sfnt with the written font value.",
    "note": "Trusted: TLC, the JSON trace encoding, golang.org/x/image as second implementation. Domain: table counts both "
            "Write and Read accept (law: Write accepts n <=> Read accepts n); a head entry is nil or at least 12 bytes long (a shorter one is not a head table). "
            "x/image is compared on glyph count, units per em, cmap probes, advances, names (when it reports any) and "
            "the outlines of non-composite glyphs (CFF: path operators in order modulo closing line; TrueType: control "
            "points as multiset, on-curve points as subset). "
            "The physical table order is free; for head both readings of the directory checksum are accepted.",
    "technique": "TLA+ model checking (TLC) of Container.tla + trace validation of real header.Write / Font.Write "
                 "output against ContainerTrace.tla",
}

_INV = """INVARIANT InvHeader
INVARIANT InvCount
INVARIANT InvSearchFields
INVARIANT InvSorted
INVARIANT InvExtent
INVARIANT InvNoOverlap
INVARIANT InvChecksums
INVARIANT InvFileSum
INVARIANT InvWellFormed
INVARIANT InvLength
INVARIANT InvPadZero
INVARIANT InvRoundTrip
INVARIANT InvAgree
"""


def _cfg(tags, maxlen, headlens, nil, scalers, orders, gen=False, limit=None):
    tags = list(tags)
    s = "CONSTANTS\n"
    s += "  Limit = %d\n" % (limit if limit is not None else len(tags))
    s += "  UseTags = {%s}\n" % ", ".join(str(t) for t in tags)
    s += "  MaxLen = %d\n" % maxlen
    s += "  HeadLens = {%s}\n" % ", ".join(str(t) for t in headlens)
    s += "  UseNil = %s\n" % ("TRUE" if nil else "FALSE")
    s += "  Scalers = {%s}\n" % ", ".join('"%s"' % t for t in scalers)
    s += "  Orders = {%s}\n" % ", ".join('"%s"' % t for t in orders)
    s += "SPECIFICATION Spec\n"
    s += "INVARIANT InvWellFormed\nINVARIANT InvRoundTrip\nINVARIANT Emit\n" if gen else _INV
    s += "CHECK_DEADLOCK FALSE\n"
    return s


ALL3 = ["ttf", "otto", "true"]
_FAILED = re.compile(r'^<<"FAILED", (\d+), (\d+), "([^"]*)">>')
_SKIPPED = re.compile(r'^<<"SKIPPED", (\d+), (\d+), "(.*)">>')
HARNESS_CLAUSES = ("WALKER", "LIBOBS", "HARNESS-runes")


def _tlc_trace(ctx, trace, label):
    res = ctx.tlc("ContainerTrace", trace_file=trace, timeout=1500, label=label)
    fails, skipped = [], []
    for p in res.prints:
        m = _FAILED.match(p)
        if m:
            fails.append((int(m.group(1)), int(m.group(2)), m.group(3)))
        m = _SKIPPED.match(p)
        if m:
            skipped.append((int(m.group(2)), m.group(3)))
    clean = res.rc == 0 and res.violated is None and res.rejected_line is None
    if not clean and not fails:
        raise vlib.Infra("ContainerTrace did not consume the trace (line %s):\n%s"
                         % (res.rejected_line, res.error_text[-2000:]))
    return fails, skipped


def _load_c01():
    """checks/C01.py, for its generator of font configurations (FontCycleGen cover); read-only use."""
    import importlib.util
    spec = importlib.util.spec_from_file_location("check_C01_for_C03", os.path.join(os.path.dirname(__file__), "C01.py"))
    mod = importlib.util.module_from_spec(spec)
    spec.loader.exec_module(mod)
    return mod


def _sig(case, clause):
    if case.get("kind") == "font":
        return {"kind": "font", "clause": clause, "font": case.get("name", "")}
    tabs = case.get("tabs") or []
    head_nil = any(t["nil"] and t["tag"] == [104, 101, 97, 100] for t in tabs)
    other_nil = any(t["nil"] and t["tag"] != [104, 101, 97, 100] for t in tabs)
    sig = {"kind": "map", "clause": clause, "op": "header.Write", "head_nil": head_nil, "nil_entries": other_nil}
    if case.get("law"):
        sig["tables"] = sum(1 for t in tabs if not t["nil"])     # table-count sweep: one signature per count
    return sig


def _size(case):
    return sum(len(t["data"]) for t in case.get("tabs") or []) + 16 * len(case.get("tabs") or [])


def _replay_case(ctx, case, expect_clause=None, count=1, strict=True):
    """Re-record one case alone and let TLC judge it alone; report it if it fails again."""
    d = ctx.subdir("replay")
    cp = os.path.join(d, "case.json")
    case.setdefault("seed", ctx.seed)       # font builders draw from VERIF_SEED
    tp = os.path.join(d, "trace.ndjson")
    if case.get("cover"):                   # a configuration of C01's cover, realised by the c01 binary
        vlib.write_ndjson(cp, [case["cover"]])
        ctx.run([ctx.build("c01"), "c03fonts", cp, tp], env={"VERIF_SEED": str(case["seed"])})
    else:
        json.dump(case, open(cp, "w"))
        ctx.run([ctx.build("c03"), "one", cp, tp], env={"VERIF_SEED": str(case["seed"])})
    fails, _ = _tlc_trace(ctx, tp, "replay of one case")
    fails = [f for f in fails if f[2] not in HARNESS_CLAUSES]
    if not fails:
        if not strict:
            ctx.log("the case is accepted by ContainerTrace on this tree (nothing to report)")
            return
        raise vlib.Infra("failure %s of case %s did not reproduce in isolation" % (expect_clause, case.get("id")))
    events = vlib.read_ndjson(tp)
    line, _, clause = fails[0]
    bad = dict(events[line - 1])
    flen = len(bad.get("file", []))
    for k in ("file", "recs", "tabs", "runes", "gids", "advlo", "advhi", "names", "oskip", "oseq", "ooff", "oon"):
        if k in bad and len(json.dumps(bad[k])) > 300:
            bad[k] = "(%d items)" % len(bad[k])
    if case.get("kind") == "font":
        inp = "font " + case.get("name", "")
    else:
        tabs = case.get("tabs") or []
        inp = "header.Write(scaler=%s, {%s}%s)" % (case.get("scaler"), ", ".join(
            "%s: %s" % ("".join(chr(c) for c in t["tag"]), "nil" if t["nil"] else "%d bytes" % len(t["data"]))
            for t in tabs[:12]), " ... %d entries" % len(tabs) if len(tabs) > 12 else "")
    what = ("written file is not a well-formed container / not read back as written: clause '%s' of "
            "ContainerTrace rejects event %s of %s (file length %d); %d recorded case(s) fail with this signature; "
            "event: %s" % (clause, bad.get("ev"), inp, flen, count, json.dumps(bad)[:700]))
    ctx.violation(what, sig=_sig(case, clause), case=case)


def _judge(ctx, trace, label, stats):
    """Validate one recorded trace file; reproduce and report the failures."""
    cases_path = trace + ".cases"
    ncases = sum(1 for _ in open(cases_path))
    nlines = sum(1 for _ in open(trace))
    fails, skipped = _tlc_trace(ctx, trace, label)
    ctx.cov["evaluations"] += nlines
    stats["cases"] += ncases
    for cid, msg in skipped:
        stats["skipped"].append("%s case %d: x/image refused the file (%s)" % (label, cid, msg))
    harness = [f for f in fails if f[2] in HARNESS_CLAUSES]
    if harness:
        raise vlib.Infra("harness fault: %s at line %d of %s" % (harness[0][2], harness[0][0], label))
    failed_ids = set(f[1] for f in fails)
    ctx.cov["traces_validated_against_impl"] += ncases - len(failed_ids)
    if not fails:
        return
    cases = {c["id"]: c for c in vlib.read_ndjson(cases_path)}
    groups = {}
    for line, cid, clause in fails:
        c = cases.get(cid)
        if c is None:
            raise vlib.Infra("failed line %d has no case" % line)
        key = json.dumps(_sig(c, clause), sort_keys=True)
        g = groups.setdefault(key, {"n": 0, "best": None, "clause": clause})
        g["n"] += 1
        if g["best"] is None or _size(c) < _size(g["best"]):
            g["best"] = c
    for key in sorted(groups):
        g = groups[key]
        if key in stats["reported"]:
            stats["reported"][key] += g["n"]
            continue
        if len(stats["reported"]) >= 12:
            ctx.notes.append("more failure signatures in %s were not replayed: %s" % (label, key))
            continue
        stats["reported"][key] = g["n"]
        _replay_case(ctx, g["best"], g["clause"], g["n"])


def run(ctx):
    ctx.assumptions += [
        "a head entry is nil or >= 12 bytes (a shorter one is not a head table)",
        "table counts: Write may refuse a map (error, nothing written) exactly if header.Read refuses an independently "
        "assembled well-formed container with the same tables; swept at 0, 1, 2, 3 and 279..282 tables (the library's "
        "limit is 280, header/tables.go), scaled to Limit = 3, 4, 8 in Container.tla (InvAgree)",
        "whole fonts must contain head, hhea, hmtx, maxp, name, OS/2, post, their outline tables and (if the font value "
        "has a character map) cmap; x/image may refuse only fonts without cmap (the unchanged tree writes none then); "
        "TrueType Widths may be nil, empty, short or long (Font.Widths: missing = 0, surplus ignored); Font.Write "
        "refuses zero-glyph fonts on the unchanged tree (CFF: error, TrueType: panic 'numGlyphs out of range'), they are "
        "not in the sweep",
        "tags are 4 printable ASCII characters; scaler types 0x00010000, 'OTTO', 'true'",
        "the physical order of the tables is free (only recommended by the format); the directory checksum of head "
        "may be computed with checkSumAdjustment = 0 (OpenType) or in place (literal reading)",
        "whole fonts: x/image is compared on glyph count, unitsPerEm, cmap probes, advances, (when it reports names) "
        "glyph names and outlines of non-composite glyphs; non-integer advances may be rounded either way; a font "
        "x/image refuses for its own reasons (no cmap) is skipped and listed in the notes",
    ]
    # 1. the design: exhaustive model checking of the layout function
    if ctx.quick():
        models = [("5 tags, lengths 0..3, at most 4 tables", None),
                  ("9 tags, lengths 0..0, at most 8 tables", _cfg(range(1, 10), 0, [54], True, ["otto"], ["recommended"], limit=8))]
        bounds = {"tags": "5 (absent/nil/0..3 bytes; head absent/nil/12/54/57) and 9 (absent/nil/empty)",
                  "scalers": 3, "orders": 2}
    else:
        models = [("5 tags, lengths 0..9", _cfg([1, 3, 4, 5, 6], 9, [12, 54, 57], True, ALL3, ["recommended"])),
                  ("5 tags, lengths 0..4, other orders", _cfg([1, 3, 4, 5, 6], 4, [12, 54, 57], True, ["ttf"], ["tag", "revtag"])),
                  ("6 tags, lengths 0..4", _cfg([1, 2, 3, 4, 5, 6], 4, [54, 55], True, ["ttf"], ["recommended", "tag"])),
                  ("9 tags, lengths 0..1, at most 8 tables", _cfg(range(1, 10), 1, [54], True, ["otto"], ["recommended"], limit=8)),
                  ("5 tags, lengths 0..2, at most 3 tables", _cfg([1, 3, 4, 5, 6], 2, [54], True, ["ttf"], ["recommended"], limit=3))]
        bounds = {"tags": "5 (absent/nil/0..9 bytes; head absent/nil/12/54/57), 5 (0..4, other orders), 6 (0..4), 9 (0..1)",
                  "scalers": 3, "orders": 3}
    for label, cfg in models:
        if cfg is None:
            res = ctx.tlc("Container", timeout=1500, label="Container exhaustive: " + label)
        else:
            res = ctx.tlc("Container", cfg="CX.cfg", files={"CX.cfg": cfg}, timeout=2400,
                          label="Container exhaustive: " + label)
        if not res.ok:
            raise vlib.Infra("Container.tla violates %s on the model (%s) -- the spec is wrong, not the code:\n%s"
                             % (res.violated, label, res.error_text[:1500]))
    ctx.cov["exhaustive"] = True
    ctx.cov["bounds"] = bounds

    binp = ctx.build("c03")
    d = ctx.subdir("c03")
    stats = {"cases": 0, "skipped": [], "reported": {}}
    distinct = set()

    # 2. R: maps enumerated by TLC, replayed into header.Write
    gens = [("maps5", _cfg([1, 3, 4, 5, 6], ctx.pick(3, 6), [54], True, ALL3, ["recommended"], gen=True)),
            ("maps8", _cfg([1, 2, 3, 4, 5, 7, 8, 9], ctx.pick(0, 1), [54], True, ["ttf"], ["recommended"], gen=True))]
    for name, cfg in gens:
        gen = ctx.tlc("Container", cfg="CG.cfg", files={"CG.cfg": cfg}, timeout=2400,
                      label="Container generation: " + name)
        if gen.violated:
            raise vlib.Infra("generation run violated " + gen.violated)
        if len(gen.cases) < 1000:
            raise vlib.Infra("generation produced only %d maps" % len(gen.cases))
        cpath = os.path.join(d, name + ".tlc.ndjson")
        vlib.write_ndjson(cpath, gen.cases)
        for c in gen.cases:
            distinct.add(json.dumps(c, sort_keys=True))
        if name == "maps5":
            ctx.sample({"tlc_map": gen.cases[len(gen.cases) // 2]})
        # chunks keep the TLC heap small
        chunk = 20000
        for k in range(0, len(gen.cases), chunk):
            part = os.path.join(d, "%s.%d.in" % (name, k))
            vlib.write_ndjson(part, gen.cases[k:k + chunk])
            tr = os.path.join(d, "%s.%d.ndjson" % (name, k))
            ctx.run([binp, "maps", part, tr])
            _judge(ctx, tr, "ContainerTrace: TLC maps %s[%d:]" % (name, k), stats)
            os.remove(tr)

    # 3. V: seeded random maps
    nrand = ctx.pick(3000, 40000)
    k = 0
    done = 0
    while done < nrand:
        n = min(8000, nrand - done)
        tr = os.path.join(d, "random%d.ndjson" % k)
        ctx.run([binp, "random", str(n)] + (["sweep"] if k == 0 else []) + [tr],
                env={"VERIF_SEED": str(ctx.seed * 1000 + k)})
        for c in vlib.read_ndjson(tr + ".cases"):
            distinct.add(json.dumps(c["tabs"], sort_keys=True))
        _judge(ctx, tr, "ContainerTrace: random maps %d" % k, stats)
        os.remove(tr)
        done += n
        k += 1

    # 4. V: whole fonts, x/image as second implementation
    tr = os.path.join(d, "fonts.ndjson")
    ctx.run([binp, "fonts", tr], timeout=900)
    evs = vlib.read_ndjson(tr)
    nfonts = sum(1 for _ in open(tr + ".cases"))
    for e in evs:
        if e["ev"] == "written" and e["id"] == 2:
            ctx.sample({"font_written": {k2: v for k2, v in e.items() if k2 not in ("file",)}})
    _judge(ctx, tr, "ContainerTrace: whole fonts", stats)
    os.remove(tr)

    # 5. V: fonts described by TLC (ContainerFonts.tla): units per em, glyph count, advances, cmap and
    #    names at their extremes; TLC itself checks (ASSUME Covers) that every value occurs in this run
    fcfg = ("CONSTANTS\n  Shift = %d\n  Pairs = %s\nSPECIFICATION Spec\nINVARIANT InRange\nINVARIANT Emit\n"
            "CHECK_DEADLOCK FALSE\n" % (ctx.seed % 6, "FALSE" if ctx.quick() else "TRUE"))
    gen = ctx.tlc("ContainerFonts", cfg="CF.cfg", files={"CF.cfg": fcfg}, workers=1, timeout=600,
                  label="ContainerFonts generation")
    if gen.violated or len(gen.cases) < 18:
        raise vlib.Infra("ContainerFonts produced %d font descriptions (%s)" % (len(gen.cases), gen.violated))
    gpath = os.path.join(d, "genfonts.in")
    vlib.write_ndjson(gpath, gen.cases)
    ctx.sample({"tlc_font": gen.cases[-1]})
    tr = os.path.join(d, "genfonts.ndjson")
    ctx.run([binp, "genfonts", gpath, tr], timeout=900)
    _judge(ctx, tr, "ContainerTrace: TLC-described fonts", stats)
    os.remove(tr)
    nfonts += len(gen.cases)

    # 6. V: fonts of particular shapes (more than 258 glyphs named in the standard Macintosh order, cmap tables
    #    with duplicate subtables before/after distinct ones)
    tr = os.path.join(d, "special.ndjson")
    ctx.run([binp, "special", tr], timeout=900)
    nfonts += sum(1 for _ in open(tr + ".cases"))
    _judge(ctx, tr, "ContainerTrace: fonts of particular shapes", stats)
    os.remove(tr)

    # 7. V: the font configurations of C01's exhaustive cover (FontCycleGen.tla, Focus "cover"; realised by
    #    harness/cmd/c01 Build): every group; in the quick tier a seed-dependent stride inside the big groups
    c01 = _load_c01()
    cover = c01._built_cases(ctx, 0, [30], 110001, 0, 0, "FontCycleGen cover (for C03)", focus="cover")
    by_group = {}
    for c in cover:
        by_group.setdefault(c["cfg"]["group"], []).append(c)
    chosen = []
    for g, items in sorted(by_group.items()):
        stride = (len(items) + 39) // 40 if ctx.quick() else 1     # quick: at most ~40 per group, all of a small group
        chosen += items[ctx.seed % stride::stride]
    ctx.log("cover: %d of %d configurations in %d groups" % (len(chosen), len(cover), len(by_group)))
    b01 = ctx.build("c01")
    for k in range(0, len(chosen), 900):
        part = chosen[k:k + 900]
        cin = os.path.join(d, "cover%d.in" % k)
        vlib.write_ndjson(cin, part)
        tr = os.path.join(d, "cover%d.ndjson" % k)
        ctx.run([b01, "c03fonts", cin, tr], timeout=1800)
        vlib.write_ndjson(tr + ".cases", [
            {"id": c["id"], "kind": "font", "cover": c,
             "name": "cover:%s/%s %s" % (c["cfg"]["group"], c["cfg"].get("vary", ""), c["cfg"]["kind"])} for c in part])
        _judge(ctx, tr, "ContainerTrace: C01 cover fonts [%d:]" % k, stats)
        os.remove(tr)
    nfonts += len(chosen)
    ctx.cov["bounds"]["cover"] = {"configurations": len(cover), "run": len(chosen),
                                  "groups": {g: len(v) for g, v in sorted(by_group.items())}}

    ctx.cov["distinct_nontrivial"] = len(distinct) + nfonts
    ctx.cov["rule"] = ("distinct inputs of the real writer: maps enumerated by TLC + seeded random maps (distinct by "
                       "content, each with >= 1 table written) + whole fonts; evaluations = recorded events judged by TLC")
    ctx.notes += sorted(set(stats["skipped"]))[:10]
    ctx.notes.append("%d cases recorded; %d fonts written with Font.Write" % (stats["cases"], nfonts))
    for key, n in sorted(stats["reported"].items()):
        ctx.notes.append("%d recorded cases failed with signature %s" % (n, key))


def replay(ctx, obj):
    _replay_case(ctx, obj["case"], strict=False)
