"""C14 -- names, glyph names and language tags survive their encodings.

1. TLC, exhaustive: NameCodec.tla (through NameCodecMC.tla) -- the name-table machine (every
   placement of every string in the storage: appended, shared by content, overlapping), the post
   machine (formats 1/2/3, Pascal strings, re-use of equal strings), the codec laws (UTF-16 and
   Mac Roman invert each other on their domains; all boundary unit sequences of length <= 3, all
   256 bytes) and the tag design (private-use part makes "back" a function; without it it is not:
   NameCodecTagsBare.cfg must be violated).
2. R: NameCodecGen.tla enumerates abstract inputs (name.Info shapes, UTF-16 unit sequences,
   glyph-name list shapes); the harness makes them concrete with the seed, adds its own cases
   (every supported language, longest strings, standard-name permutations, large glyph counts,
   every script x language pair of the tree's tag tables, extension-less tags in fresh processes)
   and drives the real name / mac / post / gtab code, walking the emitted bytes independently.
3. V: every recorded event is accepted or rejected by TLC against NameCodecTrace.tla.
A rejected case is re-recorded in isolation and re-validated before it is reported.
"""
import json
import os
import re

import vlib

LEVEL = "model_checking"
MANIFEST = {
    "text": "TLC exhaustively checks NameCodec.tla (name records and string storage with every content-sharing "
            "placement, post formats 1/2/3 with Pascal strings, UTF-16/Mac Roman inversion laws on boundary domains, "
            "tag mapping with private-use part) and generates abstract name.Info / UTF-16 / glyph-list inputs; the "
            "harness drives name.Info.Encode/Decode, mac.Encode/Decode, post.Info.Encode/post.Read (+ golang.org/x/image "
            "GlyphName on a whole font) and gtab.Read/(*gtab.Info).Encode for every script x language pair of the tree, "
            "walks the emitted bytes independently, and every recorded event is accepted or rejected by TLC against "
            "NameCodecTrace.tla (record inside storage, bytes decode to the original under the spec's codecs, decoded = "
            "original, glyph names unchanged for both readers, tags back to the same pair, back-mapping a function).",
    "note": "Trusted: TLC, the byte walkers/builders of harness/internal/namex, golang.org/x/text's Mac OS Roman table and "
            "golang.org/x/image's standard glyph names (re-derived each run and compared with spec/NameCodecData.tla). "
            "Empty strings count as absent; an Info must survive when every storage order keeps offsets in 16 bits, beyond that Encode may refuse or be faithful; at most "
            "65278 custom glyph names; the library's language-id tables are read through Decode (a sample of ids is checked "
            "against the OpenType chapter); Tables.Choose is not covered.",
    "technique": "TLA+ model checking (TLC) of NameCodec.tla + TLC-generated inputs replayed into the real code + trace "
                 "validation of recorded encode/walk/decode events against NameCodecTrace.tla",
}

TRACE = "NameCodecTrace"


# ------------------------------------------------------------------ data module
def _tla_tuple(text, name):
    m = re.search(r"^%s == <<(.*?)^>>" % name, text, re.S | re.M)
    if not m:
        raise vlib.Infra("NameCodecData.tla: %s not found" % name)
    body = re.sub(r"\\\*[^\n]*", "", m.group(1))
    return json.loads("[" + body.replace("<<", "[").replace(">>", "]") + "]")


def _check_data(ctx, binp):
    _, out = ctx.run([binp, "data"])
    d = json.loads(out)
    text = open(os.path.join(vlib.SPEC_DIR, "NameCodecData.tla")).read()
    if _tla_tuple(text, "MacRomanHigh") != d["macHigh"]:
        raise vlib.Infra("spec/NameCodecData.tla MacRomanHigh differs from golang.org/x/text charmap.Macintosh")
    if _tla_tuple(text, "StdGlyphNames") != d["std"]:
        raise vlib.Infra("spec/NameCodecData.tla StdGlyphNames differs from golang.org/x/image's built-in names")


# ------------------------------------------------------------------ verdicts
def _s(b):
    return bytes(b).decode("latin-1")


def _norm_case(case):
    """A Go nil slice is JSON null: make every list of a concrete case a list."""
    for e in case.get("info") or []:
        if e.get("s") is None:
            e["s"] = []
    for key in ("info", "bytes", "ops", "langs"):
        if key in case and case[key] is None:
            case[key] = []
    if case.get("names") is not None:
        case["names"] = [n or [] for n in case["names"]]
    for lg in case.get("langs") or []:
        if lg.get("feat") is None:
            lg["feat"] = []
    return case


def _describe(case, ev):
    """(what, sig) for a rejected event of a concrete case."""
    case = _norm_case(case)
    k = case["kind"]
    if k == "tagscript":
        ins = {(_s(x["lang"]), x["req"], tuple(sorted(x["feat"]))) for x in ev["in"]}
        outs = {(_s(x["lang"]), x["req"], tuple(sorted(x["feat"]))) for x in ev["out"]
                if _s(x["script"]) == case["script"]}
        other = sorted({_s(x["script"]) for x in ev["out"]} - {case["script"]})
        missing = sorted(ins - outs)
        what = ("script/language tags do not survive gtab.Read -> (*gtab.Info).Encode: script %r with %d language "
                "system(s): %d missing after the round trip (e.g. %s), %d unexpected%s; read gave %d tag(s)%s" % (
                    case["script"], len(ins), len(missing), missing[:3], len(outs - ins),
                    (", other scripts %s" % other) if other else "", ev["ntags"],
                    ", panic" if ev["panic"] else (", read error" if ev["readfail"] else "")))
        return what, {"part": "tags", "kind": "scriptlist-roundtrip", "script": case["script"],
                      "script_has_space": " " in case["script"], "panic": ev["panic"]}
    if k == "taglist":
        ins = {(_s(x["script"]), _s(x["lang"]), x["req"], tuple(sorted(x["feat"]))) for x in ev["in"]}
        outs = {(_s(x["script"]), _s(x["lang"]), x["req"], tuple(sorted(x["feat"]))) for x in ev["out"]}
        what = ("script list does not survive gtab.Read -> Encode -> gtab.Read (layout %s): %d language systems written by the "
                "harness %s; Read gave %d tag(s); Encode wrote %d language systems (missing %s, unexpected %s); second Read "
                "gave %d tag(s)%s" % (
                    ev["layout"], len(ins), sorted(ins)[:4], len(ev["map1"]), len(ev["out"]), sorted(ins - outs)[:3],
                    sorted(outs - ins)[:3], len(ev["map2"]),
                    ", panic" if ev["panic"] else (", read error" if ev["readfail"] or ev["read2fail"] else "")))
        lost_read = len(ev["map1"]) != len(ins)
        empty_def = any(x[1] == "" and x[2] == 0xFFFF and not x[3] for x in (ins - outs))
        return what, {"part": "tags", "kind": "scriptlist-structure", "layout": ev["layout"],
                      "lost": "read" if lost_read else "encode", "empty_default": empty_def, "panic": ev["panic"]}
    if k == "tagback":
        rs = sorted({(_s(r["script"]), _s(r["lang"]), r["st"]) for r in ev["runs"]})
        what = ("mapping the BCP 47 tag %r (no private-use part) back to OpenType tags is not a function: %d runs in "
                "3 fresh processes gave %s" % (case["base"], len(ev["runs"]), rs))
        kind = "panic" if any(r["st"] == "panic" for r in ev["runs"]) else "nondeterministic-back"
        return what, {"part": "tagback", "kind": kind}
    if k == "names":
        brief = {a: b for a, b in ev.items() if a not in ("storage", "recs", "dec", "info")}
        case.setdefault("info", [])
        plats = sorted({e["p"] for e in case["info"]})
        pays = [len(e["s"]) if e["p"] == 1 else 2 * sum(2 if c >= 0x10000 else 1 for c in e["s"]) for e in case["info"]]
        pays = [x for x in pays if x > 0]
        if pays and sum(pays) - min(pays) > 65535 and ev["ev"] == "nencode":
            recs = ev.get("recs") or []
            what = ("name.Info whose strings need %d bytes of storage (sizes %s): some string must start beyond the 16-bit "
                    "offset field; Info.Encode neither refuses nor writes a faithful table (event %s; records "
                    "[platform, encoding, language, id, length, offset] %s)" % (sum(pays), pays[:6], ev["ev"], recs[:4]))
            return what, {"part": "names", "kind": "field-overflow", "event": ev["ev"]}
        what = ("name.Info does not survive Encode/Decode: event %s of a case with %d string(s) on platform(s) %s is not "
                "explained by NameCodecTrace (%s); storage bytes per string %s (total %d); first entries %s" % (
                    ev["ev"], len(case["info"]), plats, json.dumps(brief)[:300], pays[:8], sum(pays),
                    json.dumps([dict(e, s=e["s"][:12]) for e in case["info"][:3]])[:400]))
        return what, {"part": "names", "event": ev["ev"], "platforms": plats, "panic": bool(ev.get("panic"))}
    if k == "nraw":
        what = ("codec law broken through name.Decode/Encode: platform %d bytes %s decoded to %s (found=%s) and encoded "
                "back to %s (found=%s)" % (ev["plat"], ev["bytes"][:24], ev["cps"][:12], ev["found"], ev["back"][:24],
                                           ev["backfound"]))
        return what, {"part": "codec", "event": "nraw", "platform": ev["plat"], "panic": ev["panic"]}
    if k in ("macall", "macstr"):
        brief = {a: (b[:16] if isinstance(b, list) else b) for a, b in ev.items()}
        return ("Mac Roman codec: %s" % json.dumps(brief)[:500],
                {"part": "codec", "event": ev["ev"], "panic": ev["panic"]})
    if k == "codechist":
        ops = " ".join("%s(%d)" % (o["op"], o["a"]) for o in case["ops"])
        changed = [i for i, c in enumerate(ev["calls"]) if c["final"] != c["first"] or c["final2"] != c["first2"]]
        wrong = [i for i in range(len(ev["calls"])) if i not in changed]
        det = ""
        if changed:
            c = ev["calls"][changed[0]]
            det = ("the result of call %d (%s) changed after later calls: handed out %s, later %s" % (
                changed[0] + 1, c["op"], c["first"][:12], c["final"][:12]))
        else:
            det = "a result is not what the codec specifies (calls %s%s)" % (wrong[:3], ", failed" if ev["failed"] else "")
        return ("codec results with a history: calls [%s]: %s" % (ops, det),
                {"part": "codec", "kind": "history", "unstable": bool(changed),
                 "op": ev["calls"][changed[0]]["op"] if changed else "", "failed": ev["failed"]})
    if k == "posthist":
        names = [] if ev["nil"] else ev["names"]
        got = ev["dec"]
        i = next((i for i in range(min(len(got), len(names))) if got[i] != names[i]), min(len(got), len(names)))
        ops = " ".join("%s%s" % (o["op"], o["a"] or "") for o in case["ops"])
        what = ("glyph names do not survive the post table when the list has a history: init %r, calls [%s] (+ final "
                "Encode); event %s: %d names given, version %s written, %d names read back (first difference at glyph %d)%s" % (
                    case["init"], ops, ev["ev"], len(names), ev.get("ver"), len(got), i,
                    "; x/image sees %d names" % len(ev["xi"]) if ev.get("xiused") else ""))
        return what, {"part": "post", "kind": "history", "init": case["init"], "version": ev.get("ver"),
                      "after_read": any(o["op"] == "R" for o in case["ops"]), "panic": bool(ev.get("panic"))}
    if k == "post":
        n = 0 if case.get("nil") else len(case.get("names") or [])
        brief = {a: b for a, b in ev.items() if a not in ("names", "index", "strings", "dec", "xi")}
        diff = ""
        names = [] if case.get("nil") else (case.get("names") or [])
        for lab in ("dec", "xi"):
            got = ev[lab]
            if lab == "xi" and not ev["xiused"]:
                continue
            if got != names:
                i = next((i for i in range(min(len(got), len(names))) if got[i] != names[i]), min(len(got), len(names)))
                diff += " %s differs at glyph %d (wrote %r, got %r, %d vs %d names);" % (
                    lab, i, _s(names[i]) if i < len(names) else None, _s(got[i]) if i < len(got) else None,
                    len(names), len(got))
        what = ("glyph names do not survive the post table: list of %d names, %s;%s" % (n, json.dumps(brief)[:300], diff))
        return what, {"part": "post", "version": ev["ver"], "panic": ev["panic"], "glyphs": n,
                      "reader": "ximage" if (" xi differs" in diff and " dec differs" not in diff) else "library"}
    if k == "langtable":
        return ("language ids of the name package: name.Decode of tables written by the harness (one record per platform and "
                "language id) understands %d Macintosh and %d Windows ids; the id -> tag relation is not a function, is empty, "
                "or gives an id of the name chapter a tag of another language" % (len(ev["mac"]), len(ev["win"])),
                {"part": "names", "event": "langtable"})
    return "unexplained event %s" % ev.get("ev"), {"part": k}


def _bad_lines(res):
    out = []
    for p in res.prints:
        if p.startswith('<<"BAD_LINE"'):
            out.append(int(re.sub(r"[^0-9]", "", p)))
    return out


def _validate(ctx, trace, label, ncases):
    """Returns the rejected events [(case_id, event)] (empty = accepted)."""
    ok, line, res = ctx.validate_trace(TRACE, trace, label=label, traces=ncases, timeout=1500)
    ctx.cov["evaluations"] += sum(1 for _ in open(trace))
    if ok:
        return []
    bad = _bad_lines(res)
    if not bad:
        raise vlib.Infra("trace validation of %s failed without a rejected line (line %s):\n%s" % (
            label, line, res.error_text[-2000:]))
    want = set(bad)
    out = []
    with open(trace) as f:
        for i, ln in enumerate(f, 1):
            if i in want:
                e = json.loads(ln)
                out.append((e["case"], e))
    return out


def _replay_cases(ctx, cases):
    """Re-record the given concrete cases alone, validate them alone; report what is rejected again.
    Returns the number of reproduced cases."""
    binp = ctx.build("c14")
    d = ctx.subdir("replay")
    cp = os.path.join(d, "cases.ndjson")
    vlib.write_ndjson(cp, cases)
    tp = os.path.join(d, "trace.ndjson")
    ctx.run([binp, "some", cp, tp], timeout=900)
    ok, line, res = ctx.validate_trace(TRACE, tp, label="replay of %d rejected case(s)" % len(cases), traces=0,
                                       timeout=900)
    if ok:
        return 0
    bad = set(_bad_lines(res))
    if not bad:
        raise vlib.Infra("replay validation failed without a rejected line:\n" + res.error_text[-2000:])
    byid = {c["id"]: c for c in cases}
    seen = set()
    groups = {}
    with open(tp) as f:
        for i, ln in enumerate(f, 1):
            if i not in bad:
                continue
            e = json.loads(ln)
            cid = e["case"]
            if cid in seen:
                continue
            seen.add(cid)
            case = byid.get(cid) or {"kind": "langtable", "id": cid}
            what, sig = _describe(case, e)
            key = json.dumps(sig, sort_keys=True)
            groups.setdefault(key, []).append((what, sig, case))
    for key, items in groups.items():
        items.sort(key=lambda t: len(json.dumps(t[2])))
        what, sig, case = items[0]
        if len(items) > 1:
            what += " [%d isolated cases of this kind were rejected again; the smallest is saved]" % len(items)
        if len(json.dumps(case)) > 400000:
            case = {"kind": case["kind"], "id": case["id"], "truncated": True}
        ctx.violation(what, sig=sig, case={"cases": [case]})
    return len(seen)


def _judge(ctx, trace, label):
    cases_path = trace + ".cases"
    ncases = sum(1 for _ in open(cases_path))
    rejected = _validate(ctx, trace, label, ncases)
    if not rejected:
        return ncases
    first = {}
    for cid, e in rejected:
        first.setdefault(cid, e)
    cases = {c["id"]: _norm_case(c) for c in vlib.read_ndjson(cases_path) if c["id"] in first}
    # isolate a few cases of every kind of rejection (kind = the signature of the rejected event), smallest first
    groups = {}
    for cid, e in first.items():
        case = cases.get(cid) or {"kind": "langtable", "id": cid}
        _, sig = _describe(case, e)
        groups.setdefault(json.dumps(sig, sort_keys=True), []).append(case)
    picked = []
    for key in sorted(groups):
        g = sorted(groups[key], key=lambda c: len(json.dumps(c)))
        picked += g[:max(3, 60 // len(groups))]
    picked = picked[:120]
    ctx.log("%s: %d event(s) of %d case(s) rejected (%d kinds); replaying %d in isolation" % (
        label, len(rejected), len(first), len(groups), len(picked)))
    n = _replay_cases(ctx, picked)
    if n == 0:
        raise vlib.Infra("%s: %d rejected case(s) did not reproduce in isolation" % (label, len(picked)))
    if n < len(picked):
        ctx.notes.append("%s: %d of %d rejected cases reproduced in isolation" % (label, n, len(picked)))
    return ncases


def _model(ctx, cfg, label, timeout=900, files=None, expect_violation=None):
    res = ctx.tlc("NameCodecMC", cfg=cfg, timeout=timeout, label=label, files=files)
    if expect_violation:
        if res.violated != expect_violation:
            raise vlib.Infra("%s: expected %s to be violated on the model, got %r" % (label, expect_violation, res.violated))
        return res
    if not res.ok:
        raise vlib.Infra("NameCodec.tla violates %s on the model (%s) -- the spec is wrong, not the code:\n%s" % (
            res.violated, label, res.error_text[:1500]))
    return res


def run(ctx):
    ctx.assumptions += [
        "the empty string means 'not set' in name.Table: empty strings are not expected to survive",
        "a name.Info must survive when every storage order keeps all offsets in 16 bits (total storage minus the "
        "smallest string <= 65535 bytes, no sharing assumed); beyond that Encode may refuse (panic) or write a "
        "faithful table, never a wrapped offset; Macintosh strings are drawn from the Mac OS Roman repertoire only",
        "a glyph-name list is in the domain of post format 2 when it has at most 65278 non-standard names "
        "(indices 258..65535) of at most 255 bytes each",
        "Mac OS Roman = Unicode consortium ROMAN.TXT as shipped in golang.org/x/text; standard glyph names as in "
        "golang.org/x/image; both compared with spec/NameCodecData.tla on every run",
        "script and language tags are the keys of the map literals in opentype/gtab/locale.go of the tree under test",
        "ill-formed UTF-16 and odd byte lengths are outside the codec's domain (any reply without panic is accepted)",
    ]
    binp = ctx.build("c14")
    _check_data(ctx, binp)

    # 1. the design
    _model(ctx, "NameCodecName.cfg", "NameCodec name machine (4 records, all placements, 3-bit offset/length fields)")
    _model(ctx, "NameCodecNameWrap.cfg", "NameCodec name machine, reader adds offset+length in W bits (must fail)",
           expect_violation="NoPanic")
    _model(ctx, "NameCodecPost.cfg", "NameCodec post machine (lists <= 4)")
    hist_cfg = open(os.path.join(vlib.SPEC_DIR, "NameCodecPostHist.cfg")).read().replace(
        "MaxOps = 4", "MaxOps = %d" % ctx.pick(3, 4))
    hist = _model(ctx, "NCh.cfg", "NameCodec post object with history and aliasing (all call histories of length %d)"
                  % ctx.pick(3, 4), files={"NCh.cfg": hist_cfg})
    if len(hist.cases) < 1000:
        raise vlib.Infra("the post history machine printed only %d histories" % len(hist.cases))
    _model(ctx, "NameCodecPostHistMut.cfg", "NameCodec post object, caller writes into the shared slice (must fail)",
           expect_violation="SharedIntact")
    ch_cfg = open(os.path.join(vlib.SPEC_DIR, "NameCodecCodecHist.cfg")).read().replace(
        "CMaxOps = 2", "CMaxOps = %d" % ctx.pick(2, 3))
    chist = _model(ctx, "NCc.cfg", "NameCodec codec results with history (all call histories of length %d)" % ctx.pick(2, 3),
                   files={"NCc.cfg": ch_cfg})
    if len(chist.cases) < 500:
        raise vlib.Infra("the codec history machine printed only %d histories" % len(chist.cases))
    _model(ctx, "NameCodecCodecHistReuse.cfg", "NameCodec codec results in a re-used scratch buffer (must fail)",
           expect_violation="ResultsStable")
    _model(ctx, "NameCodecCodec.cfg", "NameCodec codec laws")
    _model(ctx, "NameCodecTags.cfg", "NameCodec tag mapping with private-use part")
    _model(ctx, "NameCodecTagsBare.cfg", "NameCodec tag mapping without private-use part (must fail)",
           expect_violation="TagBareLossless")
    if not ctx.quick():
        cfg = open(os.path.join(vlib.SPEC_DIR, "NameCodecName.cfg")).read().replace("Keys <- MCKeys", "Keys <- MCKeys3").replace(
            "MacStrs <- MCMacStrs", "MacStrs <- MCMacStrs3").replace("WinStrs <- MCWinStrs", "WinStrs <- MCWinStrs3")
        _model(ctx, "NCx.cfg", "NameCodec name machine (5 records)", files={"NCx.cfg": cfg}, timeout=1500)
        cfg = open(os.path.join(vlib.SPEC_DIR, "NameCodecPost.cfg")).read().replace("PMaxLen = 4", "PMaxLen = 5")
        _model(ctx, "NCy.cfg", "NameCodec post machine (lists <= 5)", files={"NCy.cfg": cfg}, timeout=1500)
    ctx.cov["exhaustive"] = True
    ctx.cov["bounds"] = {
        "name_fields": "offset and length fields of W = 3 bits in the model (FieldMax = 7, storage up to 12 bytes); the real "
                       "code is driven to W = 16: storage totals 65535..65537, strings ending at 65535/65536/65537/131069, "
                       "one byte at offset 65535, and three overflow tables",
        "name": "2 Macintosh + 2 Windows records, 4 strings per platform (thorough: +1 Windows record of a second language "
                "with 3 strings per platform) incl. shared/prefix/suffix/cross-platform-equal encodings, every storage placement",
        "post": "3 standard names, 6 names per glyph, lists <= 4 (5 thorough), every re-use choice; object with history: "
                "5 initial lists, all histories of 3 (4 thorough) calls of Encode/Read/Slice x4/Append x2/Mutate",
        "codec_history": "all histories of 2 (3 thorough) calls of mac.Encode / mac.Decode / name.Info.Encode / name.Decode "
                             "with argument lengths 0, 1, 63, 64, 65, 200",
        "codec": "10 boundary UTF-16 units, sequences <= 3; 15 boundary code points, sequences <= 2; all 256 bytes",
        "tags": "6 pairs with sibling scripts",
        "scriptlists": "1..2 scripts x (default absent/empty/with features) x 0..2 named language systems (empty or not) x "
                       "4 layouts (plain, shared Script table, shared LangSys tables, tables in reverse order): 1280 shapes",
        "equal_strings": "39 sets of name ids among 1,2,4,6,16,17,21,22 carrying one string x (Macintosh, Windows, both + a "
                         "second Windows language)",
        "generated": "name.Info shapes <= 6 entries over 8 language x 10 id x 12 string classes; glyph lists <= 3 (4 "
                     "thorough) classes x 4 modes",
    }

    # 2. R: abstract inputs from TLC
    d = ctx.subdir("c14")
    gens = list(hist.cases) + list(chist.cases)
    for cfg, kw in (("NameCodecGenAll.cfg", {}),
                    ("NameCodecGenNames.cfg", {"workers": 1, "simulate": ctx.pick(1000, 12000), "depth": 20})):
        files = None
        if cfg == "NameCodecGenAll.cfg" and not ctx.quick():
            files = {"NCg.cfg": open(os.path.join(vlib.SPEC_DIR, cfg)).read().replace("MaxGlyphs = 3", "MaxGlyphs = 4")}
            cfg = "NCg.cfg"
        sim = "simulate" in kw
        g = ctx.tlc("NameCodecGen", cfg=cfg, timeout=900, label="generation " + cfg, files=files, count=not sim, **kw)
        if sim:
            # a simulation run reports generated successor states only: not counted as distinct states
            ctx.cov["transitions"] += g.generated
            ctx.cov["tlc_runs"].append({"label": "generation %s (simulation, %d behaviours)" % (cfg, kw["simulate"]),
                                        "cmd": g.cmd, "generated": g.generated, "distinct": 0, "diameter": 0,
                                        "wall_s": round(g.wall, 2), "cases": len(g.cases), "violated": g.violated})
        if g.violated:
            raise vlib.Infra("generation run %s violated %s" % (cfg, g.violated))
        if not g.cases:
            raise vlib.Infra("generation run %s produced no case" % cfg)
        gens += g.cases
    tlc_cases = os.path.join(d, "tlc-cases.ndjson")
    vlib.write_ndjson(tlc_cases, gens)
    distinct_abstract = len({json.dumps(c, sort_keys=True) for c in gens})
    ctx.sample({"tlc_abstract_case": next(c for c in gens if c["part"] == "names" and len(c["entries"]) > 1)})

    # 3. drive the real code, validate every event
    total_cases = 0
    distinct = set()
    for part, args in (("names", [tlc_cases]), ("codec", [tlc_cases]), ("post", [tlc_cases]), ("tags", [ctx.repo, tlc_cases])):
        tp = os.path.join(d, part + ".ndjson")
        ctx.run([binp, part] + args + [tp], timeout=900)
        with open(tp + ".cases") as f:
            for i, ln in enumerate(f):
                c = json.loads(ln)
                c.pop("id", None)
                s = json.dumps(c, sort_keys=True)
                distinct.add(hash(s))
                if part in ("names", "post") and i in (3, 700) and len(s) < 1500:
                    ctx.sample({part + "_case": c})
        total_cases += _judge(ctx, tp, "NameCodecTrace: " + part)
        if not os.environ.get("VERIF_KEEP"):
            os.remove(tp)
    ctx.cov["distinct_nontrivial"] = len(distinct)
    ctx.cov["rule"] = ("distinct concrete cases driven through the real code (name.Info values, raw records, byte strings, "
                       "glyph-name lists, script lists, extension-less tags); %d distinct abstract inputs came from TLC; "
                       "evaluations = recorded events validated by TLC" % distinct_abstract)


def replay(ctx, obj):
    cases = [_norm_case(c) for c in obj["case"]["cases"]]
    if any(c.get("truncated") for c in cases):
        raise vlib.Infra("replay file holds a truncated case; re-run the tier instead")
    n = _replay_cases(ctx, cases)
    ctx.log("replay: %d of %d case(s) rejected again" % (n, len(cases)))
