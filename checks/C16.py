"""C16 -- a font that is not being modified is safe for concurrent use.

1. TLC, exhaustive: SharedFont.tla (N goroutines x K read-only operations, every operation the
   sequence of abstract accesses declared in SharedFontOps.tla, interleaved access by access)
   satisfies NoRace, SeqEquiv (every result = the result of the call run alone) and
   SharedUnchanged.  Negative configurations (a hidden write of the kind the property worries
   about: head bytes patched in a shared buffer, a lazily built index on a shared instance, a
   scratch buffer shared by layouters, a shared slice sorted in place, a package-level table
   written or built lazily, a closure of the font caching its last answer, a slice patched and
   restored in place) must FAIL in TLC, each on exactly the invariants it is expected to break.
2. V1: the footprints are measured.  Every operation is run alone on every font with a deep
   fingerprint (reflection: unexported fields, maps, slices incl. spare capacity, identities,
   package-level tables) of every shared location of the model before and after.
3. V2: TLC generates schedules from SharedFont.tla (programs + order of Start/Finish events,
   N in {2,4,16}; also with MaxOps=1: one call hammered from all goroutines, MaxOps=2: pairs);
   the harness, built with -race, replays them with real goroutines behind a gate.  Reports of
   the race detector become "race" events.  Half of the cases run on a never used instance of
   the font; for every font and (heavy) operation one *cold* process executes its hammer case
   before anything else (package-level lazy state is then built by concurrent calls).
4. Contention (plain build, results only): hammer, pair and 16-goroutine "storm" schedules with
   every call repeated back to back for some milliseconds and per-glyph queries starting at
   different glyphs; every repetition must return the run-alone result (state captured by
   closures, patch-and-restore in place: invisible to fingerprints, and the race detector can
   be blinded by accidental synchronisation through the standard library).
All recorded events are validated by TLC against SharedFontTrace.tla, which decides.
A rejected event is reproduced in isolation before it counts.
"""
import collections
import concurrent.futures
import glob
import json
import os
import re
import subprocess
import time

import vlib
import shaper_cat as sc

LEVEL = "model_checking"
MANIFEST = {
    "text": "TLC exhaustively checks SharedFont.tla (2-3 goroutines x 1-2 operations, all interleavings of the abstract "
            "accesses of the footprint table SharedFontOps.tla) for race freedom, sequential equivalence and an unchanged "
            "shared font, and shows that eight hidden-write variants fail. The footprints are bound to the code by deep "
            "before/after fingerprints of every shared location around every operation run alone (V1); TLC-generated "
            "schedules (random programs, one call hammered, pairs) are replayed with 2, 4 and 16 real goroutines under the "
            "Go race detector, on warmed and on never used font instances and in cold processes (V2), and with tight "
            "loops in a plain build for result comparison under contention. Every recorded "
            "call, fingerprint, concurrent result digest and race report is accepted or rejected by TLC against "
            "SharedFontTrace.tla.",
    "note": "Trusted: TLC, the Go race detector (sees executed accesses only), the reflection fingerprint "
            "(closures and *time.Location are followed by identity only), the digest of results. Interleavings inside an "
            "operation are sampled by the Go scheduler, not enumerated. WriteTrueTypePDF with caller-supplied tables is "
            "excluded by documented contract. An operation that is not a function when run alone (map iteration order) is "
            "compared with the set of its run-alone results.",
    "technique": "TLA+ model checking (TLC) of SharedFont.tla + trace validation (SharedFontTrace.tla) of footprint "
                 "measurements and of race-detector runs replaying TLC-generated schedules",
}

VARIANTS = {
    # variant: invariants it must violate / must keep
    "headpatch":   {"NoRace": False, "SeqEquiv": False, "SharedUnchanged": False},
    "lazyrev":     {"NoRace": False, "SeqEquiv": True,  "SharedUnchanged": False},
    "scratch":     {"NoRace": False, "SeqEquiv": False, "SharedUnchanged": False},
    "sortinplace": {"NoRace": False, "SeqEquiv": False, "SharedUnchanged": True},
    "pkgwrite":    {"NoRace": False, "SeqEquiv": False, "SharedUnchanged": False},
    # package-level table built lazily; state captured by a closure of the font; patch-and-restore in place
    "pkglazy":        {"NoRace": False, "SeqEquiv": True,  "SharedUnchanged": False},
    "closurecache":   {"NoRace": False, "SeqEquiv": False, "SharedUnchanged": False},
    "inplacerestore": {"NoRace": False, "SeqEquiv": False, "SharedUnchanged": True},
}
INVS = ("NoRace", "SeqEquiv", "SharedUnchanged")


def _cfg(name):
    return open(os.path.join(vlib.SPEC_DIR, name)).read()


def _set_const(cfg, **kw):
    for k, v in kw.items():
        cfg, n = re.subn(r"(?m)^(\s*%s\s*(?:=|<-)\s*).*$" % re.escape(k), lambda m: "  %s = %s" % (k, v), cfg)
        if n != 1:
            raise vlib.Infra("cfg template has no constant %s" % k)
    return cfg


# --------------------------------------------------------------------------- model checking
def _model(ctx):
    r = ctx.tlc("SharedFont", timeout=600, label="SharedFont exhaustive N=2 K=1, all 22 operations")
    if not r.ok:
        raise vlib.Infra("SharedFont.tla violates %s on the model -- the spec is wrong:\n%s" % (r.violated, r.error_text[:1500]))
    r = ctx.tlc("SharedFont", cfg="SharedFontK2.cfg", timeout=900, label="SharedFont exhaustive N=2 K=2, 4 operations")
    if not r.ok:
        raise vlib.Infra("SharedFont.tla (K=2) violates %s on the model:\n%s" % (r.violated, r.error_text[:1500]))
    bounds = {"N": [2], "K": [1, 2], "ops_K1": 22, "ops_K2": 4, "interleaving": "single abstract accesses"}
    if not ctx.quick():
        k2 = _cfg("SharedFontK2.cfg")
        seven = '{"Write", "AsCFFWrite", "Subset", "Clone", "MakeGlyphNames", "Layout", "ExplainGsub"}'
        runs = [
            ("N=3 K=1, 7 operations", _set_const(k2, N=3, K=1, MaxPar=3, Ops=seven)),
            ("N=2 K=2, 11 operations", _set_const(k2, Ops='{"Write", "WriteTrueTypePDF", "WriteOpenTypeCFFPDF", '
                                                  '"AsCFFWrite", "Subset", "Clone", "MakeGlyphNames", "Layout", '
                                                  '"GsubApply", "ExplainGsub", "Names"}')),
            ("N=3 K=2, 2 operations", _set_const(k2, N=3, K=2, MaxPar=3, Ops='{"Write", "Layout"}')),
        ]
        for label, text in runs:
            r = ctx.tlc("SharedFont", cfg="SFx.cfg", files={"SFx.cfg": text}, timeout=1500,
                        label="SharedFont exhaustive " + label)
            if not r.ok:
                raise vlib.Infra("SharedFont.tla (%s) violates %s on the model" % (label, r.violated))
        bounds.update({"N": [2, 3], "thorough": [x[0] for x in runs]})
        r = ctx.tlc("SharedFont", coverage=True, timeout=900, label="SharedFont N=2 K=1 with -coverage 1")
        if not r.ok:
            raise vlib.Infra("coverage run violated %s" % r.violated)
        if r.coverage_zero:
            raise vlib.Infra("vacuous actions in SharedFont.tla (never taken): %s" % r.coverage_zero)
        ctx.cov["vacuous_actions"] = []
    ctx.cov["exhaustive"] = True
    ctx.cov["bounds"] = bounds

    # anti-vacuity: every hidden-write variant must fail
    neg = _cfg("SharedFontNeg.cfg")
    table = {}
    for variant, expect in VARIANTS.items():
        if ctx.quick() and variant not in ("headpatch", "pkglazy", "closurecache", "inplacerestore"):
            continue        # one per kind of hidden state; all eight in the thorough tier
        base = _set_const(neg, Variant='"%s"' % variant)
        r = ctx.tlc("SharedFont", cfg="SFneg.cfg", files={"SFneg.cfg": base}, timeout=600,
                    label="negative configuration %s (must fail)" % variant)
        if r.violated not in INVS:
            raise vlib.Infra("negative configuration %s did not fail in TLC (violated=%r): the model is vacuous"
                             % (variant, r.violated))
        table[variant] = {"first_violated": r.violated}
        if not ctx.quick():
            for inv in INVS:
                one = re.sub(r"(?m)^INVARIANT .*\n", "", base) + "INVARIANT %s\n" % inv
                r = ctx.tlc("SharedFont", cfg="SFneg1.cfg", files={"SFneg1.cfg": one}, timeout=900,
                            label="negative configuration %s / %s" % (variant, inv))
                holds = r.violated is None
                if r.violated not in (None, inv):
                    raise vlib.Infra("negative configuration %s/%s: unexpected %r" % (variant, inv, r.violated))
                if holds != expect[inv]:
                    raise vlib.Infra("negative configuration %s: invariant %s %s, expected the opposite -- the model "
                                     "does not discriminate the hidden writes as designed"
                                     % (variant, inv, "holds" if holds else "is violated"))
                table[variant][inv] = "holds" if holds else "violated"
    ctx.cov["negative_configurations"] = table


# --------------------------------------------------------------------------- generation
def _combos(ctx):
    # (N, K, MaxPar, MaxOps, behaviours, depth); MaxOps 0 = any operations, 1 = one operation hammered from all
    # goroutines, 2 = a pair of operations
    if ctx.quick():
        return [(2, 2, 2, 0, 39, 120), (2, 3, 2, 0, 26, 160), (4, 2, 4, 0, 39, 200), (16, 2, 16, 0, 26, 800),
                (4, 2, 4, 1, 330, 200), (4, 2, 4, 2, 104, 200)]
    return [(2, 2, 2, 0, 300, 120), (2, 3, 2, 0, 210, 160), (3, 2, 3, 0, 150, 160), (4, 2, 2, 0, 150, 200),
            (4, 2, 4, 0, 210, 200), (4, 3, 4, 0, 120, 300), (16, 2, 4, 0, 60, 800), (16, 2, 16, 0, 120, 800),
            (4, 2, 4, 1, 1500, 200), (8, 2, 8, 1, 700, 400), (4, 2, 4, 2, 600, 200), (2, 3, 2, 2, 300, 160)]


def _generate(ctx):
    """Returns (general cases, hammer cases by operation, pair cases) -- all behaviours of SharedFont.tla."""
    gen = _cfg("SharedFontGen.cfg")
    general, hammer, pairs = [], collections.defaultdict(list), []
    for (n, k, mp, mo, num, depth) in _combos(ctx):
        text = _set_const(gen, N=n, K=k, MaxPar=mp, MaxOps=mo)
        r = ctx.tlc("SharedFont", cfg="SFgen.cfg", files={"SFgen.cfg": text}, workers=1, simulate=num, depth=depth,
                    timeout=600, label="schedule generation N=%d K=%d MaxPar=%d MaxOps=%d (simulate)" % (n, k, mp, mo))
        if r.violated:
            raise vlib.Infra("generation run violated %s -- the spec is wrong" % r.violated)
        if len(r.cases) < num // 2:
            raise vlib.Infra("generation N=%d produced only %d schedules" % (n, len(r.cases)))
        for c in r.cases:
            if not (c.get("equiv") and c.get("unchanged")):
                raise vlib.Infra("TLC emitted a behaviour that breaks the model's own verdict: %r" % c)
            case = {"n": c["n"], "k": c["k"], "maxpar": c["maxpar"], "maxops": c["maxops"], "prog": c["prog"],
                    "sched": c["sched"]}
            used = set(o for p in c["prog"] for o in p)
            if mo == 1:
                if len(used) != 1:
                    raise vlib.Infra("MaxOps=1 behaviour with operations %s" % used)
                hammer[used.pop()].append(case)
            elif mo == 2:
                pairs.append(case)
            else:
                general.append(case)
    return general, hammer, pairs


# --------------------------------------------------------------------------- harness runs
def _catalog(ctx):
    """Degenerate and over-budget lookup lists as fonts: the malformed and ctxnest families of lib/shaper_cat.py
    (rules with 70 nested actions, out-of-range indices, self reference, classes outside their tables) plus rules
    that exhaust the action budget while an outer rule still has pending actions.  Ids are positions in the full
    list, so that a replay finds the same font in either tier."""
    path = os.path.join(ctx.scratch, "c16-catalog.json")
    if os.path.exists(path):
        return path
    cases = sc.build(["malformed", "ctxnest"])
    L, C, R, S, M = sc.lookup, sc.ctx, sc.rule, sc.single, sc.multi
    extra = []
    for fmt in (1, 2, 3):
        for chain in (False, True):
            # outer rule with two actions; the first one runs into a rule with 70 actions
            extra.append([L([C([R([{1}, {2}], [(0, 2), (1, 3)])], fmt=fmt, chain=chain)]),
                          L([C([R([{1}], [(0, 4)] * 70)], fmt=fmt)]), L([S({2: 5})]), L([S({1: 6, 6: 1})])])
            # three levels, the innermost exhausts the budget, two outer rules have pending actions
            extra.append([L([C([R([{1}, {2}, {1}], [(0, 2), (1, 5), (2, 5)])], fmt=fmt, chain=chain)]),
                          L([C([R([{1}], [(0, 3), (0, 5)])], fmt=fmt)]),
                          L([C([R([{1}], [(0, 4)] * 66)], fmt=fmt)]), L([S({1: 6, 6: 1})]), L([S({2: 5, 1: 6})])])
    for ll in extra:
        cases.append({"id": 0, "family": "c16-budget-outer", "order": [1], "gdef": sc.GDEF_FULL, "ll": ll, "inputs": None})
    # features that list lookup indices outside the lookup list (strictly increasing, with duplicates, unsorted): whoever
    # tidies such a list must do it on a copy
    simple = [L([S({1: 2})]), L([M({2: [1, 1]})]), L([S({2: 6, 6: 1})])]
    for order in ([1, 9], [2, 3, 7, 200], [9], [3, 1, 9, 1], [1, 2, 3, 4]):
        cases.append({"id": 0, "family": "c16-oor-feature", "order": order, "gdef": sc.GDEF_FULL, "ll": simple, "inputs": None})
    for i, c in enumerate(cases):
        c["id"] = i + 1
    if ctx.quick() and not ctx.replay_path:
        cases = [c for c in cases if c["family"] != "ctxnest" or c["id"] % 12 == 0]
    json.dump(cases, open(path, "w"))
    return path


def _bytes_dir(ctx):
    """Files of the read-back fonts (written by `c16 fonts`), so that a cold process only reads."""
    d = os.path.join(ctx.scratch, "c16-bytes")
    os.makedirs(d, exist_ok=True)
    return d


def _harness(ctx, argv, env=None, timeout=900):
    e = dict(os.environ)
    e["VERIF_SEED"] = str(ctx.seed)
    e["VERIF_TIER"] = ctx.tier
    e["C16_BYTES"] = _bytes_dir(ctx)
    e["C16_CATALOG"] = _catalog(ctx)
    e.update(env or {})
    try:
        p = subprocess.run(argv, stdout=subprocess.PIPE, stderr=subprocess.PIPE, env=e, timeout=timeout)
    except subprocess.TimeoutExpired:
        raise vlib.Infra("harness timed out after %ds: %s" % (timeout, " ".join(argv)))
    return p.returncode, p.stderr.decode(errors="replace")


_FATAL = re.compile(r"fatal error: (concurrent map[^\n]*)")


def _run_font(ctx, binp, font, cases_path, trace, reps, racelog=None, cold=False):
    """One harness process = one shared font.  Returns (fatal message or None)."""
    env = {"C16_REPS": str(reps)}
    if cold:
        env["C16_COLD"] = "1"
        env["C16_SEQOPS"] = "cases"
    if racelog:
        env["GORACE"] = "halt_on_error=0 exitcode=0 history_size=5 log_path=%s" % racelog
    rc, err = _harness(ctx, [binp, "run", font, cases_path or "-", trace], env=env)
    if rc == 0:
        return None
    m = _FATAL.search(err)
    if m:
        ops = sorted(set(re.findall(r"main\.op(\w+)\(", err)))
        return {"msg": m.group(1), "ops": ops, "stderr": err[:3000]}
    raise vlib.Infra("harness exited %d on font %s:\n%s" % (rc, font, err[-3000:]))


_ACCESS = re.compile(r"^(Read|Write|Previous read|Previous write|Atomic read|Atomic write|Previous atomic read|"
                     r"Previous atomic write) at (0x[0-9a-f]+) by (main goroutine|goroutine \d+)", re.I)


def _parse_races(prefix):
    """Parse the race detector's report files <prefix>.<pid> into race records."""
    races = []
    for path in sorted(glob.glob(prefix + ".*")):
        text = open(path, errors="replace").read()
        for block in text.split("=================="):
            if "WARNING: DATA RACE" not in block:
                continue
            accs = []
            cur = None
            for line in block.splitlines():
                m = _ACCESS.match(line.strip())
                if m and not line.startswith("  "):
                    cur = {"kind": m.group(1).lower(), "frames": []}
                    accs.append(cur)
                    continue
                if line.startswith("Goroutine ") or line.strip() == "":
                    if line.startswith("Goroutine "):
                        cur = None
                    continue
                if cur is not None and line.startswith("  ") and not line.startswith("   "):
                    cur["frames"].append(line.strip())
            rec = {"ops": [], "where": [], "kinds": []}
            for a in accs[:2]:
                op = "?"
                for fr in a["frames"]:
                    mm = re.match(r"main\.op(\w+)\(", fr)
                    if mm:
                        op = mm.group(1)
                        break
                top = "?"
                for fr in a["frames"]:
                    if "seehuhn.de/go/sfnt" in fr:
                        top = re.sub(r"\(\)$", "", fr)
                        break
                if top == "?" and a["frames"]:
                    top = re.sub(r"\(\)$", "", a["frames"][0])
                if op == "?" and any(fr.startswith("verif.local/harness/internal/fprint") for fr in a["frames"]):
                    op = "(harness reading a returned value that shares data with the font)"
                rec["ops"].append(op)
                rec["where"].append(top)
                rec["kinds"].append(a["kind"])
            rec["report"] = block.strip()[:2500]
            races.append(rec)
    return races


def _race_events(font, races):
    evs = []
    seen = set()
    for r in races:
        key = (tuple(sorted(r["ops"])), tuple(sorted(r["where"])))
        if key in seen:
            continue
        seen.add(key)
        evs.append({"ev": "race", "font": font, "ops": r["ops"], "where": r["where"], "kinds": r["kinds"]})
    return evs


def _insert_after_reset(events, extra):
    if not extra:
        return events
    return events[:1] + extra + events[1:]


# --------------------------------------------------------------------------- validation and triage
def _validate(ctx, events, label, traces):
    d = ctx.subdir("val")
    p = os.path.join(d, "trace.ndjson")
    vlib.write_ndjson(p, events)
    ok, line, res = ctx.validate_trace("SharedFontTrace", p, label=label, traces=traces, timeout=1500)
    if ok:
        ctx.cov["evaluations"] += len(events)
        return None
    if line is None:
        raise vlib.Infra("trace validation failed without a rejected line:\n" + res.error_text[-2000:])
    return line


def _changed_locs(ev, fp, locs):
    """Names of the locations whose fingerprint differs between before and after (or from fp, if given)."""
    out = []
    for j, name in enumerate(locs):
        b, a = ev.get("before"), ev.get("after")
        if (b and a and b[j] != a[j]) or (fp and b and b[j] != fp[j]) or (fp and a and a[j] != fp[j]):
            out.append(name)
    return out


def _violation(ctx, st, what, sig, case):
    """One report per distinct signature (a hidden write shows up on every font and in both bindings)."""
    key = json.dumps(sig, sort_keys=True)
    if key in st.reported:
        st.reported[key] += 1
        return
    st.reported[key] = 1
    ctx.violation(what, sig=sig, case=case)


def _alone(ctx, st, font, op):
    """80 more runs of one operation alone on one font; the digests become "alone" events of that font."""
    if st.alone_dir is None:
        st.alone_dir = ctx.subdir("alone")       # (called from worker threads: one directory, distinct files)
    out = os.path.join(st.alone_dir, "alone-%s-%s.json" % (font, op))
    rc, err = _harness(ctx, [st.bin, "alone", font, op, "80", out])
    if rc != 0:
        raise vlib.Infra("alone run failed: " + err[-1500:])
    seen = json.load(open(out))
    st.alone_done.add((font, op))
    for dg in seen:
        st.extra_alone.setdefault(font, []).append({"ev": "alone", "font": font, "op": op, "digest": dg})
    return seen


class State:
    """Per-run data needed by the triage of a rejected event."""

    def __init__(self, ctx):
        self.ctx = ctx
        self.bin = None
        self.bin_race = None
        self.cases = {}     # id -> case
        self.reported = {}  # signature -> number of times seen
        self.confirmed = {} # rejected-event key -> times (reproduced once, then only counted)
        self.skipped = 0
        self.alone_done = set()
        self.alone_dir = None
        self.cases_by_key = {}
        self.benign = []
        self.extra_alone = {}


def _single_case_trace(ctx, st, font, case, repeat, tag, cold=False):
    """Run one case alone (cold: in processes of their own, one per repetition, nothing warmed up)."""
    if cold:
        allev, allraces = [], []
        for _ in range(min(repeat, 6)):
            evs, races, fatal = _single_case_trace(ctx, st, font, case, 1, tag)
            if fatal:
                return evs, races, fatal
            allraces += races
            if races or not allev:
                allev = evs
            if races:
                break
        return allev, allraces, None
    d = ctx.subdir("iso")
    c = dict(case)
    c["font"] = font
    c["repeat"] = repeat
    cp = os.path.join(d, "case.ndjson")
    vlib.write_ndjson(cp, [c])
    tp = os.path.join(d, "trace.ndjson")
    rl = os.path.join(d, "race")
    fatal = _run_font(ctx, st.bin_race, font, cp, tp, 3, racelog=rl, cold=bool(case.get("cold")))
    races = _parse_races(rl)
    events = vlib.read_ndjson(tp) if os.path.exists(tp) else []
    return events, races, fatal


def _reproduce(ctx, st, font, bad, events_of_font, key=None):
    """bad = the rejected event.  Re-run in isolation; report only what reproduces.  Returns True if handled
    (violation reported or benign explanation found), raises Infra when nothing reproduces."""
    kind = bad["ev"]
    pre = json.dumps([kind, bad.get("op"), bad.get("ops"), bad.get("where")])
    if pre in st.confirmed:
        st.confirmed[pre] += 1
        return True        # the same event kind/operation/location was already reproduced on another font
    if len(st.reported) >= 6:
        st.skipped += 1
        return True        # six distinct violations are reported; further rejected events are only counted
    n0 = len(ctx.violations) + sum(st.reported.values())
    try:
        return _reproduce1(ctx, st, font, bad, events_of_font, key)
    finally:
        if len(ctx.violations) + sum(st.reported.values()) > n0:
            st.confirmed[pre] = 1


def _reproduce1(ctx, st, font, bad, events_of_font, key=None):
    kind = bad["ev"]
    was_cold = any(e.get("cold") for e in events_of_font if e.get("ev") == "case") or bool(key and "/c-" in key)
    if kind == "seq":
        # V1: the measured footprint is not inside the declared one.  Re-measure that font alone.
        d = ctx.subdir("iso")
        tp = os.path.join(d, "trace.ndjson")
        _run_font(ctx, st.bin, font, None, tp, 3)
        evs = vlib.read_ndjson(tp)
        line = _validate(ctx, evs, "replay: footprints of font %s alone" % font, 0)
        if line is None:
            raise vlib.Infra("footprint violation of %s on %s did not reproduce in isolation" % (bad["op"], font))
        b = evs[line - 1]
        locs = _changed_locs(b, evs[0]["fp"], evs[0]["locs"])
        _violation(ctx, st, 
            "hidden write: running %s alone on font %s (%s) changes the shared location(s) %s of the font "
            "(deep fingerprint before != after, or the font drifted from its state at the reset); the declared "
            "footprint of the operation has no shared write" % (b.get("op"), font, st.fonts[font]["desc"], locs),
            sig={"kind": "footprint", "op": b.get("op"), "locs": ",".join(locs)},
            case={"kind": "footprint", "font": font})
        return True
    if kind == "race":
        ops = [o for o in bad["ops"] if o in st.fonts[font]["ops"]]
        if len(ops) == 1:
            ops.append("Clone")      # the other party read data shared with the font
        ops = ops or ["Write"]
        a, b = (ops + ops)[:2]
        case = {"id": 900001, "n": 2, "k": 1, "maxpar": 2, "prog": [[a], [b]], "fresh": True, "cold": was_cold,
                "sched": [["S", 1], ["S", 2], ["F", 1], ["F", 2]]}
        # (the detector misses a race when the two calls happen to synchronise, e.g. through a sync.Pool of
        # the standard library: try both orders, more goroutines, then the original cases of that process)
        shapes = [([[a], [b]], [["S", 1], ["S", 2], ["F", 1], ["F", 2]]),
                  ([[b], [a]], [["S", 1], ["S", 2], ["F", 1], ["F", 2]]),
                  ([[a, b], [b, a], [a, a], [b, b]],
                   [["S", 1], ["S", 2], ["S", 3], ["S", 4], ["F", 1], ["S", 1], ["F", 2], ["S", 2], ["F", 3], ["S", 3],
                    ["F", 4], ["S", 4], ["F", 1], ["F", 2], ["F", 3], ["F", 4]])]
        races, fatal = [], None
        for attempt in range(2):
            for prog, sched in shapes:
                case = {"id": 900001, "n": len(prog), "k": len(prog[0]), "maxpar": len(prog), "prog": prog,
                        "fresh": True, "cold": was_cold, "sched": sched}
                evs, races, fatal = _single_case_trace(ctx, st, font, case, 6, "race", cold=was_cold)
                if races or fatal:
                    break
            if races or fatal:
                break
        if not races and not fatal:
            orig = (st.cases_by_key.get(key) or [c for c in st.cases.values() if c["font"] == font])[:30]
            for c in orig:
                evs, races, fatal = _single_case_trace(ctx, st, font, c, 2, "race", cold=was_cold)
                if races or fatal:
                    case = c
                    break
        if not races and not fatal:
            raise vlib.Infra("data race %s on font %s did not reproduce in isolation:\n%s"
                             % (bad["ops"], font, bad.get("report", "")[:800]))
        r = races[0] if races else {"ops": fatal["ops"], "where": [fatal["msg"]], "kinds": ["fatal"], "report": fatal["stderr"]}
        _violation(ctx, st, 
            "data race between %s and %s on shared font %s (%s): %s at %s vs %s at %s\n%s" % (
                r["ops"][0] if r["ops"] else "?", r["ops"][-1] if r["ops"] else "?", font, st.fonts[font]["desc"],
                r["kinds"][0], r["where"][0], r["kinds"][-1], r["where"][-1], r.get("report", "")[:1200]),
            sig={"kind": "race", "ops": "+".join(sorted(set(r["ops"]))), "where": sorted(set(r["where"]))[0]},
            case={"kind": "case", "font": font, "case": case})
        return True
    if kind in ("conc", "end"):
        case = st.cases.get(bad.get("id"))
        if case is None:
            raise vlib.Infra("rejected %s event without a case: %r" % (kind, bad))
        if kind == "conc":
            # is the digest one the call also returns when run alone?
            seen = _alone(ctx, st, font, bad["op"])
            if bad["digest"] in seen:
                st.benign.append({"font": font, "op": bad["op"], "alone_results": len(seen)})
                # the operation is not a function when run alone: sample its run-alone results on every font
                others = [f for f in st.fonts if f != font and bad["op"] in st.fonts[f]["ops"]
                          and (f, bad["op"]) not in st.alone_done]
                with concurrent.futures.ThreadPoolExecutor(max_workers=max(2, min(8, ctx.workers))) as ex:
                    list(ex.map(lambda f: _alone(ctx, st, f, bad["op"]), others))
                return False     # caller re-validates with the larger run-alone sets
        evs, races, fatal = _single_case_trace(ctx, st, font, case, 25, kind, cold=bool(case.get("cold")))
        if fatal:
            _violation(ctx, st, "concurrent calls crash the process on shared font %s: fatal error: %s (operations on the "
                          "stacks: %s)" % (font, fatal["msg"], fatal["ops"]),
                          sig={"kind": "fatal", "msg": fatal["msg"]}, case={"kind": "case", "font": font, "case": case})
            return True
        evs = _insert_after_reset(evs, st.extra_alone.get(font, []))
        line = _validate(ctx, evs, "replay: one case on font %s" % font, 0)
        if line is None and not races:
            raise vlib.Infra("rejected %s event did not reproduce in isolation (font %s, case %s): %r"
                             % (kind, font, case.get("id"), {k: v for k, v in bad.items() if k not in ("before", "after")}))
        if line is not None:
            b = evs[line - 1]
            if b["ev"] == "conc":
                _violation(ctx, st, 
                    "concurrent result differs from the result of the same call run alone: %s (goroutine %d, call %d of "
                    "programs %s) on shared font %s (%s) returned digest %s, alone it returns %s" % (
                        b["op"], b["g"], b["i"], json.dumps(case["prog"]), font, st.fonts[font]["desc"], b["digest"],
                        sorted(set(e["digest"] for e in evs if e["ev"] == "seq" and e["op"] == b["op"]))),
                    sig={"kind": "result", "op": b["op"]}, case={"kind": "case", "font": font, "case": case})
                return True
            if b["ev"] == "end":
                locs = _changed_locs(b, None, evs[0]["locs"])
                _violation(ctx, st, 
                    "the shared font %s (%s) is modified by concurrent read-only calls %s: location(s) %s changed"
                    % (font, st.fonts[font]["desc"], json.dumps(case["prog"]), locs),
                    sig={"kind": "modified", "locs": ",".join(locs)}, case={"kind": "case", "font": font, "case": case})
                return True
            if b["ev"] == "seq":
                return _reproduce(ctx, st, font, b, evs)
        r = races[0]
        _violation(ctx, st, "data race on shared font %s during case %s: %s at %s vs %s at %s\n%s" % (
            font, json.dumps(case["prog"]), r["kinds"][0], r["where"][0], r["kinds"][-1], r["where"][-1], r["report"][:1200]),
            sig={"kind": "race", "ops": "+".join(sorted(set(r["ops"]))), "where": sorted(set(r["where"]))[0]},
            case={"kind": "case", "font": font, "case": case})
        return True
    raise vlib.Infra("trace rejected at a %s event (harness or generation malfunction): %r" % (kind, str(bad)[:500]))


# --------------------------------------------------------------------------- main
def run(ctx):
    ctx.assumptions += [
        "the race detector treats sync.Pool and similar library internals as synchronisation and can therefore miss a "
        "race in a given run; the contention runs compare results instead",
        "state captured by closures (Outlines.FDSelect) and unexported package variables cannot be fingerprinted: they "
        "are bound by race reports and result comparison only (location 'closure' / per-call 'idx' of the model)",
        "the Go race detector reports every pair of conflicting accesses that is executed without happens-before order "
        "in a replayed schedule (history_size=5); accesses that are not executed are not seen",
        "reflection reaches everything but closure variables; *time.Location is compared by identity (time.Local is "
        "initialised by the standard library under its own sync.Once)",
        "result digests cover the complete returned values (bytes written, returned structures by content)",
        "schedules inside an operation are sampled by the Go scheduler, not enumerated",
        "WriteTrueTypePDF with caller-supplied tables patches the caller's buffer by documented contract: excluded",
    ]
    st = State(ctx)
    _model(ctx)

    st.bin = ctx.build("c16")
    st.bin_race = ctx.build("c16", race=True)
    d = ctx.subdir("c16")
    fj = os.path.join(d, "fonts.json")
    rc, err = _harness(ctx, [st.bin, "fonts", fj])
    if rc != 0:
        raise vlib.Infra("c16 fonts failed: " + err[-2000:])
    fonts = json.load(open(fj))
    st.fonts = {f["id"]: f for f in fonts}
    for f in fonts:
        if f["probes"] < 3 or f["probes_seen"] != f["probes"]:
            raise vlib.Infra("fingerprint self-test: font %s notices %d of %d deliberate hidden writes (missed %s)"
                             % (f["id"], f["probes_seen"], f["probes"], f["probes_missed"]))
    if not any(f["pkg_alias"] for f in fonts):
        ctx.notes.append("no font of the corpus aliases post.macRoman")
    ctx.cov["fonts"] = [{k: f[k] for k in ("id", "desc", "glyphs", "nodes", "probes", "pkg_alias")} for f in fonts
                        if not f["id"].startswith("cat")]
    ctx.cov["catalogue_fonts"] = collections.Counter(f["desc"].split('"')[1] for f in fonts if f["id"].startswith("cat"))
    ctx.cov["fingerprint_probes_seen"] = sum(f["probes_seen"] for f in fonts)

    # schedules from TLC, dealt to the fonts
    general, hammer, pairs = _generate(ctx)
    ids = [f["id"] for f in fonts if not f["id"].startswith("cat")]
    cat_ids = [f["id"] for f in fonts if f["id"].startswith("cat")]
    nid = [0]

    def adopt(c, font, **kw):
        c = dict(c)
        nid[0] += 1
        c.update({"id": nid[0], "font": font, "repeat": 1, "fresh": False, "cold": False, "loop_ms": 0})
        c.update(kw)
        st.cases[c["id"]] = c
        return c

    warm = collections.defaultdict(list)     # race build, after the sequential phase
    plain = collections.defaultdict(list)    # plain build: the same call hammered, repeated (results only)
    coldp = []                               # (font, op, [case]): race build, a process of its own, cases first
    rep_plain = ctx.pick(1, 4)
    loop_ms = ctx.pick(12, 30)
    for i, c in enumerate(general):
        f = ids[i % len(ids)]
        warm[f].append(adopt(c, f, fresh=(i // len(ids)) % 2 == 0))   # every other case: a never used instance
    # storms: the 16-goroutine behaviours with the most different operations, on every font, every call repeated
    # in a tight loop (plain build, results only)
    big = sorted([c for c in general if c["n"] >= 8], key=lambda c: -len(set(o for p in c["prog"] for o in p)))
    for f in ids:
        for c in big[:ctx.pick(3, 8)]:
            plain[f].append(adopt(c, f, fresh=True, repeat=rep_plain, loop_ms=loop_ms))
    for i, c in enumerate(pairs):
        f = ids[i % len(ids)]
        warm[f].append(adopt(c, f, fresh=(i // len(ids)) % 2 == 1))
        plain[f].append(adopt(c, f, fresh=(i // len(ids)) % 2 == 0, repeat=rep_plain, loop_ms=loop_ms))
    cold_ops = ("Write", "Layout", "MakeGlyphNames", "ExplainGsub", "Subset", "AsCFFWrite")
    missing = set()
    for f in ids:
        for op in st.fonts[f]["ops"]:
            hs = hammer.get(op, [])
            if not hs:
                missing.add(op)
                continue
            k = ids.index(f)
            warm[f].append(adopt(hs[k % len(hs)], f, fresh=True))
            plain[f].append(adopt(hs[(k + 1) % len(hs)], f, fresh=True, repeat=rep_plain, loop_ms=loop_ms))
            derived = f.endswith("sp") or f.endswith("nc") or f.startswith("deg")
            if (op in cold_ops and not (ctx.quick() and derived)) or not ctx.quick():
                coldp.append((f, op, [adopt(hs[(k + 2) % len(hs)], f, fresh=True, cold=True)]))
    if missing:
        raise vlib.Infra("no hammer schedule generated for operations %s" % sorted(missing))
    # catalogue fonts (degenerate / over-budget lookup lists): footprints of every operation, and a short race run
    # with two random schedules and the layout-table operations hammered
    small = [c for c in general if c["n"] <= 4]
    for i, f in enumerate(cat_ids):
        for j in range(2):
            warm[f].append(adopt(small[(2 * i + j) % len(small)], f, fresh=j == 1))
        for op in ("Layout", "GsubApply", "GposApply", "ExplainGsub", "ExplainGpos", "Write"):
            if op in st.fonts[f]["ops"]:
                warm[f].append(adopt(hammer[op][i % len(hammer[op])], f, fresh=True))
    cases = list(st.cases.values())
    ctx.sample({"tlc_schedule": {k: v for k, v in cases[0].items()}})

    # one harness process per job.  v1: plain build, every operation alone with fingerprints (more repetitions)
    # + hammer cases; v2: race build, sequential phase + cases; c-<op>: race build, cold.
    reps1 = ctx.pick(4, 25)
    jobs = []
    for f in ids:
        jobs.append({"key": "%s/v1" % f, "font": f, "bin": st.bin, "cases": plain[f], "reps": reps1, "race": False, "cold": False})
        jobs.append({"key": "%s/v2" % f, "font": f, "bin": st.bin_race, "cases": warm[f], "reps": 3, "race": True, "cold": False})
    for f in cat_ids:
        jobs.append({"key": "%s/v1" % f, "font": f, "bin": st.bin, "cases": [], "reps": 2, "race": False, "cold": False})
        jobs.append({"key": "%s/v2" % f, "font": f, "bin": st.bin_race, "cases": warm[f], "reps": 2, "race": True, "cold": False})
    for f, op, cs in coldp:
        jobs.append({"key": "%s/c-%s" % (f, op), "font": f, "bin": st.bin_race, "cases": cs, "reps": 2, "race": True, "cold": True})
    for j in jobs:
        st.cases_by_key[j["key"]] = j["cases"]

    def work(job, suffix=""):
        base = os.path.join(d, job["key"].replace("/", "-") + suffix)
        tp = base + ".ndjson"
        cp = None
        if job["cases"]:
            cp = base + ".cases"
            vlib.write_ndjson(cp, job["cases"])
        rl = (base + ".race") if job["race"] else None
        t0 = time.time()
        fatal = _run_font(ctx, job["bin"], job["font"], cp, tp, job["reps"], racelog=rl, cold=job["cold"])
        job["wall"] = round(time.time() - t0, 2)
        return job, tp, fatal, (_parse_races(rl) if rl else [])

    traces = {}
    nraces = 0
    with concurrent.futures.ThreadPoolExecutor(max_workers=max(2, min(8, ctx.workers))) as ex:
        results = list(ex.map(work, jobs))
    slow = sorted(jobs, key=lambda j: -j.get("wall", 0))[:6]
    ctx.log("harness: %d processes, %.1fs of process time; slowest: %s" % (
        len(jobs), sum(j.get("wall", 0) for j in jobs), ", ".join("%s %.1fs" % (j["key"], j["wall"]) for j in slow)))
    for job, tp, fatal, races in results:
        key, f = job["key"], job["font"]
        if fatal:
            # the process died of the runtime's own concurrent-map check (its trace is lost, the race
            # detector's reports are not)
            nraces += len(races)
            v1 = os.path.join(d, "%s-v1.ndjson" % f)
            if races and key != "%s/v1" % f and os.path.exists(v1) and os.path.getsize(v1) > 0:
                evs = [e for e in vlib.read_ndjson(v1) if e["ev"] in ("reset", "seq")]
                traces[key] = _insert_after_reset(evs, _race_events(f, races))
                ctx.notes.append("%s: the process crashed with %r; its race reports are judged with the footprint "
                                 "trace of the font" % (key, fatal["msg"]))
                continue
            again = None
            for n in range(5):
                again = work(job, ".again%d" % n)[2]
                if again:
                    break
            if not again:
                raise vlib.Infra("fatal error %r in %s did not reproduce" % (fatal["msg"], key))
            _violation(ctx, st, "concurrent read-only calls crash the process on shared font %s (%s): fatal error: %s "
                       "(operations on the stacks: %s)" % (f, st.fonts[f]["desc"], again["msg"], again["ops"]),
                       sig={"kind": "fatal", "msg": again["msg"]},
                       case={"kind": "font", "font": f, "cold": job["cold"], "cases": job["cases"][:50]})
            continue
        evs = vlib.read_ndjson(tp)
        nraces += len(races)
        traces[key] = _insert_after_reset(evs, _race_events(f, races))
    st_traces = traces
    order = sorted(st_traces)
    _judge(ctx, st, st_traces, len(cases))

    # evidence
    conc = sum(1 for k in order for e in st_traces[k] if e["ev"] == "conc" and e["digest"] != "n/a")
    seq = sum(1 for k in order for e in st_traces[k] if e["ev"] == "seq" and e["digest"] != "n/a")
    distinct_sched = len(set(json.dumps([c["font"], c["prog"], c["sched"]]) for c in cases))
    fo = set((k.split("/")[0], e["op"]) for k in order for e in st_traces[k] if e["ev"] == "seq" and e["digest"] != "n/a")
    pairs = set()
    for c in cases:
        pairs |= _overlaps(c, st.fonts[c["font"]]["ops"])
    ctx.cov["distinct_nontrivial"] = distinct_sched + len(fo)
    ctx.cov["rule"] = ("distinct (font, programs, schedule) triples generated by TLC and replayed under the race detector "
                       "(%d) plus distinct (font, operation) footprints measured (%d); evaluations = recorded events "
                       "validated by TLC" % (distinct_sched, len(fo)))
    ctx.cov["concurrent_calls"] = conc
    ctx.cov["sequential_calls_fingerprinted"] = seq
    ctx.cov["overlapping_operation_pairs"] = len(pairs)
    ctx.cov["goroutines"] = sorted(set(c["n"] for c in cases))
    ctx.cov["processes"] = {"footprint_and_hammer_plain": len(ids), "race_warm": len(ids), "race_cold": len(coldp),
                            "catalogue_footprint": len(cat_ids), "catalogue_race": len(cat_ids)}
    ctx.cov["hammer_cases"] = sum(len(v) for v in plain.values())
    ctx.cov["cold_cases"] = len(coldp)
    ctx.cov["race_reports"] = nraces
    # diagnostic only (the verdicts are TLC's): concurrent digests outside the run-alone digests of their process
    raw = collections.Counter()
    for k in order:
        ref = collections.defaultdict(set)
        for e in st_traces[k]:
            if e["ev"] in ("seq", "alone"):
                ref[e["op"]].add(e["digest"])
            elif e["ev"] == "conc" and e["digest"] not in ref[e["op"]]:
                raw["%s %s" % (k, e["op"])] += 1
    ctx.cov["raw_result_mismatches"] = dict(raw)
    if raw:
        ctx.notes.append("concurrent results outside the run-alone results recorded in the same process (diagnostic "
                         "count): %s" % json.dumps(dict(raw))[:1500])
    if st.skipped:
        ctx.notes.append("%d further rejected events were not reproduced individually (reproduction budget)" % st.skipped)
    if st.benign:
        ctx.notes.append("operations that are not a function when run alone (compared with the set of run-alone results): %s"
                         % json.dumps(st.benign))
    nd = collections.defaultdict(set)
    for k in order:
        for e in st_traces[k]:
            if e["ev"] == "seq":
                nd[(k.split("/")[0], e["op"])].add(e["digest"])
    multi = sorted("%s/%s" % x for x, v in nd.items() if len(v) > 1)
    if multi:
        ctx.notes.append("run-alone results differ between repetitions (outside C16): " + ", ".join(multi[:20]))
    for note in ctx.notes:
        ctx.log("note:", note[:600])
    for k in order:
        for e in st_traces[k]:
            if e["ev"] == "seq" and e["digest"] != "n/a":
                ctx.sample({"recorded_event": e})
                break
        break
    for k in order:
        if not k.endswith("/v1"):
            for e in st_traces[k]:
                if e["ev"] == "conc" and e["digest"] != "n/a":
                    ctx.sample({"recorded_event": e})
                    break
            break


def _overlaps(case, applicable):
    """Unordered pairs of (applicable) operations whose calls overlap in the schedule."""
    running = {}
    idx = collections.defaultdict(int)
    out = set()
    for kind, g in case["sched"]:
        if kind == "S":
            op = case["prog"][g - 1][idx[g]]
            idx[g] += 1
            if op in applicable:
                for other in running.values():
                    out.add(tuple(sorted((op, other))))
                running[g] = op
        else:
            running.pop(g, None)
    return out


def _judge(ctx, st, traces, ncases):
    """traces are keyed "<font>/<mode>" (one harness process each).  Validate everything at once.  On a rejection
    everything before the rejected line is accepted; the rejected event is reproduced in isolation, the rest of
    that process's trace is dropped and validation resumes with the following processes."""
    fontmap = {k: k.split("/")[0] for k in traces}
    remaining = sorted(traces)
    first = True
    for attempt in range(14):
        if not remaining:
            return
        allev = []
        start = {}
        for k in remaining:
            evs = _insert_after_reset(traces[k], st.extra_alone.get(fontmap[k], []))
            # a race already reproduced on another font is only counted
            keep = []
            for e in evs:
                if e["ev"] == "race" and json.dumps(["race", None, e.get("ops"), e.get("where")]) in st.confirmed:
                    st.confirmed[json.dumps(["race", None, e.get("ops"), e.get("where")])] += 1
                    continue
                keep.append(e)
            start[k] = len(allev)
            allev += keep
        label = ("SharedFontTrace: %d processes, %d schedules" % (len(remaining), ncases)) if first \
            else "SharedFontTrace: remaining %d processes" % len(remaining)
        line = _validate(ctx, allev, label, (ncases + len(remaining)) if first else 0)
        first = False
        if line is None:
            return
        k = max((kk for kk in remaining if start[kk] < line), key=lambda kk: start[kk])
        evs = allev[start[k]:]
        handled = _reproduce(ctx, st, fontmap[k], allev[line - 1], evs, k)
        i = remaining.index(k)
        remaining = remaining[i + 1:] if handled else remaining[i:]
    if not ctx.violations and not ctx.known_hits:
        raise vlib.Infra("trace validation did not settle after 14 rejected events (%d processes not judged); "
                         "benign so far: %s" % (len(remaining), json.dumps(st.benign)[:1500]))
    ctx.notes.append("trace validation stopped after 14 rejected events; %d processes not judged" % len(remaining))


def replay(ctx, obj):
    st = State(ctx)
    st.bin = ctx.build("c16")
    st.bin_race = ctx.build("c16", race=True)
    d = ctx.subdir("c16")
    fj = os.path.join(d, "fonts.json")
    rc, err = _harness(ctx, [st.bin, "fonts", fj], env={"VERIF_TIER": "thorough"})
    if rc != 0:
        raise vlib.Infra("c16 fonts failed: " + err[-2000:])
    st.fonts = {f["id"]: f for f in json.load(open(fj))}
    c = obj["case"]
    font = c["font"]
    if c["kind"] == "footprint":
        _reproduce(ctx, st, font, {"ev": "seq", "op": "?"}, [{}])
        return
    cases = [c["case"]] if c["kind"] == "case" else c.get("cases", [])
    for case in cases:
        case = dict(case)
        case.setdefault("id", 1)
        st.cases[case["id"]] = dict(case, font=font)
        evs, races, fatal = _single_case_trace(ctx, st, font, case, 25, "replay", cold=bool(case.get("cold")))
        if fatal:
            ctx.violation("fatal error: %s" % fatal["msg"], sig={"kind": "fatal", "msg": fatal["msg"]}, case=c)
            return
        evs = _insert_after_reset(evs, _race_events(font, races))
        line = _validate(ctx, evs, "replay", 0)
        if line is not None:
            bad = evs[line - 1]
            if bad["ev"] == "race":
                r = races[0]
                ctx.violation("data race on shared font %s: %s at %s vs %s at %s\n%s" % (
                    font, r["kinds"][0], r["where"][0], r["kinds"][-1], r["where"][-1], r["report"][:1200]),
                    sig={"kind": "race", "ops": "+".join(sorted(set(r["ops"]))), "where": sorted(set(r["where"]))[0]}, case=c)
            else:
                _reproduce(ctx, st, font, bad, evs)
            return
    ctx.log("replay: the case is accepted by SharedFontTrace")
